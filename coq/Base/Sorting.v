(** Stable insertion sort by an integer key. *)
From Coq Require Import ZArith List Bool.
Import ListNotations.
Open Scope Z_scope.

Section Sort.
  Context {A : Type} (key : A -> Z).

  Fixpoint insert (x : A) (l : list A) : list A :=
    match l with
    | [] => [x]
    | y :: t => if key x <=? key y then x :: y :: t else y :: insert x t
    end.

  Definition isort (l : list A) : list A := fold_right insert [] l.

  Fixpoint sortedb (l : list A) : bool :=
    match l with
    | [] => true
    | x :: t => match t with [] => true | y :: _ => (key x <=? key y) && sortedb t end
    end.
End Sort.

(** Lexicographic key sort for pairs of integers (used to canonicalise multisets). *)
Fixpoint insert_pair (x : Z * Z) (l : list (Z * Z)) : list (Z * Z) :=
  match l with
  | [] => [x]
  | y :: t =>
      if (fst x <? fst y) || ((fst x =? fst y) && (snd x <=? snd y)) then x :: y :: t
      else y :: insert_pair x t
  end.
Definition sort_pairs (l : list (Z * Z)) : list (Z * Z) := fold_right insert_pair [] l.
