(** A tiny parser monad over [list Z]: every correspondence case is a list of integers
    (floats as bit patterns), decoded inside Coq so that the same definition runs under
    [vm_compute] and in the extracted driver. *)
From Coq Require Import ZArith List Bool.
Import ListNotations.
Open Scope Z_scope.

Definition P (A : Type) := list Z -> option (A * list Z).

Definition ret {A} (a : A) : P A := fun s => Some (a, s).
Definition bind {A B} (p : P A) (f : A -> P B) : P B :=
  fun s => match p s with Some (a, r) => f a r | None => None end.
Notation "x <- p ;; q" := (bind p (fun x => q)) (at level 61, p at next level, right associativity).

Definition pz : P Z := fun s => match s with x :: r => Some (x, r) | [] => None end.
Definition pnat : P nat := x <- pz ;; ret (Z.to_nat x).
Definition pbool : P bool := x <- pz ;; ret (negb (x =? 0)).

Fixpoint prep {A} (n : nat) (p : P A) : P (list A) :=
  match n with
  | O => ret []
  | S n' => x <- p ;; xs <- prep n' p ;; ret (x :: xs)
  end.

(** length-prefixed list *)
Definition plist {A} (p : P A) : P (list A) := n <- pnat ;; prep n p.
Definition pzs : P (list Z) := plist pz.
Definition ppair {A B} (p : P A) (q : P B) : P (A * B) := a <- p ;; b <- q ;; ret (a, b).

Definition run_parser {A} (p : P A) (s : list Z) : option A :=
  match p s with Some (a, []) => Some a | _ => None end.

(** Verdict codes shared by all checkers. *)
Definition v_ok : list Z := [0].
Definition v_diverge (detail : list Z) : list Z := 1 :: detail.   (* model <> impl, spec holds on impl *)
Definition v_violation (detail : list Z) : list Z := 2 :: detail. (* spec fails on impl observable *)
Definition v_known (finding : Z) : list Z := [3; finding].        (* listed finding reproduces *)
Definition v_parse : list Z := [9].

Fixpoint list_eqb (l1 l2 : list Z) : bool :=
  match l1, l2 with
  | [], [] => true
  | x :: t, y :: u => (x =? y) && list_eqb t u
  | _, _ => false
  end.

Definition pair_eqb (a b : Z * Z) : bool := (fst a =? fst b) && (snd a =? snd b).
Fixpoint plist_eqb (l1 l2 : list (Z * Z)) : bool :=
  match l1, l2 with
  | [], [] => true
  | x :: t, y :: u => pair_eqb x y && plist_eqb t u
  | _, _ => false
  end.

Definition flatten_pairs (l : list (Z * Z)) : list Z :=
  flat_map (fun p => [fst p; snd p]) l.
