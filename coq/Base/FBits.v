(** Floating-point numbers as bit patterns ([Z]) over [Coq.Floats.SpecFloat].

    A model float IS its IEEE-754 bit pattern; an operation decodes, applies the
    SpecFloat operation (pure [Z] arithmetic, axiom-free) and re-encodes.  All NaNs
    are canonicalised to the quiet NaN (the harness does the same on the Go side). *)
From Coq Require Import ZArith List Bool Lia.
From Coq Require Import Floats.SpecFloat.
Import ListNotations.
Open Scope Z_scope.

Section Fmt.
  Variables mw ew : Z.   (* mantissa width (23 / 52), exponent width (8 / 11) *)

  Definition fprec := mw + 1.
  Definition femax := 2 ^ (ew - 1).
  Definition femin := 3 - femax - fprec.
  Definition two_mw := 2 ^ mw.
  Definition exp_all := 2 ^ ew - 1.
  Definition sign_bit := 2 ^ (mw + ew).

  Definition of_bits (b : Z) : spec_float :=
    let s := sign_bit <=? b in
    let r := if s then b - sign_bit else b in
    let ex := r / two_mw in
    let mx := r mod two_mw in
    if ex =? 0 then
      match mx with
      | Zpos p => S754_finite s p femin
      | _ => S754_zero s
      end
    else if ex =? exp_all then
      (if mx =? 0 then S754_infinity s else S754_nan)
    else
      match mx + two_mw with
      | Zpos p => S754_finite s p (ex + femin - 1)
      | _ => S754_nan
      end.

  Definition nan_bits : Z := exp_all * two_mw + two_mw / 2.

  Definition to_bits (f : spec_float) : Z :=
    match f with
    | S754_zero s => if s then sign_bit else 0
    | S754_infinity s => (if s then sign_bit else 0) + exp_all * two_mw
    | S754_nan => nan_bits
    | S754_finite s m e =>
        let m := Zpos m in
        (if s then sign_bit else 0) +
        (if two_mw <=? m then (e - femin + 1) * two_mw + (m - two_mw) else m)
    end.

  Definition is_nan (b : Z) : bool :=
    let r := if sign_bit <=? b then b - sign_bit else b in
    exp_all * two_mw <? r.

  Definition is_inf (b : Z) : bool :=
    let r := if sign_bit <=? b then b - sign_bit else b in
    exp_all * two_mw =? r.

  Definition is_finite (b : Z) : bool :=
    let r := if sign_bit <=? b then b - sign_bit else b in
    r <? exp_all * two_mw.

  (** Order key: IEEE [<] on non-NaN values is [<] on keys; -0 and +0 share key 0. *)
  Definition key (b : Z) : Z :=
    if sign_bit <=? b then - (b - sign_bit) else b.

  Definition canon (b : Z) : Z := if is_nan b then nan_bits else b.

  Definition fadd a b := to_bits (SFadd fprec femax (of_bits a) (of_bits b)).
  Definition fsub a b := to_bits (SFsub fprec femax (of_bits a) (of_bits b)).
  Definition fmul a b := to_bits (SFmul fprec femax (of_bits a) (of_bits b)).
  Definition fdiv a b := to_bits (SFdiv fprec femax (of_bits a) (of_bits b)).
  Definition fsqrt a := to_bits (SFsqrt fprec femax (of_bits a)).
  Definition fopp a := to_bits (SFopp (of_bits a)).

  (** Go's [<], [>], [==] on floats (false on NaN). *)
  Definition fltb a b := negb (is_nan a) && negb (is_nan b) && (key a <? key b).
  Definition fgtb a b := fltb b a.
  Definition feqb a b := negb (is_nan a) && negb (is_nan b) && (key a =? key b).
  Definition fleb a b := negb (is_nan a) && negb (is_nan b) && (key a <=? key b).

  (** The same comparisons through SpecFloat (used to validate the key order). *)
  Definition fltb_sf a b := SFltb (of_bits a) (of_bits b).
  Definition feqb_sf a b := SFeqb (of_bits a) (of_bits b).

  (** Integer -> float (Go's [floatNN(int)]), round to nearest even. *)
  Definition of_Z (n : Z) : Z := to_bits (binary_normalize fprec femax n 0 false).

  (** Re-round an arbitrary spec_float (from a wider format) into this format. *)
  Definition round_sf (f : spec_float) : Z :=
    match f with
    | S754_finite s m e => to_bits (binary_normalize fprec femax (if s then Zneg m else Zpos m) e s)
    | _ => to_bits f
    end.
End Fmt.

(** binary32 *)
Module F32.
  Definition mw := 23. Definition ew := 8.
  Definition of_bits := of_bits mw ew.
  Definition to_bits := to_bits mw ew.
  Definition add := fadd mw ew. Definition sub := fsub mw ew.
  Definition mul := fmul mw ew. Definition div := fdiv mw ew.
  Definition sqrt := fsqrt mw ew. Definition opp := fopp mw ew.
  Definition ltb := fltb mw ew. Definition gtb := fgtb mw ew.
  Definition eqb := feqb mw ew. Definition leb := fleb mw ew.
  Definition key := key mw ew.
  Definition is_nan := is_nan mw ew. Definition is_inf := is_inf mw ew.
  Definition is_finite := is_finite mw ew.
  Definition canon := canon mw ew.
  Definition of_Z := of_Z mw ew.
  Definition round_sf := round_sf mw ew.
  Definition zero : Z := 0.
  Definition one : Z := 1065353216.        (* 0x3f800000 *)
  Definition neg_one : Z := 3212836864.    (* 0xbf800000 *)
  Definition two : Z := 1073741824.        (* 0x40000000 *)
  Definition nan : Z := nan_bits mw ew.
  Definition pinf : Z := 2139095040.
End F32.

(** binary64 *)
Module F64.
  Definition mw := 52. Definition ew := 11.
  Definition of_bits := of_bits mw ew.
  Definition to_bits := to_bits mw ew.
  Definition add := fadd mw ew. Definition sub := fsub mw ew.
  Definition mul := fmul mw ew. Definition div := fdiv mw ew.
  Definition sqrt := fsqrt mw ew. Definition opp := fopp mw ew.
  Definition ltb := fltb mw ew. Definition gtb := fgtb mw ew.
  Definition eqb := feqb mw ew. Definition leb := fleb mw ew.
  Definition key := key mw ew.
  Definition is_nan := is_nan mw ew. Definition is_inf := is_inf mw ew.
  Definition is_finite := is_finite mw ew.
  Definition canon := canon mw ew.
  Definition of_Z := of_Z mw ew.
  Definition round_sf := round_sf mw ew.
  Definition zero : Z := 0.
  Definition one : Z := 4607182418800017408.   (* 0x3ff0000000000000 *)
  Definition nan : Z := nan_bits mw ew.
End F64.

(** Conversions between the two formats. *)
Definition f32_to_f64 (a : Z) : Z := F64.round_sf (F32.of_bits a).
Definition f64_to_f32 (a : Z) : Z := F32.round_sf (F64.of_bits a).
