From Coq Require Import ZArith List.
From Coq Require Import extraction.Extraction extraction.ExtrOcamlBasic.
From Comet Require Import Check.Dispatch.
Extraction Language OCaml.
Extraction "model.ml" dispatch.
