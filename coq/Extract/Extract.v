(** Extraction of the checker entry point. Two builds:
    - fast:  ExtrOcamlBasic + ExtrOcamlZBigInt (zarith)          -> model_fast.ml
    - slow:  ExtrOcamlBasic only (Z stays the extracted datatype) -> see ExtractSlow.v *)
From Coq Require Import ZArith List.
From Coq Require Import extraction.Extraction extraction.ExtrOcamlBasic extraction.ExtrOcamlZBigInt.
From Comet Require Import Check.Dispatch.
Extraction Language OCaml.
Extraction "model.ml" dispatch.
