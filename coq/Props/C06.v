(** C06 — Writes are all-or-nothing, removals are total, and remove+add updates a document. *)
From Coq Require Import ZArith List Bool.
From Comet Require Import Base.FBits Model.Distance Model.VecIndex Model.BM25 Model.Metadata Model.Hybrid.
From Comet Require Import Proofs.HybridP Proofs.BM25P.
Import ListNotations.
Open Scope Z_scope.

(** a failing hybrid Add / AddWithID leaves every modality (the whole state) unchanged *)
Theorem C06_add_all_or_nothing : forall s id v toks fields s' e,
  hy_add s id v toks fields = (s', e) -> e <> 0 -> s' = s.
Proof. exact hy_add_atomic. Qed.
Print Assumptions C06_add_all_or_nothing.

(** Remove fails without any effect for an unknown or already removed id … *)
Theorem C06_remove_unknown_no_effect : forall s id,
  info_get id (hy_info s) = None -> hy_remove s id = (s, E_NOTFOUND).
Proof. exact hy_remove_unknown. Qed.
Print Assumptions C06_remove_unknown_no_effect.

(** … and a successful Remove forgets the document (so removing it again fails) *)
Theorem C06_remove_total : forall s id s', hy_remove s id = (s', 0) -> info_get id (hy_info s') = None.
Proof. exact hy_remove_total. Qed.
Print Assumptions C06_remove_total.

(** re-adding a removed id to any exhaustive vector index: the id is live again, no stale entry
    with that id survives, nothing else changes status *)
Theorem C06_vector_readd_is_update : forall p s id v s',
  vadd_op p s id v = (s', 0) ->
  memz id (st_deleted s') = false /\
  (forall x, x <> id -> memz x (st_deleted s') = memz x (st_deleted s)) /\
  exists e, e_id e = id /\ preprocess (p_metric p) v = Some (e_vec e) /\
    (forall x, In x (all_entries s') -> x = e \/ (In x (all_entries s) /\
                                                  (memz id (st_deleted s) = true -> e_id x <> id))).
Proof. exact vadd_is_update. Qed.
Print Assumptions C06_vector_readd_is_update.

(** the same for the text index: live again, only the new text resident *)
Theorem C06_text_readd_is_update : forall s id toks,
  memz id (b_deleted (badd s id toks)) = false /\
  (forall x, x <> id -> memz x (b_deleted (badd s id toks)) = memz x (b_deleted s)).
Proof. exact badd_is_update. Qed.
Print Assumptions C06_text_readd_is_update.

Theorem C06_text_readd_only_new_text : forall s id toks, binv s ->
  doc_tokens (badd s id toks) id = Some toks /\
  (forall old, In (id, old) (b_docs (badd s id toks)) -> old = toks).
Proof. exact badd_replaces. Qed.
Print Assumptions C06_text_readd_only_new_text.

(** a metadata Add with an unsupported value type changes nothing *)
Theorem C06_metadata_add_validates_first : forall s id fields,
  existsb (fun kv => match snd kv with MBad => true | _ => false end) fields = true ->
  madd s id fields = (s, false).
Proof. intros s id fields H. unfold madd. rewrite H. reflexivity. Qed.
Print Assumptions C06_metadata_add_validates_first.
