(** C17 — A storage directory is owned by at most one open store at a time. *)
From Coq Require Import ZArith List Bool.
From Comet Require Import Model.Lock Proofs.LockP.
Import ListNotations.
Open Scope Z_scope.

(** for EVERY interleaving of open attempts (O_EXCL create), directory scans (succeeding or failing),
    closes and uses, by any number of handles in any number of goroutines or processes: the LOCK file
    exists exactly while one handle owns the directory, and never two *)
Theorem C17_mutual_exclusion : forall es, linv (lrun es).
Proof. exact lock_mutual_exclusion. Qed.
Print Assumptions C17_mutual_exclusion.

Theorem C17_at_most_one_owner : forall es, (length (owners (lrun es)) <= 1)%nat.
Proof. exact at_most_one_owner. Qed.
Print Assumptions C17_at_most_one_owner.

Theorem C17_open_busy_no_effect : forall s h, get h s = Fresh -> lock s = true ->
  snd (lstep s (ETryLock h)) = 1 /\ lock (fst (lstep s (ETryLock h))) = true /\
  (forall h', h' <> h -> get h' (fst (lstep s (ETryLock h))) = get h' s).
Proof. exact open_busy_no_effect. Qed.
Print Assumptions C17_open_busy_no_effect.

Theorem C17_failed_open_leaves_no_lock : forall s h, get h s = Pending ->
  lock (fst (lstep s (EScan h false))) = false /\ snd (lstep s (EScan h false)) = 2.
Proof. exact failed_open_leaves_no_lock. Qed.
Print Assumptions C17_failed_open_leaves_no_lock.

Theorem C17_close_releases : forall s h, get h s = Closing -> lock (fst (lstep s (ERelease h))) = false.
Proof. exact close_releases. Qed.
Print Assumptions C17_close_releases.

Theorem C17_second_close_errors_no_effect : forall s h, (get h s = Closing \/ get h s = Closed) ->
  lstep s (ECloseFlag h) = (s, 3).
Proof. exact second_close_errors_no_effect. Qed.
Print Assumptions C17_second_close_errors_no_effect.

Theorem C17_use_after_close_fails : forall s h, (get h s = Closing \/ get h s = Closed) -> lstep s (EUse h) = (s, 3).
Proof. exact use_after_close_fails. Qed.
Print Assumptions C17_use_after_close_fails.

Theorem C17_reopen_after_close : forall s h h2, linv s -> get h s = Closing -> get h2 s = Fresh -> h2 <> h ->
  snd (lstep (fst (lstep s (ERelease h))) (ETryLock h2)) = 0.
Proof. exact reopen_after_close. Qed.
Print Assumptions C17_reopen_after_close.

Example C17_example :
  owners (lrun [ETryLock 1; ETryLock 2; EScan 1 true; ECloseFlag 1; ETryLock 3; ERelease 1; ETryLock 4; EScan 4 true]) = [4].
Proof. vm_compute. reflexivity. Qed.
