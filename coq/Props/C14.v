(** C14 — PQ and IVFPQ rank by exact asymmetric distance to each vector's quantised form. *)
From Coq Require Import ZArith List Bool Permutation Sorted.
From Comet Require Import Base.FBits Base.Sorting Model.Distance Model.Limiter Model.Aggregation Model.KMeans Model.VecIndex.
From Comet Require Import Proofs.SortingP Proofs.FlatP Proofs.VecP.
Import ListNotations.
Open Scope Z_scope.

(** the reported score of every hit is the asymmetric distance sqrt(sum_m table_m[code_m]) computed
    from the (residual) query's distance tables, and the answer is the exact top-k by that score *)
Theorem C14_score_is_asymmetric_distance : forall p s rq q o x,
  (p_kind p = KPQ \/ p_kind p = KIVFPQ) ->
  search_single p s rq q = Ok o -> In x (firstn (so_cut o) (so_full o)) ->
  exists pq li e, preprocess (p_metric p) q = Some pq /\ In e (all_entries s) /\
    memz (e_id e) (st_deleted s) = false /\
    x = (e_id e,
         adist (dist_tables p (st_codebooks s)
                  (match p_kind p with KIVFPQ => vsub pq (nthv (st_centroids s) li) | _ => pq end))
               (e_code e)).
Proof.
  intros p s rq q o x Hk H Hx.
  destruct (single_results_sound p s rq q o x H Hx) as [pq [Hp [li [e [_ [He [Hx' [Hd _]]]]]]]].
  exists pq, li, e. unfold kind_score in Hx'. destruct Hk as [Hk|Hk]; rewrite Hk in *; auto.
Qed.
Print Assumptions C14_score_is_asymmetric_distance.

Theorem C14_topk_exact : forall p s rq q o,
  search_single p s rq q = Ok o ->
  exists cands, so_cut o = want (r_k rq) (length cands) /\
    ExactTopK skey cands (so_cut o) (firstn (so_cut o) (so_full o)).
Proof. exact single_results_exact_topk. Qed.
Print Assumptions C14_topk_exact.

(** every stored code byte names, per subspace, the FIRST codeword at minimal squared distance from
    the (residual) subvector — as a uint8, i.e. modulo 256 (all code sizes the property quantifies
    over, nbits <= 8, keep the index itself) *)
From Comet Require Import Proofs.NearestP.
Theorem C14_code_is_first_nearest_codeword : forall p books v m book,
  In (m, book) (combine (map Z.of_nat (seq 0 (length books))) books) ->
  book <> [] ->
  let sv := subvec v (m * p_dsub p) (p_dsub p) in
  Forall nn (map (dist L2Sq sv) book) ->
  In ((nearest L2Sq sv book) mod 256) (pq_encode p books v) /\
  let ds := map (dist L2Sq sv) book in
  let r := Z.to_nat (nearest L2Sq sv book) in
  (r < length book)%nat /\
  (forall j, (j < length book)%nat -> F32.ltb (nth j ds 0) (nth r ds 0) = false) /\
  (forall j, (j < r)%nat -> F32.ltb (nth r ds 0) (nth j ds 0) = true).
Proof.
  intros p books v m book Hin Hne sv Hnn. split.
  - unfold pq_encode. apply in_map_iff. exists (m, book). split; [reflexivity|exact Hin].
  - apply nearest_first_argmin; assumption.
Qed.
Print Assumptions C14_code_is_first_nearest_codeword.
