(** C10 — A crash at any point leaves a directory that reopens to a consistent store. *)
From Coq Require Import ZArith List Bool.
From Comet Require Import Base.FBits Model.VecIndex Model.Hybrid Model.Store Proofs.StoreP.
Import ListNotations.
Open Scope Z_scope.

(** a segment whose hybrid component is missing, empty or truncated is ignored as a whole: the load
    fails and the shared index states are untouched *)
Theorem C10_broken_hybrid_ignored : forall t g fh fv ft fm,
  sg_files g = (fh, fv, ft, fm) -> fh <> FComplete ->
  (t_vec t <> None \/ t_txt t <> None \/ t_meta t <> None) ->
  load_segment t g = (t, false).
Proof. exact broken_hybrid_ignored. Qed.
Print Assumptions C10_broken_hybrid_ignored.

(** a missing or empty component file of a configured modality: same *)
Theorem C10_missing_component_ignored : forall t g fh fv ft fm,
  sg_files g = (fh, fv, ft, fm) ->
  (t_vec t <> None /\ (fv = FMissing \/ fv = FEmpty)) \/ (t_txt t <> None /\ (ft = FMissing \/ ft = FEmpty)) \/
  (t_meta t <> None /\ (fm = FMissing \/ fm = FEmpty)) ->
  load_segment t g = (t, false).
Proof. exact missing_component_ignored. Qed.
Print Assumptions C10_missing_component_ignored.

(** a segment whose load fails adds no result to a search and is not cached *)
Theorem C10_failed_load_contributes_nothing : forall rq t g rest acc weak done t1,
  sg_cached g = false -> load_segment t g = (t1, false) ->
  search_segments rq t (g :: rest) acc weak done =
  search_segments rq t1 rest acc weak
    (done ++ [{| sg_id := sg_id g; sg_info := sg_info g; sg_T := sg_T g; sg_files := sg_files g; sg_cached := false |}]).
Proof. exact failed_load_contributes_nothing. Qed.
Print Assumptions C10_failed_load_contributes_nothing.

(** partial: with a TRUNCATED (not empty) text or metadata stream the components read before it have
    already replaced the shared states when the load fails — a half-loaded segment; refuted clause *)
Theorem C10_truncated_later_component_half_loads_refuted :
  exists t g t1, load_segment t g = (t1, false) /\ t1 <> t.
Proof.
  exists (fresh_triple p1 true true false).
  exists {| sg_id := 1; sg_info := [];
            sg_T := {| t_p := p1; t_vec := Some (fst (vadd_op p1 (vinit p1) 7 [F32.of_Z 1])); t_txt := None; t_meta := None |};
            sg_files := (FComplete, FComplete, FBroken, FMissing); sg_cached := false |}.
  eexists. split; [vm_compute; reflexivity|]. intro H. discriminate H.
Qed.
Print Assumptions C10_truncated_later_component_half_loads_refuted.

(** segment identifiers are not reused after a crash: the reopen counter is the maximum id over ALL
    file names (checked against the code by the crash images whose hybrid file is missing) *)
Theorem C10_compact_ids_never_reused : forall s s', ids_ok (s_segs s) (s_counter s) -> st_compact s = (s', 0) ->
  s_counter s <= s_counter s' /\ ids_ok (s_segs s') (s_counter s') /\
  (forall g, In g (s_segs s') -> sg_id g <= s_counter s \/ sg_id g = s_counter s + 1).
Proof. exact compact_ids_never_reused. Qed.
Print Assumptions C10_compact_ids_never_reused.

(** after a crash the counter restarts at the largest identifier naming ANY file left in the directory
    — including a partial segment that is not registered — so that identifier is not reused *)
Theorem C10_partial_segment_id_not_reused : forall p hv ht hm limit cthr known listing,
  NoDup (map fst listing) ->
  let s := reopen_store p hv ht hm limit cthr known listing in
  ids_ok (s_segs s) (s_counter s) /\ (forall id, In id (map fst listing) -> id <= s_counter s).
Proof. exact reopen_ids_ok. Qed.
Print Assumptions C10_partial_segment_id_not_reused.

(** the write side of "ignored as a whole rather than loaded partially": a directory in which every
    segment's files are SAFE loads each segment all-or-nothing (a failed load has not touched the
    shared sub-index states), and a writer that finishes the hybrid_ file last leaves only safe
    directories at every crash point.  Every crash image is checked for [safe_files] on reopen. *)
Theorem C10_safe_files_load_all_or_nothing : forall t g,
  safe_files (match t_vec t with Some _ => true | None => false end)
             (match t_txt t with Some _ => true | None => false end)
             (match t_meta t with Some _ => true | None => false end) (sg_files g) = true ->
  snd (load_segment t g) = false -> fst (load_segment t g) = t.
Proof. exact safe_files_all_or_nothing. Qed.
Print Assumptions C10_safe_files_load_all_or_nothing.

Theorem C10_hybrid_file_last_is_safe : forall hv ht hm files,
  hybrid_last hv ht hm files = true -> safe_files hv ht hm files = true.
Proof. exact hybrid_last_safe. Qed.
Print Assumptions C10_hybrid_file_last_is_safe.

Example C10_safe_files_examples :
  safe_files true true false (FEmpty, FComplete, FBroken, FMissing) = true /\
  safe_files true true false (FTrailer, FComplete, FComplete, FMissing) = true /\
  safe_files true true false (FComplete, FComplete, FBroken, FMissing) = false /\
  hybrid_last true true false (FComplete, FComplete, FBroken, FMissing) = false.
Proof. repeat split. Qed.
