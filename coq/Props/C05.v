(** C05 — Hybrid search = metadata pre-filter, per-modality top-k, fusion, ranking. *)
From Coq Require Import ZArith List Bool Sorted Permutation.
From Comet Require Import Base.FBits Base.Sorting Model.Distance Model.Limiter Model.Aggregation Model.Fusion.
From Comet Require Import Model.VecIndex Model.BM25 Model.Metadata Model.Hybrid Proofs.SortingP Proofs.HybridP.
Import ListNotations.
Open Scope Z_scope.

(** at most k results, ordered by descending fused score *)
Theorem C05_at_most_k_best_first : forall s rq o, hy_search s rq = HOk o -> 0 <= hq_k rq ->
  Z.of_nat (ho_n o) <= hq_k rq /\ (ho_n o <= length (ho_full o))%nat /\
  StronglySorted (le_key (fun p => - F64.key (snd p))) (ho_full o).
Proof. exact hy_search_bounded. Qed.
Print Assumptions C05_at_most_k_best_first.

(** a filter that matches nothing yields the empty result *)
Theorem C05_empty_filter_match_is_empty : forall s rq ms,
  hq_filters rq <> [] -> hy_meta s = Some ms -> msearch ms (hq_filters rq) (hq_groups rq) = Some [] ->
  hy_search s rq = HOk {| ho_full := []; ho_n := O; ho_weak := false; ho_cands := Some []; ho_vecids := []; ho_txtids := []; ho_modal_known := true |}.
Proof.
  intros s rq ms Hf Hm Hs. unfold hy_search. destruct (hq_filters rq) as [|f fs]; [contradiction|].
  rewrite Hm, Hs. reflexivity.
Qed.
Print Assumptions C05_empty_filter_match_is_empty.

(** querying a modality that is not configured is an error *)
Theorem C05_unconfigured_metadata_is_error : forall s rq,
  hq_filters rq <> [] -> hy_meta s = None -> hy_search s rq = HErr E_NOTCONFIGURED.
Proof.
  intros s rq Hf Hm. unfold hy_search. destruct (hq_filters rq) as [|f fs]; [contradiction|]. rewrite Hm. reflexivity.
Qed.
Print Assumptions C05_unconfigured_metadata_is_error.

Theorem C05_unconfigured_vector_is_error : forall s rq,
  hq_filters rq = [] -> hq_groups rq = [] -> hq_vec rq <> [] -> hy_vec s = None ->
  hy_search s rq = HErr E_NOTCONFIGURED.
Proof.
  intros s rq Hf Hg Hv Hn. unfold hy_search. rewrite Hf, Hg, Hn. destruct (hq_vec rq); [contradiction|]. reflexivity.
Qed.
Print Assumptions C05_unconfigured_vector_is_error.
