(** C05 — Hybrid search = metadata pre-filter, per-modality top-k, fusion, ranking. *)
From Coq Require Import ZArith List Bool Sorted Permutation.
From Comet Require Import Base.FBits Base.Sorting Model.Distance Model.Limiter Model.Aggregation Model.Fusion.
From Comet Require Import Model.VecIndex Model.BM25 Model.Metadata Model.Hybrid Proofs.SortingP Proofs.HybridP.
Import ListNotations.
Open Scope Z_scope.

(** at most k results, ordered by descending fused score *)
Theorem C05_at_most_k_best_first : forall s rq o, hy_search s rq = HOk o -> 0 <= hq_k rq ->
  Z.of_nat (ho_n o) <= hq_k rq /\ (ho_n o <= length (ho_full o))%nat /\
  StronglySorted (le_key (fun p => - F64.key (snd p))) (ho_full o).
Proof. exact hy_search_bounded. Qed.
Print Assumptions C05_at_most_k_best_first.

(** a filter that matches nothing yields the empty result *)
Theorem C05_empty_filter_match_is_empty : forall s rq ms,
  hq_filters rq <> [] -> hy_meta s = Some ms -> msearch ms (hq_filters rq) (hq_groups rq) = Some [] ->
  hy_search s rq = HOk {| ho_full := []; ho_n := O; ho_weak := false; ho_cands := Some []; ho_vecids := []; ho_txtids := []; ho_modal_known := true |}.
Proof.
  intros s rq ms Hf Hm Hs. unfold hy_search. destruct (hq_filters rq) as [|f fs]; [contradiction|].
  rewrite Hm, Hs. reflexivity.
Qed.
Print Assumptions C05_empty_filter_match_is_empty.

(** querying a modality that is not configured is an error *)
Theorem C05_unconfigured_metadata_is_error : forall s rq,
  hq_filters rq <> [] -> hy_meta s = None -> hy_search s rq = HErr E_NOTCONFIGURED.
Proof.
  intros s rq Hf Hm. unfold hy_search. destruct (hq_filters rq) as [|f fs]; [contradiction|]. rewrite Hm. reflexivity.
Qed.
Print Assumptions C05_unconfigured_metadata_is_error.

Theorem C05_unconfigured_vector_is_error : forall s rq,
  hq_filters rq = [] -> hq_groups rq = [] -> hq_vec rq <> [] -> hy_vec s = None ->
  hy_search s rq = HErr E_NOTCONFIGURED.
Proof.
  intros s rq Hf Hg Hv Hn. unfold hy_search, hy_vpart, hy_vq. rewrite Hf, Hg, Hn. destruct (hq_vec rq); [contradiction|]. reflexivity.
Qed.
Print Assumptions C05_unconfigured_vector_is_error.

(** Either the filter matched nothing, or the answer is a best-first arrangement of the fusion of
    (a) the vector sub-index's own answer (at most k pairs) to the query restricted to the metadata
    candidates and (b) the text sub-index's answer likewise (the single modality's answer when only
    one is queried; score 1 for every candidate of a metadata-only query) — so every returned id
    matches the filter's candidate set through the sub-search it came from, and is among the k best
    vector matches or the k best text matches computed inside that set.  With a flat vector index
    (a) is the exact filtered top-k (C01); the fusion laws themselves are C19. *)
From Comet Require Import Proofs.HybridModalP.
Theorem C05_results_come_from_modalities : forall s rq o,
  hy_search s rq = HOk o ->
  (ho_cands o = Some [] /\ ho_full o = []) \/
  exists vl tl,
    is_vec_part s rq (hy_docids (ho_cands o)) vl /\ is_txt_part s rq (hy_docids (ho_cands o)) tl /\
    Permutation (hy_combined rq (hy_docids (ho_cands o)) vl tl) (ho_full o) /\
    (forall j, In j (map fst (ho_full o)) ->
       if hy_vq rq || hy_tq rq then In j (map fst vl) \/ In j (map fst tl)
       else In j (hy_docids (ho_cands o))).
Proof. exact hy_results_from_modalities. Qed.
Print Assumptions C05_results_come_from_modalities.
