(** C12 — HNSW never hides live vectors: non-empty, exact when small, robust to removals. *)
From Coq Require Import ZArith List Bool.
From Comet Require Import Base.FBits Model.Distance Model.Limiter Model.Aggregation Model.VecIndex Model.HNSW Proofs.HNSWP.
Import ListNotations.
Open Scope Z_scope.

(** an empty index answers with the empty list, without error *)
Theorem C12_empty_index_search : forall cfg rq ef q,
  Z.of_nat (length q) = hc_dim cfg ->
  hsearch_single cfg hinit rq ef q = Ok {| so_full := []; so_cut := O; so_tie := false; so_ptie := false |}.
Proof. exact hnsw_empty_search. Qed.
Print Assumptions C12_empty_index_search.

(** Remove is a soft delete: unknown / already removed ids are errors without effect *)
Theorem C12_remove_spec : forall s id,
  match hget s id with
  | None => hremove s id = (s, E_NOTFOUND)
  | Some _ => if deleted s id then hremove s id = (s, E_DELETED)
              else snd (hremove s id) = 0 /\ hs_nodes (fst (hremove s id)) = hs_nodes s /\
                   hs_deleted (fst (hremove s id)) = id :: hs_deleted s
  end.
Proof. exact hremove_spec. Qed.
Print Assumptions C12_remove_spec.

(** REFUTED (known finding): "every inserted vector remains reachable from the entry point through
    the bottom-layer graph" — M = 2, six level-0 insertions at 12, 3, 7, 25, 9, 9: vertex 4 has no
    incoming edge left after nearest-M pruning *)
Theorem C12_reachability_refuted :
  length (hs_nodes h12) = 6%nat /\ hs_deleted h12 = [] /\
  exists id, existsb (fun n => n_id n =? id) (hs_nodes h12) = true /\ memz id (reachable0 h12) = false.
Proof. exact hnsw_reachable_refuted. Qed.
Print Assumptions C12_reachability_refuted.

Example C12_unreachable_vertex_is_missed :
  let missing := map n_id (filter (fun n => negb (memz (n_id n) (reachable0 h12))) (hs_nodes h12)) in
  missing <> [] /\
  match hsearch_single cfg2 h12 {| r_queries := []; r_nodes := []; r_docids := []; r_k := 0; r_thr := 0;
                                   r_agg := AggSum; r_cutoff := -1; r_nprobes := 0 |} 100 [F32.of_Z 9] with
  | Ok o => forallb (fun id => negb (memz id (map fst (so_full o)))) missing = true
  | Err _ => False
  end.
Proof. exact h12_unreachable_vertex_is_missed. Qed.
