(** C12 — HNSW never hides live vectors: non-empty, exact when small, robust to removals. *)
From Coq Require Import ZArith List Bool.
From Comet Require Import Base.FBits Model.Distance Model.Limiter Model.Aggregation Model.VecIndex Model.HNSW Proofs.HNSWP.
Import ListNotations.
Open Scope Z_scope.

(** an empty index answers with the empty list, without error *)
Theorem C12_empty_index_search : forall cfg rq ef q,
  Z.of_nat (length q) = hc_dim cfg ->
  hsearch_single cfg hinit rq ef q = Ok {| so_full := []; so_cut := O; so_tie := false; so_ptie := false |}.
Proof. exact hnsw_empty_search. Qed.
Print Assumptions C12_empty_index_search.

(** Remove is a soft delete: unknown / already removed ids are errors without effect *)
Theorem C12_remove_spec : forall s id,
  match hget s id with
  | None => hremove s id = (s, E_NOTFOUND)
  | Some _ => if deleted s id then hremove s id = (s, E_DELETED)
              else snd (hremove s id) = 0 /\ hs_nodes (fst (hremove s id)) = hs_nodes s /\
                   hs_deleted (fst (hremove s id)) = id :: hs_deleted s
  end.
Proof. exact hremove_spec. Qed.
Print Assumptions C12_remove_spec.

(** REFUTED (known finding): "every inserted vector remains reachable from the entry point through
    the bottom-layer graph" — M = 2, six level-0 insertions at 12, 3, 7, 25, 9, 9: vertex 4 has no
    incoming edge left after nearest-M pruning *)
Theorem C12_reachability_refuted :
  length (hs_nodes h12) = 6%nat /\ hs_deleted h12 = [] /\
  exists id, existsb (fun n => n_id n =? id) (hs_nodes h12) = true /\ memz id (reachable0 h12) = false.
Proof. exact hnsw_reachable_refuted. Qed.
Print Assumptions C12_reachability_refuted.

(** REFUTED as well (known finding C12/2): exactness in the small regime after a purge.  Three live
    vertices (at most 2*M = 4), every one of them reachable from the entry point through the bottom layer,
    ef = 50, no k limit -- and the search returns two: the entry point keeps its outgoing edges but lost
    every incoming one when its neighbours were purged, and the search, having left it on the way down
    through the upper layers, cannot come back.  [h3] is the graph implementation and model are in after
    102 operations of corpus/C12_entry_point_without_incoming_edges.case.json. *)
Theorem C12_exactness_after_purge_refuted :
  length (hs_nodes h3) = 3%nat /\ hs_deleted h3 = [] /\
  forallb (fun n => memz (n_id n) (reachable0 h3)) (hs_nodes h3) = true /\
  match hsearch_single cfg8 h3 rq_all 50 q3 with
  | Ok o => map fst (so_full o) = [15; 12]
  | Err _ => False
  end.
Proof. exact hnsw_exactness_after_purge_refuted. Qed.
Print Assumptions C12_exactness_after_purge_refuted.

(** whatever the graph (any history, any levels, any removals): every reported pair is a vertex that is
    not soft-deleted, scored with its true distance to the preprocessed query, inside the id restriction
    and the threshold; the list is sorted by score and cut to at most k (C02's clause for HNSW) *)
From Comet Require Import Proofs.SortingP Proofs.HNSWSoundP.
Theorem C12_results_sound : forall cfg s rq ef q o x,
  hsearch_single cfg s rq ef q = Ok o -> In x (so_full o) ->
  exists pq, preprocess (hc_metric cfg) q = Some pq /\
    snd x = dist (hc_metric cfg) pq (hvec s (fst x)) /\ deleted s (fst x) = false /\
    (match r_docids rq with [] => True | ds => memz (fst x) ds = true end) /\ thr_ok rq (snd x) = true.
Proof. exact hnsw_results_sound. Qed.
Print Assumptions C12_results_sound.

Theorem C12_results_sorted_and_cut : forall cfg s rq ef q o,
  hsearch_single cfg s rq ef q = Ok o ->
  Sorted.StronglySorted (le_key (fun p : Z * Z => F32.key (snd p))) (so_full o) /\
  (so_cut o <= length (so_full o))%nat /\ (0 < r_k rq -> Z.of_nat (so_cut o) <= r_k rq).
Proof. exact hnsw_results_sorted_cut. Qed.
Print Assumptions C12_results_sorted_and_cut.

Example C12_unreachable_vertex_is_missed :
  let missing := map n_id (filter (fun n => negb (memz (n_id n) (reachable0 h12))) (hs_nodes h12)) in
  missing <> [] /\
  match hsearch_single cfg2 h12 {| r_queries := []; r_nodes := []; r_docids := []; r_k := 0; r_thr := 0;
                                   r_agg := AggSum; r_cutoff := -1; r_nprobes := 0 |} 100 [F32.of_Z 9] with
  | Ok o => forallb (fun id => negb (memz id (map fst (so_full o)))) missing = true
  | Err _ => False
  end.
Proof. exact h12_unreachable_vertex_is_missed. Qed.
