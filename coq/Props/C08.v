(** C08 — An acknowledged write to the persistent store stays visible to later searches.
    The faithful model of storage*.go does NOT have this property; the refutation is a theorem
    and the failing history is replayed on the implementation at every run (known finding). *)
From Coq Require Import ZArith List Bool.
From Comet Require Import Base.FBits Model.VecIndex Model.Hybrid Model.Store Proofs.StoreP.
Import ListNotations.
Open Scope Z_scope.

(** refuted: add 1; rotate; flush; add 2; search (both found — and segment 1 is deserialised INTO
    the shared templates); search again: the acknowledged, never removed document 2 is gone *)
Theorem C08_ack_visible_refuted :
  found (fst (st_flush (rotate (add1 (open_store p1 true false false 1000 5 [] 0) 1 10)))) (vq 0) = [1] /\
  found (add1 (fst (st_flush (rotate (add1 (open_store p1 true false false 1000 5 [] 0) 1 10)))) 2 20) (vq 0) = [2; 1] /\
  found h08 (vq 0) = [1].
Proof. exact ack_visible_refuted. Qed.
Print Assumptions C08_ack_visible_refuted.

(** what does hold: flushes and compactions only ever add segments with fresh identifiers *)
Theorem C08_flush_keeps_segments : forall s, ids_ok (s_segs s) (s_counter s) ->
  let s' := st_flush_internal s in
  s_counter s <= s_counter s' /\ ids_ok (s_segs s') (s_counter s') /\
  (forall g, In g (s_segs s') -> In g (s_segs s) \/ s_counter s < sg_id g).
Proof. exact flush_ids_never_reused. Qed.
Print Assumptions C08_flush_keeps_segments.
