(** C18 — Distance functions obey the metric laws the indexes rely on.

    Vectors are lists of float32 bit patterns; [wfv v] says every component is a 32-bit pattern
    (0 <= b < 2^32, NaNs and infinities included), [finv v] that every component is a finite
    number.  Statements are about the bit-exact model of distance.go (Model/Distance.v), which is
    compared with the code bit for bit on every run (checkers 1801-1806).

    NOT proved here (float-tolerance forms, evaluated on the implementation's outputs at every run
    by checkers 1802-1804 instead): the triangle inequality, cosine = 1 - cos(angle), scale invariance,
    "in-place preprocessing yields a unit vector".  "squared-Euclidean is its square" IS proved over the
    reals (C18_euclidean_squared_is_squared_euclidean, through Flocq). *)
From Coq Require Import ZArith List Bool.
From Coq Require Import Floats.SpecFloat.
From Comet Require Import Base.FBits Model.Distance.
From Comet Require Import Proofs.FloatBits Proofs.FloatOrder Proofs.DistanceP.
Import ListNotations.
Open Scope Z_scope.

(** batch evaluation equals element-wise evaluation (all metrics, all inputs) *)
Theorem C18_batch_is_elementwise : forall m qs t,
  dist_batch m qs t = map (fun q => dist m q t) qs.
Proof. reflexivity. Qed.
Print Assumptions C18_batch_is_elementwise.

(** Euclidean distance is the (float32) square root of the squared distance *)
Theorem C18_l2_is_sqrt_l2sq : forall a b, dist L2 a b = F32.sqrt (dist L2Sq a b).
Proof. reflexivity. Qed.
Print Assumptions C18_l2_is_sqrt_l2sq.

(** every distance kind is symmetric, bit for bit, on all inputs (NaN / infinity included) *)
Theorem C18_symmetric : forall m a b, wfv a -> wfv b -> dist m a b = dist m b a.
Proof. exact dist_sym. Qed.
Print Assumptions C18_symmetric.

(** Euclidean and squared-Euclidean distances are never below zero (Go's [d < 0] is false) ... *)
Theorem C18_euclidean_nonneg : forall a b, wfv a -> wfv b ->
  F32.ltb (dist L2 a b) F32.zero = false /\ F32.ltb (dist L2Sq a b) F32.zero = false.
Proof. intros a b Ha Hb. split; [apply l2_nonneg|apply l2sq_nonneg]; assumption. Qed.
Print Assumptions C18_euclidean_nonneg.

(** ... and on finite vectors they are numbers (possibly +Inf on overflow), never NaN *)
Theorem C18_euclidean_finite_inputs_not_nan : forall a b, finv a -> finv b ->
  F32.is_nan (dist L2 a b) = false /\ F32.is_nan (dist L2Sq a b) = false.
Proof.
  intros a b Ha Hb. split; [apply l2_finite_inputs_not_nan|apply l2sq_finite_inputs_not_nan]; assumption.
Qed.
Print Assumptions C18_euclidean_finite_inputs_not_nan.

(** a finite vector is at distance exactly +0 from itself *)
Theorem C18_self_distance_zero : forall v, finv v ->
  dist L2 v v = F32.zero /\ dist L2Sq v v = F32.zero.
Proof. intros v Hv. split; [apply l2_self|apply l2sq_self]; assumption. Qed.
Print Assumptions C18_self_distance_zero.

(** cosine distance lies in [0, 2] whenever the dot product is a number, for ANY inputs (unit or
    not); a NaN dot product (overflow on non-unit inputs) gives NaN, never an out-of-range number *)
Theorem C18_cosine_range : forall a b, wfv a -> wfv b ->
  (F32.is_nan (dot a b) = false ->
     F32.leb F32.zero (dist Cos a b) = true /\ F32.leb (dist Cos a b) F32.two = true) /\
  (F32.is_nan (dot a b) = true -> dist Cos a b = F32.nan).
Proof.
  intros a b Ha Hb. split; intros Hn; [apply cosine_range|apply cosine_nan]; assumption.
Qed.
Print Assumptions C18_cosine_range.

(** cosine preprocessing rejects every zero vector (any mix of +0 and -0), the other kinds never reject *)
Theorem C18_zero_vector_rejected : forall v, Forall is_zero32 v -> preprocess Cos v = None.
Proof. exact preprocess_rejects_zero_vector. Qed.
Print Assumptions C18_zero_vector_rejected.
Theorem C18_preprocess_identity_otherwise : forall m v, m <> Cos -> preprocess m v = Some v.
Proof. exact preprocess_identity_noncosine. Qed.
Print Assumptions C18_preprocess_identity_otherwise.

(** the comparisons every sort and threshold in the model uses ARE IEEE-754 comparisons of the
    decoded values, for all 2^32 x 2^32 pairs of patterns (NaNs, signed zeros, infinities) *)
Theorem C18_comparisons_are_ieee : forall a b, wf32 a -> wf32 b ->
  F32.ltb a b = SFltb (F32.of_bits a) (F32.of_bits b) /\
  F32.eqb a b = SFeqb (F32.of_bits a) (F32.of_bits b) /\
  F32.leb a b = SFleb (F32.of_bits a) (F32.of_bits b).
Proof. intros a b Ha Hb. split; [apply ltb32|split; [apply eqb32|apply leb32]]; assumption. Qed.
Print Assumptions C18_comparisons_are_ieee.

(** "squared-Euclidean is its square", over the reals, for EVERY pair of vectors whose squared
    distance is finite: the Euclidean distance is the correctly rounded root of the squared one, so its
    square is off by one rounding only, |l2^2 - l2sq| <= (2^-23 + 2^-48) l2sq (through Flocq: the
    standard library's real-number axioms appear under Print Assumptions) *)
From Coq Require Import Reals.
From Flocq Require Import Core.Core IEEE754.BinarySingleNaN.
From Comet Require Import Proofs.Int8P Proofs.SqrtP.
Theorem C18_euclidean_squared_is_squared_euclidean : forall a b,
  wfv a -> wfv b -> is_finite_SF (F32.of_bits (Distance.dist L2Sq a b)) = true ->
  (Rabs (R32 (Distance.dist L2 a b) * R32 (Distance.dist L2 a b) - R32 (Distance.dist L2Sq a b))
   <= (bpow radix2 (-23) + bpow radix2 (-48)) * R32 (Distance.dist L2Sq a b))%R.
Proof. exact l2_squared_is_l2sq. Qed.
Print Assumptions C18_euclidean_squared_is_squared_euclidean.

Example C18_euclidean_squared_hyps :
  wfv [F32.of_Z 3; F32.of_Z 0] /\ wfv [F32.of_Z 0; F32.of_Z 4] /\
  is_finite_SF (F32.of_bits (Distance.dist L2Sq [F32.of_Z 3; F32.of_Z 0] [F32.of_Z 0; F32.of_Z 4])) = true /\
  Distance.dist L2Sq [F32.of_Z 3; F32.of_Z 0] [F32.of_Z 0; F32.of_Z 4] = F32.of_Z 25.
Proof. exact l2_squared_example. Qed.

Example C18_example : Distance.dist L2 [F32.of_Z 3; F32.of_Z 0] [F32.of_Z 0; F32.of_Z 4] = F32.of_Z 5.
Proof. vm_compute. reflexivity. Qed.
(** the hypotheses are satisfiable by non-trivial vectors *)
Example C18_hyps : finv [F32.of_Z 3; F32.of_Z 0] /\ wfv [F32.nan; F32.pinf].
Proof.
  split; repeat constructor; try (apply wf32_range; vm_compute; split; [discriminate|reflexivity]).
Qed.
