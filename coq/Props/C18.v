(** C18 — Distance functions obey the metric laws the indexes rely on. *)
From Coq Require Import ZArith List Bool.
From Comet Require Import Base.FBits Model.Distance.
Import ListNotations.
Open Scope Z_scope.

(** batch evaluation equals element-wise evaluation (all metrics, all inputs) *)
Theorem C18_batch_is_elementwise : forall m qs t,
  dist_batch m qs t = map (fun q => dist m q t) qs.
Proof. reflexivity. Qed.
Print Assumptions C18_batch_is_elementwise.

(** Euclidean distance is the (float32) square root of the squared distance *)
Theorem C18_l2_is_sqrt_l2sq : forall a b, dist L2 a b = F32.sqrt (dist L2Sq a b).
Proof. reflexivity. Qed.
Print Assumptions C18_l2_is_sqrt_l2sq.

Example C18_example : dist L2 [F32.of_Z 3; F32.of_Z 0] [F32.of_Z 0; F32.of_Z 4] = F32.of_Z 5.
Proof. vm_compute. reflexivity. Qed.
