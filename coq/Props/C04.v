(** C04 — Metadata filters return exactly the documents that satisfy the predicate. *)
From Coq Require Import ZArith List Bool.
From Comet Require Import Base.FBits Base.Sorting Model.BSI Model.VecIndex Model.Metadata Proofs.MetaP Proofs.BSIP.
Import ListNotations.
Open Scope Z_scope.

(** roaring's bit-sliced comparison is right for GE and LE on ALL int64 pairs … *)
Theorem C04_bsi_ge_correct : forall v a, int64 v -> int64 a -> bsi_cmp GE v a 0 = (a <=? v).
Proof. exact bsi_ge_correct. Qed.
Print Assumptions C04_bsi_ge_correct.
Theorem C04_bsi_le_correct : forall v a, int64 v -> int64 a -> bsi_cmp LE v a 0 = (v <=? a).
Proof. exact bsi_le_correct. Qed.
Print Assumptions C04_bsi_le_correct.

(** … and wrong across signs for EQ / GT / LT / RANGE (the defect repaired in comet by the
    "fix: numeric metadata filters" commit, which uses GE and LE only) *)
Theorem C04_bsi_eq_refuted : exists v a, bsi_cmp EQ v a 0 <> spec_cmp EQ v a 0.
Proof. exact bsi_eq_refuted. Qed.
Theorem C04_bsi_gt_refuted : exists v a, bsi_cmp GT v a 0 <> spec_cmp GT v a 0.
Proof. exact bsi_gt_refuted. Qed.
Theorem C04_bsi_lt_refuted : exists v a, bsi_cmp LT v a 0 <> spec_cmp LT v a 0.
Proof. exact bsi_lt_refuted. Qed.
Theorem C04_bsi_range_refuted : exists v a b, bsi_cmp RANGE v a b <> spec_cmp RANGE v a b.
Proof. exact bsi_range_refuted. Qed.

(** every numeric operator of the (repaired) index selects exactly the ids whose stored value
    satisfies the ordinary integer comparison — for all int64 values and operands *)
Theorem C04_numeric_operators_exact : forall vs f r id,
  NoDup (map fst vs) -> Forall int64 (map snd vs) ->
  (forall x, f_num f = Some x -> int64 x) -> (forall x, f_num2 f = Some x -> int64 x) ->
  query_numeric vs f = Some r ->
  memz id r = match stored vs id with
              | None => false
              | Some v =>
                  match f_op f, f_num f, f_num2 f with
                  | OEq, Some x, _ => v =? x
                  | ONe, Some x, _ => negb (v =? x)
                  | OGt, Some x, _ => x <? v
                  | OGte, Some x, _ => x <=? v
                  | OLt, Some x, _ => v <? x
                  | OLte, Some x, _ => v <=? x
                  | ORange, Some a, Some b => (a <=? v) && (v <=? b)
                  | _, _, _ => false
                  end
              end.
Proof. exact (query_numeric_correct int64 bsi_ge_correct bsi_le_correct). Qed.
Print Assumptions C04_numeric_operators_exact.

(** the set algebra used by AND / OR / NOT-style operators is that of finite sets *)
Theorem C04_set_algebra : forall x a b,
  memz x (set_union a b) = memz x a || memz x b /\
  memz x (set_inter a b) = memz x a && memz x b /\
  memz x (set_diff a b) = memz x a && negb (memz x b).
Proof. intros. split; [apply memz_set_union | split; [apply memz_set_inter | apply memz_set_diff]]. Qed.
Print Assumptions C04_set_algebra.

(** THE REFINEMENT.  [hrun ops] replays any history of Add (of an id that is not live, with supported
    values) and Remove on the index and on a plain document store side by side.  After any such
    history every single filter selects exactly the documents of the store that satisfy it:
    numeric fields by ordinary integer comparison on the stored value, categorical fields by the
    presence of "field:value" in the document (eq / ne / in / not_in), with ne / not_in relative to the
    live documents.  (Exists / NotExists, conjunction, disjunction and groups are set algebra over
    these, see C04_set_algebra; the composed evaluation is compared with the specification on every
    run.) *)
From Comet Require Import Proofs.MetaRefineP.
Theorem C04_filter_refines_document_store : forall ops f r x,
  ops_int64 ops ->
  (forall z, f_num f = Some z -> int64 z) -> (forall z, f_num2 f = Some z -> int64 z) ->
  let '(s, docs) := hrun ops in
  match f_op f with OExists | ONotExists => False | _ => True end ->
  eval_filter s f = Some r ->
  memz x r =
  match num_find (f_field f) (m_num s) with
  | Some _ =>
      match doc_num docs (f_field f) x with
      | None => false
      | Some v =>
          match f_op f, f_num f, f_num2 f with
          | OEq, Some a, _ => v =? a
          | ONe, Some a, _ => negb (v =? a)
          | OGt, Some a, _ => a <? v
          | OGte, Some a, _ => a <=? v
          | OLt, Some a, _ => v <? a
          | OLte, Some a, _ => v <=? a
          | ORange, Some a, Some b => (a <=? v) && (v <=? b)
          | _, _, _ => false
          end
      end
  | None =>
      match f_op f, f_list f with
      | OEq, _ => doc_has_key docs (key_of (f_field f) (f_str f)) x
      | ONe, _ => live docs x && negb (doc_has_key docs (key_of (f_field f) (f_str f)) x)
      | OIn, Some vals => existsb (fun v => doc_has_key docs (key_of (f_field f) v) x) vals
      | ONotIn, Some vals => live docs x && negb (existsb (fun v => doc_has_key docs (key_of (f_field f) v) x) vals)
      | _, _ => false
      end
  end.
Proof. exact filter_refines_document_store. Qed.
Print Assumptions C04_filter_refines_document_store.

(** the index state after any history IS the document store: categorical keys, live set, numeric values *)
Theorem C04_index_state_is_document_store : forall ops,
  let '(s, docs) := hrun ops in
  (forall x, memz x (m_all s) = memz x (map fst docs)) /\
  (forall key x, memz x (cget key (m_cat s)) = match dfind x docs with Some fl => has_key key fl | None => false end) /\
  (forall field x, stored (nget field (m_num s)) x = match dfind x docs with Some fl => last_num field fl | None => None end).
Proof.
  intros ops. pose proof (inv_cat_run ops) as Hc. pose proof (inv_num_run ops) as Hn.
  destruct (hrun ops) as [s docs]. destruct Hc as [Ha Hk]. destruct Hn as [_ Hs]. auto.
Qed.
Print Assumptions C04_index_state_is_document_store.

Example C04_example :
  let s1 := fst (madd minit 1 [([110], MInt 5)]) in
  let s2 := fst (madd s1 2 [([110], MInt (-5))]) in
  msearch s2 [{| f_field := [110]; f_op := OEq; f_num := Some (-5); f_num2 := None; f_str := []; f_list := None |}] [] = Some [2]
  /\ msearch s2 [{| f_field := [110]; f_op := OGt; f_num := Some (-7); f_num2 := None; f_str := []; f_list := None |}] [] = Some [1; 2].
Proof. vm_compute. split; reflexivity. Qed.

(** Exists / NotExists on a categorical field (no document ever stored a number under it): exactly the
    live documents that carry / lack some value whose key starts with "field:" — and with colon-free
    field names (the property's quantifier) that prefix test singles out exactly the field *)
From Comet Require Import Proofs.MetaExistsP.
Theorem C04_exists_refines_document_store : forall ops field x,
  let '(s, docs) := hrun ops in
  num_find field (m_num s) = None ->
  memz x (existence s field) = doc_has_prefix docs (field ++ [colon]) x /\
  (forall r, eval_filter s {| f_field := field; f_op := ONotExists; f_num := None; f_num2 := None; f_str := []; f_list := None |} = Some r ->
             memz x r = live docs x && negb (doc_has_prefix docs (field ++ [colon]) x)).
Proof.
  intros ops field x. pose proof (existence_categorical ops field x) as He. pose proof (inv_cat_run ops) as Hc.
  destruct (hrun ops) as [s docs]. intros Hn. specialize (He Hn). split; [exact He|].
  intros r Hr. unfold eval_filter in Hr. cbn [f_op f_field] in Hr. inversion Hr; subst r.
  rewrite memz_set_diff, He. destruct Hc as [Ha _]. rewrite Ha. reflexivity.
Qed.
Print Assumptions C04_exists_refines_document_store.

Theorem C04_field_prefix_is_field_name : forall f g r, colon_free f -> colon_free g ->
  is_prefix (f ++ [colon]) (key_of g r) = str_eqb f g.
Proof. exact prefix_key_colon_free. Qed.
Print Assumptions C04_field_prefix_is_field_name.

(** the refinement's history runner on a non-trivial history (add, add, remove, re-add) *)
Example C04_refinement_history :
  let ops := [HAdd 1 [([110], MInt 5); ([99], MStr [97])]; HAdd 2 [([110], MInt (-5))]; HRemove 1; HAdd 1 [([110], MInt 7)]] in
  ops_int64 ops /\ map fst (snd (hrun ops)) = [2; 1] /\
  msearch (fst (hrun ops)) [{| f_field := [110]; f_op := OGt; f_num := Some 0; f_num2 := None; f_str := []; f_list := None |}] [] = Some [1].
Proof. cbv zeta. split; [apply ops_int64b_sound; vm_compute; reflexivity|split; vm_compute; reflexivity]. Qed.

(** THE END-TO-END REFINEMENT, closed: after ANY history the whole search — conjunction with early
    exit, filter groups (AND / OR; an empty group selects every live document; groups take precedence
    over plain filters), Exists / NotExists on numeric and categorical fields, final ordering —
    returns exactly the documents the plain document store selects ([search_sat]: a Boolean
    combination of [doc_sat], the per-document reading of one filter against the stored fields).
    [filters_ok]: every filter of the request has int64 operands and is not in error for the
    field's kind (an erroneous filter makes the search fail unless an early exit skips it). *)
From Comet Require Import Proofs.MetaComposeP.
Theorem C04_search_refines_document_store : forall ops filters groups r x,
  ops_int64 ops ->
  let '(s, docs) := hrun ops in
  filters_ok s filters -> Forall (fun g => filters_ok s (g_filters g)) groups ->
  msearch s filters groups = Some r ->
  memz x r = search_sat s docs filters groups x.
Proof. exact search_refines_document_store. Qed.
Print Assumptions C04_search_refines_document_store.

(** the evaluation loops alone, for EVERY index state (no history needed): the answer is the set
    algebra of the single filters' answers *)
Theorem C04_search_is_set_algebra : forall s x filters groups r,
  msearch s filters groups = Some r -> memz x r = search_sel s x filters groups.
Proof. exact msearch_is_set_algebra. Qed.
Print Assumptions C04_search_is_set_algebra.

(** the hypotheses are met by a request with a group and a NotExists over a real history *)
Example C04_search_refinement_example :
  let ops := [HAdd 1 [([110], MInt 5); ([99], MStr [97])]; HAdd 2 [([110], MInt (-5))]; HRemove 1; HAdd 1 [([110], MInt 7)]] in
  let fgt := {| f_field := [110]; f_op := OGt; f_num := Some 0; f_num2 := None; f_str := []; f_list := None |} in
  let fne := {| f_field := [99]; f_op := ONotExists; f_num := None; f_num2 := None; f_str := []; f_list := None |} in
  let g := {| g_and := false; g_filters := [fgt; fne] |} in
  let '(s, docs) := hrun ops in
  msearch s [] [g] = Some [1; 2] /\ search_sat s docs [] [g] 1 = true /\ search_sat s docs [] [g] 3 = false /\
  eval_filter s fgt <> None /\ eval_filter s fne <> None.
Proof. vm_compute. repeat split; discriminate. Qed.
