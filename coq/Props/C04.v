(** C04 — Metadata filters return exactly the documents that satisfy the predicate. *)
From Coq Require Import ZArith List Bool.
From Comet Require Import Base.FBits Base.Sorting Model.BSI Model.VecIndex Model.Metadata Proofs.MetaP Proofs.BSIP.
Import ListNotations.
Open Scope Z_scope.

(** roaring's bit-sliced comparison is right for GE and LE on ALL int64 pairs … *)
Theorem C04_bsi_ge_correct : forall v a, int64 v -> int64 a -> bsi_cmp GE v a 0 = (a <=? v).
Proof. exact bsi_ge_correct. Qed.
Print Assumptions C04_bsi_ge_correct.
Theorem C04_bsi_le_correct : forall v a, int64 v -> int64 a -> bsi_cmp LE v a 0 = (v <=? a).
Proof. exact bsi_le_correct. Qed.
Print Assumptions C04_bsi_le_correct.

(** … and wrong across signs for EQ / GT / LT / RANGE (the defect repaired in comet by the
    "fix: numeric metadata filters" commit, which uses GE and LE only) *)
Theorem C04_bsi_eq_refuted : exists v a, bsi_cmp EQ v a 0 <> spec_cmp EQ v a 0.
Proof. exact bsi_eq_refuted. Qed.
Theorem C04_bsi_gt_refuted : exists v a, bsi_cmp GT v a 0 <> spec_cmp GT v a 0.
Proof. exact bsi_gt_refuted. Qed.
Theorem C04_bsi_lt_refuted : exists v a, bsi_cmp LT v a 0 <> spec_cmp LT v a 0.
Proof. exact bsi_lt_refuted. Qed.
Theorem C04_bsi_range_refuted : exists v a b, bsi_cmp RANGE v a b <> spec_cmp RANGE v a b.
Proof. exact bsi_range_refuted. Qed.

(** every numeric operator of the (repaired) index selects exactly the ids whose stored value
    satisfies the ordinary integer comparison — for all int64 values and operands *)
Theorem C04_numeric_operators_exact : forall vs f r id,
  NoDup (map fst vs) -> Forall int64 (map snd vs) ->
  (forall x, f_num f = Some x -> int64 x) -> (forall x, f_num2 f = Some x -> int64 x) ->
  query_numeric vs f = Some r ->
  memz id r = match stored vs id with
              | None => false
              | Some v =>
                  match f_op f, f_num f, f_num2 f with
                  | OEq, Some x, _ => v =? x
                  | ONe, Some x, _ => negb (v =? x)
                  | OGt, Some x, _ => x <? v
                  | OGte, Some x, _ => x <=? v
                  | OLt, Some x, _ => v <? x
                  | OLte, Some x, _ => v <=? x
                  | ORange, Some a, Some b => (a <=? v) && (v <=? b)
                  | _, _, _ => false
                  end
              end.
Proof. exact (query_numeric_correct int64 bsi_ge_correct bsi_le_correct). Qed.
Print Assumptions C04_numeric_operators_exact.

(** the set algebra used by AND / OR / NOT-style operators is that of finite sets *)
Theorem C04_set_algebra : forall x a b,
  memz x (set_union a b) = memz x a || memz x b /\
  memz x (set_inter a b) = memz x a && memz x b /\
  memz x (set_diff a b) = memz x a && negb (memz x b).
Proof. intros. split; [apply memz_set_union | split; [apply memz_set_inter | apply memz_set_diff]]. Qed.
Print Assumptions C04_set_algebra.

Example C04_example :
  let s1 := fst (madd minit 1 [([110], MInt 5)]) in
  let s2 := fst (madd s1 2 [([110], MInt (-5))]) in
  msearch s2 [{| f_field := [110]; f_op := OEq; f_num := Some (-5); f_num2 := None; f_str := []; f_list := None |}] [] = Some [2]
  /\ msearch s2 [{| f_field := [110]; f_op := OGt; f_num := Some (-7); f_num2 := None; f_str := []; f_list := None |}] [] = Some [1; 2].
Proof. vm_compute. split; reflexivity. Qed.
