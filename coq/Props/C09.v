(** C09 — Data acknowledged by Flush or Close survives a restart. *)
From Coq Require Import ZArith List Bool.
From Comet Require Import Base.FBits Model.VecIndex Model.Hybrid Model.Store Proofs.StoreP.
Import ListNotations.
Open Scope Z_scope.

(** refuted on the faithful model: add 1; Close returns nil; reopen with fresh templates: not found
    (Flush / Close only flush FROZEN memtables; the active one is never written) *)
Theorem C09_durable_after_close_refuted :
  snd (st_close (add1 (open_store p1 true false false 1000 5 [] 0) 1 10)) = 0 /\ found h09 (vq 0) = [].
Proof. exact durable_after_close_refuted. Qed.
Print Assumptions C09_durable_after_close_refuted.

(** segment identifiers are never reused: a flush gives every new segment an id above the counter,
    keeps the old ones, and ids stay pairwise distinct … *)
Theorem C09_flush_ids_never_reused : forall s, ids_ok (s_segs s) (s_counter s) ->
  let s' := st_flush_internal s in
  s_counter s <= s_counter s' /\ ids_ok (s_segs s') (s_counter s') /\
  (forall g, In g (s_segs s') -> In g (s_segs s) \/ s_counter s < sg_id g).
Proof. exact flush_ids_never_reused. Qed.
Print Assumptions C09_flush_ids_never_reused.

(** … and so does a compaction (the merged segment gets counter + 1) *)
Theorem C09_compact_ids_never_reused : forall s s', ids_ok (s_segs s) (s_counter s) -> st_compact s = (s', 0) ->
  s_counter s <= s_counter s' /\ ids_ok (s_segs s') (s_counter s') /\
  (forall g, In g (s_segs s') -> sg_id g <= s_counter s \/ sg_id g = s_counter s + 1).
Proof. exact compact_ids_never_reused. Qed.
Print Assumptions C09_compact_ids_never_reused.

(** on reopen the counter restarts at the largest identifier that names ANY file of the directory
    (registered or not), and the registered segments carry pairwise distinct identifiers: with the two
    theorems above, no identifier present on disk — not even that of a partial segment — is reused *)
Theorem C09_reopen_counter_dominates_every_file : forall p hv ht hm limit cthr known listing,
  NoDup (map fst listing) ->
  let s := reopen_store p hv ht hm limit cthr known listing in
  ids_ok (s_segs s) (s_counter s) /\ (forall id, In id (map fst listing) -> id <= s_counter s).
Proof. exact reopen_ids_ok. Qed.
Print Assumptions C09_reopen_counter_dominates_every_file.

Example C09_reopen_counter :
  s_counter (reopen_store p1 true false false 1000 5 []
               [(3, (FComplete, FComplete, FMissing, FMissing)); (8, (FMissing, FEmpty, FMissing, FMissing))]) = 8.
Proof. reflexivity. Qed.
