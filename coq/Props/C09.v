(** C09 — Data acknowledged by Flush or Close survives a restart. *)
From Coq Require Import ZArith List Bool.
From Comet Require Import Base.FBits Model.VecIndex Model.Hybrid Model.Store Proofs.StoreP.
Import ListNotations.
Open Scope Z_scope.

(** refuted on the faithful model: add 1; Close returns nil; reopen with fresh templates: not found
    (Flush / Close only flush FROZEN memtables; the active one is never written) *)
Theorem C09_durable_after_close_refuted :
  snd (st_close (add1 (open_store p1 true false false 1000 5 [] 0) 1 10)) = 0 /\ found h09 (vq 0) = [].
Proof. exact durable_after_close_refuted. Qed.
Print Assumptions C09_durable_after_close_refuted.

(** segment identifiers are never reused: a flush gives every new segment an id above the counter,
    keeps the old ones, and ids stay pairwise distinct … *)
Theorem C09_flush_ids_never_reused : forall s, ids_ok (s_segs s) (s_counter s) ->
  let s' := st_flush_internal s in
  s_counter s <= s_counter s' /\ ids_ok (s_segs s') (s_counter s') /\
  (forall g, In g (s_segs s') -> In g (s_segs s) \/ s_counter s < sg_id g).
Proof. exact flush_ids_never_reused. Qed.
Print Assumptions C09_flush_ids_never_reused.

(** … and so does a compaction (the merged segment gets counter + 1) *)
Theorem C09_compact_ids_never_reused : forall s s', ids_ok (s_segs s) (s_counter s) -> st_compact s = (s', 0) ->
  s_counter s <= s_counter s' /\ ids_ok (s_segs s') (s_counter s') /\
  (forall g, In g (s_segs s') -> sg_id g <= s_counter s \/ sg_id g = s_counter s + 1).
Proof. exact compact_ids_never_reused. Qed.
Print Assumptions C09_compact_ids_never_reused.

(** on reopen the counter is the maximum identifier found in ANY file name, so identifiers of
    segments whose hybrid file is missing are not reused either (model: open_store takes that max) *)
Example C09_reopen_counter : s_counter (open_store p1 true false false 1000 5 [] 7) = 7.
Proof. reflexivity. Qed.
