(** C20 — Training and quantisation are deterministic, in-range and error-bounded. *)
From Coq Require Import ZArith List Bool.
From Comet Require Import Base.FBits Model.Distance Model.KMeans Model.Quantizer Proofs.KMeansP.
Import ListNotations.
Open Scope Z_scope.

(** k-means returns exactly min(k, n) centroids, one assignment per training vector, each naming a
    valid centroid — for every input, metric and iteration budget *)
Theorem C20_kmeans_count_and_range : forall vs k m it cents mapping conv,
  kmeans vs k m it = Some (cents, mapping, conv) ->
  Z.of_nat (length cents) = Z.min k (Z.of_nat (length vs)) /\
  length mapping = length vs /\
  Forall (fun a => 0 <= a < Z.of_nat (length cents)) mapping.
Proof. exact kmeans_count_and_range. Qed.
Print Assumptions C20_kmeans_count_and_range.

Theorem C20_kmeans_nil_iff : forall vs k m it, kmeans vs k m it = None <-> (vs = [] \/ k <= 0).
Proof. exact kmeans_none_iff. Qed.
Print Assumptions C20_kmeans_nil_iff.

(** every assignment index is a valid index into any non-empty centroid list (first arg-min) *)
Theorem C20_nearest_in_range : forall m v cs, 0 <= nearest m v cs < Z.max 1 (Z.of_nat (length cs)).
Proof. exact nearest_range. Qed.
Print Assumptions C20_nearest_in_range.

(** determinism: the model is a function, so identical input gives identical output; the model does
    not mention its input again, i.e. the input is unchanged (both are observed on the code, too) *)
Theorem C20_kmeans_deterministic : forall vs k m it a b, kmeans vs k m it = a -> kmeans vs k m it = b -> a = b.
Proof. intros; congruence. Qed.
Print Assumptions C20_kmeans_deterministic.

(** "assigns every training vector to a valid centroid (its nearest one whenever the run converged)":
    a converged run returns exactly the first-arg-min assignment with respect to the centroids it
    returns (validity of every index is C20_kmeans_count_and_range) *)
Theorem C20_converged_assignment_is_nearest : forall vs k m it cents mapping,
  kmeans vs k m it = Some (cents, mapping, true) -> mapping = map (fun v => nearest m v cents) vs.
Proof. exact kmeans_converged_is_nearest. Qed.
Print Assumptions C20_converged_assignment_is_nearest.

(** quantisers preserve length; float32 is exact; the int8 quantiser refuses to work untrained *)
Theorem C20_q16_length : forall v, length (q16 v) = length v /\ length (dq16 (q16 v)) = length v.
Proof. intro v. unfold q16, dq16. rewrite !map_length. auto. Qed.
Print Assumptions C20_q16_length.

Theorem C20_q8_untrained_errors : forall am v, F32.gtb am F32.zero = false -> q8 am v = None /\ dq8 am v = None.
Proof. intros am v H. unfold q8, dq8, q8_trained. rewrite H. auto. Qed.
Print Assumptions C20_q8_untrained_errors.

Theorem C20_q8_length : forall am v q, q8 am v = Some q -> length q = length v.
Proof. intros am v q H. unfold q8 in H. destruct (q8_trained am); inversion H. apply map_length. Qed.
Print Assumptions C20_q8_length.

(** the float16 clause, for EVERY float32 in the binary16 normal range (2^-14 <= |x| <= 65504):
    quantise + reconstruct stays within half-precision rounding, |deq(q x) - x| <= 2^-11 |x| over the
    reals, and the reconstruction IS the round-to-nearest-even binary16 value of x.  (Through Flocq: the
    standard library's real-number axioms appear under Print Assumptions.) *)
From Coq Require Import Reals.
From Flocq Require Import Core.Core.
From Comet Require Import Proofs.FloatBits Proofs.HalfP.
Theorem C20_half_precision_roundtrip : forall x,
  wfb 23 8 x ->
  (bpow radix2 (-14) <= Rabs (RV (F32.of_bits x)) <= 65504)%R ->
  RV (F32.of_bits (f16_to_f32 (f32_to_f16 x))) = round radix2 (SpecFloat.fexp 11 16) ZnearestE (RV (F32.of_bits x)) /\
  (Rabs (RV (F32.of_bits (f16_to_f32 (f32_to_f16 x))) - RV (F32.of_bits x)) <= bpow radix2 (-11) * Rabs (RV (F32.of_bits x)))%R.
Proof. exact half_roundtrip_error. Qed.
Print Assumptions C20_half_precision_roundtrip.

Theorem C20_half_precision_vectors : forall v,
  List.Forall in_half_range v -> List.Forall2 within_half_rounding v (dq16 (q16 v)).
Proof. exact half_vector_error. Qed.
Print Assumptions C20_half_precision_vectors.

(** the int8 clause, for EVERY finite float32 x in the trained range |x| <= absMax: the code is in
    [-127, 127] and quantise + reconstruct stays within half a quantisation step plus float32 rounding,
    |deq(q x) - x| <= absMax/254 + absMax * 2^-21 + 2^-149 over the reals (four correctly rounded float32
    operations, one rounding to an integer, one exact conversion; through Flocq as above) *)
From Comet Require Import Proofs.Int8P.
Theorem C20_int8_roundtrip : forall x a,
  fin32 x -> fin32 a -> (0 < R32 a)%R -> (Rabs (R32 x) <= R32 a)%R ->
  let q := wrap8 (round_half_away (F32.mul (F32.div x a) c127)) in
  let y := F32.mul (F32.div (F32.of_Z q) c127) a in
  -127 <= q <= 127 /\
  (Rabs (R32 y - R32 x) <= R32 a / 254 + R32 a * bpow radix2 (-21) + bpow radix2 (-149))%R.
Proof. exact int8_roundtrip_error. Qed.
Print Assumptions C20_int8_roundtrip.

Theorem C20_int8_vectors : forall am v q d,
  fin32 am -> (0 < R32 am)%R -> Forall (in_trained_range am) v ->
  q8 am v = Some q -> dq8 am q = Some d ->
  Forall (fun c => -127 <= c <= 127) q /\ Forall2 (within_int8_step am) v d.
Proof. exact int8_vector_error. Qed.
Print Assumptions C20_int8_vectors.

Example C20_int8_range_inhabited :
  fin32 1061158912 /\ fin32 F32.one /\ (0 < R32 F32.one)%R /\ (Rabs (R32 1061158912) <= R32 F32.one)%R /\
  wrap8 (round_half_away (F32.mul (F32.div 1061158912 F32.one) c127)) = 95.
Proof. exact int8_roundtrip_example. Qed.

Example C20_half_range_inhabited : in_half_range 1065353216 /\ in_half_range 947912704 /\ in_half_range 1199562752.
Proof. exact half_range_inhabited. Qed.

Example C20_example :
  (match kmeans [[F32.of_Z 0]; [F32.of_Z 1]; [F32.of_Z 10]; [F32.of_Z 11]] 2 L2 20 with
   | Some (c, m, conv) => c = [[F32.div (F32.of_Z 1) (F32.of_Z 2)]; [F32.div (F32.of_Z 21) (F32.of_Z 2)]] /\ m = [0; 0; 1; 1] /\ conv = true
   | None => False end) /\
  q8 (F32.of_Z 2) [F32.of_Z 1; F32.of_Z (-2)] = Some [64; -127].
Proof. vm_compute. repeat split. Qed.
