(** C15 — Approximate indexes stay inside their documented recall envelope.
    Only the deterministic clause is a theorem; the numeric floors are measured (see DESIGN.md). *)
From Coq Require Import ZArith List Bool.
From Comet Require Import Base.FBits Base.Sorting Model.Distance Model.Limiter Model.Aggregation Model.KMeans Model.VecIndex.
From Comet Require Import Proofs.SortingP Proofs.FlatP Proofs.VecP Proofs.IVFP.
Import ListNotations.
Open Scope Z_scope.

(** recall is exactly 1.0 when IVF probes all clusters: its answer has the score sequence and the
    length of exhaustive search over the same data (any data set, any seed, any metric) *)
Theorem C15_ivf_full_probe_recall_one : forall p s rq q o,
  p_kind p = KIVF -> ivf_wf p s ->
  (r_nprobes rq <= 0 \/ p_nlist p <= r_nprobes rq) ->
  search_single p s rq q = Ok o ->
  exists pq, preprocess (p_metric p) q = Some pq /\
    let E := scan_list s rq (fun e => dist (p_metric p) pq (e_vec e)) (all_entries s) in
    map skey (so_full o) = map skey (sort_cands E) /\ so_cut o = want (r_k rq) (length E).
Proof. exact ivf_full_probe_equals_exhaustive. Qed.
Print Assumptions C15_ivf_full_probe_recall_one.

(** sorting is insensitive to the order in which candidates are met: insertion order cannot change
    the score sequence an exhaustive kind returns *)
Theorem C15_order_independent_scores : forall (A : Type) (key : A -> Z) (l1 l2 : list A),
  Permutation.Permutation l1 l2 -> map key (isort key l1) = map key (isort key l2).
Proof. exact @isort_keys_perm. Qed.
Print Assumptions C15_order_independent_scores.
