(** C03 — BM25 search returns exactly the matching documents with textbook scores. *)
From Coq Require Import ZArith List Bool Permutation Sorted.
From Comet Require Import Base.FBits Base.Sorting Model.Limiter Model.Aggregation Model.VecIndex Model.BM25.
From Comet Require Import Proofs.SortingP Proofs.BM25P.
Import ListNotations.
Open Scope Z_scope.

(** for EVERY history of Add (fresh or replacing) / Remove / Flush the running statistics equal the
    from-scratch ones over the resident documents: N = number of documents, totalTokens = sum of
    lengths, avgdl = totalTokens / N, one entry per id *)
Theorem C03_statistics_invariant : forall ops, binv (brun_ops ops).
Proof. exact bm25_stats_invariant. Qed.
Print Assumptions C03_statistics_invariant.

(** after a flush the resident documents — hence N, df, tf and the average length — are exactly
    those of the live documents *)
Theorem C03_flush_keeps_exactly_live : forall s, binv s ->
  binv (bflush s) /\
  b_docs (bflush s) = filter (fun d => negb (memz (fst d) (b_deleted s))) (b_docs s) /\
  b_deleted (bflush s) = [].
Proof. exact bflush_live. Qed.
Print Assumptions C03_flush_keeps_exactly_live.

(** replacing a document's text leaves no trace of the old text *)
Theorem C03_replace_leaves_no_trace : forall s id toks, binv s ->
  doc_tokens (badd s id toks) id = Some toks /\
  (forall old, In (id, old) (b_docs (badd s id toks)) -> old = toks).
Proof. exact badd_replaces. Qed.
Print Assumptions C03_replace_leaves_no_trace.

(** a single query returns exactly the live, eligible documents sharing at least one token with it
    (each once), best-first, truncated to the k best — all when k <= 0 *)
Theorem C03_match_set_and_topk : forall s rq qtoks o, binv s ->
  bsearch_single s rq qtoks = Some o ->
  (qtoks = [] \/ b_num s = 0) /\ so_full o = [] /\ so_cut o = O
  \/
  exists m, bsearch_scores s rq qtoks = Some m /\
    NoDup (map fst m) /\
    (forall x, In x (map fst m) <-> (doc_eligible s rq x = true /\ exists t, In t qtoks /\ has_token s x t)) /\
    so_full o = map (fun p => (fst p, f64_to_f32 (snd p))) (isort dkey m) /\
    so_cut o = (if (q_k rq <=? 0) || (Z.of_nat (length m) <=? q_k rq) then length m else Z.to_nat (q_k rq)) /\
    ExactTopK dkey m (so_cut o) (firstn (so_cut o) (isort dkey m)).
Proof. exact bsearch_single_spec. Qed.
Print Assumptions C03_match_set_and_topk.

(** the per-term contribution is the Okapi BM25 term with k1 = 1.2, b = 0.75 in float64:
    idf * tf*(k1+1) / (tf + k1*(1 - b + b*dl/avgdl)),  idf = ln((N - df + 0.5)/(df + 0.5) + 1) *)
Theorem C03_term_score_formula : forall idf tf dl avg,
  term_score idf tf dl avg =
  F64.div (F64.mul idf (F64.mul (F64.of_Z tf) c_k1p1))
          (F64.add (F64.of_Z tf) (F64.mul c_k1 (F64.add c_1mb (F64.mul c_b (F64.div (F64.of_Z dl) avg))))).
Proof. reflexivity. Qed.
Print Assumptions C03_term_score_formula.

Example C03_constants :
  c_k1p1 = F64.div (F64.of_Z 22) (F64.of_Z 10) /\ c_k1 = F64.div (F64.of_Z 12) (F64.of_Z 10) /\
  c_b = F64.div (F64.of_Z 3) (F64.of_Z 4) /\ c_1mb = F64.div (F64.of_Z 1) (F64.of_Z 4) /\
  idf_arg 3 1 = F64.add (F64.div (F64.of_Z 5) (F64.of_Z 3) ) c_one.
Proof. vm_compute. repeat split. Qed.
