(** C02 — Every vector index returns only live, eligible, correctly scored, ordered hits.
    (flat, IVF, PQ, IVFPQ here; the HNSW statements are in Props/C12.v) *)
From Coq Require Import ZArith List Bool Permutation Sorted.
From Comet Require Import Base.FBits Base.Sorting Model.Distance Model.Limiter Model.Aggregation Model.KMeans Model.VecIndex.
From Comet Require Import Proofs.SortingP Proofs.FlatP Proofs.VecP.
Import ListNotations.
Open Scope Z_scope.

(** every returned pair is justified by a resident entry that is not removed, satisfies the id
    restriction and the threshold, and carries the score its kind defines ([kind_score]: the metric
    distance for flat / IVF, the asymmetric distance for PQ / IVFPQ) — for ANY state *)
Theorem C02_results_sound : forall p s rq q o x,
  search_single p s rq q = Ok o -> In x (firstn (so_cut o) (so_full o)) ->
  exists pq, preprocess (p_metric p) q = Some pq /\ justified p s rq pq x.
Proof. exact single_results_sound. Qed.
Print Assumptions C02_results_sound.

(** ascending order, right length, and exactness over the scanned candidates *)
Theorem C02_results_exact_topk_of_candidates : forall p s rq q o,
  search_single p s rq q = Ok o ->
  exists cands, so_cut o = want (r_k rq) (length cands) /\
    ExactTopK skey cands (so_cut o) (firstn (so_cut o) (so_full o)).
Proof. exact single_results_exact_topk. Qed.
Print Assumptions C02_results_exact_topk_of_candidates.

Theorem C02_at_most_k : forall p s rq q o,
  search_single p s rq q = Ok o -> 0 < r_k rq -> Z.of_nat (so_cut o) <= r_k rq.
Proof. exact single_results_bounded. Qed.
Print Assumptions C02_at_most_k.

(** searching from a stored node id = searching with that node's stored vector *)
Theorem C02_node_query_equiv : forall p s rq i v,
  r_queries rq = [] -> r_nodes rq = [i] -> lookup_node s i = Ok v ->
  execute p s rq =
  execute p s {| r_queries := [v]; r_nodes := []; r_docids := r_docids rq; r_k := r_k rq; r_thr := r_thr rq;
                 r_agg := r_agg rq; r_cutoff := r_cutoff rq; r_nprobes := r_nprobes rq |}.
Proof. exact node_query_equiv. Qed.
Print Assumptions C02_node_query_equiv.

Theorem C02_node_unknown_or_removed_is_error : forall s i,
  (resident s i = false \/ memz i (st_deleted s) = true) -> lookup_node s i = Err E_NOTFOUND.
Proof. exact node_unknown_or_removed_errors. Qed.
Print Assumptions C02_node_unknown_or_removed_is_error.

(** flushing soft-deleted vectors never changes a search result (flat, PQ, IVF, IVFPQ; any probes) *)
Theorem C02_flush_invisible : forall p s rq q pq,
  preprocess (p_metric p) q = Some pq ->
  match search_single p (vflush_op s) rq q, search_single p s rq q with
  | Ok o1, Ok o2 => firstn (so_cut o1) (so_full o1) = firstn (so_cut o2) (so_full o2)
  | Err e1, Err e2 => e1 = e2
  | _, _ => False
  end.
Proof. exact flush_invisible_single. Qed.
Print Assumptions C02_flush_invisible.

(** non-vacuity: an IVF index trained on 4 points, one removal, searched with 1 probe *)
Definition ex_p := {| p_kind := KIVF; p_dim := 1; p_metric := L2; p_nlist := 2; p_M := 1; p_nbits := 1 |}.
Definition f (z : Z) := [F32.of_Z z].
Definition ex_s :=
  let s0 := fst (vtrain_op ex_p (vinit ex_p) [f 0; f 1; f 10; f 11]) in
  let s1 := fst (vadd_op ex_p s0 1 (f 0)) in
  let s2 := fst (vadd_op ex_p s1 2 (f 2)) in
  let s3 := fst (vadd_op ex_p s2 3 (f 10)) in
  fst (vremove_op s3 1).
Definition ex_rq := {| r_queries := []; r_nodes := []; r_docids := []; r_k := 5; r_thr := 0;
                       r_agg := AggSum; r_cutoff := -1; r_nprobes := 1 |}.
Example C02_example :
  match search_single ex_p ex_s ex_rq (f 1) with
  | Ok o => firstn (so_cut o) (so_full o) = [(2, F32.of_Z 1)]
  | Err _ => False
  end.
Proof. vm_compute. reflexivity. Qed.
