(** C07 — Serialising and reloading any index preserves every search answer (format level). *)
From Coq Require Import ZArith List Bool.
From Comet Require Import Base.Parse Model.Format Model.Distance Model.VecIndex Model.Codecs Proofs.FormatP.
Import ListNotations.
Open Scope Z_scope.

(** reading back what was written returns the value and consumes exactly the index's own bytes *)
Theorem C07_roundtrip_exact_consumption : forall f v rest, wt f v -> decode f (encode f v ++ rest) = Some (v, rest).
Proof. exact decode_encode. Qed.
Print Assumptions C07_roundtrip_exact_consumption.

(** hence concatenated streams (hybrid ++ vector ++ text ++ metadata) decode one after the other *)
Theorem C07_concatenated_streams : forall f g v w r, wt f v -> wt g w ->
  decode f (encode f v ++ encode g w ++ r) = Some (v, encode g w ++ r) /\
  decode g (encode g w ++ r) = Some (w, r).
Proof. exact decode_concat. Qed.
Print Assumptions C07_concatenated_streams.

(** whatever a reader accepts is exactly the encoding of a well-typed value followed by the rest:
    the number of bytes read equals the length of the index's own stream *)
Theorem C07_read_consumes_an_encoding : forall f s v r,
  bytes_ok s -> decode f s = Some (v, r) -> s = encode f v ++ r /\ wt f v.
Proof. exact decode_sound. Qed.
Print Assumptions C07_read_consumes_an_encoding.
