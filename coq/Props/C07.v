(** C07 — Serialising and reloading any index preserves every search answer (format level). *)
From Coq Require Import ZArith List Bool.
From Comet Require Import Base.Parse Model.Format Model.Distance Model.VecIndex Model.Codecs Proofs.FormatP.
Import ListNotations.
Open Scope Z_scope.

(** reading back what was written returns the value and consumes exactly the index's own bytes *)
Theorem C07_roundtrip_exact_consumption : forall f v rest, wt f v -> decode f (encode f v ++ rest) = Some (v, rest).
Proof. exact decode_encode. Qed.
Print Assumptions C07_roundtrip_exact_consumption.

(** hence concatenated streams (hybrid ++ vector ++ text ++ metadata) decode one after the other *)
Theorem C07_concatenated_streams : forall f g v w r, wt f v -> wt g w ->
  decode f (encode f v ++ encode g w ++ r) = Some (v, encode g w ++ r) /\
  decode g (encode g w ++ r) = Some (w, r).
Proof. exact decode_concat. Qed.
Print Assumptions C07_concatenated_streams.

(** whatever a reader accepts is exactly the encoding of a well-typed value followed by the rest:
    the number of bytes read equals the length of the index's own stream *)
Theorem C07_read_consumes_an_encoding : forall f s v r,
  bytes_ok s -> decode f s = Some (v, r) -> s = encode f v ++ r /\ wt f v.
Proof. exact decode_sound. Qed.
Print Assumptions C07_read_consumes_an_encoding.

(** State level, for the kinds that persist raw vectors: what is written for a flushed flat / IVF state
    reads back — from a stream followed by anything — as the SAME model state, so the reloaded index
    answers every later query and accepts every later add / removal exactly like the source. *)
From Comet Require Import Proofs.CodecStateP.
Theorem C07_reload_is_identity_flat : forall p bm l rest,
  p_kind p = KFlat -> Forall raw_entry l ->
  let s := mk_state true [] [] [l] in
  wt (fmt_vec p) (to_val p bm s) ->
  exists v, decode (fmt_vec p) (encode (fmt_vec p) (to_val p bm s) ++ rest) = Some (v, rest) /\ of_val p v = Some s.
Proof.
  intros p bm l rest Hk Hl s Hwt. exists (to_val p bm s). split.
  - apply decode_encode. exact Hwt.
  - apply of_to_val_flat; assumption.
Qed.
Print Assumptions C07_reload_is_identity_flat.

Theorem C07_reload_is_identity_ivf : forall p bm tr cents lists rest,
  p_kind p = KIVF -> (tr = false -> cents = []) -> Forall (Forall raw_entry) lists ->
  let s := mk_state tr cents [] lists in
  wt (fmt_vec p) (to_val p bm s) ->
  exists v, decode (fmt_vec p) (encode (fmt_vec p) (to_val p bm s) ++ rest) = Some (v, rest) /\ of_val p v = Some s.
Proof.
  intros p bm tr cents lists rest Hk Hc Hl s Hwt. exists (to_val p bm s). split.
  - apply decode_encode. exact Hwt.
  - apply of_to_val_ivf; assumption.
Qed.
Print Assumptions C07_reload_is_identity_ivf.
