(** C07 — Serialising and reloading any index preserves every search answer (format level). *)
From Coq Require Import ZArith List Bool.
From Comet Require Import Base.Parse Model.Format Model.Distance Model.VecIndex Model.Codecs Proofs.FormatP.
Import ListNotations.
Open Scope Z_scope.

(** reading back what was written returns the value and consumes exactly the index's own bytes *)
Theorem C07_roundtrip_exact_consumption : forall f v rest, wt f v -> decode f (encode f v ++ rest) = Some (v, rest).
Proof. exact decode_encode. Qed.
Print Assumptions C07_roundtrip_exact_consumption.

(** hence concatenated streams (hybrid ++ vector ++ text ++ metadata) decode one after the other *)
Theorem C07_concatenated_streams : forall f g v w r, wt f v -> wt g w ->
  decode f (encode f v ++ encode g w ++ r) = Some (v, encode g w ++ r) /\
  decode g (encode g w ++ r) = Some (w, r).
Proof. exact decode_concat. Qed.
Print Assumptions C07_concatenated_streams.

(** whatever a reader accepts is exactly the encoding of a well-typed value followed by the rest:
    the number of bytes read equals the length of the index's own stream *)
Theorem C07_read_consumes_an_encoding : forall f s v r,
  bytes_ok s -> decode f s = Some (v, r) -> s = encode f v ++ r /\ wt f v.
Proof. exact decode_sound. Qed.
Print Assumptions C07_read_consumes_an_encoding.

(** State level, for the kinds that persist raw vectors: what is written for a flushed flat / IVF state
    reads back — from a stream followed by anything — as the SAME model state, so the reloaded index
    answers every later query and accepts every later add / removal exactly like the source. *)
From Comet Require Import Proofs.CodecStateP.
Theorem C07_reload_is_identity_flat : forall p bm l rest,
  p_kind p = KFlat -> Forall raw_entry l ->
  let s := mk_state true [] [] [l] in
  wt (fmt_vec p) (to_val p bm s) ->
  exists v, decode (fmt_vec p) (encode (fmt_vec p) (to_val p bm s) ++ rest) = Some (v, rest) /\ of_val p v = Some s.
Proof.
  intros p bm l rest Hk Hl s Hwt. exists (to_val p bm s). split.
  - apply decode_encode. exact Hwt.
  - apply of_to_val_flat; assumption.
Qed.
Print Assumptions C07_reload_is_identity_flat.

Theorem C07_reload_is_identity_ivf : forall p bm tr cents lists rest,
  p_kind p = KIVF -> (tr = false -> cents = []) -> Forall (Forall raw_entry) lists ->
  let s := mk_state tr cents [] lists in
  wt (fmt_vec p) (to_val p bm s) ->
  exists v, decode (fmt_vec p) (encode (fmt_vec p) (to_val p bm s) ++ rest) = Some (v, rest) /\ of_val p v = Some s.
Proof.
  intros p bm tr cents lists rest Hk Hc Hl s Hwt. exists (to_val p bm s). split.
  - apply decode_encode. exact Hwt.
  - apply of_to_val_ivf; assumption.
Qed.
Print Assumptions C07_reload_is_identity_ivf.

(** PQ / IVFPQ by design do not persist raw vectors: a flushed state reads back as the same state
    WITHOUT them ([strip]), and no search of these kinds ever reads them — so every query over vectors
    (node-id queries excluded, as in the property) is answered identically after a reload. *)
Theorem C07_reload_pq : forall p bm tr books l rest,
  p_kind p = KPQ -> 0 < p_dsub p -> books_wf (p_dsub p) books -> (tr = false -> books = []) ->
  let s := mk_state tr [] books [l] in
  wt (fmt_vec p) (to_val p bm s) ->
  exists v, decode (fmt_vec p) (encode (fmt_vec p) (to_val p bm s) ++ rest) = Some (v, rest) /\
            of_val p v = Some (strip s) /\
            forall rq q, search_single p (strip s) rq q = search_single p s rq q.
Proof.
  intros p bm tr books l rest Hk Hd Hw Hb s Hwt. exists (to_val p bm s). split; [apply decode_encode; exact Hwt|].
  split; [apply of_to_val_pq; assumption|]. intros rq q. apply search_ignores_raw_vectors. now left.
Qed.
Print Assumptions C07_reload_pq.

Theorem C07_reload_ivfpq : forall p bm tr cents books lists rest,
  p_kind p = KIVFPQ -> 0 < p_dsub p -> books_wf (p_dsub p) books -> (tr = false -> cents = [] /\ books = []) ->
  let s := mk_state tr cents books lists in
  wt (fmt_vec p) (to_val p bm s) ->
  exists v, decode (fmt_vec p) (encode (fmt_vec p) (to_val p bm s) ++ rest) = Some (v, rest) /\
            of_val p v = Some (strip s) /\
            forall rq q, search_single p (strip s) rq q = search_single p s rq q.
Proof.
  intros p bm tr cents books lists rest Hk Hd Hw Hb s Hwt. exists (to_val p bm s). split; [apply decode_encode; exact Hwt|].
  split; [apply of_to_val_ivfpq; assumption|]. intros rq q. apply search_ignores_raw_vectors. now right.
Qed.
Print Assumptions C07_reload_ivfpq.

(** the hypotheses are met by concrete, non-trivial states (well-typedness decided by computation) *)
From Comet Require Import Proofs.WtbP.
Definition c07_pflat : params := {| p_kind := KFlat; p_dim := 2; p_metric := L2; p_nlist := 1; p_M := 1; p_nbits := 1 |}.
Definition c07_lflat : list entry :=
  [{| e_id := 7; e_vec := [1065353216; 0]; e_code := [] |}; {| e_id := 9; e_vec := [0; 1073741824]; e_code := [] |}].
Example C07_hyps_flat :
  Forall raw_entry c07_lflat /\
  wt (fmt_vec c07_pflat) (to_val c07_pflat [58; 48; 0; 0] (mk_state true [] [] [c07_lflat])).
Proof. split; [repeat constructor|]. apply wtb_sound. vm_compute. reflexivity. Qed.

Definition c07_ppq : params := {| p_kind := KPQ; p_dim := 2; p_metric := L2; p_nlist := 1; p_M := 2; p_nbits := 1 |}.
Example C07_hyps_pq :
  let books := [[[0]; [1065353216]]; [[0]; [1073741824]]] in
  let l := [{| e_id := 3; e_vec := [1065353216; 0]; e_code := [1; 0] |}] in
  0 < p_dsub c07_ppq /\ books_wf (p_dsub c07_ppq) books /\
  wt (fmt_vec c07_ppq) (to_val c07_ppq [58; 48; 0; 0] (mk_state true [] books [l])).
Proof.
  cbv zeta. split; [reflexivity|]. split; [repeat constructor|]. apply wtb_sound. vm_compute. reflexivity.
Qed.
