(** C13 — IVF is exact at full probe; fewer probes search the nearest clusters exactly. *)
From Coq Require Import ZArith List Bool Permutation Sorted.
From Comet Require Import Base.FBits Base.Sorting Model.Distance Model.Limiter Model.Aggregation Model.KMeans Model.VecIndex.
From Comet Require Import Proofs.SortingP Proofs.FlatP Proofs.VecP.
Import ListNotations.
Open Scope Z_scope.

(** adding or searching before training is an error *)
Theorem C13_untrained_add_errors : forall p s id v,
  st_trained s = false -> vadd_op p s id v = (s, E_UNTRAINED).
Proof. intros p s id v H. unfold vadd_op. rewrite H. reflexivity. Qed.
Print Assumptions C13_untrained_add_errors.

Theorem C13_untrained_search_errors : forall p s rq q,
  st_trained s = false -> search_single p s rq q = Err E_UNTRAINED.
Proof. intros p s rq q H. unfold search_single. rewrite H. reflexivity. Qed.
Print Assumptions C13_untrained_search_errors.

(** with any number of probes: exact top-k, by true metric distance, of the live eligible vectors
    stored in the probed clusters *)
Theorem C13_probe_exact : forall p s rq q o,
  p_kind p = KIVF -> search_single p s rq q = Ok o ->
  (exists cands, so_cut o = want (r_k rq) (length cands) /\
     ExactTopK skey cands (so_cut o) (firstn (so_cut o) (so_full o))) /\
  (forall x, In x (firstn (so_cut o) (so_full o)) ->
     exists pq li e, preprocess (p_metric p) q = Some pq /\
       In e (nth (Z.to_nat li) (st_lists s) []) /\
       x = (e_id e, dist (p_metric p) pq (e_vec e)) /\ memz (e_id e) (st_deleted s) = false).
Proof.
  intros p s rq q o Hk H. split; [eapply single_results_exact_topk; exact H|].
  intros x Hx. destruct (single_results_sound p s rq q o x H Hx) as [pq [Hp [li [e [Hl [_ [Hx' [Hd _]]]]]]]].
  exists pq, li, e. unfold kind_score in Hx'. rewrite Hk in Hx'. auto.
Qed.
Print Assumptions C13_probe_exact.

(** With the number of probes equal to (or above, or <= 0 meaning) the number of clusters, an IVF
    search scans a permutation of the candidates of exhaustive search over the same vectors, and so
    returns exactly its score sequence and result count — for every trained state, query, k,
    threshold and id restriction *)
From Comet Require Import Proofs.IVFP.
Theorem C13_full_probe_equals_exhaustive : forall p s rq q o,
  p_kind p = KIVF -> ivf_wf p s ->
  (r_nprobes rq <= 0 \/ p_nlist p <= r_nprobes rq) ->
  search_single p s rq q = Ok o ->
  exists pq, preprocess (p_metric p) q = Some pq /\
    let E := scan_list s rq (fun e => dist (p_metric p) pq (e_vec e)) (all_entries s) in
    map skey (so_full o) = map skey (sort_cands E) /\ so_cut o = want (r_k rq) (length E).
Proof. exact ivf_full_probe_equals_exhaustive. Qed.
Print Assumptions C13_full_probe_equals_exhaustive.

(** the state invariant used above is established by Train and kept by Add / Remove / Flush *)
Theorem C13_wf_after_train : forall p s vs s',
  p_kind p = KIVF -> 0 < p_nlist p -> length (st_lists s) = Z.to_nat (p_nlist p) ->
  vtrain_op p s vs = (s', 0) -> ivf_wf p s'.
Proof. exact ivf_wf_train. Qed.
Print Assumptions C13_wf_after_train.

Theorem C13_wf_preserved : forall p s, ivf_wf p s ->
  (forall id v, ivf_wf p (fst (vadd_op p s id v))) /\ (forall id, ivf_wf p (fst (vremove_op s id))) /\ ivf_wf p (vflush_op s).
Proof. exact ivf_wf_preserved. Qed.
Print Assumptions C13_wf_preserved.

(** rank by rank, the scores for more probes are never worse than for fewer (same state, query, k,
    threshold and id restriction), and the answer never gets shorter *)
From Comet Require Import Proofs.IVFMonoP.
Theorem C13_more_probes_never_worse : forall p s rq rq' q o o',
  p_kind p = KIVF ->
  r_docids rq' = r_docids rq -> r_thr rq' = r_thr rq -> r_k rq' = r_k rq ->
  eff_probes p rq <= eff_probes p rq' ->
  search_single p s rq q = Ok o -> search_single p s rq' q = Ok o' ->
  (forall i, (i < length (so_full o))%nat ->
     skey (nth i (so_full o') (0, 0)) <= skey (nth i (so_full o) (0, 0))) /\
  (length (so_full o) <= length (so_full o'))%nat /\ (so_cut o <= so_cut o')%nat.
Proof. exact ivf_probe_monotone. Qed.
Print Assumptions C13_more_probes_never_worse.

(** every added vector goes into exactly one cluster — the list of the FIRST centroid at minimal
    distance from the (preprocessed) vector: none is strictly nearer, every earlier one is strictly farther *)
From Comet Require Import Proofs.NearestP.
Theorem C13_add_goes_to_one_list : forall p s id v s',
  p_kind p = KIVF -> memz id (st_deleted s) = false -> vadd_op p s id v = (s', E_OK) ->
  exists w, preprocess (p_metric p) v = Some w /\
    st_lists s' = app_nth (Z.to_nat (nearest (p_metric p) w (st_centroids s)))
                          {| e_id := id; e_vec := w; e_code := [] |} (st_lists s).
Proof.
  intros p s id v s' Hk Hd H. unfold vadd_op in H. rewrite Hk, Hd in H.
  destruct (negb (st_trained s)); [inversion H|].
  destruct (negb (Z.of_nat (length v) =? p_dim p)); [inversion H|].
  destruct (preprocess (p_metric p) v) as [w|]; [|inversion H].
  inversion H; subst s'. exists w. split; reflexivity.
Qed.
Print Assumptions C13_add_goes_to_one_list.

Theorem C13_nearest_is_first_argmin : forall m v cs,
  cs <> [] -> Forall nn (map (dist m v) cs) ->
  let ds := map (dist m v) cs in
  let r := Z.to_nat (nearest m v cs) in
  (r < length cs)%nat /\
  (forall j, (j < length cs)%nat -> F32.ltb (nth j ds 0) (nth r ds 0) = false) /\
  (forall j, (j < r)%nat -> F32.ltb (nth r ds 0) (nth j ds 0) = true).
Proof. exact nearest_first_argmin. Qed.
Print Assumptions C13_nearest_is_first_argmin.

(** a vector added to a trained IVF index is found by a query with that very vector -- whatever the
    partition, however few cells (>= 1) are probed, whatever k-independent options the query carries:
    Add files it under the first nearest centroid and the probe order starts at that same centroid *)
From Comet Require Import Proofs.IVFSelfP.
Theorem C13_added_vector_found_by_own_query : forall p s id v w rq s',
  p_kind p = KIVF -> 1 <= p_nlist p ->
  st_centroids s <> [] -> length (st_lists s) = length (st_centroids s) ->
  preprocess (p_metric p) v = Some w ->
  Forall nn (map (dist (p_metric p) w) (st_centroids s)) ->
  memz id (st_deleted s) = false ->
  vadd_op p s id v = (s', E_OK) ->
  eligible_id s' rq id = true ->
  thr_ok rq (dist (p_metric p) w w) = true ->
  exists o, search_single p s' rq v = Ok o /\ In id (map fst (so_full o)).
Proof. exact ivf_added_vector_found_by_own_query. Qed.
Print Assumptions C13_added_vector_found_by_own_query.

(** the premises are satisfiable: two cells (centroids 0 and 10), the vector 9 goes to the second
    cell and a one-probe query with 9 finds it *)
Example C13_own_query_example :
  let p := {| p_kind := KIVF; p_dim := 1; p_metric := L2; p_nlist := 2; p_M := 1; p_nbits := 1 |} in
  let s := {| st_trained := true; st_centroids := [[0]; [1092616192]]; st_codebooks := [];
              st_lists := [[]; []]; st_deleted := [] |} in
  let rq := {| r_queries := []; r_nodes := []; r_docids := []; r_k := 1; r_thr := 0; r_agg := agg_of_Z 0;
               r_cutoff := -1; r_nprobes := 1 |} in
  let v := [1091567616] in
  preprocess (p_metric p) v = Some v /\
  Forall nn (map (dist (p_metric p) v) (st_centroids s)) /\
  snd (vadd_op p s 7 v) = E_OK /\
  st_lists (fst (vadd_op p s 7 v)) = [[]; [{| e_id := 7; e_vec := v; e_code := [] |}]] /\
  eligible_id (fst (vadd_op p s 7 v)) rq 7 = true /\
  thr_ok rq (dist (p_metric p) v v) = true /\
  match search_single p (fst (vadd_op p s 7 v)) rq v with Ok o => map fst (so_full o) = [7] | Err _ => False end.
Proof.
  cbv zeta.
  split; [vm_compute; reflexivity|]. split; [repeat constructor|].
  split; [vm_compute; reflexivity|]. split; [vm_compute; reflexivity|].
  split; [vm_compute; reflexivity|]. split; [vm_compute; reflexivity|].
  vm_compute. reflexivity.
Qed.
