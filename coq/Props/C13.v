(** C13 — IVF is exact at full probe; fewer probes search the nearest clusters exactly. *)
From Coq Require Import ZArith List Bool Permutation Sorted.
From Comet Require Import Base.FBits Base.Sorting Model.Distance Model.Limiter Model.Aggregation Model.KMeans Model.VecIndex.
From Comet Require Import Proofs.SortingP Proofs.FlatP Proofs.VecP.
Import ListNotations.
Open Scope Z_scope.

(** adding or searching before training is an error *)
Theorem C13_untrained_add_errors : forall p s id v,
  st_trained s = false -> vadd_op p s id v = (s, E_UNTRAINED).
Proof. intros p s id v H. unfold vadd_op. rewrite H. reflexivity. Qed.
Print Assumptions C13_untrained_add_errors.

Theorem C13_untrained_search_errors : forall p s rq q,
  st_trained s = false -> search_single p s rq q = Err E_UNTRAINED.
Proof. intros p s rq q H. unfold search_single. rewrite H. reflexivity. Qed.
Print Assumptions C13_untrained_search_errors.

(** with any number of probes: exact top-k, by true metric distance, of the live eligible vectors
    stored in the probed clusters *)
Theorem C13_probe_exact : forall p s rq q o,
  p_kind p = KIVF -> search_single p s rq q = Ok o ->
  (exists cands, so_cut o = want (r_k rq) (length cands) /\
     ExactTopK skey cands (so_cut o) (firstn (so_cut o) (so_full o))) /\
  (forall x, In x (firstn (so_cut o) (so_full o)) ->
     exists pq li e, preprocess (p_metric p) q = Some pq /\
       In e (nth (Z.to_nat li) (st_lists s) []) /\
       x = (e_id e, dist (p_metric p) pq (e_vec e)) /\ memz (e_id e) (st_deleted s) = false).
Proof.
  intros p s rq q o Hk H. split; [eapply single_results_exact_topk; exact H|].
  intros x Hx. destruct (single_results_sound p s rq q o x H Hx) as [pq [Hp [li [e [Hl [_ [Hx' [Hd _]]]]]]]].
  exists pq, li, e. unfold kind_score in Hx'. rewrite Hk in Hx'. auto.
Qed.
Print Assumptions C13_probe_exact.
