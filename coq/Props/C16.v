(** C16 — Truncated or mismatched serialised data is rejected, never half-loaded. *)
From Coq Require Import ZArith List Bool.
From Comet Require Import Base.Parse Model.Format Model.Distance Model.VecIndex Model.Codecs Proofs.FormatP.
Import ListNotations.
Open Scope Z_scope.

(** every strict prefix of every valid stream of every format is rejected *)
Theorem C16_strict_prefix_rejected : forall f v p t,
  wt f v -> encode f v = p ++ t -> t <> [] -> decode f p = None.
Proof. exact decode_strict_prefix_fails. Qed.
Print Assumptions C16_strict_prefix_rejected.

(** a decoder never looks past what it consumed (needed for the above and for concatenation) *)
Theorem C16_decode_extension : forall f s v r t, decode f s = Some (v, r) -> decode f (s ++ t) = Some (v, r ++ t).
Proof. exact decode_ext. Qed.
Print Assumptions C16_decode_extension.

(** a stream whose validated constant (magic, version, dimension, metric, M, ef, nlist, code size,
    sub-index presence) differs from the receiver's is rejected at that field *)
Theorem C16_const_mismatch_rejected : forall bs s k,
  (length bs <= length s)%nat -> firstn (length bs) s <> bs -> decode (FPair (FConst bs) k) s = None.
Proof.
  intros bs s k Hl Hne. cbn [decode]. unfold take.
  destruct (Nat.ltb_spec (length s) (length bs)); [reflexivity|].
  destruct (list_eqb (firstn (length bs) s) bs) eqn:E; [|reflexivity].
  apply list_eqb_eq in E. contradiction.
Qed.
Print Assumptions C16_const_mismatch_rejected.

(** non-vacuity: the flat format of a 1-dimensional index accepts its own empty stream and rejects
    all of its 26 strict prefixes as well as a dim-2 receiver *)
Definition p1 := {| p_kind := KFlat; p_dim := 1; p_metric := L2; p_nlist := 1; p_M := 1; p_nbits := 1 |}.
Definition p2 := {| p_kind := KFlat; p_dim := 2; p_metric := L2; p_nlist := 1; p_M := 1; p_nbits := 1 |}.
Definition bm0 : list Z := [58; 48; 0; 0; 0; 0; 0; 0].
Definition stream1 := encode (fmt_flat p1) (to_val p1 bm0 (vinit p1)).
Example C16_example :
  (exists v, decode (fmt_flat p1) stream1 = Some (v, [])) /\
  forallb (fun i => match decode (fmt_flat p1) (firstn i stream1) with None => true | _ => false end)
          (seq 0 (length stream1)) = true /\
  decode (fmt_flat p2) stream1 = None /\ length stream1 = 34%nat.
Proof. vm_compute. repeat split. eexists. reflexivity. Qed.
