(** C11 — Indexes and store are race-free and visibility-linearizable under concurrency.
    The protocol logic is proved over ALL schedules; data races, runtime panics and real deadlocks are
    outside any Gallina model and are searched for with the Go race detector (see DESIGN.md). *)
From Coq Require Import ZArith List Bool.
From Comet Require Import Model.VecIndex Model.Conc Proofs.ConcP.
Import ListNotations.
Open Scope Z_scope.

(** For EVERY interleaving of Add (one step), two-phase Remove, Flush and Search steps from any
    number of goroutines (ids added once): a search returns every id whose Add completed before it
    and whose Remove had not begun, no id that was never added, and no id whose Remove took effect *)
Theorem C11_visibility_linearizable : forall pre, NoDup (adds_of pre) ->
  let res := clive (crun pre) in
  (forall id, In id (adds_of pre) -> rem1_begun id pre = false -> In id res) /\
  (forall id, In id res -> In id (adds_of pre)) /\
  (forall id, In id (c_gone (crun pre)) -> ~ In id res).
Proof. exact visibility_linearizable. Qed.
Print Assumptions C11_visibility_linearizable.

(** "no operation fails merely because of how it interleaved": refuted for the original
    memtableQueue.add (T1 picks, T2 rotates, T1 writes -> "memtable is frozen") … *)
Theorem C11_memtable_add_spurious_failure_refuted :
  qrun false qinit [QPick 1; QRotate; QWrite 1] = [QFrozenError 1].
Proof. exact memtable_add_spurious_failure_refuted. Qed.
Print Assumptions C11_memtable_add_spurious_failure_refuted.

(** … and proved for the repaired one, under every schedule *)
Theorem C11_memtable_add_never_fails_spuriously : forall es s t, ~ In (QFrozenError t) (qrun true s es).
Proof. exact memtable_add_never_fails_spuriously. Qed.
Print Assumptions C11_memtable_add_never_fails_spuriously.

Example C11_example :
  clive (crun [CAdd 1; CAdd 2; CRem1 7 1; CSearch; CAdd 3; CRem2 7 1; CFlush; CSearch]) = [2; 3].
Proof. vm_compute. reflexivity. Qed.
