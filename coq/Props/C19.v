(** C19 — Result post-processing (aggregate, limit, autocut, fuse, merge) obeys its laws.
    Only statements, each closed by [exact]; proofs live in Proofs/. *)
From Coq Require Import ZArith List Bool Permutation.
From Comet Require Import Base.FBits Base.Sorting Model.Limiter Proofs.LimiterP.
Import ListNotations.
Open Scope Z_scope.

(** limiting returns the first k results, all of them when k <= 0 or k exceeds the length *)
Theorem C19_limit_is_prefix : forall (A : Type) (l : list A) (k : Z), exists r, l = limit l k ++ r.
Proof. exact @limit_prefix. Qed.
Print Assumptions C19_limit_is_prefix.

Theorem C19_limit_length : forall (A : Type) (l : list A) (k : Z),
  Z.of_nat (length (limit l k)) =
  if (k <=? 0) || (Z.of_nat (length l) <? k) then Z.of_nat (length l) else k.
Proof. exact @limit_length. Qed.
Print Assumptions C19_limit_length.

Theorem C19_limit_all : forall (A : Type) (l : list A) (k : Z),
  (k <= 0 \/ Z.of_nat (length l) < k) -> limit l k = l.
Proof. exact @limit_all. Qed.
Print Assumptions C19_limit_all.

(** autocut returns a prefix length for ANY float32 scores (equal, infinite, NaN bit patterns included) *)
Theorem C19_autocut_in_range : forall (ys : list Z) (c r : Z),
  autocut ys c = Cut r -> 0 <= r <= Z.of_nat (length ys).
Proof. exact autocut_range. Qed.
Print Assumptions C19_autocut_in_range.

(** partial: never panics when the input does not have exactly two scores; the two-score case
    rests on the float fact x/x ∈ {1, NaN} (see Proofs/AutocutTwoP.v when present) *)
Theorem C19_autocut_never_panics_partial : forall (ys : list Z) (c : Z),
  length ys <> 2%nat -> autocut ys c <> CutPanic.
Proof. exact autocut_no_panic_not2. Qed.
Print Assumptions C19_autocut_never_panics_partial.

Theorem C19_autocut_results_prefix : forall (l : list (Z * Z)) (c : Z) (r : list (Z * Z)),
  autocut_results l c = Some r -> exists t, l = r ++ t.
Proof. exact autocut_results_prefix. Qed.
Print Assumptions C19_autocut_results_prefix.

Theorem C19_autocut_disabled_identity : forall l : list (Z * Z), autocut_results l (-1) = Some l.
Proof. exact autocut_results_disabled. Qed.
Print Assumptions C19_autocut_disabled_identity.

(** non-vacuity: a concrete run with a real cut *)
Example C19_autocut_example :
  autocut [F32.of_Z 1; F32.of_Z 2; F32.of_Z 3; F32.of_Z 50; F32.of_Z 51] 1 = Cut 3
  /\ limit [1; 2; 3; 4] 2 = [1; 2] /\ limit [1; 2; 3; 4] 0 = [1; 2; 3; 4].
Proof. vm_compute. repeat split. Qed.
