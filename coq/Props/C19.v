(** C19 — Result post-processing (aggregate, limit, autocut, fuse, merge) obeys its laws.
    Only statements, each closed by [exact]; proofs live in Proofs/. *)
From Coq Require Import ZArith List Bool Permutation.
From Comet Require Import Base.FBits Base.Sorting Model.Limiter Proofs.LimiterP.
Import ListNotations.
Open Scope Z_scope.

(** limiting returns the first k results, all of them when k <= 0 or k exceeds the length *)
Theorem C19_limit_is_prefix : forall (A : Type) (l : list A) (k : Z), exists r, l = limit l k ++ r.
Proof. exact @limit_prefix. Qed.
Print Assumptions C19_limit_is_prefix.

Theorem C19_limit_length : forall (A : Type) (l : list A) (k : Z),
  Z.of_nat (length (limit l k)) =
  if (k <=? 0) || (Z.of_nat (length l) <? k) then Z.of_nat (length l) else k.
Proof. exact @limit_length. Qed.
Print Assumptions C19_limit_length.

Theorem C19_limit_all : forall (A : Type) (l : list A) (k : Z),
  (k <= 0 \/ Z.of_nat (length l) < k) -> limit l k = l.
Proof. exact @limit_all. Qed.
Print Assumptions C19_limit_all.

(** autocut returns a prefix length for ANY float32 scores (equal, infinite, NaN bit patterns included) *)
Theorem C19_autocut_in_range : forall (ys : list Z) (c r : Z),
  autocut ys c = Cut r -> 0 <= r <= Z.of_nat (length ys).
Proof. exact autocut_range. Qed.
Print Assumptions C19_autocut_in_range.

(** partial: never panics when the input does not have exactly two scores; the two-score case
    rests on the float fact x/x ∈ {1, NaN} (see Proofs/AutocutTwoP.v when present) *)
Theorem C19_autocut_never_panics_partial : forall (ys : list Z) (c : Z),
  length ys <> 2%nat -> autocut ys c <> CutPanic.
Proof. exact autocut_no_panic_not2. Qed.
Print Assumptions C19_autocut_never_panics_partial.

(** ... and not on two scores either: autocut never panics, for every list of float32 bit patterns
    (proved through the Flocq bridge: x / x is exactly 1 or NaN) *)
From Comet Require Import Proofs.DistanceP Proofs.AutocutP.
Theorem C19_autocut_never_panics : forall (ys : list Z) (c : Z),
  Forall wf32 ys -> autocut ys c <> CutPanic.
Proof. exact autocut_never_panics. Qed.
Print Assumptions C19_autocut_never_panics.

Theorem C19_autocut_results_prefix : forall (l : list (Z * Z)) (c : Z) (r : list (Z * Z)),
  autocut_results l c = Some r -> exists t, l = r ++ t.
Proof. exact autocut_results_prefix. Qed.
Print Assumptions C19_autocut_results_prefix.

Theorem C19_autocut_disabled_identity : forall l : list (Z * Z), autocut_results l (-1) = Some l.
Proof. exact autocut_results_disabled. Qed.
Print Assumptions C19_autocut_disabled_identity.

(** ---- aggregation ---- *)
From Comet Require Import Model.Aggregation Model.Fusion Proofs.SortingP Proofs.AggP Proofs.FusionP.
From Coq Require Import Sorted.

(** each input id exactly once, carrying the sum / max / mean of ITS scores in input order *)
Theorem C19_aggregate_each_id_once : forall k l,
  NoDup (map fst (agg_scores k l)) /\
  (forall j, In j (map fst (agg_scores k l)) <-> In j (map fst l)) /\
  (forall j s, In (j, s) (agg_scores k l) -> s = agg_score k (scores_of j l)).
Proof. exact agg_scores_spec. Qed.
Print Assumptions C19_aggregate_each_id_once.

(** best first for the modality: vectors ascending, text descending (a permutation of the pairs above) *)
Theorem C19_aggregate_vec_best_first : forall k l,
  Permutation (agg_scores k l) (aggregate_vec k l) /\
  StronglySorted (le_key (fun p : Z * Z => F32.key (snd p))) (aggregate_vec k l).
Proof. exact aggregate_vec_spec. Qed.
Print Assumptions C19_aggregate_vec_best_first.

Theorem C19_aggregate_txt_best_first : forall k l,
  Permutation (agg_scores k l) (aggregate_txt k l) /\
  StronglySorted (le_key (fun p : Z * Z => - F32.key (snd p))) (aggregate_txt k l).
Proof. exact aggregate_txt_spec. Qed.
Print Assumptions C19_aggregate_txt_best_first.

(** independent of the interleaving of different ids in the input *)
Theorem C19_aggregate_order_independent : forall k l1 l2,
  (forall j, scores_of j l1 = scores_of j l2) ->
  forall j s, In (j, s) (agg_scores k l1) <-> In (j, s) (agg_scores k l2).
Proof. exact agg_scores_order_independent. Qed.
Print Assumptions C19_aggregate_order_independent.

(** ---- fusion (score maps with distinct keys) ---- *)
Theorem C19_weighted_sum_over_union : forall vw tw v t j, NoDup (map fst v) -> NoDup (map fst t) ->
  lookup j (fuse_weighted vw tw v t) =
  match lookup j v, lookup j t with
  | Some a, Some b => Some (F64.add (F64.mul a vw) (F64.mul b tw))
  | Some a, None => Some (F64.mul a vw)
  | None, Some b => Some (F64.mul b tw)
  | None, None => None
  end.
Proof. exact fuse_weighted_spec. Qed.
Print Assumptions C19_weighted_sum_over_union.

Theorem C19_max_over_union : forall v t j, NoDup (map fst t) ->
  lookup j (fuse_max v t) =
  match lookup j v, lookup j t with
  | Some a, Some b => Some (if F64.gtb b a then b else a)
  | Some a, None => Some a
  | None, Some b => Some b
  | None, None => None
  end.
Proof. exact fuse_max_spec. Qed.
Print Assumptions C19_max_over_union.

Theorem C19_min_over_intersection : forall v t j, NoDup (map fst v) ->
  lookup j (fuse_min v t) =
  match lookup j v, lookup j t with
  | Some a, Some b => Some (if F64.ltb a b then a else b)
  | _, _ => None
  end.
Proof. exact fuse_min_spec. Qed.
Print Assumptions C19_min_over_intersection.

(** merging store results keeps each id once *)
Theorem C19_merge_each_id_once : forall l,
  NoDup (map fst (merge_results l)) /\ (forall j, In j (map fst (merge_results l)) <-> In j (map fst l)).
Proof. intro l. split; [apply merge_results_nodup | intro j; apply merge_results_keys]. Qed.
Print Assumptions C19_merge_each_id_once.

(** non-vacuity: a concrete run with a real cut *)
Example C19_autocut_example :
  autocut [F32.of_Z 1; F32.of_Z 2; F32.of_Z 3; F32.of_Z 50; F32.of_Z 51] 1 = Cut 3
  /\ limit [1; 2; 3; 4] 2 = [1; 2] /\ limit [1; 2; 3; 4] 0 = [1; 2; 3; 4].
Proof. vm_compute. repeat split. Qed.

(** reciprocal-rank fusion: over the UNION of ids, the sum of 1/(k + rank) over the lists that hold
    the id, ranks counted from 0 in best-first order of each list *)
From Comet Require Import Proofs.FusionKeysP Model.XSort Proofs.XSortP.
Theorem C19_rrf_over_union : forall k v t j, NoDup (map fst v) -> NoDup (map fst t) ->
  lookup j (fuse_rrf k v t) =
  match lookup j (ranks true v), lookup j (ranks false t) with
  | Some a, Some b => Some (F64.add (rrf_term k a) (rrf_term k b))
  | Some a, None => Some (rrf_term k a)
  | None, Some b => Some (rrf_term k b)
  | None, None => None
  end.
Proof. exact fuse_rrf_spec. Qed.
Print Assumptions C19_rrf_over_union.

(** "ranks taken best-first within each modality": the rank table holds the positions 0..n-1 of a
    best-first arrangement of the score map -- every position once, a better score never behind a worse
    one (equal scores stand in some order; they never share a position) *)
From Coq Require Import Permutation Sorted.
Theorem C19_ranks_are_best_first_positions : forall (asc : bool) (m : smap),
  let skey := fun p : Z * Z => if asc then F64.key (snd p) else - F64.key (snd p) in
  let sorted := Base.Sorting.isort skey m in
  Permutation m sorted /\
  StronglySorted (fun a b => skey a <= skey b) sorted /\
  map fst (ranks asc m) = map fst sorted /\
  map snd (ranks asc m) = map Z.of_nat (seq 0 (length m)).
Proof. exact ranks_are_positions. Qed.
Print Assumptions C19_ranks_are_best_first_positions.

(** the same for the exchange sort of scoreMapToRanks exactly as fusion.go writes it (Model/XSort.v), for
    EVERY iteration order of the map and every score -- NaN and infinities included, where the order "by key"
    above says nothing: each id gets one of the positions 0..n-1, and an id whose score is strictly better in
    Go's own float comparison never gets a later position than a worse one *)
Theorem C19_exchange_sort_ranks_best_first : forall (asc : bool) (m : list (Z * Z)),
  let sorted := xsort (better64 asc) m in
  Permutation m sorted /\
  StronglySorted (fun a b => better64 asc b a = false) sorted /\
  map fst (xranks asc m) = map fst sorted /\
  map snd (xranks asc m) = map Z.of_nat (seq 0 (length m)).
Proof. exact xranks_best_first. Qed.
Print Assumptions C19_exchange_sort_ranks_best_first.

Example C19_exchange_sort_with_nan_and_infinity :
  map fst (xranks true [(1, 9218868437227405312); (2, F64.nan); (3, F64.one); (4, 0); (5, F64.one)]) = [4; 2; 3; 5; 1].
Proof. exact xranks_example. Qed.

(** whatever the fusion kind, a fused id comes from one of the two inputs *)
Theorem C19_fused_ids_come_from_inputs : forall kind vw tw k v t j,
  NoDup (map fst v) -> NoDup (map fst t) ->
  In j (map fst (fuse kind vw tw k v t)) -> In j (map fst v) \/ In j (map fst t).
Proof. exact fuse_keys. Qed.
Print Assumptions C19_fused_ids_come_from_inputs.
