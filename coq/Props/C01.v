(** C01 — Flat index returns exactly the k nearest live vectors. *)
From Coq Require Import ZArith List Bool Permutation Sorted.
From Comet Require Import Base.FBits Base.Sorting Model.Distance Model.Limiter Model.Aggregation Model.VecIndex.
From Comet Require Import Proofs.SortingP Proofs.FlatP.
Import ListNotations.
Open Scope Z_scope.

(** For EVERY history of Add / Remove / Flush over fresh ids (incl. failing adds) and EVERY query,
    k, threshold and id restriction: the flat answer is sorted ascending, has
    [min k |E|] entries (all of E when k <= 0), and is the exact top-k (no left-out candidate beats
    a returned one) of E = the history-live vectors satisfying the restriction and threshold, each
    with its metric distance to the preprocessed query.  Scores are ordered by [F32.key], which is
    IEEE [<] on non-NaN values (validated against Go by checker 1805). *)
Theorem C01_flat_exact_topk : forall p ops rq q o,
  p_kind p = KFlat -> fresh_ids ops = true ->
  search_single p (run p ops) rq q = Ok o ->
  exists pq, preprocess (p_metric p) q = Some pq /\
    let E := cands_of_live p (hist_live p ops) rq pq in
    so_cut o = want (r_k rq) (length E) /\
    ExactTopK skey E (so_cut o) (firstn (so_cut o) (so_full o)).
Proof. exact flat_exact_topk_history. Qed.
Print Assumptions C01_flat_exact_topk.

(** every returned pair is a resident, non-removed, eligible vector with its true metric distance *)
Theorem C01_flat_results_sound : forall p s rq q o x,
  p_kind p = KFlat -> search_single p s rq q = Ok o -> In x (firstn (so_cut o) (so_full o)) ->
  exists pq e, preprocess (p_metric p) q = Some pq /\ In e (all_entries s) /\
    x = (e_id e, dist (p_metric p) pq (e_vec e)) /\
    memz (e_id e) (st_deleted s) = false /\
    (r_docids rq = [] \/ memz (e_id e) (r_docids rq) = true) /\
    thr_ok rq (snd x) = true.
Proof. exact flat_results_sound. Qed.
Print Assumptions C01_flat_results_sound.

(** a removed vector never appears, whether or not a flush has happened since *)
Theorem C01_flush_invisible : forall p s rq q,
  p_kind p = KFlat ->
  match search_single p (vflush_op s) rq q, search_single p s rq q with
  | Ok o1, Ok o2 => firstn (so_cut o1) (so_full o1) = firstn (so_cut o2) (so_full o2)
  | Err e1, Err e2 => e1 = e2
  | _, _ => False
  end.
Proof. exact flat_flush_invisible. Qed.
Print Assumptions C01_flush_invisible.

Theorem C01_live_view_is_history : forall p ops,
  p_kind p = KFlat -> fresh_ids ops = true -> live_view (run p ops) = hist_live p ops.
Proof. exact flat_live_is_history_live. Qed.
Print Assumptions C01_live_view_is_history.

Theorem C01_search_error_iff : forall p s rq q,
  p_kind p = KFlat -> st_trained s = true ->
  (exists e, search_single p s rq q = Err e) <->
  (Z.of_nat (length q) <> p_dim p \/ preprocess (p_metric p) q = None).
Proof. exact flat_search_error_iff. Qed.
Print Assumptions C01_search_error_iff.

(** non-vacuity: a history with a removal and a flush, queried with k = 1 *)
Definition ex_p := {| p_kind := KFlat; p_dim := 2; p_metric := L2; p_nlist := 1; p_M := 1; p_nbits := 1 |}.
Definition ex_ops := [HAdd 1 [F32.of_Z 0; F32.of_Z 0]; HAdd 2 [F32.of_Z 3; F32.of_Z 4];
                      HAdd 3 [F32.of_Z 1; F32.of_Z 0]; HRemove 1; HFlush].
Definition ex_rq := {| r_queries := []; r_nodes := []; r_docids := []; r_k := 1; r_thr := 0;
                       r_agg := AggSum; r_cutoff := -1; r_nprobes := 0 |}.
Example C01_example :
  fresh_ids ex_ops = true /\
  match search_single ex_p (run ex_p ex_ops) ex_rq [F32.of_Z 0; F32.of_Z 0] with
  | Ok o => firstn (so_cut o) (so_full o) = [(3, F32.of_Z 1)]
  | Err _ => False
  end.
Proof. vm_compute. split; reflexivity. Qed.
