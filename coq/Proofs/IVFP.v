(** C13 / C15: at full probe IVF scans exactly the candidates of exhaustive search, hence returns
    the same score list (recall 1.0). *)
From Coq Require Import ZArith List Bool Lia Permutation Sorted.
From Comet Require Import Base.FBits Base.Parse Base.Sorting.
From Comet Require Import Model.Distance Model.Limiter Model.Aggregation Model.KMeans Model.VecIndex.
From Comet Require Import Proofs.SortingP Proofs.LimiterP Proofs.FlatP Proofs.VecP Proofs.KMeansP.
Import ListNotations.
Open Scope Z_scope.

(** two sorted integer lists that are permutations of each other are equal *)
Lemma sorted_perm_eq : forall l1 l2 : list Z,
  StronglySorted Z.le l1 -> StronglySorted Z.le l2 -> Permutation l1 l2 -> l1 = l2.
Proof.
  induction l1 as [|a t1 IH]; intros l2 H1 H2 Hp.
  - apply Permutation_nil in Hp. now subst.
  - destruct l2 as [|b t2]; [apply Permutation_sym, Permutation_nil in Hp; discriminate|].
    inversion H1 as [|? ? Hs1 Hf1]; subst. inversion H2 as [|? ? Hs2 Hf2]; subst.
    assert (Hab : a = b).
    { assert (Ha : In a (b :: t2)) by (eapply Permutation_in; [exact Hp | now left]).
      assert (Hb : In b (a :: t1)) by (eapply Permutation_in; [apply Permutation_sym; exact Hp | now left]).
      rewrite Forall_forall in Hf1, Hf2.
      destruct Ha as [Ha|Ha]; [now subst|]. destruct Hb as [Hb|Hb]; [now subst|].
      apply Hf2 in Ha. apply Hf1 in Hb. lia. }
    subst b. f_equal. apply IH; [exact Hs1 | exact Hs2 | eapply Permutation_cons_inv; exact Hp].
Qed.

Lemma strongly_sorted_map {A} (key : A -> Z) l :
  StronglySorted (le_key key) l -> StronglySorted Z.le (map key l).
Proof.
  induction 1 as [|a t Hs IH Hf]; cbn [map]; constructor; [exact IH|].
  rewrite Forall_forall in *. intros k Hk. apply in_map_iff in Hk. destruct Hk as [x [<- Hx]]. apply Hf. exact Hx.
Qed.

(** sorting permutation-equal lists gives the same key sequence *)
Theorem isort_keys_perm {A} (key : A -> Z) (l1 l2 : list A) :
  Permutation l1 l2 -> map key (isort key l1) = map key (isort key l2).
Proof.
  intro Hp. apply sorted_perm_eq.
  - apply strongly_sorted_map, isort_strongly_sorted.
  - apply strongly_sorted_map, isort_strongly_sorted.
  - apply Permutation_map. etransitivity; [symmetry; apply isort_perm|]. etransitivity; [exact Hp | apply isort_perm].
Qed.

Lemma flat_map_seq_nth {A B} (G : list A -> list B) (ls : list (list A)) :
  flat_map (fun i => G (nth i ls [])) (seq 0 (length ls)) = flat_map G ls.
Proof.
  assert (H : forall k, flat_map (fun i => G (nth i ls [])) (seq k (length ls - k)) = flat_map G (skipn k ls)).
  { intro k. remember (length ls - k)%nat as n eqn:En. revert k En. induction n as [|n IH]; intros k En.
    - cbn. rewrite skipn_all2 by lia. reflexivity.
    - cbn [seq flat_map]. rewrite (IH (S k)) by lia.
      assert (Hk : (k < length ls)%nat) by lia.
      clear - Hk. revert k Hk. induction ls as [|l t IHl]; intros k Hk; [cbn in Hk; lia|].
      destruct k as [|k]; [reflexivity|]. cbn [nth skipn]. apply IHl. cbn in Hk. lia. }
  specialize (H O). rewrite Nat.sub_0_r in H. exact H.
Qed.

Lemma scan_list_concat s rq f ls : scan_list s rq f (concat ls) = flat_map (scan_list s rq f) ls.
Proof.
  induction ls as [|l t IH]; [reflexivity|]. cbn [concat flat_map]. unfold scan_list at 1. rewrite flat_map_app.
  fold (scan_list s rq f l). fold (scan_list s rq f (concat t)). now rewrite IH.
Qed.

(** trained IVF states: one centroid and one inverted list per cluster *)
Definition ivf_wf (p : params) (s : vstate) : Prop :=
  length (st_centroids s) = Z.to_nat (p_nlist p) /\ length (st_lists s) = Z.to_nat (p_nlist p) /\ 0 < p_nlist p.

(** with every cluster probed the IVF candidates are a permutation of the exhaustive candidates … *)
Theorem ivf_full_probe_candidates p s rq q o :
  p_kind p = KIVF -> ivf_wf p s ->
  (r_nprobes rq <= 0 \/ p_nlist p <= r_nprobes rq) ->
  search_single p s rq q = Ok o ->
  exists pq cands, preprocess (p_metric p) q = Some pq /\ so_full o = sort_cands cands /\
    so_cut o = want (r_k rq) (length cands) /\
    Permutation cands (scan_list s rq (fun e => dist (p_metric p) pq (e_vec e)) (all_entries s)).
Proof.
  intros Hk [Hc [Hl Hn]] Hfull H. unfold search_single in H. rewrite Hk in H.
  destruct (negb (st_trained s)); [discriminate|].
  destruct (negb (Z.of_nat (length q) =? p_dim p)); [discriminate|].
  destruct (preprocess (p_metric p) q) as [pq|] eqn:Hp; [|discriminate].
  inversion H; subst o; clear H. cbn [so_full so_cut]. exists pq. eexists. split; [reflexivity|]. split; [reflexivity|].
  split; [unfold sort_cands at 1; rewrite isort_length; reflexivity|].
  (* number of probes = nlist *)
  assert (Hnp : (if (r_nprobes rq <=? 0) || (p_nlist p <? r_nprobes rq) then p_nlist p else r_nprobes rq) = p_nlist p).
  { destruct (Z.leb_spec (r_nprobes rq) 0); cbn [orb]; [reflexivity|].
    destruct (Z.ltb_spec (p_nlist p) (r_nprobes rq)); [reflexivity | lia]. }
  rewrite Hnp.
  set (cds := isort (fun x : Z * Z => F32.key (snd x))
                (combine (map Z.of_nat (seq 0 (length (st_centroids s))))
                         (map (fun c => dist (p_metric p) pq c) (st_centroids s)))).
  assert (Hlen : length cds = Z.to_nat (p_nlist p)).
  { unfold cds. rewrite isort_length, combine_length, !map_length, seq_length. lia. }
  rewrite firstn_all2 by lia.
  (* the probed list indices are a permutation of 0 .. nlist-1 *)
  assert (Hperm : Permutation (map fst cds) (map Z.of_nat (seq 0 (length (st_lists s))))).
  { unfold cds. etransitivity; [apply Permutation_map; symmetry; apply isort_perm|].
    rewrite Hl, <- Hc.
    assert (Hfst : forall (a : list Z) (b : list Z), length a = length b -> map fst (combine a b) = a).
    { induction a as [|x a IHa]; intros [|y b] Hab; cbn in *; try lia; [reflexivity | f_equal; apply IHa; lia]. }
    rewrite Hfst by (rewrite !map_length, seq_length; reflexivity). reflexivity. }
  unfold all_entries. rewrite scan_list_concat.
  set (F := scan_list s rq (fun e => dist (p_metric p) pq (e_vec e))).
  set (H := fun li : Z => F (nth (Z.to_nat li) (st_lists s) [])).
  assert (Hfm : forall (l : list (Z * Z)), flat_map (fun cd => F (nth (Z.to_nat (fst cd)) (st_lists s) [])) l
                                           = flat_map H (map fst l)).
  { induction l as [|x l IHl]; [reflexivity|]. cbn [flat_map map]. now rewrite IHl. }
  rewrite Hfm.
  etransitivity; [apply Permutation_flat_map; exact Hperm|].
  apply Permutation_refl'.
  assert (Hfm2 : forall (l : list nat), flat_map H (map Z.of_nat l) = flat_map (fun i => F (nth i (st_lists s) [])) l).
  { induction l as [|x l IHl]; [reflexivity|]. cbn [flat_map map]. rewrite IHl. unfold H. now rewrite Nat2Z.id. }
  rewrite Hfm2. apply flat_map_seq_nth.
Qed.

(** … hence the IVF answer carries exactly the score sequence of exhaustive search over the same
    vectors: recall is 1.0 at full probe (ids may differ only inside groups of equal score) *)
Theorem ivf_full_probe_equals_exhaustive p s rq q o :
  p_kind p = KIVF -> ivf_wf p s ->
  (r_nprobes rq <= 0 \/ p_nlist p <= r_nprobes rq) ->
  search_single p s rq q = Ok o ->
  exists pq, preprocess (p_metric p) q = Some pq /\
    let E := scan_list s rq (fun e => dist (p_metric p) pq (e_vec e)) (all_entries s) in
    map skey (so_full o) = map skey (sort_cands E) /\ so_cut o = want (r_k rq) (length E).
Proof.
  intros Hk Hw Hf H. destruct (ivf_full_probe_candidates p s rq q o Hk Hw Hf H) as [pq [cands [Hp [Hfull [Hcut Hperm]]]]].
  exists pq. split; [exact Hp|]. cbn zeta. split.
  - rewrite Hfull. unfold sort_cands. apply (isort_keys_perm (fun p0 : Z * Z => F32.key (snd p0))). exact Hperm.
  - rewrite Hcut. f_equal. apply Permutation_length. exact Hperm.
Qed.

(** the well-formedness is established by a successful Train and preserved by Add / Remove / Flush *)
Lemma app_nth_length {A} (x : A) n ls : length (app_nth n x ls) = length ls.
Proof. revert n. induction ls as [|l t IH]; intros [|n]; cbn [app_nth length]; auto. Qed.

Theorem ivf_wf_train p s vs s' :
  p_kind p = KIVF -> 0 < p_nlist p -> length (st_lists s) = Z.to_nat (p_nlist p) ->
  vtrain_op p s vs = (s', 0) -> ivf_wf p s'.
Proof.
  intros Hk Hn Hl H. unfold vtrain_op in H. rewrite Hk in H.
  destruct (Z.ltb_spec (Z.of_nat (length vs)) (p_nlist p)) as [Hlt|Hge]; [discriminate|].
  destruct (kmeans vs (p_nlist p) (p_metric p) 20) as [[[c m] conv]|] eqn:Ek; [|discriminate].
  inversion H; subst s'; clear H. unfold ivf_wf. cbn [st_centroids st_lists].
  destruct (Proofs.KMeansP.kmeans_count_and_range _ _ _ _ _ _ _ Ek) as [Hc _].
  repeat split; [lia | exact Hl | exact Hn].
Qed.

Theorem ivf_wf_preserved p s :
  ivf_wf p s ->
  (forall id v, ivf_wf p (fst (vadd_op p s id v))) /\ (forall id, ivf_wf p (fst (vremove_op s id))) /\ ivf_wf p (vflush_op s).
Proof.
  intros [Hc [Hl Hn]]. repeat split; try exact Hn.
  - unfold vadd_op. destruct (negb (st_trained s)); [exact Hc|].
    destruct (negb (Z.of_nat (length v) =? p_dim p)); [exact Hc|]. destruct (preprocess (p_metric p) v); exact Hc.
  - unfold vadd_op. destruct (negb (st_trained s)); [exact Hl|].
    destruct (negb (Z.of_nat (length v) =? p_dim p)); [exact Hl|]. destruct (preprocess (p_metric p) v); [|exact Hl].
    cbn [fst st_lists]. rewrite app_nth_length. destruct (memz id (st_deleted s)); [rewrite map_length|]; exact Hl.
  - unfold vremove_op. destruct (negb (resident s id)); [exact Hc|]. destruct (memz id (st_deleted s)); exact Hc.
  - unfold vremove_op. destruct (negb (resident s id)); [exact Hl|]. destruct (memz id (st_deleted s)); exact Hl.
  - unfold vflush_op. destruct (st_deleted s); exact Hc.
  - unfold vflush_op. destruct (st_deleted s); [exact Hl|]. cbn [st_lists]. rewrite map_length. exact Hl.
Qed.
