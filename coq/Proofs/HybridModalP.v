(** C05: every hybrid result comes out of the vector top-k or the text top-k that were computed
    inside the metadata candidate set; metadata-only results are candidates; fused scores follow
    the configured fusion law. *)
From Coq Require Import ZArith List Bool Lia Permutation.
From Comet Require Import Base.FBits Base.Sorting Model.Distance Model.Limiter Model.Aggregation Model.Fusion.
From Comet Require Import Model.VecIndex Model.BM25 Model.Metadata Model.Hybrid.
From Comet Require Import Proofs.SortingP Proofs.AggP Proofs.FusionP Proofs.FusionKeysP.
Import ListNotations.
Open Scope Z_scope.

Definition hy_docids (co : option (list Z)) : list Z := match co with Some l => l | None => [] end.

(** [vl] is the answer (at most k pairs) of the vector sub-index to the hybrid request restricted to
    [docids], or nothing when no vector is queried *)
Definition is_vec_part (s : hystate) (rq : hyrequest) (docids : list Z) (vl : list (Z * Z)) : Prop :=
  (hq_vec rq = [] /\ vl = []) \/
  (exists vs xo n, hy_vec s = Some vs /\ execute (hy_p s) vs (hy_vreq (hy_p s) rq docids) = Ok xo /\
                   xo_n xo = Some n /\ vl = firstn n (xo_agg xo)).
Definition is_txt_part (s : hystate) (rq : hyrequest) (docids : list Z) (tl : list (Z * Z)) : Prop :=
  (hq_txt rq = [] /\ tl = []) \/
  (exists bs xo n, hy_txt s = Some bs /\ bexecute bs (hy_treq rq docids) = BOk xo /\
                   xo_n xo = Some n /\ tl = firstn n (xo_agg xo)).

Lemma nodup_app_left {A} (a b : list A) : NoDup (a ++ b) -> NoDup a.
Proof.
  induction a as [|x a IH]; intros H; [constructor|].
  cbn in H. inversion H as [|? ? Hn Hr]; subst. constructor; [|apply IH, Hr].
  intros Hx. apply Hn. apply in_or_app. now left.
Qed.
Lemma firstn_nodup_keys (l : list (Z * Z)) n : NoDup (map fst l) -> NoDup (map fst (firstn n l)).
Proof.
  intros H. rewrite <- (firstn_skipn n l), map_app in H. apply nodup_app_left in H. exact H.
Qed.

Lemma aggregate_vec_nodup k l : NoDup (map fst (aggregate_vec k l)).
Proof.
  destruct (agg_scores_spec k l) as [Hnd _]. destruct (aggregate_vec_spec k l) as [Hp _].
  eapply Permutation_NoDup; [apply Permutation_map; exact Hp|exact Hnd].
Qed.
Lemma aggregate_txt_nodup k l : NoDup (map fst (aggregate_txt k l)).
Proof.
  destruct (agg_scores_spec k l) as [Hnd _]. destruct (aggregate_txt_spec k l) as [Hp _].
  eapply Permutation_NoDup; [apply Permutation_map; exact Hp|exact Hnd].
Qed.

Lemma execute_agg_nodup p vs rq xo : execute p vs rq = Ok xo -> NoDup (map fst (xo_agg xo)).
Proof.
  unfold execute. intros H.
  destruct (r_queries rq) eqn:Eq; destruct (r_nodes rq) eqn:En; try discriminate;
    destruct (mapM_res (lookup_node vs) _); try discriminate;
    destruct (mapM_res (search_single p vs rq) _); try discriminate;
    inversion H; subst xo; cbn [xo_agg]; apply aggregate_vec_nodup.
Qed.

Lemma bexecute_agg_nodup bs rq xo : bexecute bs rq = BOk xo -> NoDup (map fst (xo_agg xo)).
Proof.
  unfold bexecute. intros H.
  destruct (q_queries rq) eqn:Eq; destruct (q_nodes rq) eqn:En; try discriminate;
    destruct (negb (forallb (blookup_node bs) _)); try discriminate;
    destruct (existsb _ _); try discriminate;
    inversion H; subst xo; cbn [xo_agg]; apply aggregate_txt_nodup.
Qed.

Lemma hy_vpart_spec s rq d vl w ids kn :
  hy_vpart s rq d = Ok (vl, w, (ids, kn)) -> is_vec_part s rq d vl /\ NoDup (map fst vl).
Proof.
  unfold hy_vpart, hy_vq. intros H. destruct (hq_vec rq) as [|q0 qs] eqn:Ev; cbn [negb] in H.
  - inversion H; subst. split; [left; auto|constructor].
  - destruct (hy_vec s) as [vs|] eqn:Es; [|discriminate].
    destruct (execute (hy_p s) vs (hy_vreq (hy_p s) rq d)) as [xo|e] eqn:Ex; [|discriminate].
    destruct (xo_n xo) as [n|] eqn:En; [|discriminate]. inversion H; subst. split.
    + right. exists vs, xo, n. auto.
    + apply firstn_nodup_keys. eapply execute_agg_nodup; exact Ex.
Qed.

Lemma hy_tpart_spec s rq d tl w ids kn :
  hy_tpart s rq d = Some (Ok (tl, w, (ids, kn))) -> is_txt_part s rq d tl /\ NoDup (map fst tl).
Proof.
  unfold hy_tpart, hy_tq. intros H. destruct (hq_txt rq) as [|q0 qs] eqn:Ev; cbn [negb] in H.
  - inversion H; subst. split; [left; auto|constructor].
  - destruct (hy_txt s) as [bs|] eqn:Es; [|discriminate].
    destruct (bexecute bs (hy_treq rq d)) as [xo|e|] eqn:Ex; try discriminate.
    destruct (xo_n xo) as [n|] eqn:En; [|discriminate]. inversion H; subst. split.
    + right. exists bs, xo, n. auto.
    + apply firstn_nodup_keys. eapply bexecute_agg_nodup; exact Ex.
Qed.

Lemma map_fst_conv (l : list (Z * Z)) : map fst (map (fun p => (fst p, f32_to_f64 (snd p))) l) = map fst l.
Proof. rewrite map_map. apply map_ext. reflexivity. Qed.

Lemma hy_combined_keys rq d vl tl j :
  NoDup (map fst vl) -> NoDup (map fst tl) ->
  In j (map fst (hy_combined rq d vl tl)) ->
  if hy_vq rq || hy_tq rq then In j (map fst vl) \/ In j (map fst tl) else In j d.
Proof.
  intros Hv Ht. unfold hy_combined.
  destruct (hy_vq rq) eqn:Evq; destruct (hy_tq rq) eqn:Etq; cbn [andb orb]; intros Hin.
  - apply fuse_keys in Hin; rewrite ?map_fst_conv in *; assumption.
  - rewrite map_fst_conv in Hin. now left.
  - rewrite map_fst_conv in Hin. now right.
  - rewrite map_map in Hin. cbn [fst] in Hin. rewrite map_id in Hin. exact Hin.
Qed.

Lemma hy_final_keys combined k full n j : hy_final combined k = (full, n) ->
  In j (map fst full) -> In j (map fst combined).
Proof.
  unfold hy_final. intros H Hin. inversion H; subst full.
  eapply Permutation_in; [apply Permutation_map; symmetry; apply isort_perm|exact Hin].
Qed.

(** Main statement.  Either the filter matched nothing (empty answer), or the answer is the best-first
    sort of the fusion of a vector part and a text part, each the sub-index's own answer to the
    request restricted to the metadata candidates; every returned id is in one of the two parts
    (metadata-only query: is a candidate). *)
Theorem hy_results_from_modalities s rq o :
  hy_search s rq = HOk o ->
  (ho_cands o = Some [] /\ ho_full o = []) \/
  exists vl tl,
    is_vec_part s rq (hy_docids (ho_cands o)) vl /\ is_txt_part s rq (hy_docids (ho_cands o)) tl /\
    Permutation (hy_combined rq (hy_docids (ho_cands o)) vl tl) (ho_full o) /\
    (forall j, In j (map fst (ho_full o)) ->
       if hy_vq rq || hy_tq rq then In j (map fst vl) \/ In j (map fst tl)
       else In j (hy_docids (ho_cands o))).
Proof.
  unfold hy_search. intros H.
  set (filtered := match hq_filters rq, hq_groups rq with [], [] => false | _, _ => true end) in H.
  destruct (if filtered then _ else Some None) as [co|] eqn:Ec; [|discriminate]. clear Ec.
  assert (Hbody : forall co : option (list Z),
    match hy_vpart s rq (hy_docids co) with
    | Err e => HErr e
    | Ok (vl, vweak, (vids, vknown)) =>
        match hy_tpart s rq (hy_docids co) with
        | None => HNoOracle
        | Some (Err e) => HErr e
        | Some (Ok (tl, tweak, (tids, tknown))) =>
            let vm := map (fun p => (fst p, f32_to_f64 (snd p))) vl in
            let tm := map (fun p => (fst p, f32_to_f64 (snd p))) tl in
            let rrfweak := match hq_fusion rq with
                           | FRRF => hy_vq rq && hy_tq rq && (has_dup_keys64 vm || has_dup_keys64 tm) | _ => false end in
            let '(full, n) := hy_final (hy_combined rq (hy_docids co) vl tl) (hq_k rq) in
            HOk {| ho_full := full; ho_n := n; ho_weak := vweak || tweak || rrfweak; ho_cands := co;
                   ho_vecids := vids; ho_txtids := tids; ho_modal_known := vknown && tknown |}
        end
    end = HOk o ->
    exists vl tl,
      is_vec_part s rq (hy_docids (ho_cands o)) vl /\ is_txt_part s rq (hy_docids (ho_cands o)) tl /\
      Permutation (hy_combined rq (hy_docids (ho_cands o)) vl tl) (ho_full o) /\
      (forall j, In j (map fst (ho_full o)) ->
         if hy_vq rq || hy_tq rq then In j (map fst vl) \/ In j (map fst tl)
         else In j (hy_docids (ho_cands o)))).
  { clear. intros co H.
    destruct (hy_vpart s rq (hy_docids co)) as [[[vl vweak] [vids vknown]]|e] eqn:Ev; [|discriminate].
    destruct (hy_tpart s rq (hy_docids co)) as [[[[tl tweak] [tids tknown]]|e]|] eqn:Et; try discriminate.
    cbv zeta in H.
    destruct (hy_final (hy_combined rq (hy_docids co) vl tl) (hq_k rq)) as [full n] eqn:Ef.
    inversion H; subst o; clear H. cbn [ho_cands ho_full].
    destruct (hy_vpart_spec _ _ _ _ _ _ _ Ev) as [Hvp Hvn].
    destruct (hy_tpart_spec _ _ _ _ _ _ _ Et) as [Htp Htn].
    exists vl, tl. split; [exact Hvp|]. split; [exact Htp|]. split.
    - unfold hy_final in Ef. inversion Ef; subst full. apply isort_perm.
    - intros j Hj. apply (hy_combined_keys rq (hy_docids co) vl tl j Hvn Htn).
      eapply hy_final_keys; eassumption. }
  destruct co as [[|c0 cs]|].
  - left. inversion H; subst o. split; reflexivity.
  - right. apply (Hbody (Some (c0 :: cs))). exact H.
  - right. apply (Hbody None). exact H.
Qed.
