(** Bridge between Coq.Floats.SpecFloat (on which the float model Base/FBits.v is built) and Flocq's
    IEEE-754 formalisation, for any precision: every SpecFloat operation on valid operands IS Flocq's
    correctly rounded (round-to-nearest-even) operation.  Generic version of Flocq/IEEE754/PrimFloat.v. *)
From Coq Require Import ZArith Reals Bool Lia.
From Coq Require Import Floats.SpecFloat.
From Flocq Require Import Core.Core IEEE754.BinarySingleNaN.

Section Bridge.
Variables prec emax : Z.
Context (prec_gt_0_ : Prec_gt_0 prec).
Context (prec_lt_emax_ : Prec_lt_emax prec emax).

Lemma round_nearest_even_equiv s m l :
  round_nearest_even m l = choice_mode mode_NE s m l.
Proof.
case l; [reflexivity|intro c].
case c; [ | reflexivity..].
now simpl; unfold Round.cond_incr; case Z.even.
Qed.

Lemma binary_round_aux_equiv sx mx ex lx :
  SpecFloat.binary_round_aux prec emax sx mx ex lx
  = binary_round_aux prec emax mode_NE sx mx ex lx.
Proof.
unfold SpecFloat.binary_round_aux, binary_round_aux.
set (mrse' := shr_fexp _ _ _ _ _).
case mrse'; intros mrs' e'; simpl.
now rewrite (round_nearest_even_equiv sx).
Qed.

Lemma binary_round_equiv s m e :
  SpecFloat.binary_round prec emax s m e =
  binary_round prec emax mode_NE s m e.
Proof.
unfold SpecFloat.binary_round, binary_round, shl_align_fexp.
set (mez := shl_align _ _ _); case mez as [mz ez].
apply binary_round_aux_equiv.
Qed.

Lemma binary_normalize_equiv m e szero :
  SpecFloat.binary_normalize prec emax m e szero
  = B2SF (binary_normalize prec emax prec_gt_0_ prec_lt_emax_ mode_NE m e szero).
Proof.
case m as [ | p | p].
- now simpl.
- simpl; rewrite B2SF_SF2B; apply binary_round_equiv.
- simpl; rewrite B2SF_SF2B; apply binary_round_equiv.
Qed.

Lemma SFadd_equiv (x y : binary_float prec emax) :
  SFadd prec emax (B2SF x) (B2SF y) = B2SF (Bplus mode_NE x y).
Proof.
destruct x as [sx|sx| |sx mx ex Bx]; destruct y as [sy|sy| |sy my ey By];
  try (now (trivial || simpl; case Bool.eqb)).
apply binary_normalize_equiv.
Qed.

Lemma SFsub_equiv (x y : binary_float prec emax) :
  SFsub prec emax (B2SF x) (B2SF y) = B2SF (Bminus mode_NE x y).
Proof.
destruct x as [sx|sx| |sx mx ex Bx]; destruct y as [sy|sy| |sy my ey By];
  try (now (trivial || simpl; case Bool.eqb)).
simpl. unfold Zminus. rewrite <- cond_Zopp_negb.
apply binary_normalize_equiv.
Qed.

Lemma SFmul_equiv (x y : binary_float prec emax) :
  SFmul prec emax (B2SF x) (B2SF y) = B2SF (Bmult mode_NE x y).
Proof.
destruct x as [sx|sx| |sx mx ex Bx]; destruct y as [sy|sy| |sy my ey By]; try now trivial.
simpl. rewrite B2SF_SF2B. apply binary_round_aux_equiv.
Qed.

Lemma SFdiv_equiv (x y : binary_float prec emax) :
  SFdiv prec emax (B2SF x) (B2SF y) = B2SF (Bdiv mode_NE x y).
Proof.
destruct x as [sx|sx| |sx mx ex Bx]; destruct y as [sy|sy| |sy my ey By]; try now trivial.
simpl. rewrite B2SF_SF2B.
set (melz := SFdiv_core_binary _ _ _ _ _ _).
case melz as [[mz ez] lz].
apply binary_round_aux_equiv.
Qed.

Lemma SFsqrt_equiv (x : binary_float prec emax) :
  SFsqrt prec emax (B2SF x) = B2SF (Bsqrt mode_NE x).
Proof.
destruct x as [sx|sx| |sx mx ex Bx]; try (now (trivial || case sx)).
case sx; [reflexivity|].
simpl. rewrite B2SF_SF2B.
set (melz := SFsqrt_core_binary _ _ _ _).
case melz as [[mz ez] lz].
apply binary_round_aux_equiv.
Qed.
End Bridge.
