(** a boolean checker for well-typedness of a value against a format, sound w.r.t. [wt]:
    lets concrete states discharge the [wt] hypotheses of the C07 theorems by computation *)
From Coq Require Import ZArith List Bool Lia.
From Comet Require Import Base.Parse Model.Format.
Import ListNotations.
Open Scope Z_scope.

Fixpoint wtb (f : fmt) (v : val) : bool :=
  match f, v with
  | FEmpty, VUnit => true
  | FU n, VZ z => (0 <=? z) && (z <? 256 ^ Z.of_nat n)
  | FConst _, VUnit => true
  | FRaw n, VB bs => (length bs =? n)%nat
  | FPair a k, VP v1 v2 => wtb a v1 && wtb (k v1) v2
  | FList n a, VL vs => (length vs =? n)%nat && forallb (wtb a) vs
  | _, _ => false
  end.

Lemma wtb_sound : forall f v, wtb f v = true -> wt f v.
Proof.
  induction f as [| n | bs | n | a IHa k IHk | n a IHa]; intros v H; destruct v; cbn [wtb wt] in *; try discriminate; auto.
  - apply andb_true_iff in H. destruct H as [H1 H2]. apply Z.leb_le in H1. apply Z.ltb_lt in H2. lia.
  - apply Nat.eqb_eq in H. exact H.
  - apply andb_true_iff in H. destruct H as [H1 H2]. split; [apply IHa; exact H1|apply IHk; exact H2].
  - apply andb_true_iff in H. destruct H as [H1 H2]. apply Nat.eqb_eq in H1. split; [exact H1|].
    apply Forall_forall. intros x Hx. apply IHa. rewrite forallb_forall in H2. apply H2, Hx.
Qed.
