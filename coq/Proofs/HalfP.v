(** quantizer.go, float16: for EVERY float32 whose value lies in the binary16 normal range
    (2^-14 <= |x| <= 65504), quantising to binary16 and back reconstructs it within half-precision
    rounding: |deq(q x) - x| <= 2^-11 |x| over the reals.  The model's conversion
    (Model.Quantizer.f32_to_f16 / f16_to_f32 = SpecFloat's binary_normalize at (11,16) and (24,128)) is
    Flocq's correctly rounded conversion (Proofs.FloatBridge), so Flocq's relative-error theorem
    for round-to-nearest in a format with gradual underflow applies. *)
From Coq Require Import ZArith Reals Bool Lia Lra.
From Coq Require Import Floats.SpecFloat.
From Flocq Require Import Core.Core IEEE754.BinarySingleNaN.
From Flocq Require Import Relative.
From Comet Require Import Base.FBits Model.Quantizer Proofs.FloatBridge Proofs.FloatBits.

Local Open Scope Z_scope.

Lemma H16mw : 0 < 10. Proof. lia. Qed.
Lemma H16ew : 1 < 5. Proof. lia. Qed.
Lemma H16prec : 10 + 1 < 2 ^ (5 - 1). Proof. reflexivity. Qed.
Lemma H32mw' : 0 < 23. Proof. lia. Qed.
Lemma H32ew' : 1 < 8. Proof. lia. Qed.
Lemma H32prec' : 23 + 1 < 2 ^ (8 - 1). Proof. reflexivity. Qed.

#[local] Instance P16 : Prec_gt_0 11. Proof. unfold Prec_gt_0. lia. Qed.
#[local] Instance E16 : Prec_lt_emax 11 16. Proof. unfold Prec_lt_emax. lia. Qed.
#[local] Instance P24 : Prec_gt_0 24. Proof. unfold Prec_gt_0. lia. Qed.
#[local] Instance E128 : Prec_lt_emax 24 128. Proof. unfold Prec_lt_emax. lia. Qed.

(** the real number a spec_float denotes *)
Definition RV (f : spec_float) : R := SF2R radix2 f.

Section Renorm.
Variables prec emax : Z.
Context (Hp : Prec_gt_0 prec) (He : Prec_lt_emax prec emax).
Notation fexp := (SpecFloat.fexp prec emax).

(** re-rounding a finite spec_float into the format (prec, emax) *)
Definition renorm (f : spec_float) : spec_float :=
  match f with
  | S754_finite s m e => SpecFloat.binary_normalize prec emax (if s then Zneg m else Zpos m) e s
  | _ => f
  end.

Lemma renorm_correct s m e :
  let x := RV (S754_finite s m e) in
  (Rabs (round radix2 fexp ZnearestE x) < bpow radix2 emax)%R ->
  valid_binary prec emax (renorm (S754_finite s m e)) = true /\
  RV (renorm (S754_finite s m e)) = round radix2 fexp ZnearestE x /\
  is_finite_SF (renorm (S754_finite s m e)) = true.
Proof.
  intros x Hlt. unfold renorm.
  rewrite (binary_normalize_equiv prec emax Hp He).
  set (z := binary_normalize prec emax Hp He mode_NE (if s then Z.neg m else Z.pos m) e s).
  pose proof (binary_normalize_correct prec emax Hp He mode_NE (if s then Z.neg m else Z.pos m) e s) as C.
  cbv zeta in C. fold z in C.
  assert (Ex : F2R (Float radix2 (if s then Z.neg m else Z.pos m) e) = x).
  { unfold x, RV, SF2R. destruct s; reflexivity. }
  rewrite Ex in C. change (round_mode mode_NE) with ZnearestE in C.
  rewrite Rlt_bool_true in C by exact Hlt.
  destruct C as (C1 & C2 & _).
  split; [apply valid_binary_B2SF|]. split.
  - unfold RV. rewrite <- C1. unfold B2R. destruct z; reflexivity.
  - rewrite is_finite_SF_B2SF. exact C2.
Qed.
End Renorm.

Notation fexp16 := (SpecFloat.fexp 11 16).
Notation fexp32 := (SpecFloat.fexp 24 128).

(** every finite binary16 value is a binary32 value *)
Lemma format16_in_32 x : generic_format radix2 fexp16 x -> generic_format radix2 fexp32 x.
Proof.
  intros G.
  change fexp16 with (FLT_exp (-24) 11) in G. change fexp32 with (FLT_exp (-149) 24).
  apply (FLT_format_generic radix2 (-24) 11) in G.
  destruct G as [f E Hm He].
  apply (generic_format_FLT radix2 (-149) 24).
  apply (FLT_spec radix2 (-149) 24 x f E).
  - eapply Z.lt_trans; [exact Hm|]. reflexivity.
  - lia.
Qed.

Lemma RV_valid_generic prec emax (Hp : Prec_gt_0 prec) (He : Prec_lt_emax prec emax) f :
  valid_binary prec emax f = true -> generic_format radix2 (SpecFloat.fexp prec emax) (RV f).
Proof.
  intros Hv. unfold RV.
  replace (SF2R radix2 f) with (B2R (SF2B f Hv)).
  - apply generic_format_B2R.
  - unfold B2R. rewrite <- (B2SF_SF2B prec emax f Hv) at 2. destruct (SF2B f Hv); reflexivity.
Qed.

Lemma max16_format : generic_format radix2 fexp16 65504%R.
Proof.
  change fexp16 with (FLT_exp (-24) 11).
  apply (generic_format_FLT radix2 (-24) 11).
  apply (FLT_spec radix2 (-24) 11 65504%R (Float radix2 2047 5)).
  - unfold F2R. cbn. lra.
  - reflexivity.
  - cbn. lia.
Qed.

Lemma min16_format : generic_format radix2 fexp16 (bpow radix2 (-14)).
Proof.
  change fexp16 with (FLT_exp (-24) 11).
  apply generic_format_bpow. cbn. lia.
Qed.

Theorem half_roundtrip_error (x : Z) :
  wfb 23 8 x ->
  (bpow radix2 (-14) <= Rabs (RV (F32.of_bits x)) <= 65504)%R ->
  let y := f16_to_f32 (f32_to_f16 x) in
  RV (F32.of_bits y) = round radix2 fexp16 ZnearestE (RV (F32.of_bits x)) /\
  (Rabs (RV (F32.of_bits y) - RV (F32.of_bits x)) <= bpow radix2 (-11) * Rabs (RV (F32.of_bits x)))%R.
Proof.
  intros Hw [Hlo Hhi]. cbv zeta.
  pose proof (of_bits_valid 23 8 H32mw' H32ew' H32prec' x Hw) as Hv.
  unfold F32.of_bits, F32.mw, F32.ew in *. remember (of_bits 23 8 x) as fx eqn:Efx in *. symmetry in Efx.
  assert (Hpos : (0 < bpow radix2 (-14))%R) by apply bpow_gt_0.
  destruct fx as [sz|si| |s m e];
    try (exfalso; unfold RV, SF2R in Hlo; rewrite Rabs_R0 in Hlo; lra).
  set (rx := RV (S754_finite s m e)) in *.
  (* step 1: to binary16 *)
  assert (H16 : (Rabs (round radix2 fexp16 ZnearestE rx) < bpow radix2 16)%R).
  { eapply Rle_lt_trans.
    - apply abs_round_le_generic; [apply FLT_exp_valid; exact P16|apply valid_rnd_N|exact max16_format|exact Hhi].
    - cbn. lra. }
  destruct (renorm_correct 11 16 P16 E16 s m e H16) as (Vg & Rg & Fg).
  remember (renorm 11 16 (S754_finite s m e)) as g eqn:Eg0.
  assert (Eh : f32_to_f16 x = to_bits 10 5 g).
  { unfold f32_to_f16, round_sf, F32.of_bits, F32.mw, F32.ew. rewrite Efx. rewrite Eg0. reflexivity. }
  assert (Eg : of_bits 10 5 (to_bits 10 5 g) = g) by (apply (of_to_bits 10 5 H16mw H16ew H16prec); exact Vg).
  (* the binary16 value is not zero *)
  assert (Hge : (bpow radix2 (-14) <= Rabs (RV g))%R).
  { rewrite Rg. apply abs_round_ge_generic;
      [apply FLT_exp_valid; exact P16|apply valid_rnd_N|exact min16_format|exact Hlo]. }
  destruct g as [sz|si| |s' m' e'];
    try (exfalso; unfold RV, SF2R in Hge; rewrite Rabs_R0 in Hge; lra).
  (* step 2: back to binary32, exactly *)
  assert (G32 : generic_format radix2 fexp32 (RV (S754_finite s' m' e'))).
  { apply format16_in_32. apply (RV_valid_generic 11 16 P16 E16). exact Vg. }
  assert (R32 : round radix2 fexp32 ZnearestE (RV (S754_finite s' m' e')) = RV (S754_finite s' m' e')).
  { apply round_generic; [apply valid_rnd_N|exact G32]. }
  assert (H32 : (Rabs (round radix2 fexp32 ZnearestE (RV (S754_finite s' m' e'))) < bpow radix2 128)%R).
  { rewrite R32, Rg. eapply Rlt_trans; [exact H16|]. apply bpow_lt. lia. }
  destruct (renorm_correct 24 128 P24 E128 s' m' e' H32) as (Vy & Ry & _).
  assert (Ey : f16_to_f32 (f32_to_f16 x) = to_bits 23 8 (renorm 24 128 (S754_finite s' m' e'))).
  { unfold f16_to_f32. rewrite Eh, Eg. reflexivity. }
  rewrite Ey. rewrite (of_to_bits 23 8 H32mw' H32ew' H32prec' _ Vy).
  rewrite Ry, R32, Rg.
  split; [reflexivity|].
  pose proof (relative_error_N_FLT radix2 (-24) 11 P16 (fun z => negb (Z.even z)) rx) as Hrel.
  change (FLT_exp (-24) 11) with fexp16 in Hrel.
  change (Znearest (fun z => negb (Z.even z))) with ZnearestE in Hrel.
  replace (bpow radix2 (-11)) with (/ 2 * bpow radix2 (-11 + 1))%R by (cbn; lra).
  apply Hrel. exact Hlo.
Qed.

(** the same for whole vectors *)
Definition in_half_range (x : Z) : Prop :=
  wfb 23 8 x /\ (bpow radix2 (-14) <= Rabs (RV (F32.of_bits x)) <= 65504)%R.
Definition within_half_rounding (x y : Z) : Prop :=
  (Rabs (RV (F32.of_bits y) - RV (F32.of_bits x)) <= bpow radix2 (-11) * Rabs (RV (F32.of_bits x)))%R.

Theorem half_vector_error (v : list Z) :
  List.Forall in_half_range v -> List.Forall2 within_half_rounding v (dq16 (q16 v)).
Proof.
  induction v as [|x t IH]; intros H; [constructor|].
  inversion H as [|? ? [Hw Hr] Ht]; subst. unfold q16, dq16 in *. cbn [List.map]. constructor.
  - exact (proj2 (half_roundtrip_error x Hw Hr)).
  - apply IH, Ht.
Qed.

Example half_range_inhabited : in_half_range 1065353216 /\ in_half_range 947912704 /\ in_half_range 1199562752.
Proof.
  unfold in_half_range, wfb, RV, F32.of_bits. repeat split; try (vm_compute; congruence);
    (vm_compute of_bits; unfold SF2R, F2R; cbn; rewrite Rabs_pos_eq; lra).
Qed.
