(** C17: mutual exclusion of the directory lock over every interleaving. *)
From Coq Require Import ZArith List Bool Lia.
From Comet Require Import Model.Lock.
Import ListNotations.
Open Scope Z_scope.

Definition linv (s : lstate) : Prop :=
  NoDup (map fst (handles s)) /\
  length (owners s) = (if lock s then 1 else 0)%nat.

Lemma get_in h s p : NoDup (map fst (handles s)) -> (In (h, p) (handles s) <-> (get h s = p /\ (p <> Fresh \/ In (h, Fresh) (handles s)))).
Proof.
  intro Hnd. unfold get. split.
  - intro Hin. destruct (find (fun x => fst x =? h) (handles s)) as [x|] eqn:E.
    + apply find_some in E. destruct E as [Hx He]. apply Z.eqb_eq in He. destruct x as [h' p']. cbn in *. subst h'.
      assert (p' = p).
      { clear - Hnd Hin Hx. induction (handles s) as [|a t IH]; [contradiction|].
        cbn [map] in Hnd. inversion Hnd as [|? ? Hni Hnd']; subst.
        destruct Hin as [->|Hin]; destruct Hx as [Hx|Hx].
        - inversion Hx; reflexivity.
        - exfalso. apply Hni. apply in_map_iff. exists (h, p'). auto.
        - subst a. exfalso. apply Hni. apply in_map_iff. exists (h, p). auto.
        - apply IH; assumption. }
      subst. split; [reflexivity|]. destruct p; try (left; discriminate). right. exact Hin.
    + eapply find_none in E; [|exact Hin]. cbn in E. rewrite Z.eqb_refl in E. discriminate.
  - intros [Hg Hor]. destruct (find (fun x => fst x =? h) (handles s)) as [x|] eqn:E.
    + apply find_some in E. destruct E as [Hx He]. apply Z.eqb_eq in He. destruct x as [h' p']. cbn in *. subst. exact Hx.
    + subst p. destruct Hor as [Hc|Hin]; [congruence | exact Hin].
Qed.

Definition own_of (l : list (Z * phase)) : nat := length (filter (fun x => owning (snd x)) l).
Definition ph_of (h : Z) (l : list (Z * phase)) : phase :=
  match find (fun x => fst x =? h) l with Some x => snd x | None => Fresh end.

Lemma own_filter_out (h : Z) (l : list (Z * phase)) : NoDup (map fst l) ->
  (own_of (filter (fun x => negb (Z.eqb (fst x) h)) l) + (if owning (ph_of h l) then 1 else 0) = own_of l)%nat.
Proof.
  unfold own_of, ph_of. induction l as [|a t IH]; intro Hnd; [reflexivity|].
  cbn [map] in Hnd. inversion Hnd as [|? ? Hni Hnd']; subst.
  cbn [filter find]. destruct (Z.eqb_spec (fst a) h) as [He|Hn]; cbn [negb].
  - assert (Hrest : filter (fun x => negb (fst x =? h)) t = t).
    { clear - Hni He. induction t as [|b u IHu]; [reflexivity|]. cbn [filter].
      destruct (Z.eqb_spec (fst b) h) as [Hb|Hb].
      - exfalso. apply Hni. left. congruence.
      - cbn [negb]. f_equal. apply IHu. intro Hc. apply Hni. right. exact Hc. }
    rewrite Hrest. destruct (owning (snd a)); cbn [length]; lia.
  - cbn [filter]. specialize (IH Hnd'). destruct (owning (snd a)); cbn [length]; lia.
Qed.

Lemma owners_set h p s l : NoDup (map fst (handles s)) ->
  (length (owners (set h p s l)) + (if owning (get h s) then 1 else 0))%nat =
  ((if owning p then 1 else 0) + length (owners s))%nat.
Proof.
  intro Hnd. unfold owners. rewrite !map_length. unfold set. cbn [handles filter snd].
  pose proof (own_filter_out h (handles s) Hnd) as H. unfold own_of, ph_of in H. unfold get.
  destruct (owning p); cbn [length]; lia.
Qed.

Lemma nodup_set h p s l : NoDup (map fst (handles s)) -> NoDup (map fst (handles (set h p s l))).
Proof.
  intro Hnd. unfold set. cbn [handles map fst]. constructor.
  - intro Hc. apply in_map_iff in Hc. destruct Hc as [x [Hx Hin]]. apply filter_In in Hin.
    destruct Hin as [_ Hn]. rewrite Hx, Z.eqb_refl in Hn. discriminate.
  - clear - Hnd. induction (handles s) as [|a t IH]; [constructor|].
    cbn [map] in Hnd. inversion Hnd as [|? ? Hni Hnd']; subst. cbn [filter].
    destruct (negb (fst a =? h)); [|apply IH; exact Hnd'].
    cbn [map]. constructor; [|apply IH; exact Hnd'].
    intro Hc. apply Hni. apply in_map_iff in Hc. destruct Hc as [x [Hx Hin]]. apply filter_In in Hin.
    apply in_map_iff. exists x. tauto.
Qed.

Lemma linv_step s e : linv s -> linv (fst (lstep s e)).
Proof.
  intros [Hnd Hc]. destruct e as [h|h ok|h|h|h]; cbn [lstep].
  - destruct (get h s) eqn:G; try (split; assumption).
    destruct (lock s) eqn:L; cbn [fst]; (split; [apply nodup_set; exact Hnd|]);
      match goal with |- context [set h ?p s ?l] => pose proof (owners_set h p s l Hnd) as Ho end;
      rewrite G in Ho; cbn [owning lock set] in *; rewrite ?L in *; lia.
  - destruct (get h s) eqn:G; try (split; assumption).
    destruct ok; cbn [fst]; (split; [apply nodup_set; exact Hnd|]);
      match goal with |- context [set h ?p s ?l] => pose proof (owners_set h p s l Hnd) as Ho end;
      rewrite G in Ho; cbn [owning lock set] in *.
    + destruct (lock s); lia.
    + destruct (lock s); [lia|]. exfalso.
      (* a Pending handle owns, so the lock is held *)
      assert (Hin : In h (owners s)).
      { unfold owners. apply in_map_iff. exists (h, Pending). split; [reflexivity|]. apply filter_In. split; [|reflexivity].
        apply get_in; [exact Hnd|]. split; [exact G | left; discriminate]. }
      destruct (owners s); [contradiction | discriminate].
  - destruct (get h s) eqn:G; try (split; assumption); cbn [fst].
    split; [apply nodup_set; exact Hnd|].
    match goal with |- context [set h ?p s ?l] => pose proof (owners_set h p s l Hnd) as Ho end.
    rewrite G in Ho. cbn [owning lock set] in *. destruct (lock s); lia.
  - destruct (get h s) eqn:G; try (split; assumption); cbn [fst].
    split; [apply nodup_set; exact Hnd|].
    match goal with |- context [set h ?p s ?l] => pose proof (owners_set h p s l Hnd) as Ho end.
    rewrite G in Ho. cbn [owning lock set] in *.
    destruct (lock s); [lia|]. exfalso.
    assert (Hin : In h (owners s)).
    { unfold owners. apply in_map_iff. exists (h, Closing). split; [reflexivity|]. apply filter_In. split; [|reflexivity].
      apply get_in; [exact Hnd|]. split; [exact G | left; discriminate]. }
    destruct (owners s); [contradiction | discriminate].
  - destruct (get h s); split; assumption.
Qed.

(** for EVERY interleaving of open attempts, scans, closes and uses by any number of handles:
    the directory has at most one owner, and LOCK exists exactly while there is one *)
Theorem lock_mutual_exclusion es : linv (lrun es).
Proof.
  unfold lrun.
  assert (H : forall s, linv s -> linv (fold_left (fun s e => fst (lstep s e)) es s)).
  { induction es as [|e t IH]; intros s Hs; cbn [fold_left]; [exact Hs|]. apply IH. apply linv_step. exact Hs. }
  apply H. split; [constructor | reflexivity].
Qed.

Corollary at_most_one_owner es : (length (owners (lrun es)) <= 1)%nat.
Proof. destruct (lock_mutual_exclusion es) as [_ H]. rewrite H. destruct (lock (lrun es)); lia. Qed.

Lemma get_set_other h h' p s l : h' <> h -> get h' (set h p s l) = get h' s.
Proof.
  intro Hn. unfold get, set. cbn [handles find fst].
  destruct (Z.eqb_spec h h') as [He|_]; [congruence|].
  induction (handles s) as [|a t IH]; [reflexivity|]. cbn [filter find].
  destruct (Z.eqb_spec (fst a) h) as [Ha|Ha]; cbn [negb].
  - destruct (Z.eqb_spec (fst a) h'); [congruence | exact IH].
  - cbn [find]. destruct (fst a =? h'); [reflexivity | exact IH].
Qed.

Lemma get_set_same h p s l : get h (set h p s l) = p.
Proof. unfold get, set. cbn [handles find fst]. rewrite Z.eqb_refl. reflexivity. Qed.

(** opening a directory that is owned fails without touching the LOCK or any other handle *)
Theorem open_busy_no_effect s h : get h s = Fresh -> lock s = true ->
  snd (lstep s (ETryLock h)) = 1 /\ lock (fst (lstep s (ETryLock h))) = true /\
  (forall h', h' <> h -> get h' (fst (lstep s (ETryLock h))) = get h' s).
Proof.
  intros G L. cbn [lstep]. rewrite G, L. cbn [fst snd]. split; [reflexivity|]. split; [reflexivity|].
  intros h' Hn. apply get_set_other. exact Hn.
Qed.

(** an open whose directory scan fails leaves no lock behind *)
Theorem failed_open_leaves_no_lock s h : get h s = Pending ->
  lock (fst (lstep s (EScan h false))) = false /\ snd (lstep s (EScan h false)) = 2.
Proof. intro G. cbn [lstep]. rewrite G. split; reflexivity. Qed.

(** Close releases ownership; a second Close reports an error and changes nothing; every use after
    Close fails *)
Theorem close_releases s h : get h s = Closing -> lock (fst (lstep s (ERelease h))) = false.
Proof. intro G. cbn [lstep]. rewrite G. reflexivity. Qed.

Theorem second_close_errors_no_effect s h : (get h s = Closing \/ get h s = Closed) ->
  lstep s (ECloseFlag h) = (s, 3).
Proof. intros [G|G]; cbn [lstep]; rewrite G; reflexivity. Qed.

Theorem use_after_close_fails s h : (get h s = Closing \/ get h s = Closed) -> lstep s (EUse h) = (s, 3).
Proof. intros [G|G]; cbn [lstep]; rewrite G; reflexivity. Qed.

(** after a completed Close the next open succeeds *)
Theorem reopen_after_close s h h2 : linv s -> get h s = Closing -> get h2 s = Fresh -> h2 <> h ->
  snd (lstep (fst (lstep s (ERelease h))) (ETryLock h2)) = 0.
Proof.
  intros _ G G2 Hn. cbn [lstep]. rewrite G. cbn [fst]. rewrite get_set_other by exact Hn. rewrite G2. reflexivity.
Qed.
