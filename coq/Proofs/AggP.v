(** C19: aggregation returns each id once with the fold of its scores (in input order), best first. *)
From Coq Require Import ZArith List Bool Lia Permutation Sorted.
From Comet Require Import Base.FBits Base.Sorting Model.Aggregation Proofs.SortingP.
Import ListNotations.
Open Scope Z_scope.

Definition scores_of (id : Z) (l : list (Z * Z)) : list Z :=
  map snd (filter (fun p => fst p =? id) l).

Fixpoint assoc {B} (id : Z) (m : list (Z * B)) : option B :=
  match m with [] => None | (i, x) :: t => if i =? id then Some x else assoc id t end.

Lemma assoc_in_keys {B} id (m : list (Z * B)) : assoc id m <> None <-> In id (map fst m).
Proof.
  induction m as [|[i x] t IH]; cbn [assoc map fst In]; [split; [congruence | tauto]|].
  destruct (Z.eqb_spec i id) as [->|Hn].
  - split; [intros _; now left | discriminate].
  - rewrite IH. split; [intro H; now right | intros [H|H]; [congruence | exact H]].
Qed.

Lemma group_add_assoc id s acc j :
  assoc j (group_add id s acc) =
  if j =? id then Some (match assoc id acc with Some ss => ss ++ [s] | None => [s] end)
  else assoc j acc.
Proof.
  induction acc as [|[i ss] t IH]; cbn [group_add assoc].
  - rewrite (Z.eqb_sym id j). destruct (j =? id); reflexivity.
  - destruct (Z.eqb_spec i id) as [->|Hn]; cbn [assoc].
    + destruct (Z.eqb_spec id j) as [->|Hj]; [now rewrite Z.eqb_refl|].
      destruct (Z.eqb_spec j id); [congruence | reflexivity].
    + destruct (Z.eqb_spec i j) as [->|Hij].
      * destruct (Z.eqb_spec j id); [congruence | reflexivity].
      * exact IH.
Qed.

Lemma group_add_keys id s acc :
  map fst (group_add id s acc) = if existsb (fun x => fst x =? id) acc then map fst acc else map fst acc ++ [id].
Proof.
  induction acc as [|[i ss] t IH]; cbn [group_add map fst existsb]; [reflexivity|].
  destruct (Z.eqb_spec i id) as [->|Hn]; cbn [map fst orb]; [reflexivity|].
  rewrite IH. destruct (existsb _ t); reflexivity.
Qed.

Lemma group_add_nodup id s acc : NoDup (map fst acc) -> NoDup (map fst (group_add id s acc)).
Proof.
  intro H. rewrite group_add_keys. destruct (existsb (fun x => fst x =? id) acc) eqn:E; [exact H|].
  assert (Hni : ~ In id (map fst acc)).
  { intro Hc. apply in_map_iff in Hc. destruct Hc as [x [Hx Hin]].
    assert (existsb (fun x => fst x =? id) acc = true) by (apply existsb_exists; exists x; split; [exact Hin | now apply Z.eqb_eq]).
    congruence. }
  clear E. induction (map fst acc) as [|a t IH]; cbn [app]; [constructor; [intros [] | constructor]|].
  inversion H as [|? ? Ha Ht]; subst. constructor.
  - intro Hc. apply in_app_or in Hc. destruct Hc as [Hc|[Hc|[]]]; [contradiction | subst; apply Hni; now left].
  - apply IH; [exact Ht | intro Hc; apply Hni; now right].
Qed.

(** invariant of the grouping fold *)
Lemma group_fold_spec : forall l acc done,
  NoDup (map fst acc) ->
  (forall j, assoc j acc = match scores_of j done with [] => None | ss => Some ss end) ->
  let g := fold_left (fun acc p => group_add (fst p) (snd p) acc) l acc in
  NoDup (map fst g) /\
  (forall j, assoc j g = match scores_of j (done ++ l) with [] => None | ss => Some ss end).
Proof.
  induction l as [|[i s] t IH]; intros acc done Hnd Ha; cbn [fold_left fst snd].
  - rewrite app_nil_r. split; assumption.
  - replace (done ++ (i, s) :: t) with ((done ++ [(i, s)]) ++ t) by (rewrite <- app_assoc; reflexivity).
    apply IH; [apply group_add_nodup; exact Hnd|].
    intro j. rewrite group_add_assoc. unfold scores_of. rewrite filter_app, map_app. cbn [filter fst].
    destruct (Z.eqb_spec j i) as [->|Hn].
    + rewrite Z.eqb_refl. cbn [map snd]. rewrite Ha. unfold scores_of.
      destruct (map snd (filter (fun p => fst p =? i) done)); reflexivity.
    + destruct (Z.eqb_spec i j); [congruence|]. cbn [map]. rewrite app_nil_r. apply Ha.
Qed.

Theorem group_spec l :
  NoDup (map fst (group l)) /\
  (forall j, assoc j (group l) = match scores_of j l with [] => None | ss => Some ss end).
Proof.
  unfold group. apply (group_fold_spec l [] []); [constructor|]. intro j. reflexivity.
Qed.

Lemma scores_of_nonempty j l : scores_of j l <> [] <-> In j (map fst l).
Proof.
  unfold scores_of. induction l as [|[i s] t IH]; cbn [filter map fst In]; [split; [congruence | tauto]|].
  destruct (Z.eqb_spec i j) as [->|Hn]; cbn [map].
  - split; [intros _; now left | discriminate].
  - rewrite IH. split; [intro H; now right | intros [H|H]; [congruence | exact H]].
Qed.

Lemma assoc_in {B} (m : list (Z * B)) j x : NoDup (map fst m) -> (In (j, x) m <-> assoc j m = Some x).
Proof.
  induction m as [|[i y] t IH]; intro Hnd; cbn [assoc In]; [split; [tauto | discriminate]|].
  cbn [map fst] in Hnd. inversion Hnd as [|? ? Hni Ht]; subst.
  destruct (Z.eqb_spec i j) as [->|Hn].
  - split.
    + intros [H|H]; [inversion H; reflexivity|]. exfalso. apply Hni. apply in_map_iff. exists (j, x). auto.
    + intro H. inversion H. now left.
  - rewrite <- IH by exact Ht. split; [intros [H|H]; [inversion H; congruence | exact H] | intro H; now right].
Qed.

(** every input id exactly once, with the sum / max / mean of its scores taken in input order *)
Theorem agg_scores_spec k l :
  NoDup (map fst (agg_scores k l)) /\
  (forall j, In j (map fst (agg_scores k l)) <-> In j (map fst l)) /\
  (forall j s, In (j, s) (agg_scores k l) -> s = agg_score k (scores_of j l)).
Proof.
  destruct (group_spec l) as [Hnd Ha]. unfold agg_scores.
  assert (Hk : map fst (map (fun g => (fst g, agg_score k (snd g))) (group l)) = map fst (group l))
    by (rewrite map_map; apply map_ext; reflexivity).
  split; [rewrite Hk; exact Hnd|]. split.
  - intro j. rewrite Hk, <- assoc_in_keys, Ha, <- scores_of_nonempty.
    destruct (scores_of j l); split; congruence.
  - intros j s Hin. apply in_map_iff in Hin. destruct Hin as [[i ss] [Heq Hin]]. cbn [fst snd] in Heq.
    inversion Heq; subst. apply assoc_in in Hin; [|exact Hnd]. rewrite Ha in Hin.
    destruct (scores_of j l); [discriminate | inversion Hin; reflexivity].
Qed.

(** the aggregated list is a best-first permutation of those pairs (vector flavour: ascending) *)
Theorem aggregate_vec_spec k l :
  Permutation (agg_scores k l) (aggregate_vec k l) /\
  StronglySorted (le_key (fun p : Z * Z => F32.key (snd p))) (aggregate_vec k l).
Proof. unfold aggregate_vec. split; [apply isort_perm | apply isort_strongly_sorted]. Qed.

Theorem aggregate_txt_spec k l :
  Permutation (agg_scores k l) (aggregate_txt k l) /\
  StronglySorted (le_key (fun p : Z * Z => - F32.key (snd p))) (aggregate_txt k l).
Proof. unfold aggregate_txt. split; [apply isort_perm | apply isort_strongly_sorted]. Qed.

(** input order only matters inside each id's own score list: if every id's scores appear in the
    same order in two inputs, the outputs have the same (id, score) pairs *)
Theorem agg_scores_order_independent k l1 l2 :
  (forall j, scores_of j l1 = scores_of j l2) ->
  forall j s, In (j, s) (agg_scores k l1) <-> In (j, s) (agg_scores k l2).
Proof.
  intros H j s.
  destruct (agg_scores_spec k l1) as [N1 [K1 S1]]. destruct (agg_scores_spec k l2) as [N2 [K2 S2]].
  assert (G : forall la lb, (forall j, scores_of j la = scores_of j lb) ->
              In (j, s) (agg_scores k la) -> In (j, s) (agg_scores k lb)).
  { intros la lb Hab Hin.
    destruct (agg_scores_spec k la) as [Na [Ka Sa]]. destruct (agg_scores_spec k lb) as [Nb [Kb Sb]].
    assert (Hj : In j (map fst (agg_scores k lb))).
    { apply Kb. apply scores_of_nonempty. rewrite <- Hab. apply scores_of_nonempty. apply Ka.
      apply in_map_iff. exists (j, s). auto. }
    apply in_map_iff in Hj. destruct Hj as [[j' s'] [Hfst Hin']]. cbn in Hfst. subst j'.
    rewrite (Sa _ _ Hin), Hab, <- (Sb _ _ Hin'). exact Hin'. }
  split; apply G; [exact H | intro; symmetry; apply H].
Qed.
