(** C05 / C06: structural facts about the hybrid index model. *)
From Coq Require Import ZArith List Bool Lia Permutation Sorted.
From Comet Require Import Base.FBits Base.Parse Base.Sorting.
From Comet Require Import Model.Distance Model.Limiter Model.Aggregation Model.Fusion Model.KMeans Model.VecIndex.
From Comet Require Import Model.BM25 Model.BSI Model.Metadata Model.Hybrid.
From Comet Require Import Proofs.SortingP Proofs.FlatP.
Import ListNotations.
Open Scope Z_scope.

(** C06: a failing Add / AddWithID leaves the whole hybrid state — every modality — unchanged *)
Theorem hy_add_atomic s id v toks fields s' e :
  hy_add s id v toks fields = (s', e) -> e <> 0 -> s' = s.
Proof.
  unfold hy_add. intros H He.
  destruct (hy_meta s) as [ms|]; destruct fields as [|f0 fs].
  - (* meta configured, no fields *)
    destruct (hy_vec s) as [vs|]; [destruct v as [[|x xs]|]|].
    + inversion H; subst. destruct (hy_txt s); destruct toks; cbn in *; inversion H; congruence.
    + destruct (vadd_op (hy_p s) vs id (x :: xs)) as [vs' ev] eqn:Ev. destruct ev; [|inversion H; reflexivity|inversion H; reflexivity].
      destruct (hy_txt s); destruct toks; cbn in H; inversion H; congruence.
    + destruct (hy_txt s); destruct toks; cbn in H; inversion H; congruence.
    + destruct (hy_txt s); destruct toks; cbn in H; inversion H; congruence.
  - destruct (existsb _ (f0 :: fs)); [inversion H; reflexivity|].
    destruct (hy_vec s) as [vs|]; [destruct v as [[|x xs]|]|].
    + destruct (hy_txt s); destruct toks; cbn in H; inversion H; congruence.
    + destruct (vadd_op (hy_p s) vs id (x :: xs)) as [vs' ev] eqn:Ev. destruct ev; [|inversion H; reflexivity|inversion H; reflexivity].
      destruct (hy_txt s); destruct toks; cbn in H; inversion H; congruence.
    + destruct (hy_txt s); destruct toks; cbn in H; inversion H; congruence.
    + destruct (hy_txt s); destruct toks; cbn in H; inversion H; congruence.
  - destruct (hy_vec s) as [vs|]; [destruct v as [[|x xs]|]|].
    + destruct (hy_txt s); destruct toks; cbn in H; inversion H; congruence.
    + destruct (vadd_op (hy_p s) vs id (x :: xs)) as [vs' ev] eqn:Ev. destruct ev; [|inversion H; reflexivity|inversion H; reflexivity].
      destruct (hy_txt s); destruct toks; cbn in H; inversion H; congruence.
    + destruct (hy_txt s); destruct toks; cbn in H; inversion H; congruence.
    + destruct (hy_txt s); destruct toks; cbn in H; inversion H; congruence.
  - destruct (hy_vec s) as [vs|]; [destruct v as [[|x xs]|]|].
    + destruct (hy_txt s); destruct toks; cbn in H; inversion H; congruence.
    + destruct (vadd_op (hy_p s) vs id (x :: xs)) as [vs' ev] eqn:Ev. destruct ev; [|inversion H; reflexivity|inversion H; reflexivity].
      destruct (hy_txt s); destruct toks; cbn in H; inversion H; congruence.
    + destruct (hy_txt s); destruct toks; cbn in H; inversion H; congruence.
    + destruct (hy_txt s); destruct toks; cbn in H; inversion H; congruence.
Qed.

(** removing an unknown (or already removed) id fails and changes nothing *)
Theorem hy_remove_unknown s id : info_get id (hy_info s) = None -> hy_remove s id = (s, E_NOTFOUND).
Proof. intro H. unfold hy_remove. rewrite H. reflexivity. Qed.

(** a successful removal forgets the document, so a second removal fails *)
Theorem hy_remove_total s id s' : hy_remove s id = (s', 0) -> info_get id (hy_info s') = None.
Proof.
  unfold hy_remove. destruct (info_get id (hy_info s)) as [i|]; [|discriminate].
  destruct (hy_vec s) as [vs|].
  - destruct (di_vec i).
    + destruct (vremove_op vs id) as [vs' e]. destruct e; intro H; inversion H; subst; cbn [hy_info].
      unfold info_get. destruct (find _ _) as [x|] eqn:E; [|reflexivity].
      apply find_some in E. destruct E as [Hin He]. apply filter_In in Hin. destruct Hin as [_ Hn].
      rewrite He in Hn. discriminate.
    + intro H; inversion H; subst; cbn [hy_info].
      unfold info_get. destruct (find _ _) as [x|] eqn:E; [|reflexivity].
      apply find_some in E. destruct E as [Hin He]. apply filter_In in Hin. destruct Hin as [_ Hn].
      rewrite He in Hn. discriminate.
  - intro H; inversion H; subst; cbn [hy_info].
    unfold info_get. destruct (find _ _) as [x|] eqn:E; [|reflexivity].
    apply find_some in E. destruct E as [Hin He]. apply filter_In in Hin. destruct Hin as [_ Hn].
    rewrite He in Hn. discriminate.
Qed.

(** C05: at most k results, best first *)
Ltac crunch H :=
  repeat match type of H with
         | context [match ?x with _ => _ end] => destruct x eqn:?; try discriminate
         end.
Ltac leb_hyps :=
  repeat match goal with
         | E : (_ <=? _) = true |- _ => apply Z.leb_le in E
         | E : (_ <=? _) = false |- _ => apply Z.leb_gt in E
         end.

Lemma hy_final_bounded combined k full n : hy_final combined k = (full, n) -> 0 <= k ->
  Z.of_nat n <= k /\ (n <= length full)%nat /\ Permutation combined full /\
  StronglySorted (le_key (fun p => - F64.key (snd p))) full.
Proof.
  unfold hy_final. intros H Hk. inversion H; subst; clear H.
  split; [|split; [|split; [apply isort_perm | apply isort_strongly_sorted]]];
    destruct (Z.leb_spec (Z.of_nat (length (isort (fun p => - F64.key (snd p)) combined))) k); lia.
Qed.

Theorem hy_search_bounded s rq o : hy_search s rq = HOk o -> 0 <= hq_k rq ->
  Z.of_nat (ho_n o) <= hq_k rq /\ (ho_n o <= length (ho_full o))%nat /\
  StronglySorted (le_key (fun p => - F64.key (snd p))) (ho_full o).
Proof.
  unfold hy_search. intros H Hk. Opaque hy_final.
  crunch H; inversion H; subst; cbn [ho_n ho_full length];
    try (split; [lia | split; [lia | constructor]]);
    match goal with E : hy_final _ _ = (_, _) |- _ => destruct (hy_final_bounded _ _ _ _ E Hk) as [? [? [? ?]]]; auto end.
  Transparent hy_final.
Qed.

(** ---- C06: remove + add is an update (vector kinds and BM25) ---- *)
Lemma in_app_nth {A} (x e : A) n ls : In x (concat (app_nth n e ls)) -> x = e \/ In x (concat ls).
Proof.
  revert n. induction ls as [|l t IH]; intros n H; [destruct n; cbn in H; contradiction|].
  destruct n as [|n]; cbn [app_nth concat] in H |- *; apply in_app_or in H.
  - destruct H as [H|H]; [|right; apply in_or_app; now right].
    apply in_app_or in H. destruct H as [H|[H|[]]]; [right; apply in_or_app; now left | left; auto].
  - destruct H as [H|H]; [right; apply in_or_app; now left|].
    destruct (IH _ H) as [He|Hin]; [left; exact He | right; apply in_or_app; now right].
Qed.

Lemma app_nth_in {A} (e : A) n ls : (n < length ls)%nat -> In e (concat (app_nth n e ls)).
Proof.
  revert n. induction ls as [|l t IH]; intros n H; cbn [length] in H; [lia|].
  destruct n as [|n]; cbn [app_nth concat]; apply in_or_app.
  - left. apply in_or_app. right. now left.
  - right. apply IH. lia.
Qed.

Lemma memz_filter_neq x id l : memz x (filter (fun y => negb (y =? id)) l) = negb (x =? id) && memz x l.
Proof.
  induction l as [|y t IH]; cbn [filter memz]; [now rewrite andb_false_r|].
  destruct (Z.eqb_spec y id) as [->|Hn]; cbn [negb].
  - rewrite IH. destruct (Z.eqb_spec x id); cbn [negb andb orb]; reflexivity.
  - cbn [memz]. rewrite IH. destruct (Z.eqb_spec x y) as [->|Hxy]; cbn [orb].
    + destruct (Z.eqb_spec y id); [contradiction | reflexivity].
    + reflexivity.
Qed.

(** after a successful Add the id is live, other ids keep their status, every OTHER entry of the
    index is an old entry, and — if the id had been removed — no stale entry with that id survives *)
Theorem vadd_is_update p s id v s' :
  vadd_op p s id v = (s', 0) ->
  memz id (st_deleted s') = false /\
  (forall x, x <> id -> memz x (st_deleted s') = memz x (st_deleted s)) /\
  exists e, e_id e = id /\ preprocess (p_metric p) v = Some (e_vec e) /\
    (forall x, In x (all_entries s') -> x = e \/ (In x (all_entries s) /\
                                                  (memz id (st_deleted s) = true -> e_id x <> id))).
Proof.
  unfold vadd_op. destruct (negb (st_trained s)); [discriminate|].
  destruct (negb (Z.of_nat (length v) =? p_dim p)); [discriminate|].
  destruct (preprocess (p_metric p) v) as [w|]; [|discriminate].
  destruct (memz id (st_deleted s)) eqn:Ed; intro H; inversion H; subst s'; clear H; cbn [st_deleted st_lists].
  - split; [rewrite memz_filter_neq, Z.eqb_refl; reflexivity|]. split.
    + intros x Hx. rewrite memz_filter_neq. apply Z.eqb_neq in Hx. now rewrite Hx.
    + eexists (Build_entry id w _). split; [reflexivity|]. split; [reflexivity|].
      intros x Hx. unfold all_entries in *. cbn [st_lists] in Hx. apply in_app_nth in Hx.
      destruct Hx as [Hx|Hx]; [left; exact Hx|]. right.
      rewrite concat_filter in Hx. apply filter_In in Hx. destruct Hx as [Hin Hne].
      split; [exact Hin|]. intros _. apply negb_true_iff, Z.eqb_neq in Hne. exact Hne.
  - split; [exact Ed|]. split; [reflexivity|].
    eexists (Build_entry id w _). split; [reflexivity|]. split; [reflexivity|].
    intros x Hx. unfold all_entries in *. cbn [st_lists] in Hx. apply in_app_nth in Hx.
    destruct Hx as [Hx|Hx]; [left; exact Hx | right; split; [exact Hx | discriminate]].
Qed.

(** BM25: adding (again) makes the id live and its text exactly the new one *)
Theorem badd_is_update s id toks :
  memz id (b_deleted (badd s id toks)) = false /\
  (forall x, x <> id -> memz x (b_deleted (badd s id toks)) = memz x (b_deleted s)).
Proof.
  unfold badd. cbn [b_deleted].
  assert (Hd : b_deleted (bremove_internal s id) = b_deleted s)
    by (unfold bremove_internal; destruct (doc_tokens s id); reflexivity).
  rewrite Hd. split.
  - rewrite memz_filter_neq, Z.eqb_refl. reflexivity.
  - intros x Hx. rewrite memz_filter_neq. apply Z.eqb_neq in Hx. now rewrite Hx.
Qed.
