(** C19: Autocut never panics — for EVERY list of float32 bit patterns, including the two-element
    lists (where the code reads diff[i-2] only if diff[1] > diff[0], and diff[1] is x/x - 1).
    Uses the Flocq bridge: x / x is exactly 1 or NaN for every pattern x. *)
From Coq Require Import ZArith Reals Bool Lia Lra List.
From Coq Require Import Floats.SpecFloat.
From Flocq Require Import Core.Core IEEE754.BinarySingleNaN.
From Comet Require Import Base.FBits Model.Distance Model.Limiter.
From Comet Require Import Proofs.FloatBridge Proofs.FloatBits Proofs.FloatSF Proofs.FloatOps Proofs.FloatOrder Proofs.DistanceP Proofs.LimiterP.
Import ListNotations.
Open Scope Z_scope.


Local Notation V := (of_bits 23 8).
Local Notation T := (to_bits 23 8).
Local Notation BF := (binary_float P32 E32).

(** a finite non-zero float divided by itself is exactly 1 *)
Lemma Bdiv_self (s : bool) (m : positive) (e : Z) (Hb : SpecFloat.bounded P32 E32 m e = true) :
  let bx : BF := B754_finite s m e Hb in
  B2SF (Bdiv mode_NE bx bx) = S754_finite false 8388608 (-23).
Proof.
  intros bx.
  assert (Nz : B2R bx <> 0%R).
  { unfold bx, B2R. apply F2R_neq_0. cbn. destruct s; discriminate. }
  set (bone := SF2B _ val_one : BF).
  assert (R1 : B2R bone = 1%R) by (unfold bone; rewrite B2R_SF2B; apply R_one).
  generalize (Bdiv_correct P32 E32 P0 PE mode_NE bx bx Nz).
  replace (B2R bx / B2R bx)%R with 1%R by (field; exact Nz).
  assert (Hr : round radix2 (SpecFloat.fexp P32 E32) (round_mode mode_NE) 1 = 1%R).
  { apply round_generic; [apply valid_rnd_round_mode|]. rewrite <- R1. apply generic_format_B2R. }
  rewrite Hr.
  assert (Hlt : Rlt_bool (Rabs 1) (bpow radix2 E32) = true).
  { apply Rlt_bool_true. rewrite Rabs_R1. change 1%R with (bpow radix2 0). apply bpow_lt. reflexivity. }
  rewrite Hlt. intros (HR & HF & HS).
  assert (Fd : BinarySingleNaN.is_finite (Bdiv mode_NE bx bx) = true) by (rewrite HF; reflexivity).
  assert (Nn : BinarySingleNaN.is_nan (Bdiv mode_NE bx bx) = false).
  { destruct (Bdiv mode_NE bx bx); try reflexivity; discriminate. }
  specialize (HS Nn). rewrite xorb_nilpotent in HS.
  assert (E : Bdiv mode_NE bx bx = bone).
  { apply B2R_Bsign_inj; [exact Fd|reflexivity|rewrite HR, R1; reflexivity|rewrite HS; reflexivity]. }
  rewrite E. unfold bone. apply B2SF_SF2B.
Qed.

(** x / x is 1 or NaN, for every float32 bit pattern *)
Lemma div_self_sf (x : spec_float) :
  valid_binary P32 E32 x = true ->
  SFdiv P32 E32 x x = S754_finite false 8388608 (-23) \/ SFdiv P32 E32 x x = S754_nan.
Proof.
  intros Hv. destruct x as [s|s| |s m e]; try (right; reflexivity).
  left. cbn [valid_binary] in Hv.
  change (SFdiv P32 E32 (S754_finite s m e) (S754_finite s m e))
    with (SFdiv P32 E32 (B2SF (B754_finite s m e Hv : BF)) (B2SF (B754_finite s m e Hv : BF))).
  rewrite (SFdiv_equiv P32 E32 P0 PE). apply Bdiv_self.
Qed.

Lemma div_self32 x : wf32 x -> F32.div x x = F32.one \/ F32.is_nan (F32.div x x) = true.
Proof.
  intros Hx. pose proof (V_valid 23 8 H32mw H32ew H32prec x Hx) as Hv.
  change (F32.div x x) with (T (SFdiv P32 E32 (V x) (V x))).
  destruct (div_self_sf (V x) Hv) as [E|E]; rewrite E; [left|right]; vm_compute; reflexivity.
Qed.



Lemma div32_wf a b : wf32 a -> wf32 b -> wf32 (F32.div a b).
Proof. apply (fdiv_wf 23 8 H32mw H32ew H32prec). Qed.
Lemma V_div a b : wf32 a -> wf32 b -> V (F32.div a b) = SFdiv P32 E32 (V a) (V b).
Proof.
  intros Ha Hb. apply (VT 23 8 H32mw H32ew H32prec).
  apply (div_valid 23 8 H32mw H32ew H32prec); apply (V_valid 23 8 H32mw H32ew H32prec); assumption.
Qed.

Lemma div_self32' x : wf32 x -> F32.div x x = F32.one \/ F32.div x x = F32.nan.
Proof.
  intros Hx. pose proof (V_valid 23 8 H32mw H32ew H32prec x Hx) as Hv.
  change (F32.div x x) with (T (SFdiv P32 E32 (V x) (V x))).
  destruct (div_self_sf (V x) Hv) as [E|E]; rewrite E; [left|right]; vm_compute; reflexivity.
Qed.

(** "zero or NaN" is preserved by the operations the first autocut difference goes through *)
Definition zn (f : spec_float) : Prop := (exists s, f = S754_zero s) \/ f = S754_nan.

Lemma sub_self_zn x : zn (SFsub P32 E32 x x).
Proof.
  destruct x as [s|s| |s m e]; cbn [SFsub].
  - left. destruct s; eexists; reflexivity.
  - right. destruct s; reflexivity.
  - right. reflexivity.
  - left. exists false. rewrite Z.sub_diag. reflexivity.
Qed.
Lemma div_zn x d : zn x -> zn (SFdiv P32 E32 x d).
Proof.
  intros [[s Es0]|Es0]; subst; [|right; reflexivity].
  destruct d as [sd|sd| |sd md ed]; cbn [SFdiv]; [right; reflexivity|left; eexists; reflexivity|right; reflexivity|left; eexists; reflexivity].
Qed.
Lemma sub_zero_zn x : zn x -> zn (SFsub P32 E32 x (S754_zero false)).
Proof.
  intros [[s Es0]|Es0]; subst; [|right; reflexivity]. left. destruct s; eexists; reflexivity.
Qed.
Lemma zn_not_lt_zero f : zn f -> F32.ltb (T f) F32.zero = false.
Proof. intros [[s Es0]|Es0]; subst; [destruct s|]; vm_compute; reflexivity. Qed.

(** Autocut never panics on two scores either: whatever the two bit patterns are *)
Definition step2 : Z := F32.div F32.one (F32.sub (F32.of_Z 2) F32.one).
Lemma diff2 y0 y1 :
  autocut_diff [y0; y1] =
  [F32.sub (F32.div (F32.sub y0 y0) (F32.sub y1 y0)) (F32.add F32.zero (F32.mul (F32.of_Z 0) step2));
   F32.sub (F32.div (F32.sub y1 y0) (F32.sub y1 y0)) (F32.add F32.zero (F32.mul (F32.of_Z 1) step2))].
Proof. reflexivity. Qed.

Theorem autocut_no_panic_two y0 y1 c : wf32 y0 -> wf32 y1 -> autocut [y0; y1] c <> CutPanic.
Proof.
  intros H0 H1. unfold autocut. rewrite diff2.
  assert (Eb0 : F32.add F32.zero (F32.mul (F32.of_Z 0) step2) = F32.zero) by (vm_compute; reflexivity).
  assert (Eb1 : F32.add F32.zero (F32.mul (F32.of_Z 1) step2) = F32.one) by (vm_compute; reflexivity).
  rewrite Eb0, Eb1.
  set (den := F32.sub y1 y0).
  assert (Hden : wf32 den) by (apply sub32_wf; assumption).
  set (d0 := F32.sub (F32.div (F32.sub y0 y0) den) F32.zero).
  set (d1 := F32.sub (F32.div den den) F32.one).
  cbn [autocut_scan].
  assert (Hgt : F32.gtb d1 d0 = false).
  { unfold F32.gtb, fgtb. change (fltb F32.mw F32.ew d0 d1) with (F32.ltb d0 d1).
    assert (Hd0 : exists f, zn f /\ d0 = T f).
    { exists (SFsub P32 E32 (SFdiv P32 E32 (SFsub P32 E32 (V y0) (V y0)) (V den)) (S754_zero false)).
      split; [apply sub_zero_zn, div_zn, sub_self_zn|].
      unfold d0.
      assert (W1 : wf32 (F32.sub y0 y0)) by (apply sub32_wf; assumption).
      assert (W2 : wf32 (F32.div (F32.sub y0 y0) den)) by (apply div32_wf; assumption).
      change (F32.sub (F32.div (F32.sub y0 y0) den) F32.zero)
        with (T (SFsub (fprec 23) (femax 8) (V (F32.div (F32.sub y0 y0) den)) (V F32.zero))).
      rewrite V_div by assumption. rewrite V_sub by assumption. reflexivity. }
    destruct Hd0 as (f & Hf & Ef).
    unfold d1.
    destruct (div_self32' den Hden) as [E|E]; rewrite E.
    - replace (F32.sub F32.one F32.one) with F32.zero by (vm_compute; reflexivity).
      rewrite Ef. apply zn_not_lt_zero, Hf.
    - replace (F32.sub F32.nan F32.one) with F32.nan by (vm_compute; reflexivity).
      unfold F32.ltb, fltb. change (is_nan F32.mw F32.ew F32.nan) with true. cbn [negb andb]. rewrite andb_false_r. reflexivity. }
  rewrite Hgt. discriminate.
Qed.

(** ... hence on no input at all *)
Theorem autocut_never_panics ys c : Forall wf32 ys -> autocut ys c <> CutPanic.
Proof.
  intros Hw. destruct (Nat.eq_dec (length ys) 2) as [E|E]; [|apply autocut_no_panic_not2, E].
  destruct ys as [|y0 [|y1 [|y2 t]]]; try discriminate.
  inversion Hw as [|? ? H0 Hw']; subst. inversion Hw' as [|? ? H1 _]; subst.
  apply autocut_no_panic_two; assumption.
Qed.
