(** C18: laws of the float32 distance kernels of distance.go, proved about the bit-exact model
    (Model/Distance.v) for ALL well-formed inputs of any dimension: symmetry, non-negativity, zero
    self-distance, NaN-freedom on finite inputs, the [0,2] range of the cosine distance, rejection of
    zero vectors.  Real-number semantics come from Flocq through Proofs/FloatBridge.v. *)
From Coq Require Import ZArith Reals Bool Lia Lra List.
From Coq Require Import Floats.SpecFloat.
From Flocq Require Import Core.Core IEEE754.BinarySingleNaN.
From Comet Require Import Base.FBits Model.Distance.
From Comet Require Import Proofs.FloatBridge Proofs.FloatBits Proofs.FloatSF Proofs.FloatOps Proofs.FloatOrder.
Import ListNotations.
Open Scope Z_scope.


(** * float32 instances *)
Lemma H32mw : 0 < 23. Proof. lia. Qed.
Lemma H32ew : 1 < 8. Proof. lia. Qed.
Lemma H32prec : 23 + 1 < 2 ^ (8 - 1). Proof. reflexivity. Qed.

Definition wf32 (b : Z) : Prop := wfb 23 8 b.           (* 0 <= b < 2^32 *)
Definition wfv (v : vec) : Prop := Forall wf32 v.
Definition finite32 (b : Z) : Prop := wf32 b /\ F32.is_finite b = true.
Definition finv (v : vec) : Prop := Forall finite32 v.

Lemma wf32_range b : wf32 b <-> 0 <= b < 4294967296.
Proof. unfold wf32, wfb. change (2 * sign_bit 23 8) with 4294967296. tauto. Qed.

Local Notation V := (of_bits 23 8).
Local Notation T := (to_bits 23 8).
Local Notation valid := (valid_binary (fprec 23) (femax 8)).

Lemma add32_wf a b : wf32 a -> wf32 b -> wf32 (F32.add a b).
Proof. apply (fadd_wf 23 8 H32mw H32ew H32prec). Qed.
Lemma sub32_wf a b : wf32 a -> wf32 b -> wf32 (F32.sub a b).
Proof. apply (fsub_wf 23 8 H32mw H32ew H32prec). Qed.
Lemma mul32_wf a b : wf32 a -> wf32 b -> wf32 (F32.mul a b).
Proof. apply (fmul_wf 23 8 H32mw H32ew H32prec). Qed.
Lemma sqrt32_wf a : wf32 a -> wf32 (F32.sqrt a).
Proof. apply (fsqrt_wf 23 8 H32mw H32ew H32prec). Qed.
Lemma zero_wf : wf32 F32.zero. Proof. apply wf32_range. unfold F32.zero. lia. Qed.

(** ** symmetry *)
Lemma l2sq_acc_sym a : forall b acc, wfv a -> wfv b -> l2sq_acc acc a b = l2sq_acc acc b a.
Proof.
  induction a as [|x a IH]; intros [|y b] acc Ha Hb; try reflexivity.
  inversion Ha as [|? ? Hx Ha']; inversion Hb as [|? ? Hy Hb']; subst.
  cbn [l2sq_acc].
  change (F32.mul (F32.sub x y) (F32.sub x y)) with (fmul 23 8 (fsub 23 8 x y) (fsub 23 8 x y)).
  change (F32.mul (F32.sub y x) (F32.sub y x)) with (fmul 23 8 (fsub 23 8 y x) (fsub 23 8 y x)).
  rewrite (sq_diff_swap 23 8 H32mw H32ew H32prec x y Hx Hy).
  apply IH; assumption.
Qed.

Theorem l2sq_sym a b : wfv a -> wfv b -> l2sq a b = l2sq b a.
Proof. apply l2sq_acc_sym. Qed.
Theorem l2_sym a b : wfv a -> wfv b -> l2 a b = l2 b a.
Proof. intros; unfold l2; rewrite l2sq_sym by assumption; reflexivity. Qed.

Lemma dot_acc_sym a : forall b acc, dot_acc acc a b = dot_acc acc b a.
Proof.
  induction a as [|x a IH]; intros [|y b] acc; try reflexivity.
  cbn [dot_acc]. change (F32.mul x y) with (fmul 23 8 x y). change (F32.mul y x) with (fmul 23 8 y x).
  rewrite (fmul_comm 23 8 H32mw H32ew H32prec x y). apply IH.
Qed.
Theorem dot_sym a b : dot a b = dot b a.
Proof. apply dot_acc_sym. Qed.
Theorem cosine_sym a b : cosine a b = cosine b a.
Proof. unfold cosine. rewrite dot_sym. reflexivity. Qed.

Theorem dist_sym m a b : wfv a -> wfv b -> dist m a b = dist m b a.
Proof. destruct m; intros; [apply l2_sym|apply l2sq_sym|apply cosine_sym]; assumption. Qed.

(** ** non-negativity: the squared / plain Euclidean distance is never below zero *)
Local Notation nn := (bnonneg 23 8).

Lemma V_add a b : wf32 a -> wf32 b -> V (F32.add a b) = SFadd (fprec 23) (femax 8) (V a) (V b).
Proof.
  intros Ha Hb. apply (VT 23 8 H32mw H32ew H32prec).
  apply (add_valid 23 8 H32mw H32ew H32prec); apply (V_valid 23 8 H32mw H32ew H32prec); assumption.
Qed.
Lemma V_sub a b : wf32 a -> wf32 b -> V (F32.sub a b) = SFsub (fprec 23) (femax 8) (V a) (V b).
Proof.
  intros Ha Hb. apply (VT 23 8 H32mw H32ew H32prec).
  apply (sub_valid 23 8 H32mw H32ew H32prec); apply (V_valid 23 8 H32mw H32ew H32prec); assumption.
Qed.
Lemma V_mul a b : wf32 a -> wf32 b -> V (F32.mul a b) = SFmul (fprec 23) (femax 8) (V a) (V b).
Proof.
  intros Ha Hb. apply (VT 23 8 H32mw H32ew H32prec).
  apply (mul_valid 23 8 H32mw H32ew H32prec); apply (V_valid 23 8 H32mw H32ew H32prec); assumption.
Qed.
Lemma V_sqrt a : wf32 a -> V (F32.sqrt a) = SFsqrt (fprec 23) (femax 8) (V a).
Proof.
  intros Ha. apply (VT 23 8 H32mw H32ew H32prec).
  apply (sqrt_valid 23 8 H32mw H32ew H32prec); apply (V_valid 23 8 H32mw H32ew H32prec); assumption.
Qed.

Lemma l2sq_acc_nonneg a : forall b acc, wfv a -> wfv b -> wf32 acc -> nn acc ->
  wf32 (l2sq_acc acc a b) /\ nn (l2sq_acc acc a b).
Proof.
  induction a as [|x a IH]; intros [|y b] acc Ha Hb Hacc Hn; try (split; assumption).
  inversion Ha as [|? ? Hx Ha']; inversion Hb as [|? ? Hy Hb']; subst.
  cbn [l2sq_acc]. apply IH; try assumption.
  - apply add32_wf; [assumption|]. apply mul32_wf; apply sub32_wf; assumption.
  - unfold bnonneg. rewrite V_add by (try assumption; apply mul32_wf; apply sub32_wf; assumption).
    apply SFadd_nonneg; [exact Hn|].
    rewrite V_mul by (apply sub32_wf; assumption). apply SFmul_self_nonneg.
Qed.

Lemma nn_zero : nn F32.zero. Proof. reflexivity. Qed.

Theorem l2sq_nonneg a b : wfv a -> wfv b -> F32.ltb (l2sq a b) F32.zero = false.
Proof.
  intros Ha Hb. destruct (l2sq_acc_nonneg a b F32.zero Ha Hb zero_wf nn_zero) as [Hw Hn].
  apply (bnonneg_not_lt_zero 23 8 H32mw H32ew H32prec); assumption.
Qed.

Theorem l2_nonneg a b : wfv a -> wfv b -> F32.ltb (l2 a b) F32.zero = false.
Proof.
  intros Ha Hb. destruct (l2sq_acc_nonneg a b F32.zero Ha Hb zero_wf nn_zero) as [Hw Hn].
  apply (bnonneg_not_lt_zero 23 8 H32mw H32ew H32prec).
  - apply sqrt32_wf, Hw.
  - unfold bnonneg, l2. rewrite V_sqrt by exact Hw. apply SFsqrt_nonneg. exact Hn.
Qed.

(** ** a vector is at distance zero from itself *)
Lemma fin_V x : finite32 x -> sf_fin (V x) = true.
Proof.
  intros [Hw Hf]. pose proof (of_bits_fin 23 8 H32mw H32ew H32prec x Hw) as E.
  change (is_finite 23 8 x) with (F32.is_finite x) in E. rewrite Hf in E.
  destruct (V x); try discriminate; reflexivity.
Qed.

Lemma sub_self32 x : finite32 x -> F32.sub x x = F32.zero.
Proof.
  intros Hx. change (F32.sub x x) with (T (SFsub (fprec 23) (femax 8) (V x) (V x))).
  rewrite SFsub_self by (apply fin_V; exact Hx). reflexivity.
Qed.

Lemma l2sq_acc_self v : finv v -> l2sq_acc F32.zero v v = F32.zero.
Proof.
  induction v as [|x v IH]; intros Hv; [reflexivity|].
  inversion Hv as [|? ? Hx Hv']; subst. cbn [l2sq_acc].
  rewrite (sub_self32 x Hx).
  replace (F32.add F32.zero (F32.mul F32.zero F32.zero)) with F32.zero by (vm_compute; reflexivity).
  apply IH, Hv'.
Qed.

Theorem l2sq_self v : finv v -> l2sq v v = F32.zero.
Proof. apply l2sq_acc_self. Qed.
Theorem l2_self v : finv v -> l2 v v = F32.zero.
Proof. intros Hv. unfold l2. rewrite l2sq_self by exact Hv. vm_compute. reflexivity. Qed.

(** ** finite inputs never produce NaN *)
Lemma l2sq_acc_notnan a : forall b acc, finv a -> finv b -> wf32 acc -> nn acc -> sf_nan (V acc) = false ->
  sf_nan (V (l2sq_acc acc a b)) = false.
Proof.
  induction a as [|x a IH]; intros [|y b] acc Ha Hb Hacc Hn Hnn; try assumption.
  inversion Ha as [|? ? Hx Ha']; inversion Hb as [|? ? Hy Hb']; subst.
  destruct Hx as [Hxw Hxf] eqn:Ex. destruct Hy as [Hyw Hyf] eqn:Ey.
  cbn [l2sq_acc].
  assert (Hd : wf32 (F32.sub x y)) by (apply sub32_wf; assumption).
  assert (Hsq : wf32 (F32.mul (F32.sub x y) (F32.sub x y))) by (apply mul32_wf; assumption).
  assert (Hdv : valid (V (F32.sub x y)) = true) by (apply (V_valid 23 8 H32mw H32ew H32prec); exact Hd).
  assert (Hdn : sf_nan (V (F32.sub x y)) = false).
  { rewrite V_sub by assumption.
    apply (sub_fin_notnan 23 8 H32mw H32ew H32prec);
      try (apply (V_valid 23 8 H32mw H32ew H32prec); assumption);
      apply fin_V; split; assumption. }
  assert (Hsqn : sf_nan (V (F32.mul (F32.sub x y) (F32.sub x y))) = false).
  { rewrite V_mul by assumption. apply (mul_self_notnan 23 8 H32mw H32ew H32prec); assumption. }
  assert (Hsqp : sf_nonneg (V (F32.mul (F32.sub x y) (F32.sub x y))) = true).
  { rewrite V_mul by assumption. apply SFmul_self_nonneg. }
  apply IH; try assumption.
  - apply add32_wf; assumption.
  - unfold bnonneg. rewrite V_add by assumption. apply SFadd_nonneg; assumption.
  - rewrite V_add by assumption.
    apply (add_nonneg_notnan 23 8 H32mw H32ew H32prec); try assumption;
      apply (V_valid 23 8 H32mw H32ew H32prec); assumption.
Qed.

Lemma finv_wfv v : finv v -> wfv v.
Proof. unfold finv, wfv. apply Forall_impl. intros x [H _]. exact H. Qed.

Lemma nan_bits32 b : wf32 b -> sf_nan (V b) = F32.is_nan b.
Proof.
  intros Hw. pose proof (of_bits_nan 23 8 H32mw H32ew H32prec b Hw) as E.
  change (F32.is_nan b) with (is_nan 23 8 b). rewrite <- E. destruct (V b); reflexivity.
Qed.

Theorem l2sq_finite_inputs_not_nan a b : finv a -> finv b -> F32.is_nan (l2sq a b) = false.
Proof.
  intros Ha Hb.
  destruct (l2sq_acc_nonneg a b F32.zero (finv_wfv _ Ha) (finv_wfv _ Hb) zero_wf nn_zero) as [Hw _].
  unfold l2sq. rewrite <- (nan_bits32 _ Hw).
  apply l2sq_acc_notnan; try assumption; [apply zero_wf|apply nn_zero|reflexivity].
Qed.

Theorem l2_finite_inputs_not_nan a b : finv a -> finv b -> F32.is_nan (l2 a b) = false.
Proof.
  intros Ha Hb.
  destruct (l2sq_acc_nonneg a b F32.zero (finv_wfv _ Ha) (finv_wfv _ Hb) zero_wf nn_zero) as [Hw Hn].
  unfold l2, l2sq. rewrite <- (nan_bits32 _ (sqrt32_wf _ Hw)). rewrite V_sqrt by exact Hw.
  apply (sqrt_nonneg_notnan 23 8 H32mw H32ew H32prec).
  - apply (V_valid 23 8 H32mw H32ew H32prec); exact Hw.
  - apply l2sq_acc_notnan; try assumption; [apply zero_wf|apply nn_zero|reflexivity].
  - exact Hn.
Qed.


Definition P32 := fprec 23.
Definition E32 := femax 8.
#[export] Instance P0 : Prec_gt_0 P32 := Hp0 23 8 H32mw H32ew H32prec.
#[export] Instance PE : Prec_lt_emax P32 E32 := Hpe 23 8 H32mw H32ew H32prec.

Local Notation BF := (binary_float P32 E32).

Lemma V_zero : V F32.zero = S754_zero false. Proof. reflexivity. Qed.
Lemma V_one : V F32.one = S754_finite false 8388608 (-23). Proof. vm_compute. reflexivity. Qed.
Lemma V_negone : V F32.neg_one = S754_finite true 8388608 (-23). Proof. vm_compute. reflexivity. Qed.
Lemma V_two : V F32.two = S754_finite false 8388608 (-22). Proof. vm_compute. reflexivity. Qed.

Lemma R_one : SF2R radix2 (S754_finite false 8388608 (-23)) = 1%R.
Proof. unfold SF2R, F2R. simpl. lra. Qed.
Lemma R_negone : SF2R radix2 (S754_finite true 8388608 (-23)) = (-1)%R.
Proof. unfold SF2R, F2R. simpl. lra. Qed.
Lemma R_two : SF2R radix2 (S754_finite false 8388608 (-22)) = 2%R.
Proof. unfold SF2R, F2R. simpl. lra. Qed.

Lemma val_one : valid (S754_finite false 8388608 (-23)) = true. Proof. reflexivity. Qed.
Lemma val_negone : valid (S754_finite true 8388608 (-23)) = true. Proof. reflexivity. Qed.
Lemma val_two : valid (S754_finite false 8388608 (-22)) = true. Proof. reflexivity. Qed.
Lemma val_zero : valid (S754_zero false) = true. Proof. reflexivity. Qed.

(** 1 - y for y in [-1, 1] lies in [0, 2] (rounding is monotone and 0, 2 are representable) *)
Lemma sub_one_range (y : spec_float) :
  valid y = true ->
  SFleb (S754_finite true 8388608 (-23)) y = true ->
  SFleb y (S754_finite false 8388608 (-23)) = true ->
  let r := SFsub P32 E32 (S754_finite false 8388608 (-23)) y in
  SFleb (S754_zero false) r = true /\ SFleb r (S754_finite false 8388608 (-22)) = true.
Proof.
  intros Hy Hlo Hhi r.
  assert (Fy : sf_fin y = true).
  { destruct y as [s|s| |s m e]; try reflexivity; [destruct s; discriminate|discriminate]. }
  set (bone := SF2B _ val_one : BF). set (bneg := SF2B _ val_negone : BF).
  set (btwo := SF2B _ val_two : BF). set (bzero := SF2B _ val_zero : BF).
  set (by_ := SF2B y Hy : BF).
  assert (Fby : BinarySingleNaN.is_finite by_ = true).
  { unfold by_. rewrite (fin_B2SF 23 8 H32mw H32ew H32prec), B2SF_SF2B. exact Fy. }
  assert (Ylo : (-1 <= B2R by_)%R).
  { assert (H : Bleb bneg by_ = true) by (unfold Bleb, bneg, by_; rewrite !B2SF_SF2B; exact Hlo).
    rewrite Bleb_correct in H by (try reflexivity; exact Fby).
    unfold bneg in H. rewrite B2R_SF2B, R_negone in H.
    destruct (Rle_bool_spec (-1) (B2R by_)); [assumption|discriminate]. }
  assert (Yhi : (B2R by_ <= 1)%R).
  { assert (H : Bleb by_ bone = true) by (unfold Bleb, bone, by_; rewrite !B2SF_SF2B; exact Hhi).
    rewrite Bleb_correct in H by (try reflexivity; exact Fby).
    unfold bone in H. rewrite B2R_SF2B, R_one in H.
    destruct (Rle_bool_spec (B2R by_) 1); [assumption|discriminate]. }
  assert (Er : r = B2SF (Bminus mode_NE bone by_)).
  { unfold r. rewrite <- (SFsub_equiv P32 E32 P0 PE). unfold bone, by_. rewrite !B2SF_SF2B. reflexivity. }
  assert (R1 : B2R bone = 1%R) by (unfold bone; rewrite B2R_SF2B; apply R_one).
  assert (R2 : B2R btwo = 2%R) by (unfold btwo; rewrite B2R_SF2B; apply R_two).
  set (z := (B2R bone - B2R by_)%R).
  set (rz := round radix2 (SpecFloat.fexp P32 E32) (round_mode mode_NE) z).
  assert (Hz : (0 <= z <= 2)%R) by (unfold z; rewrite R1; lra).
  assert (Hrz : (0 <= rz <= 2)%R).
  { unfold rz. split.
    - rewrite <- (round_0 radix2 (SpecFloat.fexp P32 E32) (round_mode mode_NE)).
      apply round_le; [apply fexp_correct; exact P0|apply valid_rnd_round_mode|lra].
    - rewrite <- (round_generic radix2 (SpecFloat.fexp P32 E32) (round_mode mode_NE) 2%R).
      + apply round_le; [apply fexp_correct; exact P0|apply valid_rnd_round_mode|lra].
      + rewrite <- R2. apply generic_format_B2R. }
  generalize (Bminus_correct P32 E32 P0 PE mode_NE bone by_ eq_refl Fby).
  fold z. fold rz.
  assert (Hov : Rlt_bool (Rabs rz) (bpow radix2 E32) = true).
  { apply Rlt_bool_true. apply Rle_lt_trans with 2%R.
    - apply Rabs_le. lra.
    - change 2%R with (bpow radix2 1). apply bpow_lt. reflexivity. }
  rewrite Hov. intros (HR & HF & _).
  rewrite Er. split.
  - change (SFleb (S754_zero false) (B2SF (Bminus mode_NE bone by_))) with (Bleb bzero (Bminus mode_NE bone by_)).
    rewrite Bleb_correct by (try reflexivity; exact HF). rewrite HR. change (B2R bzero) with 0%R.
    apply Rle_bool_true. lra.
  - replace (S754_finite false 8388608 (-22)) with (B2SF btwo) by (unfold btwo; apply B2SF_SF2B).
    change (SFleb (B2SF (Bminus mode_NE bone by_)) (B2SF btwo)) with (Bleb (Bminus mode_NE bone by_) btwo).
    rewrite Bleb_correct by (try reflexivity; exact HF). rewrite HR, R2.
    apply Rle_bool_true. lra.
Qed.



Lemma one_wf : wf32 F32.one. Proof. apply wf32_range. unfold F32.one. lia. Qed.
Lemma negone_wf : wf32 F32.neg_one. Proof. apply wf32_range. unfold F32.neg_one. lia. Qed.
Lemma two_wf : wf32 F32.two. Proof. apply wf32_range. unfold F32.two. lia. Qed.

Lemma dot_acc_wf a : forall b acc, wfv a -> wfv b -> wf32 acc -> wf32 (dot_acc acc a b).
Proof.
  induction a as [|x a IH]; intros [|y b] acc Ha Hb Hacc; try assumption.
  inversion Ha as [|? ? Hx Ha']; inversion Hb as [|? ? Hy Hb']; subst.
  cbn [dot_acc]. apply IH; try assumption. apply add32_wf; [assumption|]. apply mul32_wf; assumption.
Qed.

Lemma leb32 a b : wf32 a -> wf32 b -> F32.leb a b = SFleb (V a) (V b).
Proof. apply (fleb_is_SFleb 23 8 H32mw H32ew H32prec). Qed.
Lemma ltb32 a b : wf32 a -> wf32 b -> F32.ltb a b = SFltb (V a) (V b).
Proof. apply (fltb_is_SFltb 23 8 H32mw H32ew H32prec). Qed.
Lemma eqb32 a b : wf32 a -> wf32 b -> F32.eqb a b = SFeqb (V a) (V b).
Proof. apply (feqb_is_SFeqb 23 8 H32mw H32ew H32prec). Qed.

(** the clamp keeps a non-NaN value inside [-1, 1] *)
Lemma clamp1_range d : wf32 d -> F32.is_nan d = false ->
  wf32 (clamp1 d) /\ F32.leb F32.neg_one (clamp1 d) = true /\ F32.leb (clamp1 d) F32.one = true.
Proof.
  intros Hd Hn. unfold clamp1.
  destruct (F32.gtb d F32.one) eqn:G; [split; [apply one_wf|split; vm_compute; reflexivity]|].
  destruct (F32.ltb d F32.neg_one) eqn:L; [split; [apply negone_wf|split; vm_compute; reflexivity]|].
  split; [exact Hd|].
  unfold F32.gtb, fgtb, F32.ltb, fltb, F32.leb, fleb in *.
  change (is_nan F32.mw F32.ew d) with (F32.is_nan d) in *. rewrite Hn in *.
  change (is_nan F32.mw F32.ew F32.one) with false in *.
  change (is_nan F32.mw F32.ew F32.neg_one) with false in *.
  cbn [negb andb] in *.
  apply Z.ltb_ge in G. apply Z.ltb_ge in L. split; apply Z.leb_le; assumption.
Qed.

Theorem cosine_range a b :
  wfv a -> wfv b -> F32.is_nan (dot a b) = false ->
  F32.leb F32.zero (cosine a b) = true /\ F32.leb (cosine a b) F32.two = true.
Proof.
  intros Ha Hb Hn.
  assert (Hd : wf32 (dot a b)) by (apply dot_acc_wf; try assumption; apply zero_wf).
  destruct (clamp1_range _ Hd Hn) as (Hc & Hlo & Hhi).
  set (c := clamp1 (dot a b)) in *.
  rewrite leb32 in Hlo, Hhi by (try assumption; try apply negone_wf; apply one_wf).
  rewrite V_negone in Hlo. rewrite V_one in Hhi.
  assert (Hv : valid_binary P32 E32 (V c) = true) by (apply (V_valid 23 8 H32mw H32ew H32prec); exact Hc).
  destruct (sub_one_range (V c) Hv Hlo Hhi) as [R0 R2].
  assert (Hr : wf32 (cosine a b)) by (apply sub32_wf; [apply one_wf|exact Hc]).
  assert (E : V (cosine a b) = SFsub P32 E32 (S754_finite false 8388608 (-23)) (V c)).
  { unfold cosine. fold c. rewrite V_sub by (try apply one_wf; exact Hc). rewrite V_one. reflexivity. }
  split.
  - rewrite leb32 by (try apply zero_wf; exact Hr). rewrite E, V_zero. exact R0.
  - rewrite leb32 by (try apply two_wf; exact Hr). rewrite E, V_two. exact R2.
Qed.

(** a NaN dot product (overflowing, non-unit inputs) gives a NaN cosine distance, never a number
    outside the range *)
Theorem cosine_nan a b : wfv a -> wfv b -> F32.is_nan (dot a b) = true -> cosine a b = F32.nan.
Proof.
  intros Ha Hb Hn. unfold cosine, clamp1.
  assert (Hd : wf32 (dot a b)) by (apply dot_acc_wf; try assumption; apply zero_wf).
  assert (G : F32.gtb (dot a b) F32.one = false).
  { unfold F32.gtb, fgtb, fltb. change (is_nan F32.mw F32.ew (dot a b)) with (F32.is_nan (dot a b)).
    rewrite Hn. rewrite andb_false_r. reflexivity. }
  assert (L : F32.ltb (dot a b) F32.neg_one = false).
  { unfold F32.ltb, fltb. change (is_nan F32.mw F32.ew (dot a b)) with (F32.is_nan (dot a b)).
    rewrite Hn. reflexivity. }
  rewrite G, L.
  rewrite <- (nan_bits32 _ Hd) in Hn.
  change (F32.sub F32.one (dot a b)) with (T (SFsub (fprec 23) (femax 8) (V F32.one) (V (dot a b)))).
  destruct (V (dot a b)); try discriminate.
  rewrite V_one. reflexivity.
Qed.

(** cosine preprocessing rejects every zero vector (any mix of +0 and -0) *)
Definition is_zero32 (x : Z) : Prop := x = 0 \/ x = 2147483648.

Lemma sumsq_zero_acc v : Forall is_zero32 v ->
  fold_left (fun s x => F32.add s (F32.mul x x)) v F32.zero = F32.zero.
Proof.
  induction v as [|x v IH]; intros Hv; [reflexivity|].
  inversion Hv as [|? ? Hx Hv']; subst. cbn [fold_left].
  replace (F32.add F32.zero (F32.mul x x)) with F32.zero
    by (destruct Hx; subst x; vm_compute; reflexivity).
  apply IH, Hv'.
Qed.

Theorem preprocess_rejects_zero_vector v : Forall is_zero32 v -> preprocess Cos v = None.
Proof.
  intros Hv. unfold preprocess, norm, sumsq. rewrite (sumsq_zero_acc v Hv).
  vm_compute. reflexivity.
Qed.

Theorem preprocess_identity_noncosine m v : m <> Cos -> preprocess m v = Some v.
Proof. destruct m; intros H; try reflexivity. congruence. Qed.
