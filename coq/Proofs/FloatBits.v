(** Bit patterns <-> spec_float: arithmetic reading of [bounded], validity of every decoded 32/64-bit
    pattern, and the round trip decode(encode f) = f for valid f. *)
From Coq Require Import ZArith Bool Lia.
From Coq Require Import Floats.SpecFloat.
From Flocq Require Import Core.Zaux Core.Digits.
From Comet Require Import Base.FBits.
Open Scope Z_scope.

Section Bits.
Variables mw ew : Z.
Hypothesis Hmw : 0 < mw.
Hypothesis Hew : 1 < ew.
Hypothesis Hprec : mw + 1 < 2 ^ (ew - 1).
Set Default Proof Using "Hmw Hew Hprec".

Notation prec := (fprec mw).
Notation emax := (femax ew).
Notation emin := (femin mw ew).
Notation tmw := (two_mw mw).
Notation sb := (sign_bit mw ew).
Notation eall := (exp_all ew).

Lemma tmw_pos : 0 < tmw. Proof. unfold two_mw. apply Z.pow_pos_nonneg; lia. Qed.
Lemma two_ew : 2 ^ ew = 2 * emax.
Proof. unfold femax. replace ew with (1 + (ew - 1)) at 1 by lia. rewrite Z.pow_add_r by lia. reflexivity. Qed.
Lemma emax_pos : 1 < emax.
Proof. unfold femax. replace 1 with (2 ^ 0) by reflexivity. apply Z.pow_lt_mono_r; lia. Qed.
Lemma sb_eq : sb = 2 * emax * tmw.
Proof. unfold sign_bit, two_mw. rewrite Z.pow_add_r by lia. rewrite two_ew. lia. Qed.
Lemma emin_eq : emin = 3 - emax - prec. Proof. reflexivity. Qed.
Lemma spec_emin : SpecFloat.emin prec emax = emin. Proof. reflexivity. Qed.

(** arithmetic reading of [bounded] *)
Lemma digits_bounds (m : positive) :
  2 ^ (Zpos (digits2_pos m) - 1) <= Zpos m < 2 ^ (Zpos (digits2_pos m)).
Proof. rewrite Zpos_digits2_pos. apply (Zdigits_correct radix2 (Zpos m)). Qed.

Lemma bounded_spec (m : positive) (e : Z) :
  bounded prec emax m e = true <->
  ((e = emin /\ Zpos m < tmw) \/ (tmw <= Zpos m < 2 * tmw /\ emin <= e <= emax - prec)).
Proof.
  unfold bounded, canonical_mantissa, fexp. rewrite spec_emin.
  rewrite andb_true_iff, <- Zeq_is_eq_bool, <- Zle_is_le_bool.
  pose proof (digits_bounds m) as [Hlo Hhi].
  set (d := Zpos (digits2_pos m)) in *.
  assert (Hd : 0 < d) by (unfold d; lia).
  pose proof tmw_pos as Ht. pose proof emax_pos as He.
  assert (Hprec' : prec = mw + 1) by reflexivity.
  assert (H2 : 2 * tmw = 2 ^ (mw + 1)).
  { unfold two_mw. rewrite Z.pow_add_r by lia. lia. }
  assert (Hemin : emin <= emax - prec) by (rewrite emin_eq; unfold fprec in *; lia).
  split.
  - intros [Hc Hle].
    destruct (Z.max_spec (d + e - prec) emin) as [[Hlt Hmax]|[Hge Hmax]]; rewrite Hmax in Hc.
    + (* subnormal or minimal exponent *)
      subst e.
      destruct (Z_lt_le_dec (Zpos m) tmw) as [Hs|Hn]; [left; auto|right].
      split; [|lia]. split; [exact Hn|].
      rewrite H2. eapply Z.lt_le_trans; [exact Hhi|]. apply Z.pow_le_mono_r; lia.
    + right. assert (d = prec) by lia.
      split; [|lia]. rewrite H2. unfold two_mw. split.
      * replace mw with (d - 1) by lia. exact Hlo.
      * replace (mw + 1) with d by lia. exact Hhi.
  - intros [[He1 Hm]|[[Hm1 Hm2] [He1 He2]]].
    + subst e. split; [|lia].
      assert (d <= mw).
      { destruct (Z_le_gt_dec d mw); auto. exfalso.
        assert (2 ^ mw <= 2 ^ (d - 1)) by (apply Z.pow_le_mono_r; lia). unfold two_mw in Hm. lia. }
      lia.
    + split; [|lia].
      assert (d = prec).
      { rewrite Hprec'. rewrite H2 in Hm2. unfold two_mw in Hm1.
        destruct (Z_lt_le_dec d (mw + 1)).
        - exfalso. assert (2 ^ d <= 2 ^ mw) by (apply Z.pow_le_mono_r; lia). lia.
        - destruct (Z_lt_le_dec (mw + 1) d); [|lia].
          exfalso. assert (2 ^ (mw + 1) <= 2 ^ (d - 1)) by (apply Z.pow_le_mono_r; lia). lia. }
      lia.
Qed.

Definition wfb (b : Z) : Prop := 0 <= b < 2 * sb.

(** magnitude part of a bit pattern *)
Definition mag (b : Z) : Z := if sb <=? b then b - sb else b.

Lemma of_bits_valid (b : Z) : wfb b -> valid_binary prec emax (of_bits mw ew b) = true.
Proof.
  intros [Hb0 Hb1]. unfold of_bits.
  pose proof tmw_pos as Ht. pose proof emax_pos as He.
  set (s := sb <=? b). set (r := if s then b - sb else b).
  assert (Hr : 0 <= r < sb).
  { unfold r, s. destruct (Z.leb_spec sb b); lia. }
  rewrite sb_eq in Hr.
  assert (Hex : 0 <= r / tmw < 2 * emax).
  { split; [apply Z.div_pos; lia|]. apply Z.div_lt_upper_bound; lia. }
  pose proof (Z.mod_pos_bound r tmw Ht) as Hmx.
  destruct (Z.eqb_spec (r / tmw) 0) as [E0|E0].
  - destruct (r mod tmw) eqn:Em; try reflexivity.
    simpl. apply bounded_spec. left. split; [reflexivity|lia].
  - destruct (Z.eqb_spec (r / tmw) eall) as [E1|E1].
    + destruct (r mod tmw =? 0); reflexivity.
    + destruct (r mod tmw + tmw) eqn:Em; try reflexivity.
      simpl. apply bounded_spec. right. rewrite <- Em.
      unfold exp_all in E1. rewrite two_ew in E1. rewrite emin_eq. unfold fprec. lia.
Qed.

Definition sf_sign (f : spec_float) : bool :=
  match f with S754_zero s | S754_infinity s | S754_finite s _ _ => s | S754_nan => false end.

Lemma to_bits_mag (f : spec_float) :
  valid_binary prec emax f = true ->
  exists r : Z, to_bits mw ew f = (if sf_sign f then sb else 0) + r /\ 0 <= r < sb /\
                to_bits mw ew (SFabs f) = r.
Proof.
  intros Hv. pose proof tmw_pos as Ht. pose proof emax_pos as He.
  assert (Hsb := sb_eq).
  destruct f as [s|s| |s m e]; unfold to_bits, sf_sign, SFabs.
  - exists 0. split; [lia|split; [lia|reflexivity]].
  - exists (eall * tmw). split; [reflexivity|]. split; [|reflexivity]. unfold exp_all. rewrite two_ew. nia.
  - exists (nan_bits mw ew). split; [reflexivity|]. split; [|reflexivity]. unfold nan_bits, exp_all. rewrite two_ew.
    assert (0 <= tmw / 2 < tmw) by (split; [apply Z.div_pos; lia|apply Z.div_lt; lia]). nia.
  - simpl in Hv. apply bounded_spec in Hv.
    destruct (Z.leb_spec tmw (Zpos m)) as [Hn|Hs].
    + destruct Hv as [[_ Hc]|[[_ Hm2] [He1 He2]]]; [lia|].
      exists ((e - emin + 1) * tmw + (Zpos m - tmw)). split; [reflexivity|].
      split; [rewrite emin_eq in *; unfold fprec in *; nia|].
      destruct (Z.leb_spec tmw (Zpos m)); lia.
    + exists (Zpos m). split; [reflexivity|]. split; [nia|].
      destruct (Z.leb_spec tmw (Zpos m)); lia.
Qed.

Lemma to_bits_wf (f : spec_float) : valid_binary prec emax f = true -> wfb (to_bits mw ew f).
Proof.
  intros Hv. destruct (to_bits_mag f Hv) as (r & -> & Hr & _). unfold wfb. destruct (sf_sign f); lia.
Qed.

Lemma of_to_bits (f : spec_float) :
  valid_binary prec emax f = true -> of_bits mw ew (to_bits mw ew f) = f.
Proof.
  intros Hv. pose proof tmw_pos as Ht. pose proof emax_pos as He. assert (Hsb := sb_eq).
  assert (Hsplit : forall (s : bool) r, 0 <= r < sb ->
     (sb <=? (if s then sb else 0) + r) = s /\
     (if (sb <=? (if s then sb else 0) + r) then (if s then sb else 0) + r - sb else (if s then sb else 0) + r) = r).
  { intros s r Hr. destruct s.
    - destruct (Z.leb_spec sb (sb + r)); [split; [reflexivity|lia]|lia].
    - destruct (Z.leb_spec sb (0 + r)); [lia|split; [reflexivity|lia]]. }
  destruct f as [s|s| |s m e].
  - unfold to_bits, of_bits.
    replace (if s then sb else 0) with ((if s then sb else 0) + 0) by lia.
    destruct (Hsplit s 0 ltac:(lia)) as [-> ->].
    rewrite Z.div_0_l, Z.mod_0_l by lia. reflexivity.
  - unfold to_bits, of_bits.
    assert (Hr : 0 <= eall * tmw < sb) by (unfold exp_all; rewrite two_ew; nia).
    destruct (Hsplit s _ Hr) as [-> ->].
    rewrite Z.div_mul, Z.mod_mul by lia.
    assert (eall <> 0) by (unfold exp_all; rewrite two_ew; lia).
    destruct (Z.eqb_spec eall 0); [contradiction|]. rewrite Z.eqb_refl. reflexivity.
  - unfold to_bits, of_bits, nan_bits.
    assert (Hh : 0 < tmw / 2 < tmw).
    { split; [|apply Z.div_lt; lia]. apply Z.div_str_pos. unfold two_mw.
      replace mw with (1 + (mw - 1)) by lia. rewrite Z.pow_add_r by lia.
      assert (0 < 2 ^ (mw - 1)) by (apply Z.pow_pos_nonneg; lia). lia. }
    assert (Hr : 0 <= eall * tmw + tmw / 2 < sb) by (unfold exp_all; rewrite two_ew; nia).
    destruct (Z.leb_spec sb (eall * tmw + tmw / 2)); [lia|].
    replace ((eall * tmw + tmw / 2) / tmw) with eall.
    2:{ rewrite Z.add_comm, Z.div_add by lia. rewrite Z.div_small by lia. reflexivity. }
    replace ((eall * tmw + tmw / 2) mod tmw) with (tmw / 2).
    2:{ rewrite Z.add_comm, Z.mod_add by lia. rewrite Z.mod_small by lia. reflexivity. }
    assert (eall <> 0) by (unfold exp_all; rewrite two_ew; lia).
    destruct (Z.eqb_spec eall 0); [contradiction|]. rewrite Z.eqb_refl.
    destruct (Z.eqb_spec (tmw / 2) 0); [lia|reflexivity].
  - simpl in Hv. apply bounded_spec in Hv. unfold to_bits, of_bits.
    destruct (Z.leb_spec tmw (Zpos m)) as [Hn|Hs].
    + destruct Hv as [[_ Hc]|[[_ Hm2] [He1 He2]]]; [lia|].
      set (ex := e - emin + 1). set (mx := Zpos m - tmw).
      assert (Hex : 1 <= ex <= 2 * emax - 2) by (unfold ex; rewrite emin_eq in *; unfold fprec in *; lia).
      assert (Hr : 0 <= ex * tmw + mx < sb) by (unfold mx; nia).
      destruct (Hsplit s _ Hr) as [-> ->].
      replace ((ex * tmw + mx) / tmw) with ex.
      2:{ rewrite Z.add_comm, Z.div_add by lia. rewrite Z.div_small by (unfold mx; lia). reflexivity. }
      replace ((ex * tmw + mx) mod tmw) with mx.
      2:{ rewrite Z.add_comm, Z.mod_add by lia. rewrite Z.mod_small by (unfold mx; lia). reflexivity. }
      destruct (Z.eqb_spec ex 0); [lia|].
      destruct (Z.eqb_spec ex eall); [unfold exp_all in *; rewrite two_ew in *; lia|].
      replace (mx + tmw) with (Zpos m) by (unfold mx; lia).
      replace (ex + emin - 1) with e by (unfold ex; lia). reflexivity.
    + destruct Hv as [[-> _]|[[Hc _] _]]; [|lia].
      assert (Hr : 0 <= Zpos m < sb) by nia.
      destruct (Hsplit s _ Hr) as [-> ->].
      rewrite Z.div_small, Z.mod_small by lia. reflexivity.
Qed.

(** sign and NaN-ness of a decoded pattern, read off the bits *)
Lemma of_bits_nan (b : Z) : wfb b ->
  (match of_bits mw ew b with S754_nan => true | _ => false end) = is_nan mw ew b.
Proof.
  intros [Hb0 Hb1]. unfold of_bits, is_nan.
  pose proof tmw_pos as Ht. pose proof emax_pos as He.
  set (s := sb <=? b). set (r := if s then b - sb else b).
  assert (Hr : 0 <= r < sb) by (unfold r, s; destruct (Z.leb_spec sb b); lia).
  rewrite sb_eq in Hr.
  pose proof (Z.div_mod r tmw ltac:(lia)) as Hdm.
  pose proof (Z.mod_pos_bound r tmw Ht) as Hmx.
  assert (Hex : 0 <= r / tmw < 2 * emax).
  { split; [apply Z.div_pos; lia|]. apply Z.div_lt_upper_bound; lia. }
  assert (Heall : eall = 2 * emax - 1) by (unfold exp_all; rewrite two_ew; lia).
  destruct (Z.eqb_spec (r / tmw) 0) as [E0|E0].
  - destruct (r mod tmw) eqn:Em; symmetry; apply Z.ltb_ge; nia.
  - destruct (Z.eqb_spec (r / tmw) eall) as [E1|E1].
    + destruct (Z.eqb_spec (r mod tmw) 0) as [E2|E2].
      * symmetry; apply Z.ltb_ge. nia.
      * symmetry; apply Z.ltb_lt. nia.
    + destruct (r mod tmw + tmw) eqn:Em; try lia.
      symmetry; apply Z.ltb_ge. nia.
Qed.

Lemma of_bits_fin (b : Z) : wfb b ->
  (match of_bits mw ew b with S754_zero _ | S754_finite _ _ _ => true | _ => false end) = is_finite mw ew b.
Proof.
  intros [Hb0 Hb1]. unfold of_bits, is_finite.
  pose proof tmw_pos as Ht. pose proof emax_pos as He.
  set (s := sb <=? b). set (r := if s then b - sb else b).
  assert (Hr : 0 <= r < sb) by (unfold r, s; destruct (Z.leb_spec sb b); lia).
  rewrite sb_eq in Hr.
  pose proof (Z.div_mod r tmw ltac:(lia)) as Hdm.
  pose proof (Z.mod_pos_bound r tmw Ht) as Hmx.
  assert (Hex : 0 <= r / tmw < 2 * emax).
  { split; [apply Z.div_pos; lia|]. apply Z.div_lt_upper_bound; lia. }
  assert (Heall : eall = 2 * emax - 1) by (unfold exp_all; rewrite two_ew; lia).
  destruct (Z.eqb_spec (r / tmw) 0) as [E0|E0].
  - destruct (r mod tmw) eqn:Em; symmetry; apply Z.ltb_lt; nia.
  - destruct (Z.eqb_spec (r / tmw) eall) as [E1|E1].
    + destruct (Z.eqb_spec (r mod tmw) 0) as [E2|E2]; symmetry; apply Z.ltb_ge; nia.
    + destruct (r mod tmw + tmw) eqn:Em; try lia.
      symmetry; apply Z.ltb_lt. nia.
Qed.

Lemma of_bits_sign (b : Z) : wfb b ->
  of_bits mw ew b = S754_nan \/ sf_sign (of_bits mw ew b) = (sb <=? b).
Proof.
  intros [Hb0 Hb1]. unfold of_bits.
  set (s := sb <=? b). set (r := if s then b - sb else b).
  destruct (r / tmw =? 0).
  - destruct (r mod tmw); auto.
  - destruct (r / tmw =? eall).
    + destruct (r mod tmw =? 0); auto.
    + destruct (r mod tmw + tmw); auto.
Qed.

End Bits.
