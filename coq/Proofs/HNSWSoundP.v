(** C12 / C02 for HNSW: every reported hit is a resident, non-removed, eligible vertex with its true
    distance to the (preprocessed) query — whatever the graph looks like. *)
From Coq Require Import ZArith List Bool Lia Permutation.
From Comet Require Import Base.FBits Base.Parse Base.Sorting.
From Comet Require Import Model.Distance Model.Limiter Model.Aggregation Model.VecIndex Model.HNSW.
From Comet Require Import Proofs.SortingP.
Import ListNotations.
Open Scope Z_scope.

(** ---- container/heap operations only move elements around ---- *)
Lemma set_nth_length {A} (l : list A) : forall i x, length (set_nth i x l) = length l.
Proof. induction l as [|a t IH]; intros [|i] x; cbn [set_nth length]; auto. Qed.

Lemma set_nth_in {A} (l : list A) : forall i x z, In z (set_nth i x l) -> z = x \/ In z l.
Proof.
  induction l as [|a t IH]; intros [|i] x z Hz; cbn [set_nth] in Hz; try contradiction.
  - destruct Hz as [<-|Hz]; auto. right. now right.
  - destruct Hz as [<-|Hz]; [right; now left|]. destruct (IH _ _ _ Hz); auto. right. now right.
Qed.

Lemma hnth_in (h : list cand) i : (i < length h)%nat -> In (hnth h i) h.
Proof. intros Hi. unfold hnth. apply nth_In, Hi. Qed.

Lemma hswap_length (h : list cand) i j : length (hswap h i j) = length h.
Proof. unfold hswap. rewrite !set_nth_length. reflexivity. Qed.

Lemma hswap_in_range (h : list cand) i j x :
  (i < length h)%nat -> (j < length h)%nat -> In x (hswap h i j) -> In x h.
Proof.
  intros Hi Hj H. unfold hswap in H. apply set_nth_in in H. destruct H as [->|H]; [apply hnth_in, Hj|].
  apply set_nth_in in H. destruct H as [->|H]; [apply hnth_in, Hi|exact H].
Qed.

Section HeapMem.
  Variable less : cand -> cand -> bool.

  Lemma up_length fuel : forall h j, length (up less fuel h j) = length h.
  Proof.
    induction fuel as [|f IH]; intros h j; cbn [up]; [reflexivity|].
    destruct (_ || _); [reflexivity|]. rewrite IH, hswap_length. reflexivity.
  Qed.

  Lemma up_in fuel : forall h j x, (j < length h)%nat -> In x (up less fuel h j) -> In x h.
  Proof.
    induction fuel as [|f IH]; intros h j x Hj H; cbn [up] in H; [exact H|].
    destruct (_ || _); [exact H|].
    assert (Hi : ((j - 1) / 2 < length h)%nat).
    { eapply Nat.le_lt_trans; [|exact Hj]. etransitivity; [apply Nat.div_le_upper_bound with (q := (j - 1)%nat); lia|lia]. }
    apply IH in H; [|rewrite hswap_length; exact Hi].
    eapply hswap_in_range; [exact Hi|exact Hj|exact H].
  Qed.

  Lemma down_length fuel : forall h i n, length (down less fuel h i n) = length h.
  Proof.
    induction fuel as [|f IH]; intros h i n; cbn [down]; [reflexivity|].
    destruct (n <=? 2 * i + 1)%nat; [reflexivity|].
    destruct (negb _); [reflexivity|]. rewrite IH, hswap_length. reflexivity.
  Qed.

  Lemma down_in fuel : forall h i n x, (n <= length h)%nat -> (i < n)%nat ->
    In x (down less fuel h i n) -> In x h.
  Proof.
    induction fuel as [|f IH]; intros h i n x Hn Hi H; cbn [down] in H; [exact H|].
    destruct (Nat.leb_spec n (2 * i + 1)) as [Hle|Hgt]; [exact H|].
    set (j := if ((2 * i + 1 + 1 <? n)%nat && less (hnth h (2 * i + 1 + 1)) (hnth h (2 * i + 1)))%bool
              then (2 * i + 1 + 1)%nat else (2 * i + 1)%nat) in *.
    assert (Hj : (j < n)%nat).
    { unfold j. destruct (Nat.ltb_spec (2 * i + 1 + 1) n); cbn [andb]; [destruct (less _ _); lia|lia]. }
    destruct (negb _); [exact H|].
    apply IH in H; [|rewrite hswap_length; exact Hn|exact Hj].
    eapply hswap_in_range; [| |exact H]; lia.
  Qed.

  Lemma down_small fuel h i n : (n <= 2 * i + 1)%nat -> down less fuel h i n = h.
  Proof.
    intros H. destruct fuel as [|f]; cbn [down]; [reflexivity|].
    destruct (Nat.leb_spec n (2 * i + 1)); [reflexivity|lia].
  Qed.

  Lemma hpush_in h y x : In x (hpush less h y) -> In x h \/ x = y.
  Proof.
    unfold hpush. intros H. apply up_in in H; [|rewrite app_length; cbn; lia].
    apply in_app_or in H. destruct H as [H|[<-|[]]]; auto.
  Qed.

  Lemma hpop_rest_in h x : h <> [] -> In x (snd (hpop less h)) -> In x h.
  Proof.
    intros Hne H. unfold hpop in H. cbn [snd] in H.
    assert (Hl : (0 < length h)%nat) by (destruct h; [congruence|cbn; lia]).
    assert (H' : In x (down less (length h) (hswap h 0 (length h - 1)) 0 (length h - 1))).
    { rewrite <- (firstn_skipn (length h - 1) (down _ _ _ _ _)). apply in_or_app. now left. }
    clear H.
    destruct (Nat.eq_dec (length h - 1) 0) as [E|E].
    - rewrite down_small in H' by lia. eapply hswap_in_range; [| |exact H']; lia.
    - apply down_in in H'; [|rewrite hswap_length; lia|lia].
      eapply hswap_in_range; [| |exact H']; lia.
  Qed.

  Lemma hpop_top_in h : h <> [] -> In (fst (hpop less h)) h.
  Proof.
    intros Hne. unfold hpop. cbn [fst].
    assert (Hl : (0 < length h)%nat) by (destruct h; [congruence|cbn; lia]).
    set (h2 := down less (length h) (hswap h 0 (length h - 1)) 0 (length h - 1)).
    assert (Hin : In (hnth h2 (length h - 1)) h2).
    { apply hnth_in. unfold h2. rewrite down_length, hswap_length. lia. }
    revert Hin. generalize (hnth h2 (length h - 1)). intros c Hin. unfold h2 in Hin.
    destruct (Nat.eq_dec (length h - 1) 0) as [E|E].
    - rewrite down_small in Hin by lia. eapply hswap_in_range; [| |exact Hin]; lia.
    - apply down_in in Hin; [|rewrite hswap_length; lia|lia].
      eapply hswap_in_range; [| |exact Hin]; lia.
  Qed.
End HeapMem.

(** ---- searchLayer: the result heap only ever holds live vertices with their true distance ---- *)
Definition hit_ok (s : hstate) (m : metric) (q : vec) (c : cand) : Prop :=
  snd c = dist m q (hvec s (fst c)) /\ deleted s (fst c) = false.

Lemma sl_neighbors_ok s m q ef : forall nbs visited cands result,
  Forall (hit_ok s m q) result ->
  let '(_, _, result') := sl_neighbors s m q ef nbs visited cands result in
  Forall (hit_ok s m q) result'.
Proof.
  induction nbs as [|nb rest IH]; intros visited cands result Hr; cbn [sl_neighbors]; [exact Hr|].
  destruct (memz nb visited); [apply IH; exact Hr|].
  destruct (_ || _); [|apply IH; exact Hr].
  apply IH. destruct (deleted s nb) eqn:Ed; [exact Hr|].
  assert (Hpush : Forall (hit_ok s m q) (hpush max_less result (nb, dist m q (hvec s nb)))).
  { apply Forall_forall. intros x Hx. apply hpush_in in Hx. destruct Hx as [Hx| ->].
    - rewrite Forall_forall in Hr. apply Hr, Hx.
    - split; [reflexivity|exact Ed]. }
  destruct (ef <? _); [|exact Hpush].
  apply Forall_forall. intros x Hx. apply hpop_rest_in in Hx.
  - rewrite Forall_forall in Hpush. apply Hpush, Hx.
  - unfold hpush. intros E. apply (f_equal (@length cand)) in E. rewrite up_length, app_length in E. cbn in E. lia.
Qed.

Lemma sl_loop_ok fuel s m q ef layer : forall visited cands result,
  Forall (hit_ok s m q) result -> Forall (hit_ok s m q) (sl_loop fuel s m q ef layer visited cands result).
Proof.
  induction fuel as [|f IH]; intros visited cands result Hr; cbn [sl_loop]; [exact Hr|].
  destruct cands as [|c0 cs]; [exact Hr|].
  destruct (hpop min_less (c0 :: cs)) as [cur cands'].
  destruct (_ && _); [exact Hr|].
  set (nbs := match hget s (fst cur) with Some n => edges_at n layer | None => [] end).
  pose proof (sl_neighbors_ok s m q ef nbs visited cands' result Hr) as Hn.
  destruct (sl_neighbors s m q ef nbs visited cands' result) as [[v' c''] r']. apply IH, Hn.
Qed.

Lemma drain_max_ok (P : cand -> Prop) fuel : forall h acc,
  Forall P h -> Forall P acc -> Forall P (drain_max fuel h acc).
Proof.
  induction fuel as [|f IH]; intros h acc Hh Ha; cbn [drain_max]; [exact Ha|].
  destruct h as [|c0 cs]; [exact Ha|].
  destruct (hpop max_less (c0 :: cs)) as [x h'] eqn:Ep.
  assert (Hx : In x (c0 :: cs)) by (replace x with (fst (hpop max_less (c0 :: cs))) by (rewrite Ep; reflexivity); apply hpop_top_in; discriminate).
  assert (Hh' : forall y, In y h' -> In y (c0 :: cs)).
  { intros y Hy. apply (hpop_rest_in max_less (c0 :: cs) y); [discriminate|]. rewrite Ep. exact Hy. }
  rewrite Forall_forall in Hh. apply IH.
  - apply Forall_forall. intros y Hy. apply Hh, Hh', Hy.
  - constructor; [apply Hh, Hx|exact Ha].
Qed.

Theorem search_layer_sound s m q entry ef layer :
  Forall (hit_ok s m q) (search_layer s m q entry ef layer).
Proof.
  unfold search_layer. apply drain_max_ok; [|constructor].
  apply sl_loop_ok. destruct (deleted s entry) eqn:Ed; [constructor|].
  apply Forall_forall. intros x Hx. apply hpush_in in Hx. destruct Hx as [[]| ->].
  split; [reflexivity|exact Ed].
Qed.

(** Every pair a single-query HNSW search reports: a vertex that is not soft-deleted, scored with its
    true distance to the preprocessed query, inside the id restriction and the threshold; the list is
    sorted by score and cut to at most k.  Holds for ANY graph (any history, any levels). *)
Theorem hnsw_results_sound cfg s rq ef q o x :
  hsearch_single cfg s rq ef q = Ok o -> In x (so_full o) ->
  exists pq, preprocess (hc_metric cfg) q = Some pq /\
    snd x = dist (hc_metric cfg) pq (hvec s (fst x)) /\ deleted s (fst x) = false /\
    (match r_docids rq with [] => True | ds => memz (fst x) ds = true end) /\ thr_ok rq (snd x) = true.
Proof.
  unfold hsearch_single. intros H Hx.
  destruct (negb (Z.of_nat (length q) =? hc_dim cfg)); [discriminate|].
  destruct (hs_nodes s) as [|n0 ns]; [inversion H; subst o; destruct Hx|].
  destruct (hs_maxlevel s =? -1); [inversion H; subst o; destruct Hx|].
  destruct (preprocess (hc_metric cfg) q) as [pq|]; [|discriminate].
  destruct (greedy_descent _ s (hc_metric cfg) pq (hs_maxlevel s) (hs_entry s) _) as [c1 d1].
  inversion H; subst o; clear H. cbn [so_full] in Hx.
  unfold sort_cands in Hx. apply isort_in in Hx. apply filter_In in Hx. destruct Hx as [Hin Hf].
  pose proof (search_layer_sound s (hc_metric cfg) pq c1 (if ef <=? 0 then hc_efs cfg else ef) 0) as Hs.
  rewrite Forall_forall in Hs. destruct (Hs x Hin) as [Hd Hl].
  apply andb_true_iff in Hf. destruct Hf as [Hdoc Hthr].
  exists pq. split; [reflexivity|]. split; [exact Hd|]. split; [exact Hl|]. split; [|exact Hthr].
  destruct (r_docids rq); [exact I|exact Hdoc].
Qed.

Theorem hnsw_results_sorted_cut cfg s rq ef q o :
  hsearch_single cfg s rq ef q = Ok o ->
  Sorted.StronglySorted (le_key (fun p : Z * Z => F32.key (snd p))) (so_full o) /\
  (so_cut o <= length (so_full o))%nat /\ (0 < r_k rq -> Z.of_nat (so_cut o) <= r_k rq).
Proof.
  unfold hsearch_single. intros H.
  destruct (negb (Z.of_nat (length q) =? hc_dim cfg)); [discriminate|].
  assert (Hnil : forall t, Ok {| so_full := []; so_cut := 0; so_tie := t; so_ptie := false |} = Ok o ->
     Sorted.StronglySorted (le_key (fun p : Z * Z => F32.key (snd p))) (so_full o) /\
     (so_cut o <= length (so_full o))%nat /\ (0 < r_k rq -> Z.of_nat (so_cut o) <= r_k rq)).
  { intros t E. inversion E; subst o. cbn. split; [constructor|]. split; lia. }
  destruct (hs_nodes s) as [|n0 ns]; [eapply Hnil; exact H|].
  destruct (hs_maxlevel s =? -1); [eapply Hnil; exact H|].
  destruct (preprocess (hc_metric cfg) q) as [pq|]; [|discriminate].
  destruct (greedy_descent _ s (hc_metric cfg) pq (hs_maxlevel s) (hs_entry s) _) as [c1 d1].
  inversion H; subst o; clear H. cbn [so_full so_cut]. split; [apply isort_strongly_sorted|].
  unfold sanitizeK. set (n := Z.of_nat (length (sort_cands _))).
  assert (Hn : 0 <= n) by (unfold n; lia).
  destruct (Z.leb_spec (r_k rq) 0); destruct (Z.ltb_spec n (r_k rq)); cbn [orb]; split; try lia.
Qed.
