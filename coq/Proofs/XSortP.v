(** The exchange sort of scoreMapToRanks ranks best-first for EVERY input order and every score,
    NaN and infinities included: the output is a permutation of the input, and a strictly better score
    never stands behind a worse one.  Only irreflexivity and transitivity of "better" are used, which Go's
    float [<] / [>] have even though they are not total (NaN compares false with everything). *)
From Coq Require Import ZArith List Bool Lia Permutation Sorted.
From Comet Require Import Base.FBits Model.XSort.
Import ListNotations.
Open Scope Z_scope.

Section XSortP.
  Context {A : Type} (better : A -> A -> bool).
  Hypothesis better_irrefl : forall a, better a a = false.
  Hypothesis better_trans : forall a b c, better a b = true -> better b c = true -> better a c = true.

  Lemma better_asym a b : better a b = true -> better b a = false.
  Proof.
    intros H. destruct (better b a) eqn:E; [|reflexivity].
    rewrite <- (better_irrefl a). symmetry. eapply better_trans; eassumption.
  Qed.

  Lemma carry_best_perm x l m r : carry_best better x l = (m, r) -> Permutation (x :: l) (m :: r).
  Proof.
    revert x m r. induction l as [|y l IH]; intros x m r H; cbn in H.
    - inversion H; subst. apply Permutation_refl.
    - destruct (better y x).
      + destruct (carry_best better y l) as [m' r'] eqn:E. inversion H; subst.
        apply IH in E. eapply perm_trans; [apply perm_skip; exact E | apply perm_swap].
      + destruct (carry_best better x l) as [m' r'] eqn:E. inversion H; subst.
        apply IH in E. eapply perm_trans; [apply perm_swap|].
        eapply perm_trans; [apply perm_skip; exact E | apply perm_swap].
  Qed.

  Lemma carry_best_length x l m r : carry_best better x l = (m, r) -> length r = length l.
  Proof. intros H. apply carry_best_perm in H. apply Permutation_length in H. cbn in H. lia. Qed.

  (** what comes out in front is the carried element or something strictly better than it *)
  Lemma carry_best_front x l m r : carry_best better x l = (m, r) -> m = x \/ better m x = true.
  Proof.
    revert x m r. induction l as [|y l IH]; intros x m r H; cbn in H.
    - inversion H; auto.
    - destruct (better y x) eqn:B.
      + destruct (carry_best better y l) as [m' r'] eqn:E. inversion H; subst.
        destruct (IH _ _ _ E) as [-> | G]; [right; exact B | right; eapply better_trans; eassumption].
      + destruct (carry_best better x l) as [m' r'] eqn:E. inversion H; subst. eapply IH; eassumption.
  Qed.

  (** ... and nothing left behind is strictly better than it *)
  Lemma carry_best_rest x l m r : carry_best better x l = (m, r) -> Forall (fun y => better y m = false) r.
  Proof.
    revert x m r. induction l as [|y l IH]; intros x m r H; cbn in H.
    - inversion H; constructor.
    - destruct (better y x) eqn:B.
      + destruct (carry_best better y l) as [m' r'] eqn:E. inversion H; subst.
        constructor; [|eapply IH; eassumption].
        apply better_asym.
        destruct (carry_best_front _ _ _ _ E) as [-> | G]; [exact B | eapply better_trans; eassumption].
      + destruct (carry_best better x l) as [m' r'] eqn:E. inversion H; subst.
        constructor; [|eapply IH; eassumption].
        destruct (carry_best_front _ _ _ _ E) as [-> | G]; [exact B|].
        destruct (better y m) eqn:Y; [|reflexivity].
        rewrite <- B. symmetry. eapply better_trans; eassumption.
  Qed.

  Lemma xsort_fuel_perm n l : (length l <= n)%nat -> Permutation l (xsort_fuel better n l).
  Proof.
    revert l. induction n as [|n IH]; intros l Hn.
    - destruct l; cbn in *; [apply Permutation_refl | lia].
    - destruct l as [|x l]; cbn; [apply Permutation_refl|].
      destruct (carry_best better x l) as [m r] eqn:E.
      rewrite (carry_best_perm _ _ _ _ E). apply perm_skip. apply IH.
      rewrite (carry_best_length _ _ _ _ E). cbn in Hn. lia.
  Qed.

  Lemma xsort_fuel_sorted n l : (length l <= n)%nat ->
    StronglySorted (fun a b => better b a = false) (xsort_fuel better n l).
  Proof.
    revert l. induction n as [|n IH]; intros l Hn.
    - destruct l; cbn in *; [constructor | lia].
    - destruct l as [|x l]; cbn; [constructor|].
      destruct (carry_best better x l) as [m r] eqn:E.
      assert (Hr : (length r <= n)%nat) by (rewrite (carry_best_length _ _ _ _ E); cbn in Hn; lia).
      constructor; [apply IH; exact Hr|].
      eapply Permutation_Forall; [apply xsort_fuel_perm; exact Hr|].
      eapply carry_best_rest; eassumption.
  Qed.

  Theorem xsort_perm l : Permutation l (xsort better l).
  Proof. apply xsort_fuel_perm. apply le_n. Qed.
  Theorem xsort_best_first l : StronglySorted (fun a b => better b a = false) (xsort better l).
  Proof. apply xsort_fuel_sorted. apply le_n. Qed.
End XSortP.

Lemma fltb_irrefl a : F64.ltb a a = false.
Proof. unfold F64.ltb, fltb. destruct (negb _); cbn; [|reflexivity]. apply Z.ltb_irrefl. Qed.
Lemma fltb_trans a b c : F64.ltb a b = true -> F64.ltb b c = true -> F64.ltb a c = true.
Proof.
  unfold F64.ltb, fltb. intros H1 H2.
  apply andb_prop in H1 as [H1 K1]. apply andb_prop in H1 as [Na Nb].
  apply andb_prop in H2 as [H2 K2]. apply andb_prop in H2 as [_ Nc].
  rewrite Na, Nc. cbn. apply Z.ltb_lt in K1. apply Z.ltb_lt in K2. apply Z.ltb_lt. lia.
Qed.

Lemma better64_irrefl asc a : better64 asc a a = false.
Proof. unfold better64, F64.gtb, fgtb. destruct asc; apply fltb_irrefl. Qed.
Lemma better64_trans asc a b c : better64 asc a b = true -> better64 asc b c = true -> better64 asc a c = true.
Proof.
  unfold better64, F64.gtb, fgtb. destruct asc; intros H1 H2.
  - exact (fltb_trans _ _ _ H1 H2).
  - exact (fltb_trans _ _ _ H2 H1).
Qed.

(** scoreMapToRanks, whatever order the map is iterated in and whatever the scores (NaN, +-Inf, ties):
    every id gets exactly one of the positions 0..n-1, and an id with a strictly better score -- lower
    when ascending, higher when descending, in Go's own float comparison -- never gets a later position. *)
Theorem xranks_best_first (asc : bool) (m : list (Z * Z)) :
  let sorted := xsort (better64 asc) m in
  Permutation m sorted /\
  StronglySorted (fun a b => better64 asc b a = false) sorted /\
  map fst (xranks asc m) = map fst sorted /\
  map snd (xranks asc m) = map Z.of_nat (seq 0 (length m)).
Proof.
  cbv zeta. split; [apply xsort_perm|].
  split; [apply xsort_best_first; [apply better64_irrefl | apply better64_trans]|].
  assert (L : length (xsort (better64 asc) m) = length m)
    by (symmetry; apply Permutation_length, xsort_perm).
  unfold xranks. split.
  - assert (G : forall (a : list Z) (b : list Z), length a = length b -> map fst (combine a b) = a).
    { induction a as [|x a IHa]; intros [|y b] Hab; cbn in *; try lia; [reflexivity | f_equal; apply IHa; lia]. }
    apply G. rewrite !map_length, seq_length. reflexivity.
  - assert (G : forall (a b : list Z), length a = length b -> map snd (combine a b) = b).
    { induction a as [|x a IHa]; intros [|y b] Hab; cbn in *; try lia; [reflexivity | f_equal; apply IHa; lia]. }
    rewrite G by (rewrite !map_length, seq_length; reflexivity). rewrite L. reflexivity.
Qed.

(** the premises are met by a map with a NaN, an infinity and a tie; the NaN stays where the iteration
    order put it and the others are ordered around it *)
Example xranks_example :
  let nan := F64.nan in let one := F64.one in let inf := 9218868437227405312 in
  map fst (xranks true [(1, inf); (2, nan); (3, one); (4, 0); (5, one)]) = [4; 2; 3; 5; 1].
Proof. vm_compute. reflexivity. Qed.
