(** distance.go: "squared-Euclidean is its square", over the reals.  The Euclidean distance is the
    correctly rounded square root of the squared-Euclidean distance (bit for bit: C18_l2_is_sqrt_l2sq),
    so for every pair of vectors whose squared distance is finite

        | l2(a,b)^2 - l2sq(a,b) |  <=  (2^-23 + 2^-48) * l2sq(a,b)

    -- one rounding, never in the subnormal range (the root of the smallest positive float32 is 2^-74.5). *)
From Coq Require Import ZArith Reals Bool Lia Lra List.
From Coq Require Import Floats.SpecFloat.
From Flocq Require Import Core.Core IEEE754.BinarySingleNaN.
From Flocq Require Import Relative.
From Comet Require Import Base.FBits Model.Distance Proofs.FloatBridge Proofs.FloatBits Proofs.FloatSF Proofs.FloatOps.
From Comet Require Import Proofs.HalfP Proofs.Int8P Proofs.DistanceP.

Import ListNotations.
Local Open Scope Z_scope.

#[local] Existing Instance P24.
#[local] Existing Instance E128.

Lemma sfsqrt_real x (Hx : valid32 x = true) :
  is_finite_SF x = true -> sf_nonneg x = true ->
  valid32 (SFsqrt 24 128 x) = true /\ RV (SFsqrt 24 128 x) = RN (sqrt (RV x)) /\
  is_finite_SF (SFsqrt 24 128 x) = true.
Proof.
  intros Fx Nx.
  pose proof (Bsqrt_correct 24 128 P24 E128 mode_NE (SF2B x Hx)) as C.
  rewrite <- !RV_B2SF in C. rewrite B2SF_SF2B in C. change (round_mode mode_NE) with ZnearestE in C.
  destruct C as (C1 & C2 & _).
  assert (EQ : SFsqrt 24 128 x = B2SF (Bsqrt mode_NE (SF2B x Hx))).
  { rewrite <- (SFsqrt_equiv 24 128 P24 E128), B2SF_SF2B. reflexivity. }
  rewrite EQ. split; [apply valid_binary_B2SF|]. split; [exact C1|].
  rewrite is_finite_SF_B2SF, C2.
  destruct x as [s|s| |s m e]; cbn in Fx, Nx |- *; try discriminate; try reflexivity.
  destruct s; [discriminate|reflexivity].
Qed.

Lemma sqrt32_real a : fin32 a -> sf_nonneg (F32.of_bits a) = true ->
  fin32 (F32.sqrt a) /\ R32 (F32.sqrt a) = RN (sqrt (R32 a)).
Proof.
  intros Ha Na.
  destruct (sfsqrt_real _ (fin32_valid a Ha) (proj2 Ha) Na) as (V & E & F).
  destruct (fin32_to_bits _ V F) as (F' & E').
  split; [exact F'|]. exact (eq_trans E' E).
Qed.

Lemma nonneg_real a : sf_nonneg (F32.of_bits a) = true -> (0 <= R32 a)%R.
Proof.
  unfold R32, RV. destruct (F32.of_bits a) as [s|s| |s m e]; intros H; try (cbn; lra).
  destruct s; [discriminate H|]. unfold SF2R, F2R. cbn [cond_Zopp Fnum Fexp].
  apply Rmult_le_pos; [apply IZR_le; lia|apply bpow_ge_0].
Qed.

(** a positive float32 is at least 2^-149 *)
Lemma pos_ge_min a : fin32 a -> (0 < R32 a)%R -> (bpow radix2 (-149) <= R32 a)%R.
Proof.
  intros Ha Hp. pose proof (fin32_valid a Ha) as Hv. unfold R32 in *.
  rewrite <- (B2SF_SF2B 24 128 _ Hv), RV_B2SF in *.
  rewrite <- (Rabs_pos_eq (B2R (SF2B _ Hv))) by lra.
  apply (abs_B2R_ge_emin 24 128).
  destruct (SF2B (F32.of_bits a) Hv) as [s|s| |s m e B] eqn:E; cbn in Hp |- *; try lra; try reflexivity.
Qed.

Theorem sqrt_square_error s :
  fin32 s -> sf_nonneg (F32.of_bits s) = true ->
  let d := F32.sqrt s in
  R32 d = RN (sqrt (R32 s)) /\
  (Rabs (R32 d * R32 d - R32 s) <= (bpow radix2 (-23) + bpow radix2 (-48)) * R32 s)%R.
Proof.
  intros Hs Ns. cbv zeta.
  destruct (sqrt32_real s Hs Ns) as (_ & E). split; [exact E|].
  pose proof (nonneg_real s Ns) as H0.
  set (S := R32 s) in *. rewrite E.
  destruct (Req_dec S 0) as [Z|NZ].
  { rewrite Z, sqrt_0, round_0 by apply valid_rnd_N. rewrite Rmult_0_l, Rmult_0_r, Rminus_0_r, Rabs_R0. lra. }
  assert (Sp : (0 < S)%R) by lra.
  set (q := sqrt S).
  assert (Qp : (0 < q)%R) by (apply sqrt_lt_R0; exact Sp).
  assert (Q2 : (q * q = S)%R) by (apply sqrt_sqrt; lra).
  (* the root is far above the subnormal range *)
  assert (Qn : (bpow radix2 (-149 + 24 - 1) <= Rabs q)%R).
  { rewrite Rabs_pos_eq by lra. change (-149 + 24 - 1) with (-126).
    replace (bpow radix2 (-126)) with (sqrt (bpow radix2 (2 * -126))) by apply sqrt_bpow.
    apply sqrt_le_1_alt. apply Rle_trans with (bpow radix2 (-149)); [apply bpow_le; lia|].
    apply pos_ge_min; assumption. }
  pose proof (relative_error_N_FLT radix2 (-149) 24 P24 (fun z => negb (Z.even z)) q Qn) as Hrel.
  change (FLT_exp (-149) 24) with fexp32 in Hrel.
  change (Znearest (fun z => negb (Z.even z))) with ZnearestE in Hrel.
  rewrite (Rabs_pos_eq q) in Hrel by lra.
  set (u := bpow radix2 (-24)).
  assert (Eu : (/ 2 * bpow radix2 (- (24) + 1) = u)%R) by (unfold u; cbn; lra).
  rewrite Eu in Hrel.
  assert (Up : (0 < u)%R) by apply bpow_gt_0.
  assert (E23 : bpow radix2 (-23) = (2 * u)%R).
  { unfold u. replace (-23) with (1 + -24) by lia. rewrite bpow_plus. cbn. lra. }
  assert (E48 : bpow radix2 (-48) = (u * u)%R).
  { unfold u. rewrite <- bpow_plus. reflexivity. }
  rewrite E23, E48.
  set (d := RN q) in *.
  apply Rabs_le_inv in Hrel.
  (* d = q + e with |e| <= u q ; d^2 - S = e (2q + e) *)
  set (e := (d - q)%R) in *.
  replace (d * d - S)%R with (e * (2 * q + e))%R by (unfold e; rewrite <- Q2; ring).
  rewrite <- Q2.
  assert (He2 : (Rabs e <= u * q)%R) by (apply Rabs_le; lra).
  assert (Hs2 : (Rabs (2 * q + e) <= (2 + u) * q)%R).
  { apply Rabs_le. split; [|lra].
    assert (0 <= u * q)%R by (apply Rmult_le_pos; lra). lra. }
  rewrite Rabs_mult.
  replace ((2 * u + u * u) * (q * q))%R with ((u * q) * ((2 + u) * q))%R by ring.
  apply Rmult_le_compat; [apply Rabs_pos|apply Rabs_pos|exact He2|exact Hs2].
Qed.

(** the distance functions: Euclidean squared is squared-Euclidean up to that one rounding *)
Theorem l2_squared_is_l2sq a b :
  wfv a -> wfv b -> is_finite_SF (F32.of_bits (dist L2Sq a b)) = true ->
  (Rabs (R32 (dist L2 a b) * R32 (dist L2 a b) - R32 (dist L2Sq a b))
   <= (bpow radix2 (-23) + bpow radix2 (-48)) * R32 (dist L2Sq a b))%R.
Proof.
  intros Ha Hb Hf.
  destruct (l2sq_acc_nonneg a b F32.zero Ha Hb zero_wf nn_zero) as [Hw Hn].
  change (dist L2 a b) with (F32.sqrt (dist L2Sq a b)).
  apply sqrt_square_error; [split; [exact Hw|exact Hf]|exact Hn].
Qed.

Example l2_squared_example :
  wfv [F32.of_Z 3; F32.of_Z 0] /\ wfv [F32.of_Z 0; F32.of_Z 4] /\
  is_finite_SF (F32.of_bits (dist L2Sq [F32.of_Z 3; F32.of_Z 0] [F32.of_Z 0; F32.of_Z 4])) = true /\
  dist L2Sq [F32.of_Z 3; F32.of_Z 0] [F32.of_Z 0; F32.of_Z 4] = F32.of_Z 25.
Proof.
  split; [|split; [|split; [vm_compute; reflexivity|vm_compute; reflexivity]]];
    repeat constructor; try (apply wf32_range; vm_compute; split; [discriminate|reflexivity]).
Qed.
