(** Generic theorems about the format language: round trip, extension, prefix rejection. *)
From Coq Require Import ZArith List Bool Lia.
From Comet Require Import Base.Parse Model.Format.
Import ListNotations.
Open Scope Z_scope.

Lemma le_bytes_length n z : length (le_bytes n z) = n.
Proof. revert z. induction n as [|n IH]; intro z; cbn [le_bytes length]; [reflexivity | now rewrite IH]. Qed.

Lemma le_val_le_bytes n z : 0 <= z < 256 ^ Z.of_nat n -> le_val (le_bytes n z) = z.
Proof.
  revert z. induction n as [|n IH]; intros z Hz; cbn [le_bytes le_val].
  - cbn in Hz. lia.
  - rewrite IH.
    + pose proof (Z.div_mod z 256 ltac:(lia)). lia.
    + rewrite Nat2Z.inj_succ, Z.pow_succ_r in Hz by lia.
      split; [apply Z.div_pos; lia | apply Z.div_lt_upper_bound; lia].
Qed.

Lemma take_app n a r : length a = n -> take n (a ++ r) = Some (a, r).
Proof.
  intro H. unfold take. rewrite app_length.
  destruct (Nat.ltb_spec (length a + length r) n); [lia|].
  rewrite <- H. rewrite firstn_app, skipn_app, Nat.sub_diag, firstn_all, skipn_all. cbn. now rewrite !app_nil_r.
Qed.

Lemma take_ext n s b r t : take n s = Some (b, r) -> take n (s ++ t) = Some (b, r ++ t).
Proof.
  unfold take. destruct (Nat.ltb_spec (length s) n) as [H|H]; [discriminate|].
  intro E. inversion E; subst; clear E. rewrite app_length.
  destruct (Nat.ltb_spec (length s + length t) n); [lia|].
  rewrite firstn_app, skipn_app. replace (n - length s)%nat with O by lia. cbn. now rewrite app_nil_r.
Qed.

Lemma take_split n s b r : take n s = Some (b, r) -> s = b ++ r /\ length b = n.
Proof.
  unfold take. destruct (Nat.ltb_spec (length s) n) as [H|H]; [discriminate|].
  intro E. inversion E; subst. split; [symmetry; apply firstn_skipn | apply firstn_length_le; exact H].
Qed.

Lemma list_eqb_refl l : list_eqb l l = true.
Proof. induction l as [|x t IH]; cbn; [reflexivity|]. now rewrite Z.eqb_refl, IH. Qed.

Lemma list_eqb_eq a b : list_eqb a b = true -> a = b.
Proof.
  revert b. induction a as [|x t IH]; intros [|y u] H; cbn in H; try discriminate; [reflexivity|].
  apply andb_true_iff in H. destruct H as [H1 H2]. apply Z.eqb_eq in H1. subst. f_equal. now apply IH.
Qed.

(** the repetition loop of [decode], named *)
Fixpoint rep (a : fmt) (n : nat) (s : list Z) : option (list val * list Z) :=
  match n with
  | O => Some ([], s)
  | S n' => match decode a s with
            | Some (v, r) => match rep a n' r with
                             | Some (vs, r') => Some (v :: vs, r')
                             | None => None
                             end
            | None => None
            end
  end.

Lemma decode_list n a s :
  decode (FList n a) s = match rep a n s with Some (vs, r) => Some (VL vs, r) | None => None end.
Proof.
  cbn [decode].
  assert (H : forall n s,
    (fix rep0 (n : nat) (s : list Z) {struct n} : option (list val * list Z) :=
       match n with
       | O => Some ([], s)
       | S n' => match decode a s with
                 | Some (v, r) => match rep0 n' r with
                                  | Some (vs, r') => Some (v :: vs, r')
                                  | None => None
                                  end
                 | None => None
                 end
       end) n s = rep a n s).
  { clear. induction n as [|n IH]; intro s; [reflexivity|]. cbn [rep]. destruct (decode a s) as [[v r]|]; [|reflexivity].
    rewrite IH. reflexivity. }
  rewrite H. reflexivity.
Qed.

(** 1. round trip: decoding what was encoded returns the value and leaves the rest untouched *)
Theorem decode_encode : forall f v r, wt f v -> decode f (encode f v ++ r) = Some (v, r).
Proof.
  induction f as [| n | bs | n | a IHa k IHk | n a IHa]; intros v r Hw.
  - destruct v; cbn in Hw; try contradiction. reflexivity.
  - destruct v as [|z| | |]; cbn in Hw; try contradiction. cbn [encode decode].
    rewrite take_app by apply le_bytes_length. now rewrite le_val_le_bytes.
  - destruct v; cbn in Hw; try contradiction. cbn [encode decode].
    rewrite take_app by reflexivity. now rewrite list_eqb_refl.
  - destruct v as [| |b| |]; cbn in Hw; try contradiction. cbn [encode decode]. now rewrite take_app.
  - destruct v as [| | |v1 v2|]; cbn in Hw; try contradiction. destruct Hw as [H1 H2].
    cbn [encode decode]. rewrite <- app_assoc, IHa by exact H1. now rewrite IHk.
  - destruct v as [| | | |vs]; cbn in Hw; try contradiction. destruct Hw as [Hl Hf].
    rewrite decode_list. cbn [encode].
    assert (H : rep a n (flat_map (encode a) vs ++ r) = Some (vs, r)).
    { subst n. induction Hf as [|v vs Hv Hvs IH]; [reflexivity|].
      cbn [flat_map length rep]. rewrite <- app_assoc, IHa by exact Hv. now rewrite IH. }
    now rewrite H.
Qed.

(** 2. extension: a successful decode does not look past what it consumed *)
Lemma rep_ext a (IHa : forall s v r t, decode a s = Some (v, r) -> decode a (s ++ t) = Some (v, r ++ t)) :
  forall n s vs r t, rep a n s = Some (vs, r) -> rep a n (s ++ t) = Some (vs, r ++ t).
Proof.
  induction n as [|n IH]; intros s vs r t H; cbn [rep] in *.
  - inversion H; subst. reflexivity.
  - destruct (decode a s) as [[v r1]|] eqn:E; [|discriminate].
    rewrite (IHa _ _ _ t E). destruct (rep a n r1) as [[vs1 r2]|] eqn:E2; [|discriminate].
    rewrite (IH _ _ _ t E2). inversion H; subst. reflexivity.
Qed.

Theorem decode_ext : forall f s v r t, decode f s = Some (v, r) -> decode f (s ++ t) = Some (v, r ++ t).
Proof.
  induction f as [| n | bs | n | a IHa k IHk | n a IHa]; intros s v r t H.
  - cbn in *. inversion H; subst. reflexivity.
  - cbn [decode] in *. destruct (take n s) as [[b r1]|] eqn:E; [|discriminate].
    rewrite (take_ext _ _ _ _ t E). inversion H; subst. reflexivity.
  - cbn [decode] in *. destruct (take (length bs) s) as [[b r1]|] eqn:E; [|discriminate].
    rewrite (take_ext _ _ _ _ t E). destruct (list_eqb b bs); [|discriminate]. inversion H; subst. reflexivity.
  - cbn [decode] in *. destruct (take n s) as [[b r1]|] eqn:E; [|discriminate].
    rewrite (take_ext _ _ _ _ t E). inversion H; subst. reflexivity.
  - cbn [decode] in *. destruct (decode a s) as [[v1 r1]|] eqn:E; [|discriminate].
    rewrite (IHa _ _ _ t E). destruct (decode (k v1) r1) as [[v2 r2]|] eqn:E2; [|discriminate].
    rewrite (IHk _ _ _ _ t E2). inversion H; subst. reflexivity.
  - rewrite decode_list in *. destruct (rep a n s) as [[vs r1]|] eqn:E; [|discriminate].
    rewrite (rep_ext a IHa _ _ _ _ t E). inversion H; subst. reflexivity.
Qed.

(** 3. every strict prefix of a valid stream is rejected — for every format, value and prefix length *)
Theorem decode_strict_prefix_fails : forall f v p t,
  wt f v -> encode f v = p ++ t -> t <> [] -> decode f p = None.
Proof.
  intros f v p t Hw He Ht.
  destruct (decode f p) as [[v' r']|] eqn:E; [|reflexivity]. exfalso.
  pose proof (decode_ext f p v' r' t E) as H1.
  pose proof (decode_encode f v [] Hw) as H2. rewrite app_nil_r, He in H2.
  rewrite H1 in H2. inversion H2. destruct r'; destruct t; cbn in *; congruence.
Qed.

(** 4. a successful decode consumed exactly the encoding of a well-typed value (bytes in 0..255) *)
Definition bytes_ok (s : list Z) : Prop := Forall (fun b => 0 <= b < 256) s.

Lemma le_val_range bs : bytes_ok bs -> 0 <= le_val bs < 256 ^ Z.of_nat (length bs).
Proof.
  induction 1 as [|b t Hb Ht IH]; cbn [le_val length]; [cbn; lia|].
  rewrite Nat2Z.inj_succ, Z.pow_succ_r by lia. lia.
Qed.

Lemma le_bytes_le_val bs : bytes_ok bs -> le_bytes (length bs) (le_val bs) = bs.
Proof.
  induction 1 as [|b t Hb Ht IH]; cbn [le_val length le_bytes]; [reflexivity|].
  replace ((b + 256 * le_val t) mod 256) with b
    by (generalize (le_val t); intro x; pose proof (Z.div_mod (b + 256 * x) 256 ltac:(lia));
        pose proof (Z.mod_pos_bound (b + 256 * x) 256 ltac:(lia)); nia).
  replace ((b + 256 * le_val t) / 256) with (le_val t)
    by (generalize (le_val t); intro x; pose proof (Z.div_mod (b + 256 * x) 256 ltac:(lia));
        pose proof (Z.mod_pos_bound (b + 256 * x) 256 ltac:(lia)); nia).
  now rewrite IH.
Qed.

Lemma bytes_ok_app a b : bytes_ok (a ++ b) <-> bytes_ok a /\ bytes_ok b.
Proof. unfold bytes_ok. apply Forall_app. Qed.

Theorem decode_sound : forall f s v r,
  bytes_ok s -> decode f s = Some (v, r) -> s = encode f v ++ r /\ wt f v.
Proof.
  induction f as [| n | bs | n | a IHa k IHk | n a IHa]; intros s v r Hs H.
  - cbn in H. inversion H; subst. split; [reflexivity | exact I].
  - cbn [decode] in H. destruct (take n s) as [[b r1]|] eqn:E; [|discriminate]. inversion H; subst.
    apply take_split in E. destruct E as [-> Hl]. apply bytes_ok_app in Hs. destruct Hs as [Hb _].
    cbn [encode wt]. rewrite <- Hl. split; [now rewrite le_bytes_le_val | now apply le_val_range].
  - cbn [decode] in H. destruct (take (length bs) s) as [[b r1]|] eqn:E; [|discriminate].
    destruct (list_eqb b bs) eqn:Eb; [|discriminate]. inversion H; subst.
    apply take_split in E. destruct E as [-> _]. apply list_eqb_eq in Eb. subst. split; [reflexivity | exact I].
  - cbn [decode] in H. destruct (take n s) as [[b r1]|] eqn:E; [|discriminate]. inversion H; subst.
    apply take_split in E. destruct E as [-> Hl]. split; [reflexivity | exact Hl].
  - cbn [decode] in H. destruct (decode a s) as [[v1 r1]|] eqn:E; [|discriminate].
    destruct (decode (k v1) r1) as [[v2 r2]|] eqn:E2; [|discriminate]. inversion H; subst.
    destruct (IHa _ _ _ Hs E) as [-> Hw1]. apply bytes_ok_app in Hs. destruct Hs as [_ Hs1].
    destruct (IHk _ _ _ _ Hs1 E2) as [-> Hw2]. cbn [encode wt]. rewrite app_assoc. auto.
  - rewrite decode_list in H. destruct (rep a n s) as [[vs r1]|] eqn:E; [|discriminate]. inversion H; subst.
    cbn [encode wt].
    assert (G : forall n s vs r, bytes_ok s -> rep a n s = Some (vs, r) ->
                s = flat_map (encode a) vs ++ r /\ length vs = n /\ Forall (wt a) vs).
    { clear - IHa. induction n as [|n IH]; intros s vs r Hs H; cbn [rep] in H.
      - inversion H; subst. repeat split; constructor.
      - destruct (decode a s) as [[v r1]|] eqn:E; [|discriminate].
        destruct (rep a n r1) as [[vs1 r2]|] eqn:E2; [|discriminate]. inversion H; subst.
        destruct (IHa _ _ _ Hs E) as [-> Hw]. apply bytes_ok_app in Hs. destruct Hs as [_ Hs1].
        destruct (IH _ _ _ Hs1 E2) as [-> [Hl Hf]]. cbn [flat_map length]. rewrite app_assoc.
        repeat split; [now rewrite Hl | constructor; assumption]. }
    destruct (G _ _ _ _ Hs E) as [-> [Hl Hf]]. auto.
Qed.

(** consequences used by C07 / C16 *)
Corollary decode_concat : forall f g v w r, wt f v -> wt g w ->
  decode f (encode f v ++ encode g w ++ r) = Some (v, encode g w ++ r) /\
  decode g (encode g w ++ r) = Some (w, r).
Proof. intros. split; apply decode_encode; assumption. Qed.
