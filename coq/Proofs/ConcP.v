(** C11: visibility of the soft-delete protocol under every interleaving. *)
From Coq Require Import ZArith List Bool Lia.
From Comet Require Import Model.VecIndex Model.Conc Proofs.FlatP.
Import ListNotations.
Open Scope Z_scope.

Definition cinv (es : list cstep) (s : cstate) : Prop :=
  (forall id, In id (c_entries s) -> In id (adds_of es)) /\
  (forall id, In id (adds_of es) -> In id (c_entries s) \/ In id (c_gone s)) /\
  (forall id, In id (c_gone s) -> rem1_begun id es = true) /\
  (forall t id ok, In (t, id, ok) (c_pend s) -> rem1_begun id es = true) /\
  (forall id, In id (c_gone s) -> ~ In id (clive s)) /\
  (forall id, In id (c_gone s) -> In id (adds_of es)) /\
  (forall t id, In (t, id, true) (c_pend s) -> In id (adds_of es)) /\
  (forall id, In id (c_del s) -> In id (c_gone s)).

Lemma adds_of_app a b : adds_of (a ++ b) = adds_of a ++ adds_of b.
Proof. induction a as [|e t IH]; [reflexivity|]. destruct e; cbn [app adds_of]; rewrite IH; reflexivity. Qed.

Lemma rem1_begun_app id a b : rem1_begun id (a ++ b) = rem1_begun id a || rem1_begun id b.
Proof. unfold rem1_begun. apply existsb_app. Qed.

Lemma clive_in s id : In id (clive s) <-> In id (c_entries s) /\ memz id (c_del s) = false.
Proof. unfold clive. rewrite filter_In, negb_true_iff. tauto. Qed.

Lemma pend_ok_in t id p : pend_ok t id p = true -> In (t, id, true) p.
Proof.
  unfold pend_ok. intro H. apply existsb_exists in H. destruct H as [[[t' i'] ok] [Hin Hc]].
  apply andb_true_iff in Hc. destruct Hc as [Hc Hok]. apply andb_true_iff in Hc. destruct Hc as [Ht Hi].
  apply Z.eqb_eq in Ht. apply Z.eqb_eq in Hi. subst. exact Hin.
Qed.

Ltac eight := refine (conj _ (conj _ (conj _ (conj _ (conj _ (conj _ (conj _ _))))))).

Lemma cinv_step es s e : NoDup (adds_of (es ++ [e])) -> cinv es s -> cinv (es ++ [e]) (cstep_apply s e).
Proof.
  intros Hnd [H1 [H2 [H4 [H5 [H6 [H7 [H8 H9]]]]]]].
  rewrite adds_of_app in Hnd. unfold cinv. rewrite !adds_of_app.
  assert (Rb : forall i, rem1_begun i es = true -> rem1_begun i (es ++ [e]) = true)
    by (intros i Hi; rewrite rem1_begun_app, Hi; reflexivity).
  destruct e as [id|t id|t id| |]; cbn [cstep_apply adds_of app].
  - (* add *)
    cbn [c_entries c_del c_pend c_gone]. eight.
    + intros i Hi. apply in_app_or in Hi. apply in_or_app. destruct Hi as [Hi|[<-|[]]]; [left; auto | right; now left].
    + intros i Hi. apply in_app_or in Hi. destruct Hi as [Hi|[<-|[]]].
      * destruct (H2 i Hi); [left; apply in_or_app; now left | right; assumption].
      * left. apply in_or_app. right. now left.
    + intros i Hi. apply Rb. auto.
    + intros t i ok Hi. apply Rb. eauto.
    + intros i Hi Hl. apply clive_in in Hl. cbn [c_entries c_del] in Hl. destruct Hl as [Hl Hd].
      apply in_app_or in Hl. destruct Hl as [Hl|[<-|[]]].
      * apply (H6 i Hi). apply clive_in. auto.
      * apply NoDup_remove_2 in Hnd. rewrite app_nil_r in Hnd. apply Hnd. apply H7. exact Hi.
    + intros i Hi. apply in_or_app. left. auto.
    + intros t i Hi. apply in_or_app. left. eauto.
    + exact H9.
  - (* remove, phase 1 *)
    cbn [c_entries c_del c_pend c_gone]. rewrite app_nil_r.
    assert (Rn : rem1_begun id (es ++ [CRem1 t id]) = true).
    { rewrite rem1_begun_app. cbn. rewrite Z.eqb_refl. now rewrite orb_true_r. }
    eight.
    + exact H1.
    + exact H2.
    + intros i Hi. apply Rb. auto.
    + intros t' i ok [Hi|Hi]; [inversion Hi; subst; exact Rn | apply Rb; eauto].
    + exact H6.
    + exact H7.
    + intros t' i [Hi|Hi]; [|eauto]. inversion Hi as [[Ht Hid Hok]]. subst.
      apply andb_true_iff in Hok. destruct Hok as [Hm _]. apply memz_In in Hm. auto.
    + exact H9.
  - (* remove, phase 2 *)
    rewrite app_nil_r.
    assert (Hsub : forall t' i ok, In (t', i, ok) (pend_drop t id (c_pend s)) -> In (t', i, ok) (c_pend s)).
    { intros t' i ok Hi. unfold pend_drop in Hi. apply filter_In in Hi. tauto. }
    destruct (pend_ok t id (c_pend s)) eqn:Ep; cbn [c_entries c_del c_pend c_gone].
    + apply pend_ok_in in Ep. eight.
      * exact H1.
      * intros i Hi. destruct (H2 i Hi); [left; assumption | right; now right].
      * intros i [<-|Hi]; apply Rb; eauto.
      * intros t' i ok Hi. apply Rb. eauto.
      * intros i Hi Hl. apply clive_in in Hl. cbn [c_entries c_del memz] in Hl. destruct Hl as [Hl Hd].
        apply orb_false_iff in Hd. destruct Hd as [Hne Hd]. destruct Hi as [<-|Hi].
        -- rewrite Z.eqb_refl in Hne. discriminate.
        -- apply (H6 i Hi). apply clive_in. auto.
      * intros i [<-|Hi]; eauto.
      * intros t' i Hi. eauto.
      * intros i [<-|Hi]; [now left | right; auto].
    + eight.
      * exact H1.
      * exact H2.
      * intros i Hi. apply Rb. auto.
      * intros t' i ok Hi. apply Rb. eauto.
      * exact H6.
      * exact H7.
      * intros t' i Hi. eauto.
      * exact H9.
  - (* flush *)
    rewrite app_nil_r. cbn [c_entries c_del c_pend c_gone]. eight.
    + intros i Hi. apply clive_in in Hi. apply H1. tauto.
    + intros i Hi. destruct (H2 i Hi) as [Hr|Hg]; [|right; exact Hg].
      destruct (memz i (c_del s)) eqn:Ed.
      * right. apply H9. apply memz_In. exact Ed.
      * left. apply clive_in. auto.
    + intros i Hi. apply Rb. auto.
    + intros t' i ok Hi. apply Rb. eauto.
    + intros i Hi Hl. apply (H6 i Hi). unfold clive in Hl. cbn [c_entries c_del memz negb] in Hl.
      apply filter_In in Hl. tauto.
    + exact H7.
    + exact H8.
    + intros i [].
  - rewrite app_nil_r. eight; try assumption.
    + intros i Hi. apply Rb. auto.
    + intros t' i ok Hi. apply Rb. eauto.
Qed.

Lemma nodup_app_l {A} (a b : list A) : NoDup (a ++ b) -> NoDup a.
Proof.
  induction a as [|x t IH]; intro H; [constructor|]. cbn [app] in H. inversion H as [|? ? Hni Hnd]; subst.
  constructor; [|apply IH; exact Hnd]. intro Hc. apply Hni. apply in_or_app. now left.
Qed.

Lemma cinv_run : forall es, NoDup (adds_of es) -> cinv es (crun es).
Proof.
  intro es. unfold crun.
  assert (G : forall post pre s, NoDup (adds_of (pre ++ post)) -> cinv pre s ->
              cinv (pre ++ post) (fold_left cstep_apply post s)).
  { induction post as [|e t IH]; intros pre s Hnd Hinv; cbn [fold_left]; [rewrite app_nil_r; exact Hinv|].
    replace (pre ++ e :: t) with ((pre ++ [e]) ++ t) in * by (rewrite <- app_assoc; reflexivity).
    apply IH; [exact Hnd|]. apply cinv_step; [|exact Hinv].
    rewrite adds_of_app in Hnd. apply nodup_app_l in Hnd. exact Hnd. }
  intro Hnd. apply (G es [] cinit Hnd).
  repeat split; cbn; intros; contradiction.
Qed.

(** For EVERY interleaving (ids added once): a search taken after the steps [pre] returns
    - every id whose Add completed before it and whose Remove had not begun,
    - no id that was never added,
    - no id whose Remove took effect (phase 2 after a successful phase 1) before it. *)
Theorem visibility_linearizable pre : NoDup (adds_of pre) ->
  let res := clive (crun pre) in
  (forall id, In id (adds_of pre) -> rem1_begun id pre = false -> In id res) /\
  (forall id, In id res -> In id (adds_of pre)) /\
  (forall id, In id (c_gone (crun pre)) -> ~ In id res).
Proof.
  intro Hnd. destruct (cinv_run pre Hnd) as [H1 [H2 [H4 [H5 [H6 [H7 [H8 H9]]]]]]]. cbn zeta.
  split; [|split].
  - intros id Ha Hr. apply clive_in. destruct (H2 id Ha) as [He|Hg].
    + split; [exact He|]. destruct (memz id (c_del (crun pre))) eqn:Ed; [|reflexivity].
      apply memz_In in Ed. apply H9, H4 in Ed. congruence.
    + apply H4 in Hg. congruence.
  - intros id Hi. apply clive_in in Hi. apply H1. tauto.
  - exact H6.
Qed.

(** the spurious failure of the original code: T1 picks, T2 rotates, T1 writes *)
Theorem memtable_add_spurious_failure_refuted :
  qrun false qinit [QPick 1; QRotate; QWrite 1] = [QFrozenError 1].
Proof. reflexivity. Qed.

(** the repaired code never reports a frozen memtable, under any schedule: it retries *)
Theorem memtable_add_never_fails_spuriously : forall es s t, ~ In (QFrozenError t) (qrun true s es).
Proof.
  induction es as [|e r IH]; intros s t H; [exact H|]. cbn [qrun] in H.
  destruct (qstep_apply true s e) as [s' o] eqn:E. apply in_app_or in H. destruct H as [H|H]; [|eapply IH; exact H].
  destruct e as [t'| |t']; cbn [qstep_apply] in E.
  - inversion E; subst. contradiction.
  - inversion E; subst. contradiction.
  - destruct (q_get t' s) as [g|]; [|inversion E; subst; contradiction].
    destruct (g =? q_gen s); inversion E; subst; destruct H as [H|[]]; discriminate.
Qed.

