(** limiter.go laws. *)
From Coq Require Import ZArith List Bool Lia.
From Comet Require Import Base.FBits Model.Limiter.
Import ListNotations.
Open Scope Z_scope.

Lemma sanitizeK_range k n : 0 <= n -> 0 <= sanitizeK k n <= n.
Proof.
  intro Hn. unfold sanitizeK.
  destruct (Z.leb_spec k 0); cbn [orb]; [lia|].
  destruct (Z.ltb_spec n k); lia.
Qed.

Lemma sanitizeK_spec k n :
  sanitizeK k n = if (k <=? 0) || (n <? k) then n else k.
Proof. reflexivity. Qed.

Lemma sanitizeK_all k n : (k <= 0 \/ n < k) -> sanitizeK k n = n.
Proof.
  intros [H|H]; unfold sanitizeK.
  - apply Z.leb_le in H. now rewrite H.
  - apply Z.ltb_lt in H. rewrite H. now rewrite orb_true_r.
Qed.

Lemma sanitizeK_in k n : 0 < k <= n -> sanitizeK k n = k.
Proof.
  intros [H1 H2]. unfold sanitizeK.
  destruct (Z.leb_spec k 0); [lia|]. destruct (Z.ltb_spec n k); [lia|]. reflexivity.
Qed.

Section Limit.
  Context {A : Type}.

  Lemma limit_prefix (l : list A) k : exists r, l = limit l k ++ r.
  Proof. exists (skipn (Z.to_nat (sanitizeK k (Z.of_nat (length l)))) l). unfold limit. now rewrite firstn_skipn. Qed.

  Lemma limit_length (l : list A) k :
    Z.of_nat (length (limit l k)) = if (k <=? 0) || (Z.of_nat (length l) <? k) then Z.of_nat (length l) else k.
  Proof.
    unfold limit. rewrite firstn_length.
    pose proof (sanitizeK_range k (Z.of_nat (length l)) ltac:(lia)) as Hr.
    rewrite <- sanitizeK_spec. lia.
  Qed.

  Lemma limit_all (l : list A) k : (k <= 0 \/ Z.of_nat (length l) < k) -> limit l k = l.
  Proof.
    intro H. unfold limit. rewrite sanitizeK_all by exact H.
    rewrite Nat2Z.id. apply firstn_all.
  Qed.

  Lemma limit_firstn (l : list A) k : 0 < k <= Z.of_nat (length l) -> limit l k = firstn (Z.to_nat k) l.
  Proof. intro H. unfold limit. now rewrite sanitizeK_in. Qed.
End Limit.

(** Autocut: the result is always a prefix length; a panic can only arise for 2 elements. *)
Lemma autocut_scan_range cutoff n : forall rest i cnt p2 prev cur r,
  0 <= i -> i + Z.of_nat (length rest) + 1 = n ->
  autocut_scan cutoff i cnt p2 prev cur rest n = Cut r -> 0 <= r <= n.
Proof.
  induction rest as [|nxt rest IH]; intros i cnt p2 prev cur r Hi Hn H; cbn [autocut_scan] in H.
  - cbn [length] in Hn.
    destruct (F32.gtb cur prev); [|inversion H; lia].
    destruct p2 as [p|]; [|discriminate].
    destruct (F32.gtb cur p); [|inversion H; lia].
    destruct (cutoff <=? cnt + 1); inversion H; lia.
  - cbn [length] in Hn.
    destruct (F32.gtb cur prev && F32.gtb cur nxt).
    + destruct (cutoff <=? cnt + 1); [inversion H; lia|].
      eapply IH in H; [exact H | lia | lia].
    + eapply IH in H; [exact H | lia | lia].
Qed.

Lemma autocut_scan_no_panic cutoff n : forall rest i cnt p2 prev cur,
  (p2 = None -> rest <> []) ->
  autocut_scan cutoff i cnt p2 prev cur rest n <> CutPanic.
Proof.
  induction rest as [|nxt rest IH]; intros i cnt p2 prev cur Hp; cbn [autocut_scan].
  - destruct p2 as [p|]; [|exfalso; now apply Hp].
    destruct (F32.gtb cur prev); [|discriminate].
    destruct (F32.gtb cur p); [|discriminate].
    destruct (cutoff <=? cnt + 1); discriminate.
  - destruct (F32.gtb cur prev && F32.gtb cur nxt).
    + destruct (cutoff <=? cnt + 1); [discriminate|]. apply IH. discriminate.
    + apply IH. discriminate.
Qed.

Lemma autocut_diff_length ys : length (autocut_diff ys) = length ys.
Proof.
  unfold autocut_diff. rewrite map_length, combine_length, map_length, seq_length. lia.
Qed.

Theorem autocut_range ys c r : autocut ys c = Cut r -> 0 <= r <= Z.of_nat (length ys).
Proof.
  unfold autocut. destruct ys as [|y0 [|y1 t]]; intro H.
  - inversion H; cbn; lia.
  - inversion H; cbn; lia.
  - pose proof (autocut_diff_length (y0 :: y1 :: t)) as Hl.
    destruct (autocut_diff (y0 :: y1 :: t)) as [|d0 [|d1 rest]] eqn:Hd;
      [exfalso; cbn [length] in Hl; lia | exfalso; cbn [length] in Hl; lia |].
    eapply autocut_scan_range in H; [exact H | lia |].
    cbn [length] in Hl |- *. lia.
Qed.

(** No panic whenever the input does not have exactly two elements. *)
Theorem autocut_no_panic_not2 ys c : length ys <> 2%nat -> autocut ys c <> CutPanic.
Proof.
  unfold autocut. destruct ys as [|y0 [|y1 t]]; intro Hn; [discriminate | discriminate |].
  pose proof (autocut_diff_length (y0 :: y1 :: t)) as Hl.
  destruct (autocut_diff (y0 :: y1 :: t)) as [|d0 [|d1 rest]] eqn:Hd; [discriminate | discriminate |].
  apply autocut_scan_no_panic. intros _ ->. cbn [length] in Hl, Hn. lia.
Qed.

Theorem autocut_results_prefix l c r : autocut_results l c = Some r -> exists t, l = r ++ t.
Proof.
  unfold autocut_results. destruct ((c =? -1) || _).
  - intro H; inversion H; subst. exists []. now rewrite app_nil_r.
  - destruct (autocut (map snd l) c) as [i|]; [|discriminate].
    intro H; inversion H; subst. exists (skipn (Z.to_nat i) l). now rewrite firstn_skipn.
Qed.

Theorem autocut_results_disabled l : autocut_results l (-1) = Some l.
Proof. reflexivity. Qed.
