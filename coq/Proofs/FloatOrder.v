(** The order key of Base/FBits.v is IEEE-754 comparison: [fltb]/[feqb]/[fleb] on bit patterns equal
    SFltb/SFeqb/SFleb of the decoded values for ALL well-formed patterns (NaNs and signed zeros included). *)
From Coq Require Import ZArith Bool Lia.
From Coq Require Import Floats.SpecFloat.
From Comet Require Import Base.FBits.
From Comet Require Import Proofs.FloatBits.
Open Scope Z_scope.

(** * The order key is IEEE-754 comparison *)
Section Order.
Variables mw ew : Z.
Hypothesis Hmw : 0 < mw.
Hypothesis Hew : 1 < ew.
Hypothesis Hprec : mw + 1 < 2 ^ (ew - 1).
Set Default Proof Using "Hmw Hew Hprec".

Notation prec := (fprec mw).
Notation emax := (femax ew).
Notation emin := (femin mw ew).
Notation tmw := (two_mw mw).
Notation sb := (sign_bit mw ew).
Notation eall := (exp_all ew).
Notation V := (of_bits mw ew).
Notation T := (to_bits mw ew).
Notation valid := (valid_binary prec emax).

(** magnitude of a valid float as an integer: strictly monotone in (exponent, mantissa) *)
Definition magf (f : spec_float) : Z := T (SFabs f).

Lemma key_T f : valid f = true ->
  key mw ew (T f) = if sf_sign f then - magf f else magf f.
Proof.
  intros Hv. destruct (to_bits_mag mw ew Hmw Hew Hprec f Hv) as (r & E & Hr & Ea).
  unfold magf. rewrite Ea, E. unfold key.
  destruct (sf_sign f).
  - destruct (Z.leb_spec sb (sb + r)); lia.
  - destruct (Z.leb_spec sb (0 + r)); lia.
Qed.

Lemma magf_fin s m e : bounded prec emax m e = true ->
  magf (S754_finite s m e) = if tmw <=? Zpos m then (e - emin + 1) * tmw + (Zpos m - tmw) else Zpos m.
Proof. intros _. unfold magf, SFabs, to_bits. lia. Qed.

Lemma magf_fin_range s m e : bounded prec emax m e = true ->
  0 < magf (S754_finite s m e) < eall * tmw.
Proof.
  intros Hb. rewrite (magf_fin s m e Hb). apply (bounded_spec mw ew Hmw Hew Hprec) in Hb.
  pose proof (tmw_pos mw ew Hmw Hew Hprec). pose proof (emax_pos mw ew Hmw Hew Hprec).
  assert (eall = 2 * emax - 1) by (unfold exp_all; rewrite (two_ew mw ew Hmw Hew Hprec); lia).
  destruct (Z.leb_spec tmw (Zpos m)).
  - destruct Hb as [[_ Hc]|[[_ Hm2] [He1 He2]]]; [lia|].
    rewrite (emin_eq mw ew Hmw Hew Hprec) in *. unfold fprec in *. nia.
  - nia.
Qed.

Lemma magf_compare m1 e1 m2 e2 :
  bounded prec emax m1 e1 = true -> bounded prec emax m2 e2 = true ->
  (magf (S754_finite false m1 e1) ?= magf (S754_finite false m2 e2)) =
  match e1 ?= e2 with Lt => Lt | Gt => Gt | Eq => Pos.compare m1 m2 end.
Proof.
  intros H1 H2. rewrite (magf_fin _ _ _ H1), (magf_fin _ _ _ H2).
  apply (bounded_spec mw ew Hmw Hew Hprec) in H1. apply (bounded_spec mw ew Hmw Hew Hprec) in H2.
  pose proof (tmw_pos mw ew Hmw Hew Hprec) as Ht.
  change (Pos.compare m1 m2) with (Zpos m1 ?= Zpos m2).
  destruct (Z.leb_spec tmw (Zpos m1)) as [N1|S1]; destruct (Z.leb_spec tmw (Zpos m2)) as [N2|S2].
  - destruct H1 as [[_ C]|[[_ M1] [L1 U1]]]; [lia|]. destruct H2 as [[_ C]|[[_ M2] [L2 U2]]]; [lia|].
    destruct (Z.compare_spec e1 e2) as [E|E|E].
    + subst e2. destruct (Z.compare_spec (Zpos m1) (Zpos m2)); [apply Z.compare_eq_iff|apply Z.compare_lt_iff|apply Z.compare_gt_iff]; nia.
    + apply Z.compare_lt_iff. nia.
    + apply Z.compare_gt_iff. nia.
  - destruct H1 as [[_ C]|[[_ M1] [L1 U1]]]; [lia|]. destruct H2 as [[E2 _]|[[C _] _]]; [|lia].
    subst e2. destruct (Z.compare_spec e1 emin) as [E|E|E]; [subst e1| lia |].
    + destruct (Z.compare_spec (Zpos m1) (Zpos m2)); [lia|lia|]. apply Z.compare_gt_iff. nia.
    + apply Z.compare_gt_iff. nia.
  - destruct H2 as [[_ C]|[[_ M2] [L2 U2]]]; [lia|]. destruct H1 as [[E1 _]|[[C _] _]]; [|lia].
    subst e1. destruct (Z.compare_spec emin e2) as [E|E|E]; [subst e2| |lia].
    + destruct (Z.compare_spec (Zpos m1) (Zpos m2)); [lia| |lia]. apply Z.compare_lt_iff. nia.
    + apply Z.compare_lt_iff. nia.
  - destruct H1 as [[E1 _]|[[C _] _]]; [|lia]. destruct H2 as [[E2 _]|[[C _] _]]; [|lia].
    subst e1 e2. rewrite Z.compare_refl. reflexivity.
Qed.

Lemma magf_sign s m e : magf (S754_finite s m e) = magf (S754_finite false m e).
Proof. reflexivity. Qed.

Lemma opp_compare a b : (- a ?= - b) = CompOpp (a ?= b).
Proof. rewrite Z.compare_opp. rewrite <- Z.compare_antisym. reflexivity. Qed.

(** main statement on valid, non-NaN floats *)
Theorem SFcompare_key f g :
  valid f = true -> valid g = true -> f <> S754_nan -> g <> S754_nan ->
  SFcompare f g = Some (key mw ew (T f) ?= key mw ew (T g)).
Proof.
  intros Hf Hg Nf Ng. rewrite (key_T f Hf), (key_T g Hg).
  pose proof (tmw_pos mw ew Hmw Hew Hprec) as Ht. pose proof (emax_pos mw ew Hmw Hew Hprec) as He.
  assert (Heall : eall = 2 * emax - 1) by (unfold exp_all; rewrite (two_ew mw ew Hmw Hew Hprec); lia).
  assert (Hinf : forall s, magf (S754_infinity s) = eall * tmw) by (intros; unfold magf, SFabs, to_bits; lia).
  assert (Hzero : forall s, magf (S754_zero s) = 0) by reflexivity.
  destruct f as [sf|sf| |sf mf ef]; destruct g as [sg|sg| |sg mg eg]; try congruence; cbn [sf_sign SFcompare];
    rewrite ?Hinf, ?Hzero;
    try (pose proof (magf_fin_range sf mf ef Hf) as Rf);
    try (pose proof (magf_fin_range sg mg eg Hg) as Rg).
  - (* zero zero *) destruct sf, sg; reflexivity.
  - (* zero inf *) destruct sf, sg; f_equal; symmetry; try (apply Z.compare_gt_iff; nia); try (apply Z.compare_lt_iff; nia).
  - (* zero fin *) destruct sf, sg; f_equal; symmetry; try (apply Z.compare_gt_iff; lia); try (apply Z.compare_lt_iff; lia).
  - (* inf zero *) destruct sf, sg; f_equal; symmetry; try (apply Z.compare_gt_iff; nia); try (apply Z.compare_lt_iff; nia).
  - (* inf inf *) destruct sf, sg; f_equal; symmetry; try (apply Z.compare_eq_iff; lia); try (apply Z.compare_gt_iff; nia); try (apply Z.compare_lt_iff; nia).
  - (* inf fin *) destruct sf, sg; f_equal; symmetry; try (apply Z.compare_gt_iff; lia); try (apply Z.compare_lt_iff; lia).
  - (* fin zero *) destruct sf, sg; f_equal; symmetry; try (apply Z.compare_gt_iff; lia); try (apply Z.compare_lt_iff; lia).
  - (* fin inf *) destruct sf, sg; f_equal; symmetry; try (apply Z.compare_gt_iff; lia); try (apply Z.compare_lt_iff; lia).
  - (* fin fin *)
    simpl in Hf, Hg. rewrite (magf_sign sf), (magf_sign sg) in *.
    pose proof (magf_compare mf ef mg eg Hf Hg) as Hc.
    destruct sf, sg; f_equal.
    + rewrite opp_compare, Hc. destruct (ef ?= eg); reflexivity.
    + symmetry. apply Z.compare_lt_iff. lia.
    + symmetry. apply Z.compare_gt_iff. lia.
    + rewrite Hc. destruct (ef ?= eg); reflexivity.
Qed.

(** ... and on bit patterns: decoding then re-encoding a non-NaN pattern gives it back *)
Lemma to_of_bits b : wfb mw ew b -> is_nan mw ew b = false -> T (V b) = b.
Proof.
  intros [Hb0 Hb1] Hn. unfold of_bits, is_nan in *.
  pose proof (tmw_pos mw ew Hmw Hew Hprec) as Ht. pose proof (emax_pos mw ew Hmw Hew Hprec) as He.
  pose proof (sb_eq mw ew Hmw Hew Hprec) as Hsb.
  assert (Heall : eall = 2 * emax - 1) by (unfold exp_all; rewrite (two_ew mw ew Hmw Hew Hprec); lia).
  set (s := sb <=? b) in *. set (r := if s then b - sb else b) in *.
  assert (Hr : 0 <= r < sb) by (unfold r, s; destruct (Z.leb_spec sb b); lia).
  assert (Hb : b = (if s then sb else 0) + r) by (unfold r, s; destruct (Z.leb_spec sb b); lia).
  rewrite Hsb in Hr.
  pose proof (Z.div_mod r tmw ltac:(lia)) as Hdm.
  pose proof (Z.mod_pos_bound r tmw Ht) as Hmx.
  assert (Hex : 0 <= r / tmw < 2 * emax).
  { split; [apply Z.div_pos; lia|]. apply Z.div_lt_upper_bound; lia. }
  apply Z.ltb_ge in Hn.
  destruct (Z.eqb_spec (r / tmw) 0) as [E0|E0].
  - destruct (r mod tmw) eqn:Em; unfold to_bits.
    + nia.
    + destruct (Z.leb_spec tmw (Zpos p)); nia.
    + lia.
  - destruct (Z.eqb_spec (r / tmw) eall) as [E1|E1].
    + destruct (Z.eqb_spec (r mod tmw) 0) as [E2|E2]; [unfold to_bits; nia|nia].
    + destruct (r mod tmw + tmw) eqn:Em; try lia. unfold to_bits.
      destruct (Z.leb_spec tmw (Zpos p)); [|lia]. rewrite <- Em. nia.
Qed.

Theorem compare_key a b :
  wfb mw ew a -> wfb mw ew b -> is_nan mw ew a = false -> is_nan mw ew b = false ->
  SFcompare (V a) (V b) = Some (key mw ew a ?= key mw ew b).
Proof.
  intros Ha Hb Na Nb.
  rewrite <- (to_of_bits a Ha Na) at 2. rewrite <- (to_of_bits b Hb Nb) at 2.
  apply SFcompare_key; try (apply (of_bits_valid mw ew Hmw Hew Hprec); assumption).
  - intros E. pose proof (of_bits_nan mw ew Hmw Hew Hprec a Ha) as H. rewrite E, Na in H. discriminate.
  - intros E. pose proof (of_bits_nan mw ew Hmw Hew Hprec b Hb) as H. rewrite E, Nb in H. discriminate.
Qed.

(** Go's [<], [==], [<=] as modelled = IEEE comparison of the decoded values, for ALL patterns *)
Theorem fltb_is_SFltb a b : wfb mw ew a -> wfb mw ew b -> fltb mw ew a b = SFltb (V a) (V b).
Proof.
  intros Ha Hb. unfold fltb, SFltb.
  destruct (is_nan mw ew a) eqn:Na.
  - pose proof (of_bits_nan mw ew Hmw Hew Hprec a Ha) as H. rewrite Na in H.
    destruct (V a); try discriminate. reflexivity.
  - destruct (is_nan mw ew b) eqn:Nb.
    + pose proof (of_bits_nan mw ew Hmw Hew Hprec b Hb) as H. rewrite Nb in H.
      destruct (V b); try discriminate. destruct (V a); reflexivity.
    + rewrite (compare_key a b Ha Hb Na Nb). simpl. unfold Z.ltb. destruct (key mw ew a ?= key mw ew b); reflexivity.
Qed.

Theorem feqb_is_SFeqb a b : wfb mw ew a -> wfb mw ew b -> feqb mw ew a b = SFeqb (V a) (V b).
Proof.
  intros Ha Hb. unfold feqb, SFeqb.
  destruct (is_nan mw ew a) eqn:Na.
  - pose proof (of_bits_nan mw ew Hmw Hew Hprec a Ha) as H. rewrite Na in H.
    destruct (V a); try discriminate. reflexivity.
  - destruct (is_nan mw ew b) eqn:Nb.
    + pose proof (of_bits_nan mw ew Hmw Hew Hprec b Hb) as H. rewrite Nb in H.
      destruct (V b); try discriminate. destruct (V a); reflexivity.
    + rewrite (compare_key a b Ha Hb Na Nb). simpl. rewrite Z.eqb_compare. destruct (key mw ew a ?= key mw ew b); reflexivity.
Qed.

Theorem fleb_is_SFleb a b : wfb mw ew a -> wfb mw ew b -> fleb mw ew a b = SFleb (V a) (V b).
Proof.
  intros Ha Hb. unfold fleb, SFleb.
  destruct (is_nan mw ew a) eqn:Na.
  - pose proof (of_bits_nan mw ew Hmw Hew Hprec a Ha) as H. rewrite Na in H.
    destruct (V a); try discriminate. reflexivity.
  - destruct (is_nan mw ew b) eqn:Nb.
    + pose proof (of_bits_nan mw ew Hmw Hew Hprec b Hb) as H. rewrite Nb in H.
      destruct (V b); try discriminate. destruct (V a); reflexivity.
    + rewrite (compare_key a b Ha Hb Na Nb). simpl. unfold Z.leb. destruct (key mw ew a ?= key mw ew b); reflexivity.
Qed.
End Order.
