(** A vector added to a trained IVF index is found by a query with that very vector, whatever the
    partition is and however few cells (>= 1) are probed: Add files the vector under the FIRST nearest
    centroid ([nearest]), and the probe order of a search is the stable sort of the centroids by
    distance, whose head is that same first nearest centroid.  This is what the store checker's
    self-query demand (Check.StoreHist.self_query_ok, C08/C09 over IVF templates) rests on. *)
From Coq Require Import ZArith List Bool Lia Permutation.
From Comet Require Import Base.FBits Base.Sorting Model.Distance Model.Limiter Model.KMeans Model.VecIndex.
From Comet Require Import Proofs.SortingP Proofs.NearestP.
Import ListNotations.
Open Scope Z_scope.

Local Notation K := F32.key.

Section Head.
  Context {A : Type} (key : A -> Z) (d : A).

  Lemma insert_hd x l :
    hd d (insert key x l) = match l with [] => x | y :: _ => if key x <=? key y then x else y end.
  Proof. destruct l as [|y t]; cbn [insert hd]; [reflexivity|]. destruct (key x <=? key y); reflexivity. Qed.

  Lemma isort_nil_iff l : isort key l = [] <-> l = [].
  Proof.
    split; [|intros ->; reflexivity]. destruct l as [|x t]; [reflexivity|].
    cbn [isort fold_right]. intro H. pose proof (insert_perm key x (fold_right (insert key) [] t)) as P.
    rewrite H in P. apply Permutation_sym, Permutation_nil in P. discriminate.
  Qed.

  (** the head of a stable sort is the FIRST element with the minimal key *)
  Lemma isort_head_first_min : forall l r,
    (r < length l)%nat ->
    (forall j, (j < length l)%nat -> key (nth r l d) <= key (nth j l d)) ->
    (forall j, (j < r)%nat -> key (nth r l d) < key (nth j l d)) ->
    hd d (isort key l) = nth r l d.
  Proof.
    induction l as [|x t IH]; intros r Hr Hmin Hfirst; [cbn in Hr; lia|].
    cbn [isort fold_right]. fold (isort key t). rewrite insert_hd.
    destruct r as [|r'].
    - cbn [nth]. destruct (isort key t) as [|y u] eqn:E; [reflexivity|].
      assert (Hy : In y t) by (apply (isort_in key); rewrite E; left; reflexivity).
      destruct (In_nth _ _ d Hy) as (j & Hj & Ej).
      specialize (Hmin (S j) ltac:(cbn; lia)). cbn [nth] in Hmin. rewrite Ej in Hmin.
      destruct (Z.leb_spec (key x) (key y)); [reflexivity|lia].
    - cbn [nth length] in *.
      assert (IHr : hd d (isort key t) = nth r' t d).
      { apply IH; [lia| |].
        - intros j Hj. apply (Hmin (S j)). lia.
        - intros j Hj. apply (Hfirst (S j)). lia. }
      destruct (isort key t) as [|y u] eqn:E.
      + apply (proj1 (isort_nil_iff t)) in E. rewrite E in Hr. cbn in Hr. lia.
      + cbn [hd] in IHr. subst y. specialize (Hfirst 0%nat ltac:(lia)). cbn [nth] in Hfirst.
        destruct (Z.leb_spec (key x) (key (nth r' t d))); [lia|reflexivity].
  Qed.
End Head.

Lemma nearest_nonneg m v cs : Forall nn (map (dist m v) cs) -> 0 <= nearest m v cs.
Proof.
  intros Hnn. rewrite nearest_fold.
  assert (Hinv : inv ([] ++ map (dist m v) cs) (fold_left step (map (dist m v) cs) (0, 0, F32.pinf))).
  { apply fold_inv; [constructor|exact Hnn|].
    cbn. split; [reflexivity|]. split; [exact pinf_nn|]. split; [intros x []|].
    left. split; [reflexivity|]. split; [reflexivity|intros x []]. }
  destruct (fold_left step (map (dist m v) cs) (0, 0, F32.pinf)) as [[i bi] bd].
  destruct Hinv as (_ & _ & _ & [(_ & -> & _)|(Hb & _)]); lia.
Qed.

Definition probe_order (m : metric) (q : vec) (cs : list vec) : list (Z * Z) :=
  isort (fun x => K (snd x)) (combine (map Z.of_nat (seq 0 (length cs))) (map (fun c => dist m q c) cs)).

Lemma nth_combine_idx (ds : list Z) j : (j < length ds)%nat ->
  nth j (combine (map Z.of_nat (seq 0 (length ds))) ds) (0, 0) = (Z.of_nat j, nth j ds 0).
Proof.
  intros Hj. rewrite combine_nth by (rewrite map_length, seq_length; reflexivity).
  f_equal. change 0 with (Z.of_nat 0) at 1. rewrite map_nth, seq_nth by exact Hj. reflexivity.
Qed.

(** the cell Add chooses is the first cell a search with the same vector probes *)
Theorem added_vector_cell_is_probed_first m w cs :
  cs <> [] -> Forall nn (map (dist m w) cs) ->
  fst (hd (0, 0) (probe_order m w cs)) = nearest m w cs.
Proof.
  intros Hne Hnn. pose proof (nearest_first_argmin m w cs Hne Hnn) as H. cbv zeta in H.
  destruct H as (Hr & Hmin & Hfirst).
  set (ds := map (dist m w) cs) in *. set (r := Z.to_nat (nearest m w cs)) in *.
  assert (Hlen : length ds = length cs) by (unfold ds; apply map_length).
  assert (Hnth_nn : forall j, (j < length ds)%nat -> nn (nth j ds 0)).
  { intros j Hj. rewrite Forall_forall in Hnn. apply Hnn, nth_In, Hj. }
  unfold probe_order. change (map (fun c => dist m w c) cs) with ds. rewrite <- Hlen.
  set (L := combine (map Z.of_nat (seq 0 (length ds))) ds).
  assert (HL : length L = length ds).
  { unfold L. rewrite combine_length, map_length, seq_length. lia. }
  rewrite (isort_head_first_min (fun x => K (snd x)) (0, 0) L r).
  - unfold L. rewrite nth_combine_idx by lia. cbn [fst]. unfold r.
    apply Z2Nat.id, nearest_nonneg, Hnn.
  - lia.
  - intros j Hj. unfold L. rewrite !nth_combine_idx by lia. cbn [snd].
    specialize (Hmin j ltac:(lia)). rewrite ltb_key in Hmin by (apply Hnth_nn; lia).
    apply Z.ltb_ge in Hmin. exact Hmin.
  - intros j Hj. unfold L. rewrite !nth_combine_idx by lia. cbn [snd].
    specialize (Hfirst j Hj). rewrite ltb_key in Hfirst by (apply Hnth_nn; lia).
    apply Z.ltb_lt in Hfirst. exact Hfirst.
Qed.

Lemma app_nth_nth {A} (x : A) : forall (ls : list (list A)) n, (n < length ls)%nat ->
  nth n (app_nth n x ls) [] = nth n ls [] ++ [x].
Proof.
  induction ls as [|l t IH]; intros n Hn; [cbn in Hn; lia|].
  destruct n as [|n']; cbn [app_nth nth]; [reflexivity|]. apply IH. cbn in Hn. lia.
Qed.

Lemma in_scan_list s rq score l e :
  In e l -> eligible_id s rq (e_id e) = true -> thr_ok rq (score e) = true ->
  In (e_id e, score e) (scan_list s rq score l).
Proof.
  intros Hin Hel Hthr. unfold scan_list. apply in_flat_map. exists e. split; [exact Hin|].
  rewrite Hel, Hthr. left. reflexivity.
Qed.

(** Add then search with the same vector: the document is among the candidates of the search,
    for every partition, every number of probed cells, every k-independent option. *)
Theorem ivf_added_vector_found_by_own_query p s id v w rq s' :
  p_kind p = KIVF -> 1 <= p_nlist p ->
  st_centroids s <> [] -> length (st_lists s) = length (st_centroids s) ->
  preprocess (p_metric p) v = Some w ->
  Forall nn (map (dist (p_metric p) w) (st_centroids s)) ->
  memz id (st_deleted s) = false ->
  vadd_op p s id v = (s', E_OK) ->
  eligible_id s' rq id = true ->
  thr_ok rq (dist (p_metric p) w w) = true ->
  exists o, search_single p s' rq v = Ok o /\ In id (map fst (so_full o)).
Proof.
  intros Hk Hnl Hne Hlen Hpre Hnn Hdel Hadd Hel Hthr.
  unfold vadd_op in Hadd.
  destruct (st_trained s) eqn:Htr; cbn [negb] in Hadd; [|inversion Hadd].
  destruct (Z.of_nat (length v) =? p_dim p) eqn:Hdim; cbn [negb] in Hadd; [|inversion Hadd].
  rewrite Hpre, Hk, Hdel in Hadd. cbn [uses_lists] in Hadd.
  set (li := nearest (p_metric p) w (st_centroids s)) in *.
  inversion Hadd as [Hs']. clear Hadd. try subst s'.
  set (e := {| e_id := id; e_vec := w; e_code := [] |}) in *.
  unfold search_single. cbn [st_trained st_centroids st_lists]. rewrite Hdim, Hk, Hpre. cbn [negb].
  eexists. split; [reflexivity|]. cbn [so_full].
  apply in_map_iff. exists (id, dist (p_metric p) w w). split; [reflexivity|].
  unfold sort_cands. apply (isort_in (fun p0 : Z * Z => K (snd p0))).
  apply in_flat_map.
  change (isort _ (combine _ (map _ (st_centroids s)))) with (probe_order (p_metric p) w (st_centroids s)).
  set (np := if (r_nprobes rq <=? 0) || (p_nlist p <? r_nprobes rq) then p_nlist p else r_nprobes rq).
  pose proof (added_vector_cell_is_probed_first (p_metric p) w (st_centroids s) Hne Hnn) as Hhd.
  fold li in Hhd.
  destruct (probe_order (p_metric p) w (st_centroids s)) as [|c0 rest] eqn:Epo.
  { exfalso. unfold probe_order in Epo. apply (proj1 (isort_nil_iff _ _)) in Epo.
    destruct (st_centroids s) as [|c cs']; [congruence|]. cbn in Epo. discriminate. }
  cbn [hd] in Hhd.
  exists c0. split.
  - assert (Hnp : 1 <= np).
    { unfold np. destruct ((r_nprobes rq <=? 0) || (p_nlist p <? r_nprobes rq)) eqn:Eb; [exact Hnl|].
      apply orb_false_iff in Eb. destruct Eb as [Eb _]. apply Z.leb_gt in Eb. lia. }
    destruct (Z.to_nat np) as [|n] eqn:En; [lia|]. left. reflexivity.
  - rewrite Hhd.
    pose proof (nearest_first_argmin (p_metric p) w (st_centroids s) Hne Hnn) as Hr. cbv zeta in Hr.
    destruct Hr as (Hr & _). fold li in Hr.
    rewrite app_nth_nth by (rewrite Hlen; exact Hr).
    change (dist (p_metric p) w w) with ((fun e0 : entry => dist (p_metric p) w (e_vec e0)) e).
    change id with (e_id e) at 1.
    apply in_scan_list; [apply in_or_app; right; left; reflexivity|exact Hel|exact Hthr].
Qed.
