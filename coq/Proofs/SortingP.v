(** Facts about the stable insertion sort: permutation, sortedness, stability-free top-k facts. *)
From Coq Require Import ZArith List Bool Lia Permutation Sorted.
From Comet Require Import Base.Sorting.
Import ListNotations.
Open Scope Z_scope.

Section SortP.
  Context {A : Type} (key : A -> Z).

  Definition le_key (x y : A) : Prop := key x <= key y.

  Lemma insert_perm x l : Permutation (x :: l) (insert key x l).
  Proof.
    induction l as [|y t IH]; cbn [insert]; [reflexivity|].
    destruct (key x <=? key y); [reflexivity|].
    rewrite perm_swap. now apply perm_skip.
  Qed.

  Lemma isort_perm l : Permutation l (isort key l).
  Proof.
    induction l as [|x t IH]; cbn [isort fold_right]; [reflexivity|].
    etransitivity; [apply perm_skip, IH | apply insert_perm].
  Qed.

  Lemma isort_length l : length (isort key l) = length l.
  Proof. symmetry. apply Permutation_length, isort_perm. Qed.

  Lemma isort_in x l : In x (isort key l) <-> In x l.
  Proof.
    split; intro H.
    - eapply Permutation_in; [symmetry; apply isort_perm | exact H].
    - eapply Permutation_in; [apply isort_perm | exact H].
  Qed.

  Lemma insert_hdrel a x l :
    key a <= key x -> HdRel le_key a l -> HdRel le_key a (insert key x l).
  Proof.
    intros Hax Hl. destruct l as [|y t]; cbn [insert].
    - constructor. exact Hax.
    - destruct (key x <=? key y); constructor; [exact Hax|].
      inversion Hl; assumption.
  Qed.

  Lemma insert_sorted x l : Sorted le_key l -> Sorted le_key (insert key x l).
  Proof.
    induction l as [|y t IH]; cbn [insert]; intro Hs.
    - repeat constructor.
    - destruct (Z.leb_spec (key x) (key y)) as [Hle|Hgt].
      + constructor; [exact Hs|]. constructor. exact Hle.
      + inversion Hs as [|? ? Hst Hhd]; subst.
        constructor; [apply IH; exact Hst|].
        apply insert_hdrel; [unfold le_key; lia | exact Hhd].
  Qed.

  Lemma isort_sorted l : Sorted le_key (isort key l).
  Proof.
    induction l as [|x t IH]; cbn [isort fold_right]; [constructor|].
    apply insert_sorted, IH.
  Qed.

  Lemma le_key_trans : Relations_1.Transitive le_key.
  Proof. intros x y z; unfold le_key; lia. Qed.

  Lemma isort_strongly_sorted l : StronglySorted le_key (isort key l).
  Proof. apply Sorted_StronglySorted; [exact le_key_trans | apply isort_sorted]. Qed.

  Lemma sortedb_Sorted l : sortedb key l = true <-> Sorted le_key l.
  Proof.
    induction l as [|x t IH]; cbn [sortedb]; [split; constructor|].
    destruct t as [|y u].
    - split; intros _; repeat constructor.
    - rewrite andb_true_iff, IH, Z.leb_le. split.
      + intros [Hxy Hs]. constructor; [exact Hs | constructor; exact Hxy].
      + intros Hs. inversion Hs as [|? ? Hst Hhd]; subst. inversion Hhd; subst. split; assumption.
  Qed.

  (** Splitting a strongly sorted list at any position: everything on the left is <= everything on the right. *)
  Lemma strongly_sorted_split l n x y :
    StronglySorted le_key l -> In x (firstn n l) -> In y (skipn n l) -> key x <= key y.
  Proof.
    revert n. induction l as [|a t IH]; intros n Hs Hx Hy.
    - rewrite firstn_nil in Hx. contradiction.
    - destruct n as [|n]; [cbn in Hx; contradiction|].
      cbn [firstn skipn] in Hx, Hy. inversion Hs as [|? ? Hst Hall]; subst.
      destruct Hx as [<-|Hx].
      + rewrite Forall_forall in Hall. apply Hall.
        rewrite <- (firstn_skipn n t). apply in_or_app. right. exact Hy.
      + eapply IH; eassumption.
  Qed.

  Lemma strongly_sorted_firstn l n : StronglySorted le_key l -> StronglySorted le_key (firstn n l).
  Proof.
    revert n. induction l as [|a t IH]; intros n Hs; [rewrite firstn_nil; constructor|].
    destruct n as [|n]; [constructor|]. cbn [firstn].
    inversion Hs as [|? ? Hst Hall]; subst. constructor; [apply IH; exact Hst|].
    rewrite Forall_forall in *. intros z Hz. apply Hall.
    rewrite <- (firstn_skipn n t). apply in_or_app. left. exact Hz.
  Qed.

  (** The exact top-k relation: [res] is sorted, has the right length, and together with some
      [rest] it is a permutation of the candidates, nothing in [rest] beating anything in [res]. *)
  Definition ExactTopK (E : list A) (k : nat) (res : list A) : Prop :=
    StronglySorted le_key res /\ length res = Nat.min k (length E) /\
    exists rest, Permutation E (res ++ rest) /\ forall r x, In r res -> In x rest -> key r <= key x.

  Theorem firstn_isort_exact_topk E k : ExactTopK E k (firstn k (isort key E)).
  Proof.
    split; [apply strongly_sorted_firstn, isort_strongly_sorted|].
    split; [rewrite firstn_length, isort_length; reflexivity|].
    exists (skipn k (isort key E)). split.
    - rewrite firstn_skipn. apply isort_perm.
    - intros r x Hr Hx. eapply strongly_sorted_split; [apply isort_strongly_sorted | exact Hr | exact Hx].
  Qed.
End SortP.
