(** C13, monotonicity in the number of probes: probing more clusters can only improve every rank. *)
From Coq Require Import ZArith List Bool Lia Permutation Sorted.
From Comet Require Import Base.FBits Base.Sorting Model.Distance Model.Limiter Model.Aggregation Model.KMeans Model.VecIndex.
From Comet Require Import Proofs.SortingP Proofs.FlatP Proofs.VecP Proofs.IVFP.
Import ListNotations.
Open Scope Z_scope.

Section Mono.
  Context {A : Type} (key : A -> Z) (d : A).

  (** in a sorted list, positions are ordered *)
  Lemma sorted_nth_succ l i :
    Sorted (le_key key) l -> (S i < length l)%nat -> key (nth i l d) <= key (nth (S i) l d).
  Proof.
    revert i. induction l as [|x t IH]; intros i Hs Hi; [cbn in Hi; lia|].
    inversion Hs as [|? ? Hst Hhd]; subst.
    destruct i as [|j].
    - destruct t as [|y t']; [cbn in Hi; lia|]. inversion Hhd; subst. assumption.
    - cbn [nth]. apply IH; [exact Hst|cbn in Hi; lia].
  Qed.

  (** inserting an element never makes any existing rank worse *)
  Lemma insert_nth_le x l i :
    Sorted (le_key key) l -> (i < length l)%nat -> key (nth i (insert key x l) d) <= key (nth i l d).
  Proof.
    revert i. induction l as [|y t IH]; intros i Hs Hi; [cbn in Hi; lia|].
    cbn [insert]. destruct (Z.leb_spec (key x) (key y)) as [Hle|Hgt].
    - destruct i as [|j]; [exact Hle|].
      change (nth (S j) (x :: y :: t) d) with (nth j (y :: t) d).
      apply sorted_nth_succ; assumption.
    - destruct i as [|j]; [cbn [nth]; lia|]. cbn [nth].
      inversion Hs; subst. apply IH; [assumption|cbn in Hi; lia].
  Qed.

  Lemma insert_length x l : length (insert key x l) = S (length l).
  Proof. symmetry. change (S (length l)) with (length (x :: l)). apply Permutation_length, insert_perm. Qed.

  (** sorting a larger multiset: every rank that existed is at least as good *)
  Lemma isort_app_nth_le B : forall Acc i,
    (i < length Acc)%nat ->
    key (nth i (isort key (B ++ Acc)) d) <= key (nth i (isort key Acc) d).
  Proof.
    induction B as [|b B IH]; intros Acc i Hi; [cbn [app]; lia|].
    cbn [app isort fold_right]. fold (isort key (B ++ Acc)).
    etransitivity; [|apply IH; exact Hi].
    apply insert_nth_le; [apply isort_sorted|].
    rewrite isort_length, app_length. lia.
  Qed.
End Mono.

(** the same, for candidates appended at the end (as a longer probe list does) *)
Lemma sort_cands_app_nth_le (A B : list (Z * Z)) i :
  (i < length A)%nat ->
  skey (nth i (sort_cands (A ++ B)) (0, 0)) <= skey (nth i (sort_cands A) (0, 0)).
Proof.
  intros Hi. unfold sort_cands.
  assert (E : map skey (isort (fun p : Z * Z => F32.key (snd p)) (A ++ B)) =
              map skey (isort (fun p : Z * Z => F32.key (snd p)) (B ++ A))).
  { apply (isort_keys_perm (fun p0 : Z * Z => F32.key (snd p0))). apply Permutation_app_comm. }
  assert (Hn : forall l, skey (nth i l (0, 0)) = nth i (map skey l) (skey (0, 0))).
  { intros l. symmetry. apply map_nth. }
  rewrite (Hn (isort _ (A ++ B))), E, <- Hn.
  apply (isort_app_nth_le (fun p : Z * Z => F32.key (snd p)) (0, 0) B A i Hi).
Qed.

Definition eff_probes (p : params) (rq : request) : Z :=
  if (r_nprobes rq <=? 0) || (p_nlist p <? r_nprobes rq) then p_nlist p else r_nprobes rq.

Lemma want_mono k n m : (n <= m)%nat -> (want k n <= want k m)%nat.
Proof.
  intros H. unfold want, sanitizeK.
  destruct (Z.leb_spec k 0); destruct (Z.ltb_spec (Z.of_nat n) k); destruct (Z.ltb_spec (Z.of_nat m) k); cbn [orb]; lia.
Qed.

(** Two searches of the same IVF state with the same query, k, threshold and id restriction, the second
    probing at least as many clusters: at every rank the first answer has, the second answer's score
    is at least as good; and the second answer is at least as long. *)
Theorem ivf_probe_monotone p s rq rq' q o o' :
  p_kind p = KIVF ->
  r_docids rq' = r_docids rq -> r_thr rq' = r_thr rq -> r_k rq' = r_k rq ->
  eff_probes p rq <= eff_probes p rq' ->
  search_single p s rq q = Ok o -> search_single p s rq' q = Ok o' ->
  (forall i, (i < length (so_full o))%nat ->
     skey (nth i (so_full o') (0, 0)) <= skey (nth i (so_full o) (0, 0))) /\
  (length (so_full o) <= length (so_full o'))%nat /\ (so_cut o <= so_cut o')%nat.
Proof.
  intros Hk Hd Ht Hkk Hpr H H'. unfold search_single in H, H'. rewrite Hk in H, H'.
  destruct (negb (st_trained s)); [discriminate|].
  destruct (negb (Z.of_nat (length q) =? p_dim p)); [discriminate|].
  destruct (preprocess (p_metric p) q) as [pq|] eqn:Hp; [|discriminate].
  inversion H; subst o; clear H. inversion H'; subst o'; clear H'. cbn [so_full so_cut].
  fold (eff_probes p rq). fold (eff_probes p rq').
  set (cds := isort (fun x : Z * Z => F32.key (snd x))
                (combine (map Z.of_nat (seq 0 (length (st_centroids s))))
                         (map (fun c => dist (p_metric p) pq c) (st_centroids s)))).
  (* the scan does not depend on the probe count *)
  assert (Hscan : forall l, scan_list s rq' (fun e => dist (p_metric p) pq (e_vec e)) l =
                            scan_list s rq (fun e => dist (p_metric p) pq (e_vec e)) l).
  { intros l. unfold scan_list, eligible_id, thr_ok. rewrite Hd, Ht. reflexivity. }
  set (G := fun cd : Z * Z => scan_list s rq (fun e => dist (p_metric p) pq (e_vec e))
                                (nth (Z.to_nat (fst cd)) (st_lists s) [])).
  assert (HG' : forall l, flat_map (fun cd : Z * Z => scan_list s rq' (fun e => dist (p_metric p) pq (e_vec e))
                                (nth (Z.to_nat (fst cd)) (st_lists s) [])) l = flat_map G l).
  { intros l. apply flat_map_ext. intros a. apply Hscan. }
  rewrite HG'. fold G.
  set (n := Z.to_nat (eff_probes p rq)). set (n' := Z.to_nat (eff_probes p rq')).
  assert (Hnn : (n <= n')%nat) by (unfold n, n'; lia).
  assert (Hsplit : firstn n' cds = firstn n cds ++ skipn n (firstn n' cds)).
  { rewrite <- (firstn_skipn n (firstn n' cds)) at 1. rewrite firstn_firstn. replace (Nat.min n n') with n by lia. reflexivity. }
  rewrite Hsplit, flat_map_app.
  set (A := flat_map G (firstn n cds)). set (B := flat_map G (skipn n (firstn n' cds))).
  assert (HlenA : length (sort_cands A) = length A) by (unfold sort_cands; apply isort_length).
  assert (HlenAB : length (sort_cands (A ++ B)) = (length A + length B)%nat)
    by (unfold sort_cands; rewrite isort_length, app_length; reflexivity).
  split; [|split].
  - intros i Hi. rewrite HlenA in Hi. apply sort_cands_app_nth_le. exact Hi.
  - lia.
  - rewrite Hkk. fold (want (r_k rq) (length (sort_cands A))). fold (want (r_k rq) (length (sort_cands (A ++ B)))).
    apply want_mono. lia.
Qed.
