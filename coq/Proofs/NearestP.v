(** [nearest] (clustering.go FindNearestCentroidIndex, PQ encode's codeword scan) returns the FIRST
    arg-min: no candidate is strictly nearer, every earlier candidate is strictly farther. *)
From Coq Require Import ZArith List Bool Lia.
From Comet Require Import Base.FBits Model.Distance Model.KMeans.
Import ListNotations.
Open Scope Z_scope.

Local Notation K := F32.key.
Definition nn (d : Z) : Prop := F32.is_nan d = false.

Lemma ltb_key a b : nn a -> nn b -> F32.ltb a b = (K a <? K b).
Proof.
  unfold nn, F32.ltb, fltb. change (is_nan F32.mw F32.ew a) with (F32.is_nan a).
  change (is_nan F32.mw F32.ew b) with (F32.is_nan b). intros -> ->. reflexivity.
Qed.
Lemma pinf_nn : nn F32.pinf. Proof. reflexivity. Qed.

Definition step (st : Z * Z * Z) (d : Z) : Z * Z * Z :=
  let '(i, bi, bd) := st in if F32.ltb d bd then (i + 1, i, d) else (i + 1, bi, bd).

Lemma nearest_fold m v cs :
  nearest m v cs = let '(_, best, _) := fold_left step (map (dist m v) cs) (0, 0, F32.pinf) in best.
Proof.
  unfold nearest.
  assert (G : forall l st, fold_left (fun (st : Z * Z * Z) c => let '(i, bi, bd) := st in
                 let d := dist m v c in if F32.ltb d bd then (i + 1, i, d) else (i + 1, bi, bd)) l st
              = fold_left step (map (dist m v) l) st).
  { induction l as [|c t IH]; intros st; [reflexivity|]. cbn [fold_left map]. rewrite IH.
    destruct st as [[i bi] bd]. reflexivity. }
  rewrite G. reflexivity.
Qed.

(** invariant of the scan over a prefix [pre] with the rest [ds] still to come *)
Definition inv (pre : list Z) (st : Z * Z * Z) : Prop :=
  let '(i, bi, bd) := st in
  i = Z.of_nat (length pre) /\ nn bd /\
  (forall d, In d pre -> K bd <= K d) /\
  ((bd = F32.pinf /\ bi = 0 /\ forall d, In d pre -> K F32.pinf <= K d) \/
   (0 <= bi < i /\ nth (Z.to_nat bi) pre 0 = bd /\
    forall j, (j < Z.to_nat bi)%nat -> K bd < K (nth j pre 0))).

Lemma step_inv pre st d : Forall nn pre -> nn d -> inv pre st -> inv (pre ++ [d]) (step st d).
Proof.
  intros Hpre Hd. destruct st as [[i bi] bd]. unfold inv, step. intros (Hi & Hbd & Hmin & Hcase).
  rewrite (ltb_key d bd Hd Hbd).
  destruct (Z.ltb_spec (K d) (K bd)) as [Hlt|Hge].
  - (* new best *)
    split; [rewrite app_length; cbn; lia|]. split; [exact Hd|]. split.
    + intros x Hx. apply in_app_or in Hx. destruct Hx as [Hx|[<-|[]]]; [specialize (Hmin x Hx); lia|lia].
    + right. split; [lia|]. split.
      * subst i. rewrite Nat2Z.id, app_nth2 by lia. rewrite Nat.sub_diag. reflexivity.
      * intros j Hj. subst i. rewrite Nat2Z.id in Hj. rewrite app_nth1 by lia.
        assert (Hin : In (nth j pre 0) pre) by (apply nth_In; lia). specialize (Hmin _ Hin). lia.
  - split; [rewrite app_length; cbn; lia|]. split; [exact Hbd|]. split.
    + intros x Hx. apply in_app_or in Hx. destruct Hx as [Hx|[<-|[]]]; [apply Hmin, Hx|lia].
    + destruct Hcase as [(E & Eb & Hall)|(Hb & Hnth & Hfirst)].
      * left. split; [exact E|]. split; [exact Eb|].
        intros x Hx. apply in_app_or in Hx. destruct Hx as [Hx|[<-|[]]]; [apply Hall, Hx|subst bd; lia].
      * right. split; [lia|]. split.
        -- rewrite app_nth1 by lia. exact Hnth.
        -- intros j Hj. rewrite app_nth1 by lia. apply Hfirst, Hj.
Qed.

Lemma fold_inv ds : forall pre st, Forall nn pre -> Forall nn ds -> inv pre st ->
  inv (pre ++ ds) (fold_left step ds st).
Proof.
  induction ds as [|d t IH]; intros pre st Hpre Hds Hinv; [rewrite app_nil_r; exact Hinv|].
  inversion Hds as [|? ? Hd Ht]; subst. cbn [fold_left].
  replace (pre ++ d :: t) with ((pre ++ [d]) ++ t) by (rewrite <- app_assoc; reflexivity).
  apply IH; [apply Forall_app; split; [exact Hpre|constructor; [exact Hd|constructor]]|exact Ht|].
  apply step_inv; assumption.
Qed.

(** the index returned by [nearest] on NaN-free distances: in range, minimal, and the first minimal *)
Theorem nearest_first_argmin m v cs :
  cs <> [] -> Forall nn (map (dist m v) cs) ->
  let ds := map (dist m v) cs in
  let r := Z.to_nat (nearest m v cs) in
  (r < length cs)%nat /\
  (forall j, (j < length cs)%nat -> F32.ltb (nth j ds 0) (nth r ds 0) = false) /\
  (forall j, (j < r)%nat -> F32.ltb (nth r ds 0) (nth j ds 0) = true).
Proof.
  intros Hne Hnn ds r. unfold r. rewrite nearest_fold. fold ds.
  assert (Hinv : inv ([] ++ ds) (fold_left step ds (0, 0, F32.pinf))).
  { apply fold_inv; [constructor|exact Hnn|].
    cbn. split; [reflexivity|]. split; [exact pinf_nn|]. split; [intros d []|].
    left. split; [reflexivity|]. split; [reflexivity|intros d []]. }
  cbn [app] in Hinv.
  destruct (fold_left step ds (0, 0, F32.pinf)) as [[i bi] bd]. destruct Hinv as (Hi & Hbd & Hmin & Hcase).
  assert (Hlen : length ds = length cs) by (unfold ds; apply map_length).
  assert (Hcs : (0 < length cs)%nat) by (destruct cs; [congruence|cbn; lia]).
  assert (Hnth_nn : forall j, (j < length ds)%nat -> nn (nth j ds 0)).
  { intros j Hj. rewrite Forall_forall in Hnn. apply Hnn, nth_In, Hj. }
  destruct Hcase as [(E & Eb & Hall)|(Hb & Hnth & Hfirst)].
  - subst bi bd. cbn [Z.to_nat]. split; [exact Hcs|]. split.
    + intros j Hj. rewrite ltb_key by (apply Hnth_nn; lia).
      apply Z.ltb_ge.
      assert (H0 : K F32.pinf <= K (nth 0%nat ds 0)) by (apply Hall, nth_In; lia).
      assert (Hj' : K F32.pinf <= K (nth j ds 0)) by (apply Hall, nth_In; lia).
      (* every distance has key >= key(+inf), and +inf is the largest non-NaN key *)
      assert (Hmax : forall d, nn d -> K d <= K F32.pinf).
      { intros d Hd. unfold nn, F32.is_nan, is_nan in Hd. unfold F32.key, key, F32.pinf.
        change (sign_bit F32.mw F32.ew) with 2147483648 in *.
        change (exp_all F32.ew * two_mw F32.mw) with 2139095040 in *.
        destruct (Z.leb_spec 2147483648 d); apply Z.ltb_ge in Hd; cbn; lia. }
      pose proof (Hmax _ (Hnth_nn 0%nat ltac:(lia))). pose proof (Hmax _ (Hnth_nn j ltac:(lia))). lia.
    + intros j Hj. lia.
  - assert (Hr : (Z.to_nat bi < length cs)%nat) by lia.
    split; [exact Hr|]. rewrite Hnth. split.
    + intros j Hj. rewrite ltb_key by (try exact Hbd; apply Hnth_nn; lia).
      apply Z.ltb_ge. apply Hmin, nth_In. lia.
    + intros j Hj. rewrite ltb_key by (try exact Hbd; apply Hnth_nn; lia).
      apply Z.ltb_lt. apply Hfirst, Hj.
Qed.
