(** The bit-pattern operations of Base/FBits.v: closed on well-formed patterns, commute with decoding,
    and (through Flocq's correctness theorems) NaN-free where IEEE-754 says so. *)
From Coq Require Import ZArith Reals Bool Lia List.
From Coq Require Import Floats.SpecFloat.
From Flocq Require Import Core.Core IEEE754.BinarySingleNaN.
From Comet Require Import Base.FBits.
From Comet Require Import Proofs.FloatBridge Proofs.FloatBits Proofs.FloatSF.
Import ListNotations.
Open Scope Z_scope.

Section Ops.
Variables mw ew : Z.
Hypothesis Hmw : 0 < mw.
Hypothesis Hew : 1 < ew.
Hypothesis Hprec : mw + 1 < 2 ^ (ew - 1).
Set Default Proof Using "Hmw Hew Hprec".

Notation prec := (fprec mw).
Notation emax := (femax ew).
Notation sb := (sign_bit mw ew).
Notation V := (of_bits mw ew).
Notation T := (to_bits mw ew).
Notation valid := (valid_binary prec emax).
Notation wf := (wfb mw ew).

Instance Hp0 : Prec_gt_0 prec. Proof. unfold Prec_gt_0, fprec. lia. Qed.
Instance Hpe : Prec_lt_emax prec emax. Proof. unfold Prec_lt_emax, fprec, femax. exact Hprec. Qed.

Lemma V_valid b : wf b -> valid (V b) = true.
Proof. apply of_bits_valid; assumption. Qed.
Lemma VT f : valid f = true -> V (T f) = f.
Proof. apply of_to_bits; assumption. Qed.
Lemma T_wf f : valid f = true -> wf (T f).
Proof. apply to_bits_wf; assumption. Qed.

(** results of the SpecFloat operations are valid: through the Flocq bridge *)
Lemma lift2 (op : spec_float -> spec_float -> spec_float)
      (bop : binary_float prec emax -> binary_float prec emax -> binary_float prec emax)
      (E : forall x y, op (B2SF x) (B2SF y) = B2SF (bop x y)) x y :
  valid x = true -> valid y = true -> valid (op x y) = true.
Proof.
  intros Hx Hy. rewrite <- (B2SF_SF2B prec emax x Hx), <- (B2SF_SF2B prec emax y Hy), E.
  apply valid_binary_B2SF.
Qed.
Lemma add_valid x y : valid x = true -> valid y = true -> valid (SFadd prec emax x y) = true.
Proof. apply (lift2 _ _ (SFadd_equiv prec emax _ _)). Qed.
Lemma sub_valid x y : valid x = true -> valid y = true -> valid (SFsub prec emax x y) = true.
Proof. apply (lift2 _ _ (SFsub_equiv prec emax _ _)). Qed.
Lemma mul_valid x y : valid x = true -> valid y = true -> valid (SFmul prec emax x y) = true.
Proof. apply (lift2 _ _ (SFmul_equiv prec emax _ _)). Qed.
Lemma div_valid x y : valid x = true -> valid y = true -> valid (SFdiv prec emax x y) = true.
Proof. apply (lift2 _ _ (SFdiv_equiv prec emax _ _)). Qed.
Lemma sqrt_valid x : valid x = true -> valid (SFsqrt prec emax x) = true.
Proof.
  intros Hx. rewrite <- (B2SF_SF2B prec emax x Hx), (SFsqrt_equiv prec emax _ _).
  apply valid_binary_B2SF.
Qed.

Lemma fadd_wf a b : wf a -> wf b -> wf (fadd mw ew a b).
Proof. intros; apply T_wf, add_valid; apply V_valid; assumption. Qed.
Lemma fsub_wf a b : wf a -> wf b -> wf (fsub mw ew a b).
Proof. intros; apply T_wf, sub_valid; apply V_valid; assumption. Qed.
Lemma fmul_wf a b : wf a -> wf b -> wf (fmul mw ew a b).
Proof. intros; apply T_wf, mul_valid; apply V_valid; assumption. Qed.
Lemma fdiv_wf a b : wf a -> wf b -> wf (fdiv mw ew a b).
Proof. intros; apply T_wf, div_valid; apply V_valid; assumption. Qed.
Lemma fsqrt_wf a : wf a -> wf (fsqrt mw ew a).
Proof. intros; apply T_wf, sqrt_valid; apply V_valid; assumption. Qed.

(** commutativity / symmetry on bit patterns *)
Lemma fmul_comm a b : fmul mw ew a b = fmul mw ew b a.
Proof. unfold fmul. rewrite SFmul_comm. reflexivity. Qed.

Lemma SFabs_valid f : valid f = true -> valid (SFabs f) = true.
Proof. destruct f; auto. Qed.

Lemma sq_diff_swap a b :
  wf a -> wf b ->
  fmul mw ew (fsub mw ew a b) (fsub mw ew a b) = fmul mw ew (fsub mw ew b a) (fsub mw ew b a).
Proof.
  intros Ha Hb. unfold fmul, fsub.
  rewrite !VT by (apply sub_valid; apply V_valid; assumption).
  rewrite (SFmul_self_abs _ _ (SFsub prec emax (V a) (V b))).
  rewrite (SFmul_self_abs _ _ (SFsub prec emax (V b) (V a))).
  rewrite (SFsub_swap_abs _ _ (V a) (V b)). reflexivity.
Qed.

(** NaN-freedom, through Flocq's correctness theorems *)
Lemma fin_notnan (b : binary_float prec emax) : BinarySingleNaN.is_finite b = true -> sf_nan (B2SF b) = false.
Proof. destruct b; simpl; auto; discriminate. Qed.

Lemma Bminus_fin_notnan (x y : binary_float prec emax) :
  BinarySingleNaN.is_finite x = true -> BinarySingleNaN.is_finite y = true -> sf_nan (B2SF (Bminus mode_NE x y)) = false.
Proof.
  intros Fx Fy. generalize (Bminus_correct prec emax _ _ mode_NE x y Fx Fy).
  destruct Rlt_bool.
  - intros (_ & Hf & _). apply fin_notnan, Hf.
  - intros (Ho & _). rewrite Ho. reflexivity.
Qed.

Lemma Bmult_self_notnan (x : binary_float prec emax) :
  BinarySingleNaN.is_nan x = false -> sf_nan (B2SF (Bmult mode_NE x x)) = false.
Proof.
  intros Hn. destruct x as [s|s| |s m e Hb] eqn:Ex; try reflexivity; try discriminate.
  rewrite <- Ex. generalize (Bmult_correct prec emax _ _ mode_NE x x).
  destruct Rlt_bool.
  - intros (_ & Hf & _). apply fin_notnan. rewrite Hf, Ex. reflexivity.
  - intros Ho. rewrite Ho. reflexivity.
Qed.

Lemma Bplus_nonneg_notnan (x y : binary_float prec emax) :
  BinarySingleNaN.is_nan x = false -> BinarySingleNaN.is_nan y = false -> sf_nonneg (B2SF x) = true -> sf_nonneg (B2SF y) = true ->
  sf_nan (B2SF (Bplus mode_NE x y)) = false.
Proof.
  intros Nx Ny Px Py.
  destruct x as [sx|sx| |sx mx ex Hx] eqn:Ex; destruct y as [sy|sy| |sy my ey Hy] eqn:Ey;
    try discriminate; simpl in Px, Py;
    try (destruct sx; try discriminate); try (destruct sy; try discriminate); try reflexivity.
  rewrite <- Ex, <- Ey.
  assert (Fx : BinarySingleNaN.is_finite x = true) by (rewrite Ex; reflexivity).
  assert (Fy : BinarySingleNaN.is_finite y = true) by (rewrite Ey; reflexivity).
  generalize (Bplus_correct prec emax _ _ mode_NE x y Fx Fy).
  destruct Rlt_bool.
  - intros (_ & Hf & _). apply fin_notnan, Hf.
  - intros (Ho & _). rewrite Ho. reflexivity.
Qed.

Lemma Bsqrt_nonneg_notnan (x : binary_float prec emax) :
  BinarySingleNaN.is_nan x = false -> sf_nonneg (B2SF x) = true -> sf_nan (B2SF (Bsqrt mode_NE x)) = false.
Proof.
  intros Nx Px. destruct x as [s|s| |s m e Hb] eqn:Ex; try discriminate; simpl in Px;
    destruct s; try discriminate; try reflexivity.
  rewrite <- Ex. destruct (Bsqrt_correct prec emax _ _ mode_NE x) as (_ & Hf & _).
  apply fin_notnan. rewrite Hf, Ex. reflexivity.
Qed.

(** ... transferred to valid spec_floats *)
Lemma nan_B2SF (b : binary_float prec emax) : BinarySingleNaN.is_nan b = sf_nan (B2SF b).
Proof. destruct b; reflexivity. Qed.
Lemma fin_B2SF (b : binary_float prec emax) : BinarySingleNaN.is_finite b = sf_fin (B2SF b).
Proof. destruct b; reflexivity. Qed.

Lemma sub_fin_notnan x y :
  valid x = true -> valid y = true -> sf_fin x = true -> sf_fin y = true ->
  sf_nan (SFsub prec emax x y) = false.
Proof.
  intros Hx Hy Fx Fy.
  rewrite <- (B2SF_SF2B prec emax x Hx), <- (B2SF_SF2B prec emax y Hy) in *.
  rewrite (SFsub_equiv prec emax _ _). apply Bminus_fin_notnan; rewrite fin_B2SF; assumption.
Qed.
Lemma mul_self_notnan x : valid x = true -> sf_nan x = false -> sf_nan (SFmul prec emax x x) = false.
Proof.
  intros Hx Nx. rewrite <- (B2SF_SF2B prec emax x Hx) in *.
  rewrite (SFmul_equiv prec emax _ _). apply Bmult_self_notnan. rewrite nan_B2SF. assumption.
Qed.
Lemma add_nonneg_notnan x y :
  valid x = true -> valid y = true -> sf_nan x = false -> sf_nan y = false ->
  sf_nonneg x = true -> sf_nonneg y = true -> sf_nan (SFadd prec emax x y) = false.
Proof.
  intros Hx Hy Nx Ny Px Py.
  rewrite <- (B2SF_SF2B prec emax x Hx), <- (B2SF_SF2B prec emax y Hy) in *.
  rewrite (SFadd_equiv prec emax _ _). apply Bplus_nonneg_notnan; try rewrite nan_B2SF; assumption.
Qed.
Lemma sqrt_nonneg_notnan x :
  valid x = true -> sf_nan x = false -> sf_nonneg x = true -> sf_nan (SFsqrt prec emax x) = false.
Proof.
  intros Hx Nx Px. rewrite <- (B2SF_SF2B prec emax x Hx) in *.
  rewrite (SFsqrt_equiv prec emax _ _). apply Bsqrt_nonneg_notnan; try rewrite nan_B2SF; assumption.
Qed.

(** "not less than zero" on bit patterns *)
Definition bnonneg (b : Z) : Prop := sf_nonneg (V b) = true.

Lemma bnonneg_not_lt_zero b : wf b -> bnonneg b -> fltb mw ew b 0 = false.
Proof.
  intros Hw Hn. unfold bnonneg in Hn. unfold fltb.
  pose proof (of_bits_nan mw ew Hmw Hew Hprec b Hw) as Hnan.
  destruct (of_bits_sign mw ew Hmw Hew Hprec b Hw) as [E|E].
  - rewrite E in Hnan. rewrite <- Hnan. reflexivity.
  - destruct (is_nan mw ew b); [reflexivity|].
    assert (Hs : sf_sign (V b) = false).
    { destruct (V b) as [s|s| |s m e]; simpl in *; try reflexivity; destruct s; try discriminate; reflexivity. }
    rewrite Hs in E. unfold key at 1. rewrite <- E.
    assert (Hk0 : key mw ew 0 = 0).
    { assert (0 < sign_bit mw ew) by (unfold sign_bit; apply Z.pow_pos_nonneg; lia).
      unfold key. destruct (Z.leb_spec (sign_bit mw ew) 0); [|reflexivity]. lia. }
    rewrite Hk0. destruct Hw as [Hb0 _].
    destruct (Z.ltb_spec b 0); [lia|]. rewrite andb_false_r. reflexivity.
Qed.
End Ops.
