(** C01: the flat index returns the exact top-k of the history-live, eligible vectors. *)
From Coq Require Import ZArith List Bool Lia Permutation Sorted.
From Comet Require Import Base.FBits Base.Parse Base.Sorting.
From Comet Require Import Model.Distance Model.Limiter Model.Aggregation Model.KMeans Model.VecIndex.
From Comet Require Import Proofs.SortingP Proofs.LimiterP.
Import ListNotations.
Open Scope Z_scope.

Definition skey (x : Z * Z) : Z := F32.key (snd x).

Lemma firstn_In {A} (x : A) n l : In x (firstn n l) -> In x l.
Proof. intro H. rewrite <- (firstn_skipn n l). apply in_or_app. now left. Qed.

(** number of results wanted for [k] among [n] candidates *)
Definition want (k : Z) (n : nat) : nat := Z.to_nat (sanitizeK k (Z.of_nat n)).

Lemma sanitizeK_twice k n c : 0 <= c <= n -> sanitizeK (sanitizeK k n) c = sanitizeK k c.
Proof.
  intros Hc. unfold sanitizeK.
  destruct (Z.leb_spec k 0) as [Hk|Hk]; cbn [orb].
  - destruct (Z.leb_spec n 0); cbn [orb]; [reflexivity|].
    destruct (Z.ltb_spec c n); [reflexivity | lia].
  - destruct (Z.ltb_spec n k) as [Hn|Hn].
    + destruct (Z.leb_spec n 0); cbn [orb].
      * destruct (Z.ltb_spec c k); [reflexivity | lia].
      * destruct (Z.ltb_spec c n); destruct (Z.ltb_spec c k); lia.
    + destruct (Z.leb_spec k 0); [lia|]. cbn [orb]. reflexivity.
Qed.

Lemma want_min k n : want k n = if (k <=? 0) || (Z.of_nat n <? k) then n else Z.to_nat k.
Proof.
  unfold want, sanitizeK. destruct ((k <=? 0) || (Z.of_nat n <? k)); [apply Nat2Z.id | reflexivity].
Qed.

Lemma want_le k n : (want k n <= n)%nat.
Proof. unfold want. pose proof (sanitizeK_range k (Z.of_nat n) ltac:(lia)). lia. Qed.

(** candidates of a flat search, as a function of the state *)
Definition flat_cands (p : params) (s : vstate) (rq : request) (pq : vec) : list (Z * Z) :=
  scan_list s rq (fun e => dist (p_metric p) pq (e_vec e)) (all_entries s).

Lemma scan_list_length s rq f l : (length (scan_list s rq f l) <= length l)%nat.
Proof.
  induction l as [|e t IH]; cbn [scan_list flat_map length]; [lia|].
  rewrite app_length. fold (scan_list s rq f t).
  destruct (eligible_id s rq (e_id e)); [destruct (thr_ok rq (f e))|]; cbn [length]; lia.
Qed.

(** T1: the answer to a single flat query is the exact top-k (by score key) of the candidates. *)
Theorem flat_single_exact_topk p s rq q o :
  p_kind p = KFlat -> search_single p s rq q = Ok o ->
  exists pq, preprocess (p_metric p) q = Some pq /\
    so_full o = sort_cands (flat_cands p s rq pq) /\
    so_cut o = want (r_k rq) (length (flat_cands p s rq pq)) /\
    ExactTopK skey (flat_cands p s rq pq) (so_cut o) (firstn (so_cut o) (so_full o)).
Proof.
  intros Hk H. unfold search_single in H. rewrite Hk in H.
  destruct (negb (st_trained s)); [discriminate|].
  destruct (negb (Z.of_nat (length q) =? p_dim p)); [discriminate|].
  destruct (preprocess (p_metric p) q) as [pq|]; [|discriminate].
  inversion H; subst o; clear H. cbn [so_full so_cut].
  exists pq. split; [reflexivity|]. fold (flat_cands p s rq pq).
  assert (Hcut : Z.to_nat (sanitizeK (sanitizeK (r_k rq) (Z.of_nat (length (all_entries s))))
                 (Z.of_nat (length (sort_cands (flat_cands p s rq pq)))))
                 = want (r_k rq) (length (flat_cands p s rq pq))).
  { unfold sort_cands. rewrite isort_length. unfold want. f_equal. apply sanitizeK_twice.
    pose proof (scan_list_length s rq (fun e => dist (p_metric p) pq (e_vec e)) (all_entries s)).
    unfold flat_cands. lia. }
  split; [reflexivity|]. split; [exact Hcut|].
  rewrite Hcut. unfold sort_cands. apply (firstn_isort_exact_topk skey).
Qed.

(** removed ids never appear; results satisfy the id restriction and the threshold *)
Lemma in_scan_list s rq f l x :
  In x (scan_list s rq f l) ->
  exists e, In e l /\ x = (e_id e, f e) /\ eligible_id s rq (e_id e) = true /\ thr_ok rq (f e) = true.
Proof.
  unfold scan_list. rewrite in_flat_map. intros [e [He Hx]]. exists e. split; [exact He|].
  destruct (eligible_id s rq (e_id e)) eqn:E; [|contradiction].
  destruct (thr_ok rq (f e)) eqn:T; [|contradiction].
  destruct Hx as [<-|[]]. auto.
Qed.

Theorem flat_results_sound p s rq q o x :
  p_kind p = KFlat -> search_single p s rq q = Ok o -> In x (firstn (so_cut o) (so_full o)) ->
  exists pq e, preprocess (p_metric p) q = Some pq /\ In e (all_entries s) /\
    x = (e_id e, dist (p_metric p) pq (e_vec e)) /\
    memz (e_id e) (st_deleted s) = false /\
    (r_docids rq = [] \/ memz (e_id e) (r_docids rq) = true) /\
    thr_ok rq (snd x) = true.
Proof.
  intros Hk H Hx. destruct (flat_single_exact_topk p s rq q o Hk H) as [pq [Hp [Hf [_ _]]]].
  apply firstn_In in Hx. rewrite Hf in Hx. unfold sort_cands in Hx. apply isort_in in Hx.
  apply in_scan_list in Hx. destruct Hx as [e [He [-> [El Th]]]].
  exists pq, e. split; [exact Hp|]. split; [exact He|]. split; [reflexivity|].
  unfold eligible_id in El. apply andb_true_iff in El. destruct El as [Hd Hdoc].
  split; [now apply negb_true_iff in Hd|]. split; [|exact Th].
  destruct (r_docids rq); [left; reflexivity | right; exact Hdoc].
Qed.

(** ---- histories ---- *)
Inductive hop := HAdd (id : Z) (v : vec) | HRemove (id : Z) | HFlush.

Definition apply_op (p : params) (s : vstate) (o : hop) : vstate :=
  match o with
  | HAdd id v => fst (vadd_op p s id v)
  | HRemove id => fst (vremove_op s id)
  | HFlush => vflush_op s
  end.
Definition run (p : params) (ops : list hop) : vstate := fold_left (apply_op p) ops (vinit p).

(** the live set as the HISTORY defines it: successfully added (right dimension, non-zero under
    cosine) and not removed since; vectors in preprocessed form *)
Definition hist_step (p : params) (acc : list (Z * vec)) (o : hop) : list (Z * vec) :=
  match o with
  | HAdd id v =>
      if Z.of_nat (length v) =? p_dim p then
        match preprocess (p_metric p) v with Some w => acc ++ [(id, w)] | None => acc end
      else acc
  | HRemove id => filter (fun x => negb (fst x =? id)) acc
  | HFlush => acc
  end.
Definition hist_live (p : params) (ops : list hop) : list (Z * vec) := fold_left (hist_step p) ops [].

(** ids are fresh: no id is added twice (the quantifier of C01/C02; id re-use is C06) *)
Fixpoint fresh_from (seen : list Z) (ops : list hop) : bool :=
  match ops with
  | [] => true
  | HAdd id _ :: t => negb (memz id seen) && fresh_from (id :: seen) t
  | _ :: t => fresh_from seen t
  end.
Definition fresh_ids (ops : list hop) : bool := fresh_from [] ops.

Definition live_view (s : vstate) : list (Z * vec) :=
  map (fun e => (e_id e, e_vec e)) (filter (fun e => negb (memz (e_id e) (st_deleted s))) (all_entries s)).

(** invariant tying the flat state to the history *)
Definition flat_inv (s : vstate) (acc : list (Z * vec)) (seen : list Z) : Prop :=
  st_trained s = true /\ (exists l, st_lists s = [l]) /\
  live_view s = acc /\
  (forall id, memz id (st_deleted s) = true -> memz id seen = true) /\
  (forall e, In e (all_entries s) -> memz (e_id e) seen = true).

Lemma memz_In x l : memz x l = true <-> In x l.
Proof.
  induction l as [|y t IH]; cbn [memz In]; [split; [discriminate|tauto]|].
  rewrite orb_true_iff, IH, Z.eqb_eq. split; intros [H|H]; auto.
Qed.

Lemma all_entries_single l : all_entries {| st_trained := true; st_centroids := []; st_codebooks := [];
                                            st_lists := [l]; st_deleted := [] |} = l.
Proof. unfold all_entries. cbn. apply app_nil_r. Qed.

Lemma resident_false_not_in s id :
  resident s id = false -> forall e, In e (all_entries s) -> e_id e <> id.
Proof.
  unfold resident. intros H e He Heq.
  assert (existsb (fun e0 => e_id e0 =? id) (all_entries s) = true).
  { apply existsb_exists. exists e. split; [exact He | now apply Z.eqb_eq]. }
  congruence.
Qed.

Lemma filter_ext_in' {A} (f g : A -> bool) l : (forall x, In x l -> f x = g x) -> filter f l = filter g l.
Proof.
  induction l as [|x t IH]; intros H; cbn [filter]; [reflexivity|].
  rewrite (H x (or_introl eq_refl)). rewrite IH; [reflexivity|]. intros y Hy. apply H. now right.
Qed.

Lemma filter_all_true {A} (f : A -> bool) l : (forall x, In x l -> f x = true) -> filter f l = l.
Proof.
  induction l as [|x t IH]; intros H; cbn [filter]; [reflexivity|].
  rewrite (H x (or_introl eq_refl)). f_equal. apply IH. intros y Hy. apply H. now right.
Qed.

Lemma flat_inv_step p s acc seen o :
  p_kind p = KFlat ->
  flat_inv s acc seen ->
  (match o with HAdd id _ => memz id seen = false | _ => True end) ->
  flat_inv (apply_op p s o) (hist_step p acc o)
           (match o with HAdd id _ => id :: seen | _ => seen end).
Proof.
  intros Hk [Htr [[l Hl] [Hlive [Hdel Hent]]]] Hfresh.
  destruct o as [id v | id | ]; cbn [apply_op hist_step].
  - (* add *)
    unfold vadd_op. rewrite Htr. cbn [negb].
    destruct (Z.of_nat (length v) =? p_dim p) eqn:Hd; cbn [negb fst].
    2:{ split; [exact Htr|]. split; [eauto|]. split; [exact Hlive|].
        split; intros; cbn [memz]; apply orb_true_iff; right; auto. }
    destruct (preprocess (p_metric p) v) as [w|] eqn:Hp; cbn [fst].
    2:{ split; [exact Htr|]. split; [eauto|]. split; [exact Hlive|].
        split; intros; cbn [memz]; apply orb_true_iff; right; auto. }
    assert (Hnd : memz id (st_deleted s) = false).
    { destruct (memz id (st_deleted s)) eqn:E; [|reflexivity]. apply Hdel in E. congruence. }
    rewrite Hk, Hnd. cbn [uses_lists]. rewrite Hl. cbn [app_nth Z.to_nat].
    split; [reflexivity|]. split; [eexists; reflexivity|].
    assert (Hae : all_entries s = l) by (unfold all_entries; rewrite Hl; cbn; apply app_nil_r).
    split.
    + unfold live_view, all_entries in *. cbn [st_lists st_deleted concat]. rewrite app_nil_r.
      rewrite Hl in Hlive. cbn [concat] in Hlive. rewrite app_nil_r in Hlive.
      rewrite filter_app, map_app, Hlive. cbn [filter e_id].
      rewrite Hnd. reflexivity.
    + split.
      * intros i Hi. cbn [st_deleted] in Hi. cbn [memz]. apply orb_true_iff. right. auto.
      * intros e He. unfold all_entries in He. cbn [st_lists concat] in He. rewrite app_nil_r in He.
        apply in_app_or in He. cbn [memz]. apply orb_true_iff.
        destruct He as [He|[<-|[]]].
        -- right. apply Hent. rewrite Hae. exact He.
        -- left. cbn [e_id]. apply Z.eqb_refl.
  - (* remove *)
    unfold vremove_op.
    destruct (resident s id) eqn:Hres; cbn [negb fst].
    2:{ split; [exact Htr|]. split; [eauto|]. split; [|split; assumption].
        rewrite <- Hlive. unfold live_view. symmetry. apply filter_all_true.
        intros x Hx. apply in_map_iff in Hx. destruct Hx as [e [<- He]]. apply filter_In in He.
        destruct He as [He _]. cbn [fst]. apply negb_true_iff, Z.eqb_neq.
        eapply resident_false_not_in; eassumption. }
    destruct (memz id (st_deleted s)) eqn:Hdl; cbn [fst].
    + split; [exact Htr|]. split; [eauto|]. split; [|split; assumption].
      rewrite <- Hlive. unfold live_view. symmetry. apply filter_all_true.
      intros x Hx. apply in_map_iff in Hx. destruct Hx as [e [<- He]]. apply filter_In in He.
      destruct He as [_ Hnd]. cbn [fst]. apply negb_true_iff, Z.eqb_neq. intros Heq.
      rewrite Heq, Hdl in Hnd. discriminate.
    + split; [exact Htr|]. split; [eauto|]. split; [|split].
      * rewrite <- Hlive. unfold live_view, all_entries. cbn [st_lists st_deleted].
        generalize (concat (st_lists s)) as es. intro es.
        induction es as [|e t IH]; cbn [filter map memz]; [reflexivity|].
        rewrite (Z.eqb_sym (e_id e) id).
        destruct (id =? e_id e) eqn:E; cbn [orb negb].
        -- apply Z.eqb_eq in E. destruct (memz (e_id e) (st_deleted s)); cbn [negb map filter fst].
           ++ exact IH.
           ++ rewrite <- E, Z.eqb_refl. cbn [negb]. exact IH.
        -- destruct (memz (e_id e) (st_deleted s)); cbn [negb map filter fst].
           ++ exact IH.
           ++ rewrite Z.eqb_sym, E. cbn [negb]. f_equal. exact IH.
      * intros i Hi. cbn [st_deleted memz] in Hi. apply orb_true_iff in Hi. destruct Hi as [Hi|Hi]; [|auto].
        apply Z.eqb_eq in Hi. subst i. unfold resident in Hres. apply existsb_exists in Hres.
        destruct Hres as [e [He Heq]]. apply Z.eqb_eq in Heq. subst id. auto.
      * exact Hent.
  - (* flush *)
    unfold vflush_op. destruct (st_deleted s) as [|d ds] eqn:Hdl.
    + split; [exact Htr|]. split; [eauto|]. split; [exact Hlive|]. split; [rewrite Hdl; exact Hdel | exact Hent].
    + split; [exact Htr|]. rewrite Hl. cbn [map]. split; [eexists; reflexivity|]. split; [|split].
      * rewrite <- Hlive. unfold live_view, all_entries. cbn [st_lists st_deleted concat memz negb].
        rewrite Hl. cbn [concat]. rewrite !app_nil_r. rewrite Hdl.
        f_equal. rewrite filter_all_true; [reflexivity|]. intros; reflexivity.
      * cbn [st_deleted memz]. discriminate.
      * intros e He. unfold all_entries in He. cbn [st_lists concat] in He. rewrite app_nil_r in He.
        apply filter_In in He. destruct He as [He _]. apply Hent. unfold all_entries. rewrite Hl. cbn [concat].
        rewrite app_nil_r. exact He.
Qed.

Lemma flat_inv_run p : p_kind p = KFlat -> forall ops s acc seen,
  flat_inv s acc seen -> fresh_from seen ops = true ->
  exists seen', flat_inv (fold_left (apply_op p) ops s) (fold_left (hist_step p) ops acc) seen'.
Proof.
  intros Hk. induction ops as [|o t IH]; intros s acc seen Hinv Hf; cbn [fold_left].
  - exists seen. exact Hinv.
  - destruct o as [id v|id|]; cbn [fresh_from] in Hf.
    + apply andb_true_iff in Hf. destruct Hf as [Hn Hf]. apply negb_true_iff in Hn.
      eapply IH; [|exact Hf]. apply (flat_inv_step p s acc seen (HAdd id v) Hk Hinv Hn).
    + eapply IH; [|exact Hf]. apply (flat_inv_step p s acc seen (HRemove id) Hk Hinv I).
    + eapply IH; [|exact Hf]. apply (flat_inv_step p s acc seen HFlush Hk Hinv I).
Qed.

(** T2: after ANY history with fresh ids, the index's live view is exactly the history's live set *)
Theorem flat_live_is_history_live p ops :
  p_kind p = KFlat -> fresh_ids ops = true -> live_view (run p ops) = hist_live p ops.
Proof.
  intros Hk Hf. unfold run, hist_live.
  destruct (flat_inv_run p Hk ops (vinit p) [] [] ) as [seen' Hinv].
  - unfold vinit. rewrite Hk. cbn [uses_lists]. split; [reflexivity|]. split; [eexists; reflexivity|].
    split; [reflexivity|]. split; [cbn; discriminate|]. intros e He. cbn in He. contradiction.
  - exact Hf.
  - destruct Hinv as [_ [_ [Hl _]]]. exact Hl.
Qed.

(** the candidates depend on the state only through its live view *)
Definition cands_of_live (p : params) (live : list (Z * vec)) (rq : request) (pq : vec) : list (Z * Z) :=
  flat_map (fun x =>
              if (match r_docids rq with [] => true | ds => memz (fst x) ds end)
              then let d := dist (p_metric p) pq (snd x) in if thr_ok rq d then [(fst x, d)] else []
              else []) live.

Lemma flat_cands_live p s rq pq : flat_cands p s rq pq = cands_of_live p (live_view s) rq pq.
Proof.
  unfold flat_cands, cands_of_live, live_view, scan_list, eligible_id.
  induction (all_entries s) as [|e t IH]; cbn [flat_map filter map]; [reflexivity|].
  destruct (memz (e_id e) (st_deleted s)); cbn [negb andb map flat_map fst snd].
  - exact IH.
  - rewrite IH. reflexivity.
Qed.

(** T3 (C01 main statement): for every history over fresh ids and every query, the flat answer is
    the exact top-k of the HISTORY-live vectors that satisfy the id restriction and threshold. *)
Theorem flat_exact_topk_history p ops rq q o :
  p_kind p = KFlat -> fresh_ids ops = true ->
  search_single p (run p ops) rq q = Ok o ->
  exists pq, preprocess (p_metric p) q = Some pq /\
    let E := cands_of_live p (hist_live p ops) rq pq in
    so_cut o = want (r_k rq) (length E) /\
    ExactTopK skey E (so_cut o) (firstn (so_cut o) (so_full o)).
Proof.
  intros Hk Hf H.
  destruct (flat_single_exact_topk p (run p ops) rq q o Hk H) as [pq [Hp [_ [Hc Hx]]]].
  exists pq. split; [exact Hp|]. cbn zeta.
  rewrite <- (flat_live_is_history_live p ops Hk Hf), <- flat_cands_live. split; assumption.
Qed.

(** flush is invisible to every single-query search (exact equality of the full outcome) *)
Lemma concat_filter {A} (f : A -> bool) ls : concat (map (filter f) ls) = filter f (concat ls).
Proof.
  induction ls as [|l t IH]; cbn [concat map]; [reflexivity|]. rewrite filter_app. f_equal. exact IH.
Qed.

Lemma live_view_flush s : live_view (vflush_op s) = live_view s.
Proof.
  unfold vflush_op. destruct (st_deleted s) as [|d ds] eqn:Hd; [reflexivity|].
  unfold live_view, all_entries. cbn [st_lists st_deleted memz negb].
  rewrite filter_all_true by (intros; reflexivity).
  rewrite Hd, concat_filter. reflexivity.
Qed.

Theorem flat_flush_invisible p s rq q :
  p_kind p = KFlat ->
  match search_single p (vflush_op s) rq q, search_single p s rq q with
  | Ok o1, Ok o2 => firstn (so_cut o1) (so_full o1) = firstn (so_cut o2) (so_full o2)
  | Err e1, Err e2 => e1 = e2
  | _, _ => False
  end.
Proof.
  intros Hk.
  destruct (search_single p (vflush_op s) rq q) as [o1|e1] eqn:H1;
  destruct (search_single p s rq q) as [o2|e2] eqn:H2.
  - destruct (flat_single_exact_topk _ _ _ _ _ Hk H1) as [pq1 [Hp1 [Hf1 [Hc1 _]]]].
    destruct (flat_single_exact_topk _ _ _ _ _ Hk H2) as [pq2 [Hp2 [Hf2 [Hc2 _]]]].
    rewrite Hp1 in Hp2. inversion Hp2; subst pq2.
    rewrite Hc1, Hc2, Hf1, Hf2, !flat_cands_live, live_view_flush. reflexivity.
  - exfalso. unfold search_single in H1, H2. rewrite Hk in H1, H2.
    assert (Ht : st_trained (vflush_op s) = st_trained s) by (unfold vflush_op; destruct (st_deleted s); reflexivity).
    rewrite Ht in H1. destruct (negb (st_trained s)); [discriminate|].
    destruct (negb (Z.of_nat (length q) =? p_dim p)); [discriminate|].
    destruct (preprocess (p_metric p) q); discriminate.
  - exfalso. unfold search_single in H1, H2. rewrite Hk in H1, H2.
    assert (Ht : st_trained (vflush_op s) = st_trained s) by (unfold vflush_op; destruct (st_deleted s); reflexivity).
    rewrite Ht in H1. destruct (negb (st_trained s)); [discriminate|].
    destruct (negb (Z.of_nat (length q) =? p_dim p)); [discriminate|].
    destruct (preprocess (p_metric p) q); discriminate.
  - unfold search_single in H1, H2. rewrite Hk in H1, H2.
    assert (Ht : st_trained (vflush_op s) = st_trained s) by (unfold vflush_op; destruct (st_deleted s); reflexivity).
    rewrite Ht in H1. destruct (negb (st_trained s)); [congruence|].
    destruct (negb (Z.of_nat (length q) =? p_dim p)); [congruence|].
    destruct (preprocess (p_metric p) q); [discriminate | congruence].
Qed.

(** the search errs exactly when the query has the wrong dimension or is a zero vector under cosine *)
Theorem flat_search_error_iff p s rq q :
  p_kind p = KFlat -> st_trained s = true ->
  (exists e, search_single p s rq q = Err e) <->
  (Z.of_nat (length q) <> p_dim p \/ preprocess (p_metric p) q = None).
Proof.
  intros Hk Ht. unfold search_single. rewrite Hk, Ht. cbn [negb].
  destruct (Z.eqb_spec (Z.of_nat (length q)) (p_dim p)) as [Hd|Hd]; cbn [negb].
  - destruct (preprocess (p_metric p) q) as [pq|].
    + split; [intros [e He]; discriminate | intros [H|H]; [contradiction | discriminate]].
    + split; [intros _; right; reflexivity | intros _; eexists; reflexivity].
  - split; [intros _; left; exact Hd | intros _; eexists; reflexivity].
Qed.
