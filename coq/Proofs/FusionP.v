(** C19: fusion and merge laws on score maps (association lists with distinct keys). *)
From Coq Require Import ZArith List Bool Lia.
From Comet Require Import Base.FBits Base.Sorting Model.Fusion.
Import ListNotations.
Open Scope Z_scope.

Lemma lookup_upsert j id s m : lookup j (upsert id s m) = if j =? id then Some s else lookup j m.
Proof.
  induction m as [|[i x] t IH]; cbn [upsert lookup].
  - rewrite (Z.eqb_sym id j). destruct (j =? id); reflexivity.
  - destruct (Z.eqb_spec i id) as [->|Hn]; cbn [lookup].
    + destruct (Z.eqb_spec id j) as [->|Hj]; [now rewrite Z.eqb_refl|]. destruct (Z.eqb_spec j id); [congruence | reflexivity].
    + destruct (Z.eqb_spec i j) as [->|Hij]; [destruct (Z.eqb_spec j id); [congruence | reflexivity] | exact IH].
Qed.

Lemma upsert_keys_nodup id s m : NoDup (map fst m) -> NoDup (map fst (upsert id s m)).
Proof.
  induction m as [|[i x] t IH]; intro H; cbn [upsert map fst]; [constructor; [intros [] | constructor]|].
  inversion H as [|? ? Hni Ht]; subst. destruct (i =? id) eqn:E; cbn [map fst]; [constructor; assumption|].
  constructor; [|apply IH; exact Ht]. intro Hc.
  assert (G : forall m', In i (map fst (upsert id s m')) -> i = id \/ In i (map fst m')).
  { clear. induction m' as [|[a b] u IHu]; cbn [upsert map fst In]; [intros [H|[]]; auto|].
    destruct (a =? id); cbn [map fst In]; [tauto|]. intros [H|H]; [auto | destruct (IHu H); auto]. }
  apply G in Hc. destruct Hc as [Hc|Hc]; [apply Z.eqb_neq in E; congruence | contradiction].
Qed.

Lemma lookup_in j m : lookup j m <> None <-> In j (map fst m).
Proof.
  induction m as [|[i x] t IH]; cbn [lookup map fst In]; [split; [congruence | tauto]|].
  destruct (Z.eqb_spec i j) as [->|Hn]; [split; [intros _; now left | discriminate]|].
  rewrite IH. split; [intro H; now right | intros [H|H]; [congruence | exact H]].
Qed.

(** fold of upserts over a map with distinct keys *)
Lemma fold_upsert_lookup (f : Z -> Z) : forall v c j, NoDup (map fst v) ->
  lookup j (fold_left (fun c p => upsert (fst p) (f (snd p)) c) v c) =
  match lookup j v with Some s => Some (f s) | None => lookup j c end.
Proof.
  induction v as [|[i s] t IH]; intros c j Hnd; cbn [fold_left lookup fst snd]; [reflexivity|].
  cbn [map fst] in Hnd. inversion Hnd as [|? ? Hni Ht]; subst.
  rewrite IH by exact Ht. destruct (Z.eqb_spec i j) as [->|Hn].
  - assert (lookup j t = None) as ->.
    { destruct (lookup j t) eqn:E; [|reflexivity]. exfalso. apply Hni. apply lookup_in. congruence. }
    rewrite lookup_upsert, Z.eqb_refl. reflexivity.
  - destruct (lookup j t); [reflexivity|]. rewrite lookup_upsert. destruct (Z.eqb_spec j i); [congruence | reflexivity].
Qed.

(** weighted sum: over the UNION of ids, the weighted sum of the scores that exist *)
Theorem fuse_weighted_spec vw tw v t j : NoDup (map fst v) -> NoDup (map fst t) ->
  lookup j (fuse_weighted vw tw v t) =
  match lookup j v, lookup j t with
  | Some a, Some b => Some (F64.add (F64.mul a vw) (F64.mul b tw))
  | Some a, None => Some (F64.mul a vw)
  | None, Some b => Some (F64.mul b tw)
  | None, None => None
  end.
Proof.
  intros Hv Ht. unfold fuse_weighted.
  set (c0 := fold_left (fun c p => upsert (fst p) (F64.mul (snd p) vw) c) v []).
  assert (Hc0 : forall i, lookup i c0 = match lookup i v with Some s => Some (F64.mul s vw) | None => None end).
  { intro i. unfold c0. rewrite (fold_upsert_lookup (fun s => F64.mul s vw)) by exact Hv. destruct (lookup i v); reflexivity. }
  assert (G : forall t c, NoDup (map fst t) ->
    lookup j (fold_left (fun c p => match lookup (fst p) c with
                                    | Some e => upsert (fst p) (F64.add e (F64.mul (snd p) tw)) c
                                    | None => upsert (fst p) (F64.mul (snd p) tw) c end) t c) =
    match lookup j t with
    | Some b => Some (match lookup j c with Some e => F64.add e (F64.mul b tw) | None => F64.mul b tw end)
    | None => lookup j c end).
  { clear. induction t as [|[i b] r IH]; intros c Hnd; cbn [fold_left lookup fst snd]; [reflexivity|].
    cbn [map fst] in Hnd. inversion Hnd as [|? ? Hni Hr]; subst. rewrite IH by exact Hr.
    destruct (Z.eqb_spec i j) as [->|Hn].
    - assert (lookup j r = None) as ->.
      { destruct (lookup j r) eqn:E; [|reflexivity]. exfalso. apply Hni. apply lookup_in. congruence. }
      destruct (lookup j c); rewrite lookup_upsert, Z.eqb_refl; reflexivity.
    - assert (Hl : forall x, lookup j (upsert i x c) = lookup j c)
        by (intro x; rewrite lookup_upsert; destruct (Z.eqb_spec j i); [congruence | reflexivity]).
      destruct (lookup i c); rewrite Hl; reflexivity. }
  rewrite G by exact Ht. rewrite Hc0. destruct (lookup j v); destruct (lookup j t); reflexivity.
Qed.

(** max fusion: the larger score over the UNION of ids *)
Theorem fuse_max_spec v t j : NoDup (map fst t) ->
  lookup j (fuse_max v t) =
  match lookup j v, lookup j t with
  | Some a, Some b => Some (if F64.gtb b a then b else a)
  | Some a, None => Some a
  | None, Some b => Some b
  | None, None => None
  end.
Proof.
  intro Ht. unfold fuse_max.
  assert (G : forall t c, NoDup (map fst t) ->
    lookup j (fold_left (fun c p => match lookup (fst p) c with
                                    | Some e => if F64.gtb (snd p) e then upsert (fst p) (snd p) c else c
                                    | None => upsert (fst p) (snd p) c end) t c) =
    match lookup j t with
    | Some b => Some (match lookup j c with Some e => if F64.gtb b e then b else e | None => b end)
    | None => lookup j c end).
  { clear. induction t as [|[i b] r IH]; intros c Hnd; cbn [fold_left lookup fst snd]; [reflexivity|].
    cbn [map fst] in Hnd. inversion Hnd as [|? ? Hni Hr]; subst. rewrite IH by exact Hr.
    destruct (Z.eqb_spec i j) as [->|Hn].
    - assert (lookup j r = None) as ->.
      { destruct (lookup j r) eqn:E; [|reflexivity]. exfalso. apply Hni. apply lookup_in. congruence. }
      destruct (lookup j c) as [e|] eqn:E.
      + destruct (F64.gtb b e); [rewrite lookup_upsert, Z.eqb_refl; reflexivity | exact E].
      + rewrite lookup_upsert, Z.eqb_refl. reflexivity.
    - assert (Hl : forall x, lookup j (upsert i x c) = lookup j c)
        by (intro x; rewrite lookup_upsert; destruct (Z.eqb_spec j i); [congruence | reflexivity]).
      destruct (lookup i c) as [e|]; [destruct (F64.gtb b e)|]; rewrite ?Hl; reflexivity. }
  rewrite G by exact Ht. destruct (lookup j v); destruct (lookup j t); reflexivity.
Qed.

(** min fusion: the smaller score over the INTERSECTION of ids *)
Theorem fuse_min_spec v t j : NoDup (map fst v) ->
  lookup j (fuse_min v t) =
  match lookup j v, lookup j t with
  | Some a, Some b => Some (if F64.ltb a b then a else b)
  | _, _ => None
  end.
Proof.
  unfold fuse_min. induction v as [|[i a] r IH]; intro Hnd; cbn [flat_map lookup fst snd]; [reflexivity|].
  cbn [map fst] in Hnd. inversion Hnd as [|? ? Hni Hr]; subst.
  assert (Hl : forall m, lookup j ((match lookup i t with Some ts => [(i, if F64.ltb a ts then a else ts)] | None => [] end) ++ m)
               = if i =? j then (match lookup i t with Some ts => Some (if F64.ltb a ts then a else ts) | None => lookup j m end) else lookup j m).
  { intro m. destruct (lookup i t); cbn [app lookup]; destruct (i =? j); reflexivity. }
  rewrite Hl. destruct (Z.eqb_spec i j) as [->|Hn].
  - destruct (lookup j t); [reflexivity|]. rewrite IH by exact Hr.
    destruct (lookup j r) eqn:E; [|reflexivity]. exfalso. apply Hni. apply lookup_in. congruence.
  - apply IH. exact Hr.
Qed.

(** merging store results keeps each id once with its highest score *)
Theorem merge_results_nodup l : NoDup (map fst (merge_results l)).
Proof.
  unfold merge_results.
  assert (G : forall l c, NoDup (map fst c) ->
    NoDup (map fst (fold_left (fun c p => match lookup (fst p) c with
                                          | Some e => if F64.gtb (snd p) e then upsert (fst p) (snd p) c else c
                                          | None => upsert (fst p) (snd p) c end) l c))).
  { induction l0 as [|p r IH]; intros c Hc; cbn [fold_left]; [exact Hc|]. apply IH.
    destruct (lookup (fst p) c); [destruct (F64.gtb (snd p) z)|]; try exact Hc; apply upsert_keys_nodup; exact Hc. }
  apply G. constructor.
Qed.

Theorem merge_results_keys l j : In j (map fst (merge_results l)) <-> In j (map fst l).
Proof.
  unfold merge_results. rewrite <- lookup_in.
  assert (G : forall l c, lookup j (fold_left (fun c p => match lookup (fst p) c with
                                          | Some e => if F64.gtb (snd p) e then upsert (fst p) (snd p) c else c
                                          | None => upsert (fst p) (snd p) c end) l c) <> None
                          <-> (lookup j c <> None \/ In j (map fst l))).
  { induction l0 as [|[i s] r IH]; intro c; cbn [fold_left map fst In snd]; [tauto|].
    rewrite IH. clear IH.
    assert (Hup : lookup j (upsert i s c) <> None <-> (lookup j c <> None \/ i = j)).
    { rewrite lookup_upsert. destruct (Z.eqb_spec j i) as [->|Hn].
      - split; [intros _; now right | intros _; discriminate].
      - split; [intro H; now left | intros [H|H]; [exact H | congruence]]. }
    destruct (lookup i c) as [e|] eqn:E; [destruct (F64.gtb s e)|].
    - rewrite Hup. tauto.
    - split; [intros [H|H]; auto | intros [H|[H|H]]; auto]. subst. left. congruence.
    - rewrite Hup. tauto. }
  rewrite G. cbn [lookup]. split; [intros [H|H]; [congruence | exact H] | intro H; now right].
Qed.
