(** roaring's bit-sliced GE and LE are correct for ALL pairs of int64 values (the facts comet's
    repaired numeric filters rest on). *)
From Coq Require Import ZArith List Bool Lia.
From Comet Require Import Model.BSI.
Open Scope Z_scope.

Definition init_st : cst := {| eq1 := true; eq2 := true; lt1 := false; lt2 := false; gt1 := false; stop := false |}.

(** the two decided states of a non-RANGE comparison *)
Definition st_gt (op : bop) (isNeg startNeg : bool) : cst :=   (* stored bits > operand bits *)
  {| eq1 := false; eq2 := true;
     lt1 := is_lt_like op && isNeg && negb startNeg; lt2 := false;
     gt1 := is_gt_like op && (startNeg || Bool.eqb startNeg isNeg); stop := true |}.
Definition st_lt (op : bop) (isNeg startNeg : bool) : cst :=   (* stored bits < operand bits *)
  {| eq1 := false; eq2 := true;
     lt1 := is_lt_like op && (negb startNeg || Bool.eqb startNeg isNeg); lt2 := false;
     gt1 := is_gt_like op && startNeg && negb isNeg; stop := true |}.

Lemma cloop_stopped op isNeg startNeg endNeg cs ce v n st :
  stop st = true -> cloop op isNeg startNeg endNeg cs ce v n st = st.
Proof.
  revert st. induction n as [|n IH]; intros st Hs; cbn [cloop]; [reflexivity|].
  unfold cstep. rewrite Hs. apply IH. exact Hs.
Qed.

Lemma mod_succ_pow2 v n : 0 <= n ->
  v mod 2 ^ (n + 1) = v mod 2 ^ n + (if Z.testbit v n then 2 ^ n else 0).
Proof.
  intro Hn. rewrite Z.pow_add_r, Z.pow_1_r by lia.
  rewrite Z.rem_mul_r by (try apply Z.pow_nonzero; lia). f_equal.
  destruct (Z.testbit v n) eqn:E.
  - apply Z.testbit_true in E; [|exact Hn]. rewrite E. lia.
  - apply Z.testbit_false in E; [|exact Hn]. rewrite E. lia.
Qed.

Lemma cstep_init op isNeg startNeg endNeg cs ce v j : is_range op = false ->
  cstep op isNeg startNeg endNeg cs ce v j init_st =
  if Z.testbit cs j then (if Z.testbit v j then init_st else st_lt op isNeg startNeg)
  else (if Z.testbit v j then st_gt op isNeg startNeg else init_st).
Proof.
  intro Hr. unfold cstep, bitj, init_st, st_lt, st_gt. cbn [stop eq1 eq2 lt1 lt2 gt1]. rewrite Hr.
  destruct (Z.testbit cs j); destruct (Z.testbit v j); cbn [negb andb orb stop]; try reflexivity;
    destruct (is_lt_like op); destruct (is_gt_like op); destruct startNeg; destruct isNeg; reflexivity.
Qed.

Lemma cloop_spec op isNeg startNeg endNeg cs ce v : is_range op = false -> forall n,
  cloop op isNeg startNeg endNeg cs ce v n init_st =
  match v mod 2 ^ Z.of_nat n ?= cs mod 2 ^ Z.of_nat n with
  | Eq => init_st
  | Gt => st_gt op isNeg startNeg
  | Lt => st_lt op isNeg startNeg
  end.
Proof.
  intros Hr. induction n as [|n IH].
  - cbn [cloop Z.of_nat]. rewrite !Z.mod_1_r. reflexivity.
  - cbn [cloop]. rewrite Nat2Z.inj_succ, <- Z.add_1_r.
    rewrite !mod_succ_pow2 by lia.
    pose proof (Z.mod_pos_bound v (2 ^ Z.of_nat n) ltac:(apply Z.pow_pos_nonneg; lia)) as Hv.
    pose proof (Z.mod_pos_bound cs (2 ^ Z.of_nat n) ltac:(apply Z.pow_pos_nonneg; lia)) as Hc.
    rewrite cstep_init by exact Hr.
    destruct (Z.testbit cs (Z.of_nat n)) eqn:Ec; destruct (Z.testbit v (Z.of_nat n)) eqn:Ev.
    + rewrite IH.
      destruct (Z.compare_spec (v mod 2 ^ Z.of_nat n) (cs mod 2 ^ Z.of_nat n)) as [E|E|E].
      * rewrite E, Z.compare_refl. reflexivity.
      * assert (H : v mod 2 ^ Z.of_nat n + 2 ^ Z.of_nat n < cs mod 2 ^ Z.of_nat n + 2 ^ Z.of_nat n) by lia.
        apply Z.compare_lt_iff in H. rewrite H. reflexivity.
      * assert (H : cs mod 2 ^ Z.of_nat n + 2 ^ Z.of_nat n < v mod 2 ^ Z.of_nat n + 2 ^ Z.of_nat n) by lia.
        apply Z.compare_gt_iff in H. rewrite H. reflexivity.
    + rewrite cloop_stopped by reflexivity.
      assert (H : v mod 2 ^ Z.of_nat n + 0 < cs mod 2 ^ Z.of_nat n + 2 ^ Z.of_nat n) by lia.
      apply Z.compare_lt_iff in H. rewrite H. reflexivity.
    + rewrite cloop_stopped by reflexivity.
      assert (H : cs mod 2 ^ Z.of_nat n + 0 < v mod 2 ^ Z.of_nat n + 2 ^ Z.of_nat n) by lia.
      apply Z.compare_gt_iff in H. rewrite H. reflexivity.
    + rewrite IH, !Z.add_0_r. reflexivity.
Qed.

Definition int64 (z : Z) : Prop := - two63 <= z < two63.

Lemma low63_nonneg z : 0 <= z < two63 -> u64 z mod 2 ^ 63 = z.
Proof.
  intro H. unfold u64, two64, two63 in *. rewrite (Z.mod_small z) by lia. apply Z.mod_small.
  change (2 ^ 63) with 9223372036854775808. lia.
Qed.
Lemma low63_neg z : - two63 <= z < 0 -> u64 z mod 2 ^ 63 = z + two63.
Proof.
  intro H. unfold u64, two64, two63 in *.
  replace (z mod 18446744073709551616) with (z + 18446744073709551616).
  2:{ apply Z.mod_unique with (q := -1); lia. }
  change (2 ^ 63) with 9223372036854775808.
  symmetry. apply Z.mod_unique with (q := 1); lia.
Qed.

Theorem bsi_ge_correct v a : int64 v -> int64 a -> bsi_cmp GE v a 0 = (a <=? v).
Proof.
  unfold int64. intros Hv Ha. unfold bsi_cmp.
  change 63%nat with (Z.to_nat 63).
  rewrite (cloop_spec GE (v <? 0) (a <? 0) (0 <? 0) _ _ (u64 v) eq_refl (Z.to_nat 63)).
  change (Z.of_nat (Z.to_nat 63)) with 63.
  destruct (Z.ltb_spec v 0) as [Hvn|Hvp]; destruct (Z.ltb_spec a 0) as [Han|Hap]; cbn [Bool.eqb].
  - (* both negative *)
    rewrite (low63_neg v), (low63_neg a) by lia.
    destruct (Z.compare_spec (v + two63) (a + two63)) as [E|E|E]; cbn; destruct (Z.leb_spec a v); try reflexivity; lia.
  - (* stored negative, operand non-negative: never >= *)
    destruct (_ ?= _); cbn; destruct (Z.leb_spec a v); try reflexivity; lia.
  - (* stored non-negative, operand negative: always >= *)
    destruct (_ ?= _); cbn; destruct (Z.leb_spec a v); try reflexivity; lia.
  - rewrite (low63_nonneg v), (low63_nonneg a) by lia.
    destruct (Z.compare_spec v a) as [E|E|E]; cbn; destruct (Z.leb_spec a v); try reflexivity; lia.
Qed.

Theorem bsi_le_correct v a : int64 v -> int64 a -> bsi_cmp LE v a 0 = (v <=? a).
Proof.
  unfold int64. intros Hv Ha. unfold bsi_cmp.
  change 63%nat with (Z.to_nat 63).
  rewrite (cloop_spec LE (v <? 0) (a <? 0) (0 <? 0) _ _ (u64 v) eq_refl (Z.to_nat 63)).
  change (Z.of_nat (Z.to_nat 63)) with 63.
  destruct (Z.ltb_spec v 0) as [Hvn|Hvp]; destruct (Z.ltb_spec a 0) as [Han|Hap]; cbn [Bool.eqb].
  - rewrite (low63_neg v), (low63_neg a) by lia.
    destruct (Z.compare_spec (v + two63) (a + two63)) as [E|E|E]; cbn; destruct (Z.leb_spec v a); try reflexivity; lia.
  - destruct (_ ?= _); cbn; destruct (Z.leb_spec v a); try reflexivity; lia.
  - destruct (_ ?= _); cbn; destruct (Z.leb_spec v a); try reflexivity; lia.
  - rewrite (low63_nonneg v), (low63_nonneg a) by lia.
    destruct (Z.compare_spec v a) as [E|E|E]; cbn; destruct (Z.leb_spec v a); try reflexivity; lia.
Qed.
