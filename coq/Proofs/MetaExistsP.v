(** C04 refinement, continued: Exists / NotExists on a categorical field select exactly the live
    documents that carry (resp. lack) some value under that field. *)
From Coq Require Import ZArith List Bool Lia.
From Comet Require Import Base.FBits Base.Parse Base.Sorting Model.BSI Model.VecIndex Model.Metadata Proofs.MetaP Proofs.BSIP Proofs.MetaRefineP.
Import ListNotations.
Open Scope Z_scope.


(** ---- Exists / NotExists on a categorical field ---- *)

(** membership in the union of the id sets of all keys that satisfy [p] *)
Lemma fold_cond_union_mem (p : str -> bool) (m : list (str * list Z)) : forall acc x,
  memz x (fold_left (fun acc kv => if p (fst kv) then set_union acc (snd kv) else acc) m acc) =
  memz x acc || existsb (fun kv => p (fst kv) && memz x (snd kv)) m.
Proof.
  induction m as [|kv t IH]; intros acc x; cbn [fold_left existsb]; [now rewrite orb_false_r|].
  rewrite IH. destruct (p (fst kv)); cbn [andb orb].
  - rewrite memz_set_union. now rewrite orb_assoc.
  - reflexivity.
Qed.

(** keys of the categorical map are pairwise distinct, so scanning the map and looking a key up agree *)
Definition keys_distinct (m : list (str * list Z)) : Prop := NoDup (map fst m).

Lemma cat_find_in k ids m : keys_distinct m -> In (k, ids) m -> cat_find k m = Some ids.
Proof.
  unfold keys_distinct. induction m as [|[k0 i0] t IH]; intros Hnd Hin; [destruct Hin|].
  cbn [map fst] in Hnd. inversion Hnd as [|? ? Hni Ht]; subst. cbn [cat_find].
  destruct Hin as [E|Hin].
  - inversion E; subst. rewrite str_eqb_refl. reflexivity.
  - destruct (str_eqb k0 k) eqn:Ek.
    + apply str_eqb_eq in Ek. subst k0. exfalso. apply Hni. apply in_map_iff. exists (k, ids). auto.
    + apply IH; assumption.
Qed.

Lemma cat_update_keys key f m : keys_distinct m -> keys_distinct (cat_update key f m).
Proof.
  unfold keys_distinct. induction m as [|[k0 i0] t IH]; intros Hnd; cbn [cat_update map fst].
  - constructor; [intros []|constructor].
  - cbn [map fst] in Hnd. inversion Hnd as [|? ? Hni Ht]; subst.
    destruct (str_eqb k0 key) eqn:Ek; cbn [map fst]; [constructor; assumption|].
    constructor; [|apply IH, Ht].
    intros Hc. apply in_map_iff in Hc. destruct Hc as [[k1 i1] [E1 Hin1]]. cbn in E1. subst k1.
    assert (G : forall m', In (k0, i1) (cat_update key f m') -> k0 = key \/ In k0 (map fst m')).
    { clear. induction m' as [|[a b] u IHu]; cbn [cat_update]; intros H.
      - destruct H as [H|[]]. inversion H; subst. now left.
      - destruct (str_eqb a key); destruct H as [H|H].
        + inversion H; subst. right. cbn [map fst In]. now left.
        + right. cbn [map fst In]. right. apply in_map_iff. exists (k0, i1). auto.
        + inversion H; subst. right. cbn [map fst In]. now left.
        + destruct (IHu H) as [E|E]; [now left|right; cbn [map fst In]; now right]. }
    destruct (G t Hin1) as [E|Hin]; [subst k0; rewrite str_eqb_refl in Ek; discriminate|contradiction].
Qed.


(** keys stay distinct along every history *)
Lemma madd_fields_keys : forall fields s id s' b, keys_distinct (m_cat s) ->
  madd_fields s id fields = (s', b) -> keys_distinct (m_cat s').
Proof.
  induction fields as [|[f v] t IH]; intros s id s' b Hk E; cbn [madd_fields] in E.
  - inversion E; subst. exact Hk.
  - destruct v as [x0|b0|z|bits|].
    + eapply IH; [|exact E]. cbn [m_cat]. apply cat_update_keys, Hk.
    + eapply IH; [|exact E]. cbn [m_cat]. apply cat_update_keys, Hk.
    + eapply IH; [|exact E]. exact Hk.
    + eapply IH; [|exact E]. exact Hk.
    + inversion E; subst. exact Hk.
Qed.

Lemma keys_step s docs o : keys_distinct (m_cat s) -> keys_distinct (m_cat (fst (hstep (s, docs) o))).
Proof.
  intros Hk. destruct o as [id fields|id]; cbn [hstep].
  - destruct (_ || _); [exact Hk|]. cbn [fst]. unfold madd. destruct (existsb _ fields); [exact Hk|].
    destruct (madd_fields _ id fields) as [s' b] eqn:E. cbn [fst]. eapply madd_fields_keys; [|exact E]. exact Hk.
  - cbn [fst mremove m_cat]. unfold keys_distinct in *. rewrite map_map. cbn [fst]. exact Hk.
Qed.

Lemma keys_run ops : keys_distinct (m_cat (fst (hrun ops))).
Proof.
  unfold hrun.
  assert (G : forall ops st, keys_distinct (m_cat (fst st)) -> keys_distinct (m_cat (fst (fold_left hstep ops st)))).
  { induction ops0 as [|o t IH]; intros [s docs] Hk; cbn [fold_left]; [exact Hk|]. apply IH. apply keys_step. exact Hk. }
  apply G. constructor.
Qed.

(** the document carries some categorical value whose key starts with [p] *)
Definition doc_has_prefix (docs : list doc) (p : str) (x : Z) : bool :=
  match dfind x docs with
  | Some fl => existsb (fun kv => match render (snd kv) with Some r => is_prefix p (key_of (fst kv) r) | None => false end) fl
  | None => false
  end.

Lemma is_prefix_eq p a b : str_eqb a b = true -> is_prefix p a = is_prefix p b.
Proof. intros H. apply str_eqb_eq in H. subst. reflexivity. Qed.

Theorem existence_categorical ops field x :
  let '(s, docs) := hrun ops in
  num_find field (m_num s) = None ->
  memz x (existence s field) = doc_has_prefix docs (field ++ [colon]) x.
Proof.
  pose proof (inv_cat_run ops) as Hc. pose proof (keys_run ops) as Hk.
  destruct (hrun ops) as [s docs]. cbn [fst] in Hk. destruct Hc as [_ Hc].
  intros Hn. unfold existence. rewrite Hn.
  set (p := field ++ [colon]).
  rewrite (fold_cond_union_mem (is_prefix p)). cbn [memz orb].
  unfold doc_has_prefix.
  (* every (key, ids) of the map: ids = cget key *)
  assert (Hids : forall kv, In kv (m_cat s) -> memz x (snd kv) =
                 match dfind x docs with Some fl => has_key (fst kv) fl | None => false end).
  { intros [k ids] Hin. cbn [fst snd]. rewrite <- (Hc k x). unfold cget. rewrite (cat_find_in k ids _ Hk Hin). reflexivity. }
  destruct (dfind x docs) as [fl|] eqn:Ed.
  - apply eq_true_iff_eq. rewrite !existsb_exists. split.
    + intros [[k ids] [Hin Hb]]. apply andb_true_iff in Hb. destruct Hb as [Hp Hm].
      rewrite (Hids _ Hin) in Hm. cbn [fst] in Hm, Hp. unfold has_key in Hm. apply existsb_exists in Hm.
      destruct Hm as [kv [Hkv Hr]]. exists kv. split; [exact Hkv|].
      cbv beta. destruct (render (snd kv)) as [r|]; [|discriminate]. apply str_eqb_eq in Hr. rewrite Hr. exact Hp.
    + intros [kv [Hkv Hr]]. cbv beta in Hr. destruct (render (snd kv)) as [r|] eqn:Er; [|discriminate].
      set (k := key_of (fst kv) r).
      assert (Hm : memz x (cget k (m_cat s)) = true).
      { rewrite (Hc k x), Ed. unfold has_key. apply existsb_exists. exists kv. split; [exact Hkv|]. rewrite Er. apply str_eqb_refl. }
      unfold cget in Hm. destruct (cat_find k (m_cat s)) as [ids|] eqn:Ef; [|discriminate].
      assert (Hin : In (k, ids) (m_cat s)).
      { clear -Ef. induction (m_cat s) as [|[k0 i0] t IH]; cbn [cat_find] in Ef; [discriminate|].
        destruct (str_eqb k0 k) eqn:Ek; [apply str_eqb_eq in Ek; subst; inversion Ef; subst; now left|right; apply IH, Ef]. }
      exists (k, ids). split; [exact Hin|]. cbn [fst snd]. fold k in Hr. rewrite Hr, Hm. reflexivity.
  - apply not_true_is_false. intros H. apply existsb_exists in H. destruct H as [kv [Hin Hb]].
    apply andb_true_iff in Hb. destruct Hb as [_ Hm]. rewrite (Hids _ Hin) in Hm. discriminate.
Qed.

(** with colon-free field names the prefix test singles out exactly the field *)
Definition colon_free (f : str) : Prop := ~ In colon f.

Lemma prefix_key_colon_free f g r : colon_free f -> colon_free g ->
  is_prefix (f ++ [colon]) (key_of g r) = str_eqb f g.
Proof.
  unfold key_of. revert g. induction f as [|a f IH]; intros g Hf Hg.
  - destruct g as [|b g]; cbn [app is_prefix str_eqb].
    + rewrite Z.eqb_refl. reflexivity.
    + destruct (Z.eqb_spec colon b) as [E|E]; [exfalso; apply Hg; left; auto|reflexivity].
  - destruct g as [|b g]; cbn [app is_prefix str_eqb].
    + destruct (Z.eqb_spec a colon) as [E|E]; [exfalso; apply Hf; left; auto|reflexivity].
    + rewrite IH; [reflexivity| |]; intros Hc; [apply Hf|apply Hg]; right; exact Hc.
Qed.
