(** Sign / absolute-value facts about the SpecFloat operations, any precision, no reals. *)
From Coq Require Import ZArith Reals Bool Lia List.
From Coq Require Import Floats.SpecFloat.
From Flocq Require Import Core.Core IEEE754.BinarySingleNaN.
From Comet Require Import Base.FBits.
From Comet Require Import Proofs.FloatBridge Proofs.FloatBits.
Import ListNotations.
Open Scope Z_scope.

(** * SpecFloat-level facts (any precision) *)
Section SF.
Variables prec emax : Z.

Definition sf_nan (f : spec_float) : bool := match f with S754_nan => true | _ => false end.
Definition sf_fin (f : spec_float) : bool :=
  match f with S754_zero _ | S754_finite _ _ _ => true | _ => false end.
(** sign bit clear (NaN counts as "no sign") *)
Definition sf_nonneg (f : spec_float) : bool :=
  match f with
  | S754_nan => true
  | S754_zero s | S754_infinity s | S754_finite s _ _ => negb s
  end.
Definition sf_setsign (s : bool) (f : spec_float) : spec_float :=
  match f with
  | S754_nan => S754_nan
  | S754_zero _ => S754_zero s
  | S754_infinity _ => S754_infinity s
  | S754_finite _ m e => S754_finite s m e
  end.

Lemma bra_setsign s m e l :
  SpecFloat.binary_round_aux prec emax s m e l =
  sf_setsign s (SpecFloat.binary_round_aux prec emax false m e l).
Proof.
  unfold SpecFloat.binary_round_aux.
  destruct (SpecFloat.shr_fexp prec emax m e l) as [mrs' e'].
  destruct (SpecFloat.shr_fexp prec emax _ e' loc_Exact) as [mrs'' e''].
  destruct (shr_m mrs''); try reflexivity.
  destruct (Zle_bool e'' (emax - prec)); reflexivity.
Qed.

Lemma br_setsign s m e :
  SpecFloat.binary_round prec emax s m e = sf_setsign s (SpecFloat.binary_round prec emax false m e).
Proof.
  unfold SpecFloat.binary_round.
  destruct (shl_align m e _) as [mz ez]. apply bra_setsign.
Qed.

Lemma setsign_abs s f : SFabs (sf_setsign s f) = SFabs f.
Proof. destruct f; reflexivity. Qed.
Lemma setsign_nonneg f : sf_nonneg (sf_setsign false f) = true.
Proof. destruct f; reflexivity. Qed.

Lemma bn_opp_abs z e :
  SFabs (SpecFloat.binary_normalize prec emax (- z) e false) =
  SFabs (SpecFloat.binary_normalize prec emax z e false).
Proof.
  destruct z; simpl; try reflexivity;
    rewrite (br_setsign true), (br_setsign false), !setsign_abs; reflexivity.
Qed.

Lemma SFsub_swap_abs x y :
  SFabs (SFsub prec emax x y) = SFabs (SFsub prec emax y x).
Proof.
  destruct x as [sx|sx| |sx mx ex]; destruct y as [sy|sy| |sy my ey]; simpl; try reflexivity;
    try (destruct sx, sy; reflexivity).
  rewrite (Z.min_comm ey ex).
  set (a := cond_Zopp sx _). set (b := cond_Zopp sy _).
  replace (b - a) with (- (a - b)) by lia. symmetry. apply bn_opp_abs.
Qed.

Lemma SFmul_self_abs x : SFmul prec emax x x = SFmul prec emax (SFabs x) (SFabs x).
Proof. destruct x as [s|s| |s m e]; simpl; try reflexivity; destruct s; reflexivity. Qed.

Lemma SFmul_comm x y : SFmul prec emax x y = SFmul prec emax y x.
Proof.
  destruct x as [sx|sx| |sx mx ex]; destruct y as [sy|sy| |sy my ey]; simpl; try reflexivity;
    try (rewrite xorb_comm; reflexivity).
  rewrite xorb_comm, Pos.mul_comm, Z.add_comm. reflexivity.
Qed.

Lemma SFmul_self_nonneg x : sf_nonneg (SFmul prec emax x x) = true.
Proof.
  destruct x as [s|s| |s m e]; try reflexivity; try (destruct s; reflexivity).
  unfold SFmul. rewrite bra_setsign. replace (xorb s s) with false by (destruct s; reflexivity).
  apply setsign_nonneg.
Qed.

Lemma SFadd_nonneg x y :
  sf_nonneg x = true -> sf_nonneg y = true -> sf_nonneg (SFadd prec emax x y) = true.
Proof.
  destruct x as [sx|sx| |sx mx ex]; destruct y as [sy|sy| |sy my ey]; simpl; intros Hx Hy;
    try reflexivity; try assumption;
    try (destruct sx, sy; try discriminate; reflexivity).
  destruct sx, sy; try discriminate. cbn [cond_Zopp Z.add SpecFloat.binary_normalize].
  rewrite br_setsign. apply setsign_nonneg.
Qed.

Lemma SFsqrt_nonneg x : sf_nonneg x = true -> sf_nonneg (SFsqrt prec emax x) = true.
Proof.
  destruct x as [s|s| |s m e]; intros Hx; try reflexivity; try (destruct s; try discriminate; reflexivity).
  destruct s; [reflexivity|]. unfold SFsqrt.
  destruct (SFsqrt_core_binary prec emax (Z.pos m) e) as [[mz ez] lz].
  rewrite bra_setsign. apply setsign_nonneg.
Qed.

Lemma SFsub_self x : sf_fin x = true -> SFsub prec emax x x = S754_zero false.
Proof.
  destruct x as [s|s| |s m e]; simpl; try discriminate; intros _.
  - destruct s; reflexivity.
  - rewrite Z.sub_diag. reflexivity.
Qed.
End SF.
