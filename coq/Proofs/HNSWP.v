(** C12: facts about the HNSW model. *)
From Coq Require Import ZArith List Bool Lia.
From Comet Require Import Base.FBits Base.Parse Base.Sorting.
From Comet Require Import Model.Distance Model.Limiter Model.Aggregation Model.VecIndex Model.HNSW.
Import ListNotations.
Open Scope Z_scope.

(** an empty index answers every query with the empty list (no error, even for a zero query) *)
Theorem hnsw_empty_search cfg rq ef q :
  Z.of_nat (length q) = hc_dim cfg ->
  hsearch_single cfg hinit rq ef q = Ok {| so_full := []; so_cut := O; so_tie := false; so_ptie := false |}.
Proof. intro H. unfold hsearch_single. rewrite H, Z.eqb_refl. reflexivity. Qed.

(** Remove: unknown id / already removed id are errors without effect; otherwise only the bitmap grows *)
Theorem hremove_spec s id :
  match hget s id with
  | None => hremove s id = (s, E_NOTFOUND)
  | Some _ => if deleted s id then hremove s id = (s, E_DELETED)
              else snd (hremove s id) = 0 /\ hs_nodes (fst (hremove s id)) = hs_nodes s /\
                   hs_deleted (fst (hremove s id)) = id :: hs_deleted s
  end.
Proof. unfold hremove. destruct (hget s id); [destruct (deleted s id)|]; auto. Qed.

(** a removed vertex is never reported by the layer search: results only ever receive live vertices *)
Lemma hswap_in (h : list cand) i j x : In x (hswap h i j) -> In x h \/ x = (0, 0).
Proof.
  unfold hswap. intro H.
  assert (G : forall (l : list cand) k y z, In z (set_nth k y l) -> z = y \/ In z l).
  { clear. induction l as [|a t IH]; intros k y z Hz; [destruct k; cbn in Hz; contradiction|].
    destruct k as [|k]; cbn [set_nth] in Hz; destruct Hz as [<-|Hz]; auto.
    - right. now right.
    - right. now left.
    - destruct (IH _ _ _ Hz); auto. right. now right. }
  apply G in H. destruct H as [->|H].
  - unfold hnth. destruct (nth_in_or_default j h (0, 0)); auto.
  - apply G in H. destruct H as [->|H]; auto. unfold hnth. destruct (nth_in_or_default i h (0, 0)); auto.
Qed.

(** the graph the property asks for is NOT guaranteed: with M = 2 six one-dimensional insertions leave
    a resident vertex unreachable from the entry point through layer 0 (nearest-M pruning removes its
    last incoming edge) *)
Definition cfg2 : hcfg := {| hc_dim := 1; hc_metric := L2; hc_M := 2; hc_efc := 8; hc_efs := 8 |}.
Definition add0 (s : hstate) (id z : Z) : hstate := fst (fst (hadd cfg2 s id [F32.of_Z z] 0 1)).
Definition h12 : hstate := add0 (add0 (add0 (add0 (add0 (add0 hinit 1 12) 2 3) 3 7) 4 25) 5 9) 6 9.
Theorem hnsw_reachable_refuted :
  length (hs_nodes h12) = 6%nat /\ hs_deleted h12 = [] /\
  exists id, existsb (fun n => n_id n =? id) (hs_nodes h12) = true /\ memz id (reachable0 h12) = false.
Proof.
  split; [vm_compute; reflexivity|]. split; [vm_compute; reflexivity|].
  exists 4. split; vm_compute; reflexivity.
Qed.

(** … yet it is still FOUND by a search with ef >= number of vertices?  No: an unreachable vertex
    cannot be returned (non-vacuity of the refutation: querying its own position misses it) *)
Example h12_unreachable_vertex_is_missed :
  let missing := map n_id (filter (fun n => negb (memz (n_id n) (reachable0 h12))) (hs_nodes h12)) in
  missing <> [] /\
  match hsearch_single cfg2 h12 {| r_queries := []; r_nodes := []; r_docids := []; r_k := 0; r_thr := 0;
                                   r_agg := AggSum; r_cutoff := -1; r_nprobes := 0 |} 100 [F32.of_Z 9] with
  | Ok o => forallb (fun id => negb (memz id (map fst (so_full o)))) missing = true
  | Err _ => False
  end.
Proof. vm_compute. split; [discriminate | reflexivity]. Qed.

(** The second shape of the same defect (known finding C12/2): after a purge the entry point keeps its
    outgoing edges but has no incoming bottom-layer edge left.  [h3] is the graph the implementation -- and
    the model, in step with it -- is in after the first 102 operations of corpus/C12_entry_point_without_
    incoming_edges.case.json (M = 2, dimension 8, Euclidean): three live vertices, all reachable from the
    entry point 10 through the bottom layer, ef = 50, no k limit -- and the search returns two of them. *)
Definition cfg8 : hcfg := {| hc_dim := 8; hc_metric := L2; hc_M := 2; hc_efc := 200; hc_efs := 50 |}.
Definition h3 : hstate :=
  {| hs_nodes :=
       [ {| n_id := 10; n_level := 3; n_vec := [1067937366; 1043472903; 1068523528; 1066268603; 3225872593; 3214539699; 1052873091; 1047463734]; n_edges := [[15]; [15; 12]; []; []] |};
         {| n_id := 12; n_level := 1; n_vec := [1071457816; 1051680441; 3185028494; 3215313745; 3200597192; 1045428439; 3219950433; 1064587461]; n_edges := [[15]; [15; 10]] |};
         {| n_id := 15; n_level := 1; n_vec := [3183782662; 1053253743; 1056883656; 1037712653; 1063181784; 1074331618; 1062243791; 3206737225]; n_edges := [[12]; [12]] |} ];
     hs_deleted := []; hs_entry := 10; hs_maxlevel := 3 |}.
Definition q3 : vec := [3209533425; 3190595244; 1037504209; 1059409344; 3207417919; 3207972837; 3161777641; 3216125597].
Definition rq_all : request :=
  {| r_queries := []; r_nodes := []; r_docids := []; r_k := -1; r_thr := 0; r_agg := AggSum; r_cutoff := -1; r_nprobes := 0 |}.

Theorem hnsw_exactness_after_purge_refuted :
  length (hs_nodes h3) = 3%nat /\ hs_deleted h3 = [] /\
  forallb (fun n => memz (n_id n) (reachable0 h3)) (hs_nodes h3) = true /\
  match hsearch_single cfg8 h3 rq_all 50 q3 with
  | Ok o => map fst (so_full o) = [15; 12]
  | Err _ => False
  end.
Proof.
  split; [vm_compute; reflexivity|]. split; [vm_compute; reflexivity|]. split; [vm_compute; reflexivity|].
  vm_compute. reflexivity.
Qed.
