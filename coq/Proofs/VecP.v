(** C02 / C13 / C14: every exhaustive kind answers a single query with the exact top-k of a
    candidate multiset made only of resident, non-removed, eligible, correctly scored entries. *)
From Coq Require Import ZArith List Bool Lia Permutation Sorted.
From Comet Require Import Base.FBits Base.Parse Base.Sorting.
From Comet Require Import Model.Distance Model.Limiter Model.Aggregation Model.KMeans Model.VecIndex.
From Comet Require Import Proofs.SortingP Proofs.LimiterP Proofs.FlatP.
Import ListNotations.
Open Scope Z_scope.

(** the score a kind defines for entry [e] of list [li] under preprocessed query [pq] *)
Definition kind_score (p : params) (s : vstate) (pq : vec) (li : Z) (e : entry) : Z :=
  match p_kind p with
  | KFlat | KIVF => dist (p_metric p) pq (e_vec e)
  | KPQ => adist (dist_tables p (st_codebooks s) pq) (e_code e)
  | KIVFPQ => adist (dist_tables p (st_codebooks s) (vsub pq (nthv (st_centroids s) li))) (e_code e)
  end.

(** a candidate is justified by a resident entry *)
Definition justified (p : params) (s : vstate) (rq : request) (pq : vec) (x : Z * Z) : Prop :=
  exists li e, In e (nth (Z.to_nat li) (st_lists s) []) /\ In e (all_entries s) /\
    x = (e_id e, kind_score p s pq li e) /\
    memz (e_id e) (st_deleted s) = false /\
    (r_docids rq = [] \/ memz (e_id e) (r_docids rq) = true) /\
    thr_ok rq (snd x) = true.

Lemma in_nth_all_entries s li e : In e (nth li (st_lists s) []) -> In e (all_entries s).
Proof.
  unfold all_entries. revert li. induction (st_lists s) as [|l t IH]; intros li H.
  - destruct li; cbn in H; contradiction.
  - cbn [concat]. apply in_or_app. destruct li as [|li]; cbn [nth] in H; [left; exact H | right; eapply IH; exact H].
Qed.

Lemma in_concat_nth {A} (ls : list (list A)) x : In x (concat ls) -> exists i, In x (nth i ls []).
Proof.
  induction ls as [|l t IH]; cbn [concat]; intro H; [contradiction|].
  apply in_app_or in H. destruct H as [H|H]; [exists O; exact H|].
  destruct (IH H) as [i Hi]. exists (S i). exact Hi.
Qed.

Lemma scan_justified p s rq pq li l x :
  (forall e, In e l -> In e (nth (Z.to_nat li) (st_lists s) [])) ->
  In x (scan_list s rq (kind_score p s pq li) l) -> justified p s rq pq x.
Proof.
  intros Hl Hx. apply in_scan_list in Hx. destruct Hx as [e [He [-> [El Th]]]].
  exists li, e. split; [apply Hl; exact He|]. split; [eapply in_nth_all_entries; apply Hl; exact He|].
  split; [reflexivity|]. unfold eligible_id in El. apply andb_true_iff in El. destruct El as [Hd Hdoc].
  split; [now apply negb_true_iff in Hd|]. split; [|exact Th].
  destruct (r_docids rq); [left; reflexivity | right; exact Hdoc].
Qed.

(** the shape of every successful single-query search *)
Theorem single_shape p s rq q o :
  search_single p s rq q = Ok o ->
  (all_entries s = [] /\ p_kind p = KPQ /\ so_full o = [] /\ so_cut o = O) \/
  exists pq cands, preprocess (p_metric p) q = Some pq /\
    so_full o = sort_cands cands /\
    so_cut o = want (r_k rq) (length cands) /\
    (forall x, In x cands -> justified p s rq pq x).
Proof.
  unfold search_single. intro H.
  destruct (negb (st_trained s)); [discriminate|].
  destruct (negb (Z.of_nat (length q) =? p_dim p)); [discriminate|].
  destruct (p_kind p) eqn:Hk.
  - (* flat *)
    destruct (preprocess (p_metric p) q) as [pq|] eqn:Hp; [|discriminate].
    right. exists pq, (scan_list s rq (fun e => dist (p_metric p) pq (e_vec e)) (all_entries s)).
    inversion H; subst o; clear H. cbn [so_full so_cut]. split; [reflexivity|]. split; [reflexivity|]. split.
    + unfold sort_cands. rewrite isort_length. unfold want. f_equal. apply sanitizeK_twice.
      pose proof (scan_list_length s rq (fun e => dist (p_metric p) pq (e_vec e)) (all_entries s)). lia.
    + intros x Hx. apply in_scan_list in Hx. destruct Hx as [e [He [-> [El Th]]]].
      destruct (in_concat_nth _ _ He) as [i Hi].
      exists (Z.of_nat i), e. rewrite Nat2Z.id. split; [exact Hi|]. split; [exact He|].
      split; [unfold kind_score; rewrite Hk; reflexivity|].
      unfold eligible_id in El. apply andb_true_iff in El. destruct El as [Hd Hdoc].
      split; [now apply negb_true_iff in Hd|]. split; [|exact Th].
      destruct (r_docids rq); [left; reflexivity | right; exact Hdoc].
  - (* ivf *)
    destruct (preprocess (p_metric p) q) as [pq|] eqn:Hp; [|discriminate].
    right. inversion H; subst o; clear H. cbn [so_full so_cut].
    eexists pq, _. split; [reflexivity|]. split; [reflexivity|]. split.
    + unfold sort_cands at 1. rewrite isort_length. reflexivity.
    + intros x Hx. apply in_flat_map in Hx. destruct Hx as [cd [_ Hx]].
      replace (fun e => dist (p_metric p) pq (e_vec e)) with (kind_score p s pq (fst cd)) in Hx
        by (unfold kind_score; rewrite Hk; reflexivity).
      eapply scan_justified; [|exact Hx]. auto.
  - (* pq *)
    destruct (all_entries s) as [|e0 es] eqn:Hae.
    + left. inversion H; subst o. auto.
    + destruct (preprocess (p_metric p) q) as [pq|] eqn:Hp; [|discriminate].
      right. injection H as Ho. subst o. cbn [so_full so_cut].
      eexists pq, _. split; [reflexivity|]. split; [reflexivity|]. split.
      * unfold sort_cands at 1. rewrite isort_length. reflexivity.
      * intros x Hx.
        apply (in_scan_list s rq (fun e => adist (dist_tables p (st_codebooks s) pq) (e_code e)) (e0 :: es)) in Hx.
        destruct Hx as [e [He [-> [El Th]]]].
        rewrite <- Hae in He. destruct (in_concat_nth _ _ He) as [i Hi].
        exists (Z.of_nat i), e. rewrite Nat2Z.id. split; [exact Hi|]. split; [exact He|].
        split; [unfold kind_score; rewrite Hk; reflexivity|].
        unfold eligible_id in El. apply andb_true_iff in El. destruct El as [Hd Hdoc].
        split; [now apply negb_true_iff in Hd|]. split; [|exact Th].
        destruct (r_docids rq); [left; reflexivity | right; exact Hdoc].
  - (* ivfpq *)
    destruct (preprocess (p_metric p) q) as [pq|] eqn:Hp; [|discriminate].
    right. inversion H; subst o; clear H. cbn [so_full so_cut].
    eexists pq, _. split; [reflexivity|]. split; [reflexivity|]. split.
    + unfold sort_cands at 1. rewrite isort_length. reflexivity.
    + intros x Hx. apply in_flat_map in Hx. destruct Hx as [cd [_ Hx]].
      replace (fun e => adist (dist_tables p (st_codebooks s) (vsub pq (nthv (st_centroids s) (fst cd)))) (e_code e))
        with (kind_score p s pq (fst cd)) in Hx by (unfold kind_score; rewrite Hk; reflexivity).
      eapply scan_justified; [|exact Hx]. auto.
Qed.

(** consequences for the returned list *)
Theorem single_results_sound p s rq q o x :
  search_single p s rq q = Ok o -> In x (firstn (so_cut o) (so_full o)) ->
  exists pq, preprocess (p_metric p) q = Some pq /\ justified p s rq pq x.
Proof.
  intros H Hx. destruct (single_shape p s rq q o H) as [[_ [_ [Hf _]]]|[pq [cands [Hp [Hf [_ Hj]]]]]].
  - rewrite Hf in Hx. rewrite firstn_nil in Hx. contradiction.
  - exists pq. split; [exact Hp|]. apply Hj. apply firstn_In in Hx. rewrite Hf in Hx.
    unfold sort_cands in Hx. now apply isort_in in Hx.
Qed.

Theorem single_results_exact_topk p s rq q o :
  search_single p s rq q = Ok o ->
  exists cands, so_cut o = want (r_k rq) (length cands) /\
    ExactTopK skey cands (so_cut o) (firstn (so_cut o) (so_full o)).
Proof.
  intros H. destruct (single_shape p s rq q o H) as [[_ [_ [Hf Hc]]]|[pq [cands [Hp [Hf [Hc Hj]]]]]].
  - exists []. rewrite Hf, Hc. split; [pose proof (want_le (r_k rq) 0); cbn [length]; lia|]. cbn. split; [constructor|]. split; [reflexivity|].
    exists []. split; [constructor | intros r x []].
  - exists cands. split; [exact Hc|]. rewrite Hf. unfold sort_cands. apply firstn_isort_exact_topk.
Qed.

Theorem single_results_bounded p s rq q o :
  search_single p s rq q = Ok o -> 0 < r_k rq -> Z.of_nat (so_cut o) <= r_k rq.
Proof.
  intros H Hk. destruct (single_results_exact_topk p s rq q o H) as [cands [Hc _]].
  rewrite Hc, want_min. destruct (Z.leb_spec (r_k rq) 0); [lia|]. cbn [orb].
  destruct (Z.ltb_spec (Z.of_nat (length cands)) (r_k rq)); lia.
Qed.

(** node query = query with the stored vector (unknown or removed node = error) *)
Theorem node_query_equiv p s rq i v :
  r_queries rq = [] -> r_nodes rq = [i] -> lookup_node s i = Ok v ->
  execute p s rq =
  execute p s {| r_queries := [v]; r_nodes := []; r_docids := r_docids rq; r_k := r_k rq; r_thr := r_thr rq;
                 r_agg := r_agg rq; r_cutoff := r_cutoff rq; r_nprobes := r_nprobes rq |}.
Proof.
  intros Hq Hn Hl. unfold execute. rewrite Hq, Hn. cbn [r_queries r_nodes mapM_res app].
  rewrite Hl. cbn [app].
  replace (search_single p s {| r_queries := [v]; r_nodes := []; r_docids := r_docids rq; r_k := r_k rq;
             r_thr := r_thr rq; r_agg := r_agg rq; r_cutoff := r_cutoff rq; r_nprobes := r_nprobes rq |} v)
    with (search_single p s rq v); [reflexivity|].
  unfold search_single, scan_list, eligible_id, thr_ok. cbn [r_docids r_k r_thr r_nprobes]. reflexivity.
Qed.

Theorem node_unknown_or_removed_errors s i :
  (resident s i = false \/ memz i (st_deleted s) = true) -> lookup_node s i = Err E_NOTFOUND.
Proof.
  intros [H|H]; unfold lookup_node.
  - destruct (find (fun e => e_id e =? i) (all_entries s)) as [e|] eqn:Hf; [|reflexivity].
    apply find_some in Hf. destruct Hf as [He Hi]. unfold resident in H.
    assert (existsb (fun e0 => e_id e0 =? i) (all_entries s) = true)
      by (apply existsb_exists; exists e; auto). congruence.
  - destruct (find _ _); [rewrite H|]; reflexivity.
Qed.

(** flush never changes a single-query answer of any exhaustive kind *)
Lemma scan_list_flush s rq f l :
  scan_list (vflush_op s) rq f (filter (fun e => negb (memz (e_id e) (st_deleted s))) l) = scan_list s rq f l.
Proof.
  assert (Hel : forall id, memz id (st_deleted s) = false ->
                           eligible_id (vflush_op s) rq id = eligible_id s rq id).
  { intros id Hid. unfold eligible_id, vflush_op. destruct (st_deleted s) as [|d ds] eqn:Hd.
    - rewrite Hd. reflexivity.
    - cbn [st_deleted]. rewrite Hid. reflexivity. }
  induction l as [|e t IH]; [reflexivity|].
  cbn [filter]. destruct (memz (e_id e) (st_deleted s)) eqn:E; cbn [negb].
  - rewrite IH. unfold scan_list. cbn [flat_map].
    assert (Hf : eligible_id s rq (e_id e) = false) by (unfold eligible_id; rewrite E; reflexivity).
    rewrite Hf. reflexivity.
  - unfold scan_list in *. cbn [flat_map]. rewrite (Hel _ E). f_equal. exact IH.
Qed.

Lemma nth_map_filter {A} (f : A -> bool) ls i : nth i (map (filter f) ls) [] = filter f (nth i ls []).
Proof.
  revert i. induction ls as [|l t IH]; intros [|i]; cbn [map nth filter]; try reflexivity. apply IH.
Qed.

Lemma flush_fields s :
  st_trained (vflush_op s) = st_trained s /\ st_centroids (vflush_op s) = st_centroids s /\
  st_codebooks (vflush_op s) = st_codebooks s /\
  st_lists (vflush_op s) = map (filter (fun e => negb (memz (e_id e) (st_deleted s)))) (st_lists s).
Proof.
  unfold vflush_op. destruct (st_deleted s) as [|d ds] eqn:Hd; cbn [st_trained st_centroids st_codebooks st_lists].
  - repeat split. symmetry. rewrite <- (map_id (st_lists s)) at 2. apply map_ext.
    intro l. cbn [memz negb]. apply filter_all_true. intros; reflexivity.
  - repeat split.
Qed.

Lemma all_entries_flush s :
  all_entries (vflush_op s) = filter (fun e => negb (memz (e_id e) (st_deleted s))) (all_entries s).
Proof.
  unfold all_entries. destruct (flush_fields s) as [_ [_ [_ Hl]]]. rewrite Hl. apply concat_filter.
Qed.

(** C02: for the exhaustive kinds, flushing soft-deleted vectors never changes the answer to a
    (preprocessable) single query — exact equality of the returned list *)
Theorem flush_invisible_single p s rq q pq :
  preprocess (p_metric p) q = Some pq ->
  match search_single p (vflush_op s) rq q, search_single p s rq q with
  | Ok o1, Ok o2 => firstn (so_cut o1) (so_full o1) = firstn (so_cut o2) (so_full o2)
  | Err e1, Err e2 => e1 = e2
  | _, _ => False
  end.
Proof.
  intro Hp. destruct (p_kind p) eqn:Hk.
  - apply flat_flush_invisible. exact Hk.
  - (* ivf *)
    unfold search_single. destruct (flush_fields s) as [Ht [Hc [Hb Hl]]].
    rewrite Ht, Hc, Hk. destruct (negb (st_trained s)); [reflexivity|].
    destruct (negb (Z.of_nat (length q) =? p_dim p)); [reflexivity|]. rewrite Hp. cbn [so_cut so_full].
    match goal with |- firstn _ (sort_cands ?a) = firstn _ (sort_cands ?b) => assert (Heq : a = b) end.
    { apply flat_map_ext. intro cd. rewrite Hl, nth_map_filter. apply scan_list_flush. }
    rewrite Heq. reflexivity.
  - (* pq *)
    unfold search_single. destruct (flush_fields s) as [Ht [Hc [Hb Hl]]].
    rewrite Ht, Hb, Hk. destruct (negb (st_trained s)); [reflexivity|].
    destruct (negb (Z.of_nat (length q) =? p_dim p)); [reflexivity|]. rewrite Hp.
    rewrite all_entries_flush.
    destruct (all_entries s) as [|e0 es] eqn:Hae; [reflexivity|].
    pose proof (scan_list_flush s rq (fun e => adist (dist_tables p (st_codebooks s) pq) (e_code e)) (e0 :: es)) as Hs.
    destruct (filter (fun e => negb (memz (e_id e) (st_deleted s))) (e0 :: es)) as [|f0 fs] eqn:Hfil.
    + cbn [so_cut so_full firstn]. rewrite <- Hs. cbn [scan_list flat_map sort_cands isort fold_right].
      rewrite firstn_nil. reflexivity.
    + cbn [so_cut so_full]. rewrite Hs. reflexivity.
  - (* ivfpq *)
    unfold search_single. destruct (flush_fields s) as [Ht [Hc [Hb Hl]]].
    rewrite Ht, Hc, Hb, Hk. destruct (negb (st_trained s)); [reflexivity|].
    destruct (negb (Z.of_nat (length q) =? p_dim p)); [reflexivity|]. rewrite Hp. cbn [so_cut so_full].
    match goal with |- firstn _ (sort_cands ?a) = firstn _ (sort_cands ?b) => assert (Heq : a = b) end.
    { apply flat_map_ext. intro cd. rewrite Hl, nth_map_filter. apply scan_list_flush. }
    rewrite Heq. reflexivity.
Qed.
