(** quantizer.go, int8: for EVERY finite float32 x with |x| <= absMax (the trained range), quantising
    to int8 and back reconstructs x within half a quantisation step plus float32 rounding:

        | deq(q x) - x |  <=  absMax/254 + absMax * 2^-21 + 2^-149        (over the reals)

    and the code stays in [-127, 127] (so the int8 conversion never wraps inside the trained range).
    The model (Model.Quantizer.q8 / dq8) computes  x / absMax * 127  in float32, rounds half away from
    zero, and reconstructs  q / 127 * absMax  in float32: four correctly rounded operations
    (Flocq's Bdiv_correct / Bmult_correct through Proofs.FloatBridge), one integer rounding (error
    <= 1/2) and one exact conversion of the code. *)
From Coq Require Import ZArith Reals Bool Lia Lra List.
From Coq Require Import Floats.SpecFloat.
From Flocq Require Import Core.Core IEEE754.BinarySingleNaN.
From Flocq Require Import Relative.
From Comet Require Import Base.FBits Model.Quantizer Proofs.FloatBridge Proofs.FloatBits Proofs.HalfP.

Local Open Scope Z_scope.

#[local] Existing Instance P24.
#[local] Existing Instance E128.

Notation RN := (round radix2 fexp32 ZnearestE).
Notation valid32 := (valid_binary 24 128).

(** the real number a float32 bit pattern denotes; finite well-formed patterns *)
Definition R32 (b : Z) : R := RV (F32.of_bits b).
Definition fin32 (b : Z) : Prop := wfb 23 8 b /\ is_finite_SF (F32.of_bits b) = true.

Lemma RV_B2SF (b : binary_float 24 128) : RV (B2SF b) = B2R b.
Proof. destruct b; reflexivity. Qed.

Lemma fexp32_FLT : fexp32 = FLT_exp (-149) 24. Proof. reflexivity. Qed.

#[local] Instance fexp32_valid : Valid_exp fexp32.
Proof. rewrite fexp32_FLT. apply FLT_exp_valid. exact P24. Qed.

(** --- the two operations, over the reals --- *)
Lemma sfmul_real x y (Hx : valid32 x = true) (Hy : valid32 y = true) :
  is_finite_SF x = true -> is_finite_SF y = true ->
  (Rabs (RN (RV x * RV y)) < bpow radix2 128)%R ->
  valid32 (SFmul 24 128 x y) = true /\ RV (SFmul 24 128 x y) = RN (RV x * RV y) /\
  is_finite_SF (SFmul 24 128 x y) = true.
Proof.
  intros Fx Fy Hlt.
  pose proof (Bmult_correct 24 128 P24 E128 mode_NE (SF2B x Hx) (SF2B y Hy)) as C.
  rewrite <- !RV_B2SF in C. rewrite !B2SF_SF2B in C. change (round_mode mode_NE) with ZnearestE in C.
  rewrite Rlt_bool_true in C by exact Hlt. destruct C as (C1 & C2 & _).
  assert (EQ : SFmul 24 128 x y = B2SF (Bmult mode_NE (SF2B x Hx) (SF2B y Hy))).
  { rewrite <- (SFmul_equiv 24 128 P24 E128), !B2SF_SF2B. reflexivity. }
  rewrite EQ.
  split; [apply valid_binary_B2SF|]. split; [exact C1|].
  rewrite is_finite_SF_B2SF, C2, !is_finite_SF2B, Fx, Fy. reflexivity.
Qed.

Lemma sfdiv_real x y (Hx : valid32 x = true) (Hy : valid32 y = true) :
  is_finite_SF x = true -> RV y <> 0%R ->
  (Rabs (RN (RV x / RV y)) < bpow radix2 128)%R ->
  valid32 (SFdiv 24 128 x y) = true /\ RV (SFdiv 24 128 x y) = RN (RV x / RV y) /\
  is_finite_SF (SFdiv 24 128 x y) = true.
Proof.
  intros Fx Ny Hlt.
  pose proof (Bdiv_correct 24 128 P24 E128 mode_NE (SF2B x Hx) (SF2B y Hy)) as C.
  rewrite <- !RV_B2SF in C. rewrite !B2SF_SF2B in C. change (round_mode mode_NE) with ZnearestE in C.
  specialize (C Ny).
  rewrite Rlt_bool_true in C by exact Hlt. destruct C as (C1 & C2 & _).
  assert (EQ : SFdiv 24 128 x y = B2SF (Bdiv mode_NE (SF2B x Hx) (SF2B y Hy))).
  { rewrite <- (SFdiv_equiv 24 128 P24 E128), !B2SF_SF2B. reflexivity. }
  rewrite EQ.
  split; [apply valid_binary_B2SF|]. split; [exact C1|].
  rewrite is_finite_SF_B2SF, C2, is_finite_SF2B, Fx. reflexivity.
Qed.

Lemma fin32_valid b : fin32 b -> valid32 (F32.of_bits b) = true.
Proof. intros [Hw _]. exact (of_bits_valid 23 8 H32mw' H32ew' H32prec' b Hw). Qed.

Lemma fin32_to_bits f : valid32 f = true -> is_finite_SF f = true ->
  fin32 (to_bits 23 8 f) /\ R32 (to_bits 23 8 f) = RV f.
Proof.
  intros Hv Hf. unfold fin32, R32, F32.of_bits, F32.mw, F32.ew.
  rewrite (of_to_bits 23 8 H32mw' H32ew' H32prec' f Hv).
  split; [split; [apply (to_bits_wf 23 8 H32mw' H32ew' H32prec'); exact Hv|exact Hf]|reflexivity].
Qed.

Lemma mul32_real a b : fin32 a -> fin32 b ->
  (Rabs (RN (R32 a * R32 b)) < bpow radix2 128)%R ->
  fin32 (F32.mul a b) /\ R32 (F32.mul a b) = RN (R32 a * R32 b).
Proof.
  intros Ha Hb Hlt.
  destruct (sfmul_real _ _ (fin32_valid a Ha) (fin32_valid b Hb) (proj2 Ha) (proj2 Hb) Hlt) as (V & E & F).
  destruct (fin32_to_bits _ V F) as (F' & E').
  split; [exact F'|]. exact (eq_trans E' E).
Qed.

Lemma div32_real a b : fin32 a -> fin32 b -> R32 b <> 0%R ->
  (Rabs (RN (R32 a / R32 b)) < bpow radix2 128)%R ->
  fin32 (F32.div a b) /\ R32 (F32.div a b) = RN (R32 a / R32 b).
Proof.
  intros Ha Hb Nb Hlt.
  destruct (sfdiv_real _ _ (fin32_valid a Ha) (fin32_valid b Hb) (proj2 Ha) Nb Hlt) as (V & E & F).
  destruct (fin32_to_bits _ V F) as (F' & E').
  split; [exact F'|]. exact (eq_trans E' E).
Qed.

(** --- small integers are float32 values, exactly --- *)
Lemma gf_Z q : Z.abs q < 2 ^ 24 -> generic_format radix2 fexp32 (IZR q).
Proof.
  intros Hq. rewrite fexp32_FLT. apply (generic_format_FLT radix2 (-149) 24).
  apply (FLT_spec radix2 (-149) 24 (IZR q) (Float radix2 q 0)).
  - unfold F2R. cbn. lra.
  - exact Hq.
  - cbn. lia.
Qed.

Lemma ofZ_real q : -127 <= q <= 127 -> fin32 (F32.of_Z q) /\ R32 (F32.of_Z q) = IZR q.
Proof.
  intros Hq. unfold F32.of_Z, of_Z.
  change (fprec F32.mw) with 24. change (femax F32.ew) with 128.
  rewrite (binary_normalize_equiv 24 128 P24 E128).
  pose proof (binary_normalize_correct 24 128 P24 E128 mode_NE q 0 false) as C. cbv zeta in C.
  assert (Ex : F2R (Float radix2 q 0) = IZR q) by (unfold F2R; cbn; lra).
  rewrite Ex in C. change (round_mode mode_NE) with ZnearestE in C.
  assert (G : RN (IZR q) = IZR q) by (apply round_generic; [apply valid_rnd_N|apply gf_Z; lia]).
  rewrite G in C.
  rewrite Rlt_bool_true in C.
  2:{ rewrite <- abs_IZR. change (bpow radix2 128) with (IZR (2 ^ 128)). apply IZR_lt.
      apply Z.le_lt_trans with 127; [lia|reflexivity]. }
  destruct C as (C1 & C2 & _).
  set (z := binary_normalize 24 128 P24 E128 mode_NE q 0 false) in *.
  destruct (fin32_to_bits (B2SF z) (valid_binary_B2SF _ _ z)) as (F' & E').
  { rewrite is_finite_SF_B2SF. exact C2. }
  split; [exact F'|]. rewrite <- C1, <- RV_B2SF. exact E'.
Qed.

Lemma c127_real : fin32 c127 /\ R32 c127 = 127%R.
Proof.
  unfold fin32, R32, RV, wfb, c127. split; [split; [vm_compute; split; congruence|reflexivity]|].
  vm_compute F32.of_bits. unfold SF2R, F2R. cbn. lra.
Qed.

(** --- math.Round: at most one half away --- *)
Lemma half_away_mag (m d : Z) : 0 < d -> 0 <= m ->
  let q := m / d in let r := m mod d in
  (Rabs (IZR (if d <=? 2 * r then q + 1 else q) - IZR m / IZR d) <= / 2)%R.
Proof.
  intros Hd Hm q r.
  pose proof (Z.div_mod m d ltac:(lia)) as E. fold q r in E.
  pose proof (Z.mod_pos_bound m d Hd) as Br. fold r in Br.
  assert (HD : (0 < IZR d)%R) by (apply IZR_lt; exact Hd).
  assert (ER : (IZR m / IZR d = IZR q + IZR r / IZR d)%R).
  { rewrite E at 1. rewrite plus_IZR, mult_IZR. field. lra. }
  rewrite ER.
  assert (Hr0 : (0 <= IZR r)%R) by (apply IZR_le; lia).
  assert (Hr1 : (IZR r < IZR d)%R) by (apply IZR_lt; lia).
  set (rho := (IZR r / IZR d)%R).
  assert (Erho : (rho * IZR d = IZR r)%R) by (unfold rho; field; lra).
  assert (Hrho0 : (0 <= rho)%R).
  { unfold rho. apply Rmult_le_pos; [exact Hr0|]. apply Rlt_le, Rinv_0_lt_compat, HD. }
  assert (Hrho1 : (rho < 1)%R).
  { apply (Rmult_lt_reg_r (IZR d)); [exact HD|]. rewrite Erho. lra. }
  destruct (Z.leb_spec d (2 * r)) as [Hle|Hgt].
  - assert (H2 : (IZR d <= 2 * IZR r)%R) by (rewrite <- mult_IZR; apply IZR_le; exact Hle).
    assert (Hh : (/ 2 <= rho)%R).
    { apply (Rmult_le_reg_r (IZR d)); [exact HD|]. rewrite Erho. lra. }
    rewrite plus_IZR. apply Rabs_le. lra.
  - assert (H2 : (2 * IZR r < IZR d)%R) by (rewrite <- mult_IZR; apply IZR_lt; exact Hgt).
    assert (Hh : (rho < / 2)%R).
    { apply (Rmult_lt_reg_r (IZR d)); [exact HD|]. rewrite Erho. lra. }
    apply Rabs_le. lra.
Qed.

Lemma rha_real b : fin32 b -> (Rabs (IZR (round_half_away b) - R32 b) <= / 2)%R.
Proof.
  intros [_ Hf]. unfold round_half_away, R32, RV.
  destruct (F32.of_bits b) as [sz|si| |s m e]; try discriminate Hf.
  - unfold SF2R. rewrite Rminus_0_r, Rabs_R0. lra.
  - unfold SF2R, F2R. cbn [Fnum Fexp cond_Zopp].
    assert (Hmag : forall mag, (Rabs (IZR mag - IZR (Z.pos m) * bpow radix2 e) <= / 2)%R ->
             (Rabs (IZR (if s then - mag else mag) - IZR (cond_Zopp s (Z.pos m)) * bpow radix2 e) <= / 2)%R).
    { intros mag H. destruct s; cbn [cond_Zopp]; [|exact H].
      rewrite !opp_IZR.
      replace (- IZR mag - - IZR (Z.pos m) * bpow radix2 e)%R with (- (IZR mag - IZR (Z.pos m) * bpow radix2 e))%R by ring.
      rewrite Rabs_Ropp. exact H. }
    apply Hmag.
    destruct (Z.leb_spec 0 e) as [He|He].
    + assert (EE : IZR (Z.pos m * 2 ^ e) = (IZR (Z.pos m) * bpow radix2 e)%R).
      { rewrite mult_IZR. f_equal. exact (IZR_Zpower radix2 e He). }
      rewrite EE, Rminus_diag_eq by reflexivity. rewrite Rabs_R0. lra.
    + set (d := 2 ^ (- e)).
      assert (Hd : 0 < d) by (apply Z.pow_pos_nonneg; lia).
      assert (Eb : bpow radix2 e = (/ IZR d)%R).
      { replace e with (- (- e)) at 1 by lia. rewrite bpow_opp. f_equal.
        symmetry. exact (IZR_Zpower radix2 (- e) ltac:(lia)). }
      rewrite Eb. exact (half_away_mag (Z.pos m) d Hd ltac:(lia)).
Qed.

(** --- rounding error of one float32 operation, absolute + relative --- *)
Definition u32 : R := bpow radix2 (-24).
Definition eta32 : R := bpow radix2 (-150).

Lemma rn_err z B : (Rabs z <= B)%R -> (Rabs (RN z - z) <= u32 * B + eta32)%R.
Proof.
  intros HB.
  destruct (error_N_FLT radix2 (-149) 24 ltac:(lia) (fun t => negb (Z.even t)) z) as (eps & eta & He & Ht & _ & E).
  change (FLT_exp (-149) 24) with fexp32 in E.
  change (Znearest (fun t => negb (Z.even t))) with ZnearestE in E.
  rewrite E.
  replace (z * (1 + eps) + eta - z)%R with (z * eps + eta)%R by ring.
  eapply Rle_trans; [apply Rabs_triang|].
  rewrite Rabs_mult.
  assert (Hu : (/ 2 * bpow radix2 (- (24) + 1) = u32)%R) by (unfold u32; cbn; lra).
  assert (Hn : (/ 2 * bpow radix2 (-149) = eta32)%R).
  { unfold eta32. replace (-149) with (-150 + 1) by lia. rewrite bpow_plus. cbn. lra. }
  rewrite Hu in He. rewrite Hn in Ht.
  apply Rplus_le_compat; [|exact Ht].
  rewrite Rmult_comm. apply Rmult_le_compat; [apply Rabs_pos|apply Rabs_pos|exact He|exact HB].
Qed.

Lemma rn_le z y : generic_format radix2 fexp32 y -> (Rabs z <= y)%R -> (Rabs (RN z) <= y)%R.
Proof. intros G H. apply abs_round_le_generic; [exact fexp32_valid|apply valid_rnd_N|exact G|exact H]. Qed.

Lemma fin32_gf b : fin32 b -> generic_format radix2 fexp32 (R32 b).
Proof. intros H. apply (RV_valid_generic 24 128 P24 E128). apply fin32_valid, H. Qed.

Lemma fin32_lt_max b : fin32 b -> (Rabs (R32 b) < bpow radix2 128)%R.
Proof.
  intros H. pose proof (fin32_valid b H) as Hv. unfold R32.
  rewrite <- (B2SF_SF2B 24 128 _ Hv), RV_B2SF. apply abs_B2R_lt_emax.
Qed.

Lemma bpow128_gt : (127 < bpow radix2 128)%R.
Proof. change (bpow radix2 128) with (IZR (2 ^ 128)). apply IZR_lt. reflexivity. Qed.

(** --- the error analysis, over the reals --- *)
Lemma int8_arith (X A R1 R2 Q D1 Y u n : R) :
  (0 < A)%R -> (0 < u)%R -> (0 < n)%R -> (n <= u)%R ->
  (Rabs (R1 - X / A) <= u * 1 + n)%R ->
  (Rabs (R2 - R1 * 127) <= u * 127 + n)%R ->
  (Rabs (Q - R2) <= / 2)%R ->
  (Rabs (D1 - Q / 127) <= u * 1 + n)%R ->
  (Rabs (Y - D1 * A) <= u * A + n)%R ->
  (Rabs (Y - X) <= A / 254 + A * (8 * u) + 2 * n)%R.
Proof.
  intros Apos Hu Hn Hnu Err1 Err2 Err3 Err4 Err5.
  apply Rabs_le_inv in Err1, Err2, Err3, Err4, Err5.
  set (t := (X / A)%R) in *.
  assert (EX : X = (t * A)%R) by (unfold t; field; lra).
  set (w := (D1 - t)%R).
  set (c := (/ 254 + 3 * u + 3 * n)%R).
  assert (Hwb : (- c <= w <= c)%R) by (unfold w, c; lra).
  assert (HAw : (A * - c <= A * w <= A * c)%R) by (split; apply Rmult_le_compat_l; lra).
  assert (HAn : (A * n <= A * u)%R) by (apply Rmult_le_compat_l; lra).
  apply Rabs_le.
  replace (Y - X)%R with ((Y - D1 * A) + A * w)%R by (rewrite EX; unfold w; ring).
  unfold c in HAw. lra.
Qed.

(** --- the theorem --- *)
Theorem int8_roundtrip_error (x a : Z) :
  fin32 x -> fin32 a -> (0 < R32 a)%R -> (Rabs (R32 x) <= R32 a)%R ->
  let q := wrap8 (round_half_away (F32.mul (F32.div x a) c127)) in
  let y := F32.mul (F32.div (F32.of_Z q) c127) a in
  -127 <= q <= 127 /\
  (Rabs (R32 y - R32 x) <= R32 a / 254 + R32 a * bpow radix2 (-21) + bpow radix2 (-149))%R.
Proof.
  intros Hx Ha Apos Hxa. cbv zeta.
  destruct c127_real as (Hc & Ec).
  set (X := R32 x) in *. set (A := R32 a) in *.
  assert (G1 : generic_format radix2 fexp32 1%R) by (apply (gf_Z 1); reflexivity).
  assert (G127 : generic_format radix2 fexp32 127%R) by (apply (gf_Z 127); reflexivity).
  set (t := (X / A)%R).
  assert (Ht : (Rabs t <= 1)%R).
  { unfold t, Rdiv. rewrite Rabs_mult, Rabs_inv, (Rabs_pos_eq A) by lra.
    apply (Rmult_le_reg_r A); [exact Apos|]. rewrite Rmult_assoc, Rinv_l by lra. lra. }
  (* r1 = x / a *)
  destruct (div32_real x a Hx Ha ltac:(fold A; lra)) as (F1 & E1).
  { fold X A t. eapply Rle_lt_trans; [apply (rn_le t 1 G1 Ht)|]. pose proof bpow128_gt. lra. }
  fold X A t in E1. set (r1 := F32.div x a) in *.
  assert (B1 : (Rabs (R32 r1) <= 1)%R) by (rewrite E1; apply (rn_le t 1 G1 Ht)).
  pose proof (rn_err t 1 Ht) as Err1. rewrite <- E1 in Err1.
  (* r2 = r1 * 127 *)
  assert (Hp2 : (Rabs (R32 r1 * R32 c127) <= 127)%R).
  { rewrite Ec, Rabs_mult, (Rabs_pos_eq 127) by lra. lra. }
  destruct (mul32_real r1 c127 F1 Hc) as (F2 & E2).
  { eapply Rle_lt_trans; [apply (rn_le _ 127 G127 Hp2)|]. exact bpow128_gt. }
  set (r2 := F32.mul r1 c127) in *.
  assert (B2 : (Rabs (R32 r2) <= 127)%R) by (rewrite E2; apply (rn_le _ 127 G127 Hp2)).
  pose proof (rn_err _ 127 Hp2) as Err2. rewrite <- E2, Ec in Err2.
  (* q = round r2 *)
  pose proof (rha_real r2 F2) as Err3.
  set (q0 := round_half_away r2) in *.
  assert (Hq0 : -127 <= q0 <= 127).
  { apply Rabs_le_inv in Err3. apply Rabs_le_inv in B2.
    split.
    - apply Z.lt_succ_r. change (Z.succ q0) with (q0 + 1). apply Z.lt_sub_lt_add_r.
      apply lt_IZR. rewrite minus_IZR. lra.
    - apply Z.lt_succ_r. apply lt_IZR. change (Z.succ 127) with 128. lra. }
  assert (Hw : wrap8 q0 = q0).
  { unfold wrap8. rewrite Z.mod_small by lia. lia. }
  rewrite Hw. split; [exact Hq0|].
  (* d1 = q / 127 *)
  destruct (ofZ_real q0 Hq0) as (Fq & Eq).
  assert (HQ : (Rabs (IZR q0) <= 127)%R).
  { rewrite <- abs_IZR. apply IZR_le. lia. }
  set (s := (IZR q0 / 127)%R).
  assert (Hs : (Rabs s <= 1)%R).
  { unfold s, Rdiv. rewrite Rabs_mult, (Rabs_pos_eq (/ 127)) by lra. lra. }
  destruct (div32_real (F32.of_Z q0) c127 Fq Hc ltac:(rewrite Ec; lra)) as (F4 & E4).
  { rewrite Eq, Ec. fold s. eapply Rle_lt_trans; [apply (rn_le s 1 G1 Hs)|]. pose proof bpow128_gt. lra. }
  rewrite Eq, Ec in E4. fold s in E4. set (d1 := F32.div (F32.of_Z q0) c127) in *.
  assert (B4 : (Rabs (R32 d1) <= 1)%R) by (rewrite E4; apply (rn_le s 1 G1 Hs)).
  pose proof (rn_err s 1 Hs) as Err4. rewrite <- E4 in Err4.
  (* y = d1 * a *)
  assert (Hp5 : (Rabs (R32 d1 * R32 a) <= A)%R).
  { fold A. rewrite Rabs_mult, (Rabs_pos_eq A) by lra.
    replace A with (1 * A)%R at 2 by ring. apply Rmult_le_compat_r; lra. }
  destruct (mul32_real d1 a F4 Ha) as (F5 & E5).
  { eapply Rle_lt_trans; [apply (rn_le _ A (fin32_gf a Ha) Hp5)|].
    pose proof (fin32_lt_max a Ha) as HM. fold A in HM. rewrite Rabs_pos_eq in HM by lra. exact HM. }
  pose proof (rn_err _ A Hp5) as Err5. rewrite <- E5 in Err5. fold A in Err5.
  set (Y := R32 (F32.mul d1 a)) in *.
  (* the arithmetic *)
  assert (Hu : (0 < u32)%R) by apply bpow_gt_0.
  assert (Hn : (0 < eta32)%R) by apply bpow_gt_0.
  assert (Hnu : (eta32 <= u32)%R) by (apply bpow_le; lia).
  assert (E21 : (bpow radix2 (-21) = 8 * u32)%R).
  { unfold u32. replace (-21) with (3 + -24) by lia. rewrite bpow_plus. cbn. lra. }
  assert (E149 : (bpow radix2 (-149) = 2 * eta32)%R).
  { unfold eta32. replace (-149) with (1 + -150) by lia. rewrite bpow_plus. cbn. lra. }
  rewrite E21, E149. fold X.
  exact (int8_arith X A (R32 r1) (R32 r2) (IZR q0) (R32 d1) Y u32 eta32 Apos Hu Hn Hnu Err1 Err2 Err3 Err4 Err5).
Qed.

(** the same for whole vectors, through q8 / dq8 *)
Definition in_trained_range (am x : Z) : Prop := fin32 x /\ (Rabs (R32 x) <= R32 am)%R.
Definition within_int8_step (am x y : Z) : Prop :=
  (Rabs (R32 y - R32 x) <= R32 am / 254 + R32 am * bpow radix2 (-21) + bpow radix2 (-149))%R.

Theorem int8_vector_error (am : Z) (v q d : list Z) :
  fin32 am -> (0 < R32 am)%R -> Forall (in_trained_range am) v ->
  q8 am v = Some q -> dq8 am q = Some d ->
  Forall (fun c => -127 <= c <= 127) q /\ Forall2 (within_int8_step am) v d.
Proof.
  intros Ha Apos Hv Hq Hd. unfold q8 in Hq. unfold dq8 in Hd.
  destruct (q8_trained am); [|discriminate Hq].
  injection Hq as Eq. injection Hd as Ed. subst q. subst d.
  induction v as [|x t IH]; cbn [map]; [split; constructor|].
  inversion Hv as [|? ? [Hx Hr] Ht]; subst.
  destruct (IH Ht) as (IH1 & IH2).
  destruct (int8_roundtrip_error x am Hx Ha Apos Hr) as (Hc & He).
  split; constructor; assumption.
Qed.

(** the hypotheses are satisfiable: x = 0.75, absMax = 1.0 quantises to 95 and back to 0.748... *)
Example int8_roundtrip_example :
  fin32 1061158912 /\ fin32 F32.one /\ (0 < R32 F32.one)%R /\ (Rabs (R32 1061158912) <= R32 F32.one)%R /\
  wrap8 (round_half_away (F32.mul (F32.div 1061158912 F32.one) c127)) = 95.
Proof.
  unfold fin32, wfb, R32, RV.
  split; [split; [vm_compute; split; congruence|reflexivity]|].
  split; [split; [vm_compute; split; congruence|reflexivity]|].
  split; [vm_compute F32.of_bits; unfold SF2R, F2R; cbn; lra|].
  split; [vm_compute F32.of_bits; unfold SF2R, F2R; cbn; rewrite Rabs_pos_eq; lra|].
  vm_compute. reflexivity.
Qed.
