(** Reciprocal-rank fusion law and "fused ids come from the two inputs" for every fusion kind. *)
From Coq Require Import ZArith List Bool Lia Permutation Sorted.
From Comet Require Import Base.FBits Base.Sorting Model.Fusion Proofs.SortingP Proofs.FusionP.
Import ListNotations.
Open Scope Z_scope.

Definition fuse_gen (f g : Z -> Z) (v t : smap) : smap :=
  let c := fold_left (fun c p => upsert (fst p) (f (snd p)) c) v [] in
  fold_left (fun c p =>
               match lookup (fst p) c with
               | Some e => upsert (fst p) (F64.add e (g (snd p))) c
               | None => upsert (fst p) (g (snd p)) c
               end) t c.

Theorem fuse_gen_spec f g v t j : NoDup (map fst v) -> NoDup (map fst t) ->
  lookup j (fuse_gen f g v t) =
  match lookup j v, lookup j t with
  | Some a, Some b => Some (F64.add (f a) (g b))
  | Some a, None => Some (f a)
  | None, Some b => Some (g b)
  | None, None => None
  end.
Proof.
  intros Hv Ht. unfold fuse_gen.
  set (c0 := fold_left (fun c p => upsert (fst p) (f (snd p)) c) v []).
  assert (Hc0 : forall i, lookup i c0 = match lookup i v with Some s => Some (f s) | None => None end).
  { intro i. unfold c0. rewrite (fold_upsert_lookup f) by exact Hv. destruct (lookup i v); reflexivity. }
  assert (G : forall t c, NoDup (map fst t) ->
    lookup j (fold_left (fun c p => match lookup (fst p) c with
                                    | Some e => upsert (fst p) (F64.add e (g (snd p))) c
                                    | None => upsert (fst p) (g (snd p)) c end) t c) =
    match lookup j t with
    | Some b => Some (match lookup j c with Some e => F64.add e (g b) | None => g b end)
    | None => lookup j c end).
  { clear. induction t as [|[i b] r IH]; intros c Hnd; cbn [fold_left lookup fst snd]; [reflexivity|].
    cbn [map fst] in Hnd. inversion Hnd as [|? ? Hni Hr]; subst. rewrite IH by exact Hr.
    destruct (Z.eqb_spec i j) as [->|Hn].
    - assert (lookup j r = None) as ->.
      { destruct (lookup j r) eqn:E; [|reflexivity]. exfalso. apply Hni. apply lookup_in. congruence. }
      destruct (lookup j c); rewrite lookup_upsert, Z.eqb_refl; reflexivity.
    - assert (Hl : forall x, lookup j (upsert i x c) = lookup j c)
        by (intro x; rewrite lookup_upsert; destruct (Z.eqb_spec j i); [congruence | reflexivity]).
      destruct (lookup i c); rewrite Hl; reflexivity. }
  rewrite G by exact Ht. rewrite Hc0. destruct (lookup j v); destruct (lookup j t); reflexivity.
Qed.

(** the rank table of a score map: same ids, each once *)
Lemma ranks_keys asc m : map fst (ranks asc m) = map fst (isort (fun p => if asc then F64.key (snd p) else - F64.key (snd p)) m).
Proof.
  unfold ranks. set (sorted := isort _ m).
  assert (G : forall (a : list Z) (b : list Z), length a = length b -> map fst (combine a b) = a).
  { induction a as [|x a IHa]; intros [|y b] Hab; cbn in *; try lia; [reflexivity | f_equal; apply IHa; lia]. }
  apply G. rewrite !map_length, seq_length. reflexivity.
Qed.

Lemma ranks_perm asc m : Permutation (map fst (ranks asc m)) (map fst m).
Proof. rewrite ranks_keys. apply Permutation_map. symmetry. apply isort_perm. Qed.

Lemma ranks_nodup asc m : NoDup (map fst m) -> NoDup (map fst (ranks asc m)).
Proof. intros H. eapply Permutation_NoDup; [symmetry; apply ranks_perm|exact H]. Qed.

(** reciprocal-rank fusion: over the UNION of ids, the sum of 1/(k + rank) over the lists holding the id *)
Theorem fuse_rrf_spec k v t j : NoDup (map fst v) -> NoDup (map fst t) ->
  lookup j (fuse_rrf k v t) =
  match lookup j (ranks true v), lookup j (ranks false t) with
  | Some a, Some b => Some (F64.add (rrf_term k a) (rrf_term k b))
  | Some a, None => Some (rrf_term k a)
  | None, Some b => Some (rrf_term k b)
  | None, None => None
  end.
Proof.
  intros Hv Ht. change (fuse_rrf k v t) with (fuse_gen (rrf_term k) (rrf_term k) (ranks true v) (ranks false t)).
  apply fuse_gen_spec; apply ranks_nodup; assumption.
Qed.

(** every fused id comes from one of the two inputs (min fusion: from both) *)
Theorem fuse_keys kind vw tw k v t j : NoDup (map fst v) -> NoDup (map fst t) ->
  In j (map fst (fuse kind vw tw k v t)) -> In j (map fst v) \/ In j (map fst t).
Proof.
  intros Hv Ht Hin. apply lookup_in in Hin. destruct kind; cbn [fuse] in Hin.
  - rewrite fuse_weighted_spec in Hin by assumption.
    destruct (lookup j v) eqn:Ev; [left; apply lookup_in; congruence|].
    destruct (lookup j t) eqn:Et; [right; apply lookup_in; congruence|congruence].
  - rewrite fuse_rrf_spec in Hin by assumption.
    destruct (lookup j (ranks true v)) eqn:Ev.
    + left. eapply Permutation_in; [apply ranks_perm|]. apply lookup_in. rewrite Ev. discriminate.
    + destruct (lookup j (ranks false t)) eqn:Et; [|congruence].
      right. eapply Permutation_in; [apply ranks_perm|]. apply lookup_in. rewrite Et. discriminate.
  - rewrite fuse_max_spec in Hin by assumption.
    destruct (lookup j v) eqn:Ev; [left; apply lookup_in; congruence|].
    destruct (lookup j t) eqn:Et; [right; apply lookup_in; congruence|congruence].
  - rewrite fuse_min_spec in Hin by assumption.
    destruct (lookup j v) eqn:Ev; [left; apply lookup_in; congruence|congruence].
Qed.

(** the ranking step of reciprocal-rank fusion (scoreMapToRanks): the ranks are the positions 0..n-1
    in a best-first arrangement of the map's entries -- each position once, a better score never behind
    a worse one (equal scores may stand in any order, but never share a position) *)
Theorem ranks_are_positions (asc : bool) (m : smap) :
  let skey := fun p : Z * Z => if asc then F64.key (snd p) else - F64.key (snd p) in
  let sorted := isort skey m in
  Permutation m sorted /\
  StronglySorted (fun a b => skey a <= skey b) sorted /\
  map fst (ranks asc m) = map fst sorted /\
  map snd (ranks asc m) = map Z.of_nat (seq 0 (length m)).
Proof.
  cbv zeta. split; [apply isort_perm|]. split; [apply isort_strongly_sorted|]. split; [apply ranks_keys|].
  unfold ranks.
  assert (G : forall (a b : list Z), length a = length b -> map snd (combine a b) = b).
  { induction a as [|x a IHa]; intros [|y b] Hab; cbn in *; try lia; [reflexivity | f_equal; apply IHa; lia]. }
  rewrite G by (rewrite !map_length, seq_length; reflexivity).
  rewrite (Permutation_length (isort_perm (fun p : Z * Z => if asc then F64.key (snd p) else - F64.key (snd p)) m)).
  reflexivity.
Qed.
