(** C04: set algebra of the metadata model, correctness of the numeric operators built from the
    BSI's GE / LE, and refutation of roaring's EQ / GT / LT / RANGE across signs. *)
From Coq Require Import ZArith List Bool Lia.
From Comet Require Import Base.FBits Base.Parse Base.Sorting Model.BSI Model.VecIndex Model.Metadata.
Import ListNotations.
Open Scope Z_scope.

Lemma memz_In x l : memz x l = true <-> In x l.
Proof.
  induction l as [|y t IH]; cbn [memz In]; [split; [discriminate|tauto]|].
  rewrite orb_true_iff, IH, Z.eqb_eq. split; intros [H|H]; auto.
Qed.

Lemma memz_set_add x y l : memz x (set_add y l) = (x =? y) || memz x l.
Proof.
  unfold set_add. destruct (memz y l) eqn:E.
  - destruct (Z.eqb_spec x y) as [->|Hn]; [now rewrite E | reflexivity].
  - induction l as [|z t IH]; cbn [app memz]; [now rewrite orb_false_r|].
    cbn [memz] in E. apply orb_false_iff in E. destruct E as [_ E]. rewrite IH by exact E.
    destruct (x =? z); destruct (x =? y); reflexivity.
Qed.

Lemma memz_set_remove x y l : memz x (set_remove y l) = negb (x =? y) && memz x l.
Proof.
  unfold set_remove. induction l as [|z t IH]; cbn [filter memz]; [now rewrite andb_false_r|].
  destruct (Z.eqb_spec z y) as [->|Hn]; cbn [negb].
  - rewrite IH. destruct (Z.eqb_spec x y); cbn [negb andb orb]; reflexivity.
  - cbn [memz]. rewrite IH. destruct (Z.eqb_spec x z) as [->|Hxz]; cbn [orb].
    + destruct (Z.eqb_spec z y); [contradiction | reflexivity].
    + reflexivity.
Qed.

Lemma memz_set_union x a b : memz x (set_union a b) = memz x a || memz x b.
Proof.
  unfold set_union. revert a. induction b as [|y t IH]; intro a; cbn [fold_left memz]; [now rewrite orb_false_r|].
  rewrite IH, memz_set_add. destruct (x =? y); destruct (memz x a); destruct (memz x t); reflexivity.
Qed.

Lemma memz_filter x f l : memz x (filter f l) = memz x l && f x.
Proof.
  induction l as [|y t IH]; cbn [filter memz]; [reflexivity|].
  destruct (f y) eqn:E; cbn [memz]; rewrite IH.
  - destruct (Z.eqb_spec x y) as [->|Hn]; cbn [orb]; [now rewrite E | reflexivity].
  - destruct (Z.eqb_spec x y) as [->|Hn]; cbn [orb]; [rewrite E; now rewrite andb_false_r | reflexivity].
Qed.

Lemma memz_set_inter x a b : memz x (set_inter a b) = memz x a && memz x b.
Proof. unfold set_inter. apply memz_filter. Qed.

Lemma memz_set_diff x a b : memz x (set_diff a b) = memz x a && negb (memz x b).
Proof. unfold set_diff. apply memz_filter. Qed.

(** roaring's BSI comparison is wrong across signs for EQ, GT, LT and RANGE … *)
Theorem bsi_eq_refuted : exists v a, bsi_cmp EQ v a 0 <> spec_cmp EQ v a 0.
Proof. exists 5, (-5). vm_compute. intro H; discriminate H. Qed.
Theorem bsi_gt_refuted : exists v a, bsi_cmp GT v a 0 <> spec_cmp GT v a 0.
Proof. exists 7, (-7). vm_compute. intro H; discriminate H. Qed.
Theorem bsi_lt_refuted : exists v a, bsi_cmp LT v a 0 <> spec_cmp LT v a 0.
Proof. exists (-7), 7. vm_compute. intro H; discriminate H. Qed.
Theorem bsi_range_refuted : exists v a b, bsi_cmp RANGE v a b <> spec_cmp RANGE v a b.
Proof. exists (-7), (-5), 0. vm_compute. intro H; discriminate H. Qed.

(** … so comet builds every numeric operator from GE and LE.  Given that those two are right,
    each operator selects exactly the ids whose stored value satisfies the ordinary comparison. *)
Section Numeric.
  Variable ok : Z -> Prop.     (* the values the comparison facts are known for (int64) *)
  Hypothesis ge_ok : forall v x, ok v -> ok x -> bsi_cmp GE v x 0 = (x <=? v).
  Hypothesis le_ok : forall v x, ok v -> ok x -> bsi_cmp LE v x 0 = (v <=? x).

  Definition holds (vs : list (Z * Z)) (id : Z) (p : Z -> bool) : bool :=
    existsb (fun q => (fst q =? id) && p (snd q)) vs.

  Lemma memz_map_filter vs id p :
    memz id (map fst (filter (fun q => p (snd q)) vs)) = holds vs id p.
  Proof.
    unfold holds. induction vs as [|q t IH]; cbn [filter map memz existsb]; [reflexivity|].
    destruct (p (snd q)) eqn:E; cbn [map memz]; rewrite IH.
    - rewrite (Z.eqb_sym id). now rewrite andb_true_r.
    - now rewrite andb_false_r.
  Qed.

  Lemma memz_ge vs id x : Forall ok (map snd vs) -> ok x ->
    memz id (bsi_ge vs x) = holds vs id (fun v => x <=? v).
  Proof.
    intros Hv Hx. unfold bsi_ge. rewrite <- memz_map_filter. f_equal. f_equal. apply filter_ext_in.
    intros q Hq. apply ge_ok; [|exact Hx]. rewrite Forall_forall in Hv. apply Hv. apply in_map. exact Hq.
  Qed.
  Lemma memz_le vs id x : Forall ok (map snd vs) -> ok x ->
    memz id (bsi_le vs x) = holds vs id (fun v => v <=? x).
  Proof.
    intros Hv Hx. unfold bsi_le. rewrite <- memz_map_filter. f_equal. f_equal. apply filter_ext_in.
    intros q Hq. apply le_ok; [|exact Hx]. rewrite Forall_forall in Hv. apply Hv. apply in_map. exact Hq.
  Qed.

  (** with one value per id, [holds] distributes over conjunction and negation *)
  Lemma holds_unique vs id p : NoDup (map fst vs) ->
    holds vs id p = match find (fun q => fst q =? id) vs with Some q => p (snd q) | None => false end.
  Proof.
    unfold holds. induction vs as [|q t IH]; intro Hnd; cbn [existsb find map]; [reflexivity|].
    cbn [map] in Hnd. inversion Hnd as [|? ? Hni Hnd']; subst.
    destruct (Z.eqb_spec (fst q) id) as [He|Hn]; cbn [andb orb].
    - destruct (p (snd q)); [reflexivity|]. cbn [orb].
      assert (existsb (fun q0 => (fst q0 =? id) && p (snd q0)) t = false) as ->; [|reflexivity].
      apply not_true_is_false. intro Hc. apply existsb_exists in Hc. destruct Hc as [r [Hr Hc]].
      apply andb_true_iff in Hc. destruct Hc as [Hc _]. apply Z.eqb_eq in Hc. apply Hni.
      rewrite He, <- Hc. apply in_map. exact Hr.
    - apply IH. exact Hnd'.
  Qed.

  Definition stored (vs : list (Z * Z)) (id : Z) : option Z :=
    match find (fun q => fst q =? id) vs with Some q => Some (snd q) | None => None end.

  (** every numeric operator = ordinary integer comparison on the stored value *)
  Theorem query_numeric_correct vs f r id : NoDup (map fst vs) -> Forall ok (map snd vs) ->
    (forall x, f_num f = Some x -> ok x) -> (forall x, f_num2 f = Some x -> ok x) ->
    query_numeric vs f = Some r ->
    memz id r = match stored vs id with
                | None => false
                | Some v =>
                    match f_op f, f_num f, f_num2 f with
                    | OEq, Some x, _ => v =? x
                    | ONe, Some x, _ => negb (v =? x)
                    | OGt, Some x, _ => x <? v
                    | OGte, Some x, _ => x <=? v
                    | OLt, Some x, _ => v <? x
                    | OLte, Some x, _ => v <=? x
                    | ORange, Some a, Some b => (a <=? v) && (v <=? b)
                    | _, _, _ => false
                    end
                end.
  Proof.
    intros Hnd Hvs Ho1 Ho2 H. unfold query_numeric in H. unfold stored.
    assert (Hall : memz id (map fst vs) = match find (fun q => fst q =? id) vs with Some _ => true | None => false end).
    { clear. induction vs as [|q t IH]; cbn [map memz find]; [reflexivity|].
      rewrite (Z.eqb_sym id). destruct (fst q =? id); cbn [orb]; [reflexivity | exact IH]. }
    destruct (f_op f); destruct (f_num f) as [x|]; try discriminate;
      try (destruct (f_num2 f) as [y|]; try discriminate);
      inversion H; subst r; clear H;
      try (pose proof (Ho1 _ eq_refl) as Hx1); try (pose proof (Ho2 _ eq_refl) as Hx2);
      repeat (rewrite memz_set_inter || rewrite memz_set_diff || (rewrite memz_ge by auto) || (rewrite memz_le by auto) || rewrite Hall);
      rewrite ?holds_unique by exact Hnd;
      destruct (find (fun q => fst q =? id) vs) as [q|]; cbn [andb negb]; try reflexivity;
      try (destruct (Z.leb_spec x (snd q)); destruct (Z.leb_spec (snd q) x);
           destruct (Z.eqb_spec (snd q) x); destruct (Z.ltb_spec x (snd q)); destruct (Z.ltb_spec (snd q) x);
           cbn [andb negb]; try reflexivity; lia).
  Qed.
End Numeric.
