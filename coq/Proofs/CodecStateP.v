(** C07, state level: the value written for a flushed flat / IVF state reads back as the SAME model
    state (so every later answer is identical); for PQ / IVFPQ it reads back as the state without raw
    vectors, which by design are not persisted and which no search of those kinds looks at. *)
From Coq Require Import ZArith List Bool Lia.
From Comet Require Import Base.FBits Base.Parse Model.Format Model.Distance Model.Limiter Model.Aggregation Model.KMeans Model.VecIndex Model.Codecs.
Import ListNotations.
Open Scope Z_scope.

Lemma mapM_opt_map {A B} (f : A -> option B) (g : B -> A) (l : list B) :
  (forall x, In x l -> f (g x) = Some x) -> mapM_opt f (map g l) = Some l.
Proof.
  induction l as [|x t IH]; intros H; [reflexivity|].
  cbn [map mapM_opt]. rewrite (H x (or_introl eq_refl)), IH; [reflexivity|].
  intros y Hy. apply H. now right.
Qed.

Lemma zs_of_vfloats v : zs_of (vfloats v) = Some v.
Proof. unfold zs_of, vfloats. rewrite map_map. cbn [zval]. rewrite map_id. reflexivity. Qed.

Lemma lp_items_vlp l : lp_items (vlp l) = Some l.
Proof. reflexivity. Qed.

Lemma lp_floats_vfloats_lp v : lp_floats (vfloats_lp v) = Some v.
Proof. unfold lp_floats, vfloats_lp. rewrite lp_items_vlp, map_map. cbn [zval]. rewrite map_id. reflexivity. Qed.

(** entries of the kinds that persist raw vectors carry no code *)
Definition raw_entry (e : entry) : Prop := e_code e = [].

Lemma entry_flat_inv e : raw_entry e -> entry_flat (vseq [VZ (e_id e); VUnit; vfloats (e_vec e)]) = Some e.
Proof.
  intros H. unfold raw_entry in H. cbn [vseq entry_flat]. rewrite zs_of_vfloats. destruct e as [i v c]. cbn in *. rewrite H. reflexivity.
Qed.
Lemma entry_ivf_inv e : raw_entry e -> entry_ivf (vseq [VZ (e_id e); vfloats (e_vec e)]) = Some e.
Proof.
  intros H. unfold raw_entry in H. cbn [vseq entry_ivf]. rewrite zs_of_vfloats. destruct e as [i v c]. cbn in *. rewrite H. reflexivity.
Qed.

(** flushed flat state: one list, nothing deleted *)
Theorem of_to_val_flat p bm l :
  p_kind p = KFlat -> Forall raw_entry l ->
  of_val p (to_val p bm (mk_state true [] [] [l])) = Some (mk_state true [] [] [l]).
Proof.
  intros Hk Hl. unfold of_val, to_val. rewrite Hk. cbn [vseq]. rewrite lp_items_vlp.
  unfold all_entries, mk_state. cbn [st_lists concat]. rewrite app_nil_r.
  rewrite mapM_opt_map; [reflexivity|].
  intros e He. apply entry_flat_inv. rewrite Forall_forall in Hl. apply Hl, He.
Qed.

(** flushed IVF state (trained or not; an untrained index has no centroids) *)
Theorem of_to_val_ivf p bm tr cents lists :
  p_kind p = KIVF -> (tr = false -> cents = []) -> Forall (Forall raw_entry) lists ->
  of_val p (to_val p bm (mk_state tr cents [] lists)) = Some (mk_state tr cents [] lists).
Proof.
  intros Hk Hc Hl. unfold of_val, to_val. rewrite Hk. cbn [vseq]. unfold trained_val, mk_state. cbn [st_trained st_centroids st_lists].
  rewrite lp_items_vlp.
  assert (Hlists : mapM_opt (fun l => match lp_items l with Some it => mapM_opt entry_ivf it | None => None end)
                     (map (fun l => vlp (map (fun e => vseq [VZ (e_id e); vfloats (e_vec e)]) l)) lists) = Some lists).
  { apply mapM_opt_map. intros l Hin. rewrite lp_items_vlp. apply mapM_opt_map.
    intros e He. apply entry_ivf_inv. rewrite Forall_forall in Hl. specialize (Hl l Hin). rewrite Forall_forall in Hl. apply Hl, He. }
  destruct tr.
  - cbn [Z.eqb]. rewrite mapM_opt_map by (intros; apply lp_floats_vfloats_lp). cbn [vseq] in Hlists. rewrite Hlists. reflexivity.
  - rewrite (Hc eq_refl). cbn [Z.eqb]. cbn [vseq] in Hlists. rewrite Hlists. reflexivity.
Qed.
