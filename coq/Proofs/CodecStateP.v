(** C07, state level: the value written for a flushed flat / IVF state reads back as the SAME model
    state (so every later answer is identical); for PQ / IVFPQ it reads back as the state without raw
    vectors, which by design are not persisted and which no search of those kinds looks at. *)
From Coq Require Import ZArith List Bool Lia.
From Comet Require Import Base.FBits Base.Parse Base.Sorting Model.Format Model.Distance Model.Limiter Model.Aggregation Model.KMeans Model.VecIndex Model.Codecs.
Import ListNotations.
Open Scope Z_scope.

Lemma mapM_opt_map {A B} (f : A -> option B) (g : B -> A) (l : list B) :
  (forall x, In x l -> f (g x) = Some x) -> mapM_opt f (map g l) = Some l.
Proof.
  induction l as [|x t IH]; intros H; [reflexivity|].
  cbn [map mapM_opt]. rewrite (H x (or_introl eq_refl)), IH; [reflexivity|].
  intros y Hy. apply H. now right.
Qed.

Lemma zs_of_vfloats v : zs_of (vfloats v) = Some v.
Proof. unfold zs_of, vfloats. rewrite map_map. cbn [zval]. rewrite map_id. reflexivity. Qed.

Lemma lp_items_vlp l : lp_items (vlp l) = Some l.
Proof. reflexivity. Qed.

Lemma lp_floats_vfloats_lp v : lp_floats (vfloats_lp v) = Some v.
Proof. unfold lp_floats, vfloats_lp. rewrite lp_items_vlp, map_map. cbn [zval]. rewrite map_id. reflexivity. Qed.

(** entries of the kinds that persist raw vectors carry no code *)
Definition raw_entry (e : entry) : Prop := e_code e = [].

Lemma entry_flat_inv e : raw_entry e -> entry_flat (vseq [VZ (e_id e); VUnit; vfloats (e_vec e)]) = Some e.
Proof.
  intros H. unfold raw_entry in H. cbn [vseq entry_flat]. rewrite zs_of_vfloats. destruct e as [i v c]. cbn in *. rewrite H. reflexivity.
Qed.
Lemma entry_ivf_inv e : raw_entry e -> entry_ivf (vseq [VZ (e_id e); vfloats (e_vec e)]) = Some e.
Proof.
  intros H. unfold raw_entry in H. cbn [vseq entry_ivf]. rewrite zs_of_vfloats. destruct e as [i v c]. cbn in *. rewrite H. reflexivity.
Qed.

(** flushed flat state: one list, nothing deleted *)
Theorem of_to_val_flat p bm l :
  p_kind p = KFlat -> Forall raw_entry l ->
  of_val p (to_val p bm (mk_state true [] [] [l])) = Some (mk_state true [] [] [l]).
Proof.
  intros Hk Hl. unfold of_val, to_val. rewrite Hk. cbn [vseq]. rewrite lp_items_vlp.
  unfold all_entries, mk_state. cbn [st_lists concat]. rewrite app_nil_r.
  rewrite mapM_opt_map; [reflexivity|].
  intros e He. apply entry_flat_inv. rewrite Forall_forall in Hl. apply Hl, He.
Qed.

(** flushed IVF state (trained or not; an untrained index has no centroids) *)
Theorem of_to_val_ivf p bm tr cents lists :
  p_kind p = KIVF -> (tr = false -> cents = []) -> Forall (Forall raw_entry) lists ->
  of_val p (to_val p bm (mk_state tr cents [] lists)) = Some (mk_state tr cents [] lists).
Proof.
  intros Hk Hc Hl. unfold of_val, to_val. rewrite Hk. cbn [vseq]. unfold trained_val, mk_state. cbn [st_trained st_centroids st_lists].
  rewrite lp_items_vlp.
  assert (Hlists : mapM_opt (fun l => match lp_items l with Some it => mapM_opt entry_ivf it | None => None end)
                     (map (fun l => vlp (map (fun e => vseq [VZ (e_id e); vfloats (e_vec e)]) l)) lists) = Some lists).
  { apply mapM_opt_map. intros l Hin. rewrite lp_items_vlp. apply mapM_opt_map.
    intros e He. apply entry_ivf_inv. rewrite Forall_forall in Hl. specialize (Hl l Hin). rewrite Forall_forall in Hl. apply Hl, He. }
  destruct tr.
  - cbn [Z.eqb]. rewrite mapM_opt_map by (intros; apply lp_floats_vfloats_lp). cbn [vseq] in Hlists. rewrite Hlists. reflexivity.
  - rewrite (Hc eq_refl). cbn [Z.eqb]. cbn [vseq] in Hlists. rewrite Hlists. reflexivity.
Qed.

(** ---- PQ / IVFPQ: raw vectors are not persisted, and no search of these kinds reads them ---- *)
Definition strip_e (e : entry) : entry := {| e_id := e_id e; e_vec := []; e_code := e_code e |}.
Definition strip (s : vstate) : vstate :=
  {| st_trained := st_trained s; st_centroids := st_centroids s; st_codebooks := st_codebooks s;
     st_lists := map (map strip_e) (st_lists s); st_deleted := st_deleted s |}.

Lemma scan_list_strip s rq (score : entry -> Z) l :
  (forall e, score (strip_e e) = score e) ->
  scan_list (strip s) rq score (map strip_e l) = scan_list s rq score l.
Proof.
  intros Hs. unfold scan_list. induction l as [|e t IH]; [reflexivity|].
  cbn [map flat_map]. rewrite IH, Hs. reflexivity.
Qed.

Lemma all_entries_strip s : all_entries (strip s) = map strip_e (all_entries s).
Proof. unfold all_entries, strip. cbn [st_lists]. rewrite concat_map. reflexivity. Qed.

Theorem search_ignores_raw_vectors p s rq q :
  p_kind p = KPQ \/ p_kind p = KIVFPQ ->
  search_single p (strip s) rq q = search_single p s rq q.
Proof.
  intros Hk. unfold search_single. cbn [strip st_trained].
  destruct (negb (st_trained s)); [reflexivity|].
  destruct (negb (Z.of_nat (length q) =? p_dim p)); [reflexivity|].
  destruct Hk as [Hk|Hk]; rewrite Hk.
  - rewrite all_entries_strip.
    destruct (all_entries s) as [|e0 es] eqn:Ea; [reflexivity|]. cbn [map].
    destruct (preprocess (p_metric p) q) as [pq|]; [|reflexivity].
    change (strip_e e0 :: map strip_e es) with (map strip_e (e0 :: es)).
    cbn [strip st_codebooks]. rewrite scan_list_strip by reflexivity. reflexivity.
  - destruct (preprocess (p_metric p) q) as [pq|]; [|reflexivity].
    cbn [strip st_centroids st_codebooks st_lists].
    set (cds := isort _ _).
    assert (E : forall l : list (Z * Z),
       flat_map (fun cd : Z * Z =>
                   scan_list (strip s) rq
                     (fun e => adist (dist_tables p (st_codebooks s) (vsub pq (nthv (st_centroids s) (fst cd)))) (e_code e))
                     (nth (Z.to_nat (fst cd)) (map (map strip_e) (st_lists s)) [])) l =
       flat_map (fun cd : Z * Z =>
                   scan_list s rq
                     (fun e => adist (dist_tables p (st_codebooks s) (vsub pq (nthv (st_centroids s) (fst cd)))) (e_code e))
                     (nth (Z.to_nat (fst cd)) (st_lists s) [])) l).
    { induction l as [|cd t IH]; [reflexivity|]. cbn [flat_map]. rewrite IH. f_equal.
      change (@nil entry) with (map strip_e []). rewrite map_nth. apply scan_list_strip. reflexivity. }
    rewrite E. reflexivity.
Qed.

(** codebooks are written flattened and re-chunked on read *)
Lemma chunks_concat n : (0 < n)%nat -> forall (b : list (list Z)) fuel,
  Forall (fun cw => length cw = n) b -> (length b <= fuel)%nat -> chunks n fuel (concat b) = b.
Proof.
  intros Hn. induction b as [|cw t IH]; intros fuel Hb Hf.
  - destruct fuel; reflexivity.
  - inversion Hb as [|? ? Hc Ht]; subst. destruct fuel as [|f]; [cbn in Hf; lia|].
    cbn [concat chunks].
    destruct (cw ++ concat t) as [|z zs] eqn:E.
    { destruct cw; [cbn in Hn; cbn in *; lia|discriminate]. }
    rewrite <- E. rewrite firstn_app, Nat.sub_diag, firstn_all, firstn_O, app_nil_r.
    rewrite skipn_app, Nat.sub_diag, skipn_all, skipn_O. cbn [app].
    rewrite IH; [reflexivity|exact Ht|cbn in Hf; lia].
Qed.

Lemma book_of_concat dsub (b : list vec) :
  0 < dsub -> Forall (fun cw => length cw = Z.to_nat dsub) b -> book_of dsub (concat b) = b.
Proof.
  intros Hd Hb. unfold book_of. destruct (Z.leb_spec dsub 0); [lia|].
  apply chunks_concat; [unfold natZ; lia|exact Hb|].
  clear -Hb Hd. induction Hb as [|cw t Hc Ht IH]; [cbn; lia|].
  cbn [concat length]. rewrite app_length. unfold natZ in *. lia.
Qed.

Lemma entry_code_inv e : entry_code (vseq [VZ (e_id e); VB (e_code e)]) = Some (strip_e e).
Proof. reflexivity. Qed.

Definition books_wf (dsub : Z) (books : list (list vec)) : Prop :=
  Forall (Forall (fun cw => length cw = Z.to_nat dsub)) books.

Lemma books_roundtrip dsub books : 0 < dsub -> books_wf dsub books ->
  mapM_opt lp_floats (map (fun b => vfloats_lp (concat b)) books) = Some (map (@concat Z) books) /\
  map (book_of dsub) (map (@concat Z) books) = books.
Proof.
  intros Hd Hw. split.
  - rewrite <- (map_map (@concat Z) vfloats_lp). apply mapM_opt_map. intros; apply lp_floats_vfloats_lp.
  - rewrite map_map. rewrite <- (map_id books) at 2. apply map_ext_in. intros b Hb.
    apply book_of_concat; [exact Hd|]. unfold books_wf in Hw. rewrite Forall_forall in Hw. apply Hw, Hb.
Qed.

Lemma mapM_entry_code l : mapM_opt entry_code (map (fun e => vseq [VZ (e_id e); VB (e_code e)]) l) = Some (map strip_e l).
Proof.
  induction l as [|e t IH]; [reflexivity|]. cbn [map mapM_opt]. rewrite entry_code_inv, IH. reflexivity.
Qed.

(** flushed PQ state reads back as the same state without raw vectors *)
Theorem of_to_val_pq p bm tr books l :
  p_kind p = KPQ -> 0 < p_dsub p -> books_wf (p_dsub p) books -> (tr = false -> books = []) ->
  of_val p (to_val p bm (mk_state tr [] books [l])) = Some (strip (mk_state tr [] books [l])).
Proof.
  intros Hk Hd Hw Hb. unfold of_val, to_val. rewrite Hk. cbn [vseq]. unfold trained_val, mk_state.
  cbn [st_trained st_codebooks]. rewrite lp_items_vlp.
  unfold all_entries. cbn [st_lists concat]. rewrite app_nil_r. rewrite mapM_entry_code.
  destruct (books_roundtrip (p_dsub p) books Hd Hw) as [E1 E2].
  unfold strip. cbn [st_trained st_centroids st_codebooks st_lists st_deleted map].
  destruct tr.
  - cbn [Z.eqb]. rewrite E1. change ((1 =? 1)%positive) with true. cbv iota. rewrite E2. reflexivity.
  - rewrite (Hb eq_refl). reflexivity.
Qed.

Theorem of_to_val_ivfpq p bm tr cents books lists :
  p_kind p = KIVFPQ -> 0 < p_dsub p -> books_wf (p_dsub p) books -> (tr = false -> cents = [] /\ books = []) ->
  of_val p (to_val p bm (mk_state tr cents books lists)) = Some (strip (mk_state tr cents books lists)).
Proof.
  intros Hk Hd Hw Hb. unfold of_val, to_val. rewrite Hk. cbn [vseq]. unfold trained_val, mk_state.
  cbn [st_trained st_centroids st_codebooks st_lists]. rewrite lp_items_vlp.
  assert (Hlists : mapM_opt (fun l => match lp_items l with Some it => mapM_opt entry_code it | None => None end)
                     (map (fun l => vlp (map (fun e => VP (VZ (e_id e)) (VB (e_code e))) l)) lists)
                   = Some (map (map strip_e) lists)).
  { induction lists as [|l t IH]; [reflexivity|]. cbn [map mapM_opt]. rewrite lp_items_vlp.
    pose proof (mapM_entry_code l) as E. cbn [vseq] in E. rewrite E, IH. reflexivity. }
  destruct (books_roundtrip (p_dsub p) books Hd Hw) as [E1 E2].
  unfold strip. cbn [st_trained st_centroids st_codebooks st_lists st_deleted].
  destruct tr.
  - cbn [Z.eqb]. rewrite mapM_opt_map by (intros; apply lp_floats_vfloats_lp). rewrite E1, Hlists. change ((1 =? 1)%positive) with true. cbv iota. rewrite E2. reflexivity.
  - destruct (Hb eq_refl) as [-> ->]. cbn [Z.eqb map]. rewrite Hlists. reflexivity.
Qed.
