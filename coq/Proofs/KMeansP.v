(** C20: k-means returns min(k, n) centroids, assigns every vector to a valid cluster, is a function
    of its input. *)
From Coq Require Import ZArith List Bool Lia.
From Comet Require Import Base.FBits Base.Parse Model.Distance Model.KMeans.
Import ListNotations.
Open Scope Z_scope.

Lemma nearest_range m v cs : 0 <= nearest m v cs < Z.max 1 (Z.of_nat (length cs)).
Proof.
  unfold nearest.
  assert (G : forall cs i bi bd, 0 <= bi < Z.max 1 i -> 0 <= i ->
    let '(i', b', _) := fold_left (fun (st : Z * Z * Z) c =>
                 let '(i, bi, bd) := st in
                 let d := dist m v c in
                 if F32.ltb d bd then (i + 1, i, d) else (i + 1, bi, bd)) cs (i, bi, bd) in
    0 <= b' < Z.max 1 i' /\ i' = i + Z.of_nat (length cs)).
  { clear. induction cs as [|c t IH]; intros i bi bd Hb Hi; cbn [fold_left length].
    - split; [exact Hb | lia].
    - destruct (F32.ltb (dist m v c) bd).
      + specialize (IH (i + 1) i (dist m v c) ltac:(lia) ltac:(lia)).
        destruct (fold_left _ t (i + 1, i, dist m v c)) as [[i' b'] d']. destruct IH as [H1 H2]. split; [exact H1 | lia].
      + specialize (IH (i + 1) bi bd ltac:(lia) ltac:(lia)).
        destruct (fold_left _ t (i + 1, bi, bd)) as [[i' b'] d']. destruct IH as [H1 H2]. split; [exact H1 | lia]. }
  specialize (G cs 0 0 F32.pinf ltac:(lia) ltac:(lia)).
  destruct (fold_left _ cs (0, 0, F32.pinf)) as [[i' b'] d']. destruct G as [H1 H2]. subst i'. lia.
Qed.

Lemma update_length dimn vs mapping cents : length (update dimn vs mapping cents) = length cents.
Proof. unfold update. rewrite map_length, combine_length, map_length, seq_length. lia. Qed.

Lemma km_loop_spec : forall fuel m dimn vs cents mapping cents' mapping' conv,
  km_loop fuel m dimn vs cents mapping = (cents', mapping', conv) ->
  length cents' = length cents /\
  (mapping' = mapping \/ (length mapping' = length vs /\
                          Forall (fun a => 0 <= a < Z.max 1 (Z.of_nat (length cents))) mapping')).
Proof.
  induction fuel as [|f IH]; intros m dimn vs cents mapping cents' mapping' conv H; cbn [km_loop] in H.
  - inversion H; subst. split; [reflexivity | left; reflexivity].
  - destruct (list_eqb mapping (map (fun v => nearest m v cents) vs)) eqn:E.
    + inversion H; subst. split; [reflexivity | left; reflexivity].
    + apply IH in H. destruct H as [Hl Hm]. rewrite update_length in Hl. split; [exact Hl|]. right.
      destruct Hm as [->|[Hlen Hf]].
      * split; [apply map_length|]. apply Forall_forall. intros a Ha. apply in_map_iff in Ha.
        destruct Ha as [v [<- _]]. apply nearest_range.
      * rewrite update_length in Hf. split; assumption.
Qed.

(** exactly min(k, n) centroids; one assignment per training vector, each naming a valid centroid *)
Theorem kmeans_count_and_range vs k m it cents mapping conv :
  kmeans vs k m it = Some (cents, mapping, conv) ->
  Z.of_nat (length cents) = Z.min k (Z.of_nat (length vs)) /\
  length mapping = length vs /\
  Forall (fun a => 0 <= a < Z.of_nat (length cents)) mapping.
Proof.
  unfold kmeans. intro H.
  destruct ((Z.of_nat (length vs) =? 0) || (k <=? 0)) eqn:E; [discriminate|].
  apply orb_false_iff in E. destruct E as [En Ek]. apply Z.eqb_neq in En. apply Z.leb_gt in Ek.
  inversion H as [H']; clear H.
  set (k' := if Z.of_nat (length vs) <? k then Z.of_nat (length vs) else k) in *.
  assert (Hk' : k' = Z.min k (Z.of_nat (length vs)) /\ 0 < k').
  { unfold k'. destruct (Z.ltb_spec (Z.of_nat (length vs)) k); lia. }
  destruct Hk' as [Hk' Hpos].
  set (maxIter := if it <=? 0 then 20 else it) in *.
  assert (Hfuel : Z.to_nat maxIter <> O).
  { unfold maxIter. destruct (Z.leb_spec it 0); lia. }
  match type of H' with km_loop ?f _ ?d _ ?c0 ?m0 = _ => set (c0' := c0) in *; set (m0' := m0) in * end.
  assert (Hc0 : Z.of_nat (length c0') = k').
  { unfold c0'. rewrite map_length, seq_length. lia. }
  destruct (Z.to_nat maxIter) as [|f] eqn:Ef; [contradiction|].
  cbn [km_loop] in H'.
  destruct (list_eqb m0' (map (fun v => nearest m v c0') vs)) eqn:Eq.
  - (* the initial all -1 mapping equals the first assignment: impossible, assignments are >= 0 *)
    exfalso. unfold m0' in Eq.
    destruct vs as [|v0 vt]; [cbn in En; lia|]. cbn [repeat length map list_eqb] in Eq.
    pose proof (nearest_range m v0 c0') as Hr.
    destruct (Z.eqb_spec (-1) (nearest m v0 c0')) as [Hneg|]; [lia | discriminate].
  - apply km_loop_spec in H'. destruct H' as [Hl Hm]. rewrite update_length in Hl.
    split; [rewrite Hl; lia|].
    destruct Hm as [->|[Hlen Hf]].
    + split; [apply map_length|]. apply Forall_forall. intros a Ha. apply in_map_iff in Ha.
      destruct Ha as [v [<- _]]. pose proof (nearest_range m v c0'). rewrite Hl. lia.
    + rewrite update_length in Hf. split; [exact Hlen|]. rewrite Hl.
      eapply Forall_impl; [|exact Hf]. intros a Ha. cbn beta in Ha. lia.
Qed.

(** nil result exactly when there is nothing to cluster or k <= 0 *)
Theorem kmeans_none_iff vs k m it : kmeans vs k m it = None <-> (vs = [] \/ k <= 0).
Proof.
  unfold kmeans. destruct (Z.eqb_spec (Z.of_nat (length vs)) 0) as [E|E]; cbn [orb].
  - split; [intros _; left; destruct vs; [reflexivity | cbn in E; lia] | reflexivity].
  - destruct (Z.leb_spec k 0).
    + split; [intros _; right; assumption | reflexivity].
    + split; [discriminate | intros [->|Hk]; [cbn in E; lia | lia]].
Qed.

(** "assigns every training vector to its nearest centroid whenever the run converged": a converged run
    returns exactly the first-arg-min assignment with respect to the centroids it returns; a run that
    did not converge still returns an assignment computed against the centroids of its last iteration
    (not necessarily the returned ones) *)
Lemma list_eqb_true_eq : forall a b, list_eqb a b = true -> a = b.
Proof.
  induction a as [|x a IH]; destruct b as [|y b]; cbn [list_eqb]; intros H; try reflexivity; try discriminate.
  apply andb_true_iff in H. destruct H as [H1 H2]. apply Z.eqb_eq in H1. subst y. f_equal. apply IH, H2.
Qed.

Lemma km_loop_converged : forall fuel m dimn vs cents mapping cents' mapping',
  km_loop fuel m dimn vs cents mapping = (cents', mapping', true) ->
  mapping' = map (fun v => nearest m v cents') vs.
Proof.
  induction fuel as [|f IH]; intros m dimn vs cents mapping cents' mapping' H; cbn [km_loop] in H; [inversion H|].
  destruct (list_eqb mapping (map (fun v => nearest m v cents) vs)) eqn:E.
  - inversion H; subst. apply list_eqb_true_eq, E.
  - eapply IH, H.
Qed.

Theorem kmeans_converged_is_nearest vs k m it cents mapping :
  kmeans vs k m it = Some (cents, mapping, true) -> mapping = map (fun v => nearest m v cents) vs.
Proof.
  unfold kmeans. destruct ((Z.of_nat (length vs) =? 0) || (k <=? 0)); [discriminate|].
  intros H. inversion H as [H1]. eapply km_loop_converged, H1.
Qed.
