(** C04, closing the refinement: after ANY history the WHOLE metadata search (conjunction of filters
    with early exit, filter groups with AND / OR semantics, Exists / NotExists on numeric and
    categorical fields, the final ordering) returns exactly the live documents that the plain
    document store selects.  The single-filter theorems (MetaRefineP, MetaExistsP) are composed here
    with the set algebra of the evaluation loops. *)
From Coq Require Import ZArith List Bool Lia.
From Comet Require Import Base.FBits Base.Parse Base.Sorting Model.BSI Model.VecIndex Model.Metadata.
From Comet Require Import Proofs.SortingP Proofs.MetaP Proofs.BSIP Proofs.MetaRefineP Proofs.MetaExistsP.
Import ListNotations.
Open Scope Z_scope.

Lemma memz_isort_id x l : memz x (isort (fun y => y) l) = memz x l.
Proof.
  apply eq_true_iff_eq. rewrite !memz_In. apply isort_in.
Qed.

(** ---- the evaluation loops are set algebra over the single filters ---- *)
Section Compose.
Variable s : mstate.
Variable x : Z.

(** x is selected by filter f (false when the filter is in error) *)
Definition inb (f : mfilter) : bool :=
  match eval_filter s f with Some b => memz x b | None => false end.

Definition and_acc (acc : option (list Z)) : bool := match acc with None => true | Some a => memz x a end.
Definition or_acc (acc : option (list Z)) : bool := match acc with None => false | Some a => memz x a end.

Lemma eval_and_mem : forall fs acc o,
  eval_and s acc fs = Some o -> and_acc o = and_acc acc && forallb inb fs.
Proof.
  induction fs as [|f t IH]; intros acc o H; cbn [eval_and forallb] in *.
  - inversion H; subst. now rewrite andb_true_r.
  - unfold inb at 1. destruct (eval_filter s f) as [b|]; [|discriminate H].
    set (r := match acc with None => b | Some a => set_inter a b end) in *.
    assert (Hr : memz x r = and_acc acc && memz x b).
    { unfold r. destruct acc as [a|]; cbn [and_acc]; [apply memz_set_inter|reflexivity]. }
    destruct r as [|r0 rt] eqn:Er.
    + inversion H; subst. cbn [and_acc memz]. cbn [memz] in Hr.
      rewrite andb_assoc, <- Hr. reflexivity.
    + rewrite (IH _ _ H). cbn [and_acc]. rewrite Hr, andb_assoc. reflexivity.
Qed.

Lemma eval_and_some : forall fs a o, eval_and s (Some a) fs = Some o -> o <> None.
Proof.
  induction fs as [|f t IH]; intros a o H; cbn [eval_and] in H.
  - inversion H. discriminate.
  - destruct (eval_filter s f) as [b|]; [|discriminate H].
    destruct (set_inter a b) as [|r0 rt]; [inversion H; discriminate|exact (IH _ _ H)].
Qed.

Lemma eval_and_nonempty f t o : eval_and s None (f :: t) = Some o -> o <> None.
Proof.
  cbn [eval_and]. destruct (eval_filter s f) as [b|]; [|discriminate].
  destruct b as [|r0 rt]; [intro H; inversion H; discriminate|apply eval_and_some].
Qed.

Lemma eval_or_mem : forall fs acc o,
  eval_or s acc fs = Some o -> or_acc o = or_acc acc || existsb inb fs.
Proof.
  induction fs as [|f t IH]; intros acc o H; cbn [eval_or existsb] in *.
  - inversion H; subst. now rewrite orb_false_r.
  - unfold inb at 1. destruct (eval_filter s f) as [b|]; [|discriminate H].
    rewrite (IH _ _ H). cbn [or_acc]. rewrite orb_assoc. f_equal.
    destruct acc as [a|]; cbn [or_acc]; [apply memz_set_union|reflexivity].
Qed.

Lemma eval_or_some : forall fs a o, eval_or s (Some a) fs = Some o -> o <> None.
Proof.
  induction fs as [|f t IH]; intros a o H; cbn [eval_or] in H.
  - inversion H. discriminate.
  - destruct (eval_filter s f) as [b|]; [|discriminate H]. exact (IH _ _ H).
Qed.

Lemma eval_or_nonempty f t o : eval_or s None (f :: t) = Some o -> o <> None.
Proof. cbn [eval_or]. destruct (eval_filter s f) as [b|]; [|discriminate]. apply eval_or_some. Qed.

(** what a group selects: an empty group selects every live document *)
Definition group_sel (g : mgroup) : bool :=
  match g_filters g with
  | [] => memz x (m_all s)
  | fs => if g_and g then forallb inb fs else existsb inb fs
  end.

Lemma eval_group_mem g r : eval_group s g = Some r -> memz x r = group_sel g.
Proof.
  unfold eval_group, group_sel. destruct (g_filters g) as [|f t] eqn:Eg.
  - intro H. inversion H. reflexivity.
  - destruct (g_and g).
    + destruct (eval_and s None (f :: t)) as [o|] eqn:E; [|discriminate].
      pose proof (eval_and_nonempty _ _ _ E) as Hn. pose proof (eval_and_mem _ _ _ E) as Hm.
      destruct o as [r'|]; [|congruence]. intro H. inversion H; subst. exact Hm.
    + destruct (eval_or s None (f :: t)) as [o|] eqn:E; [|discriminate].
      pose proof (eval_or_nonempty _ _ _ E) as Hn. pose proof (eval_or_mem _ _ _ E) as Hm.
      destruct o as [r'|]; [|congruence]. intro H. inversion H; subst. exact Hm.
Qed.

Lemma eval_groups_mem : forall gs acc r,
  eval_groups s acc gs = Some r -> memz x r = memz x acc || existsb group_sel gs.
Proof.
  induction gs as [|g t IH]; intros acc r H; cbn [eval_groups existsb] in *.
  - inversion H. now rewrite orb_false_r.
  - destruct (eval_group s g) as [rg|] eqn:Eg; [|discriminate H].
    rewrite (IH _ _ H), memz_set_union, (eval_group_mem _ _ Eg), orb_assoc. reflexivity.
Qed.

(** what the whole search selects *)
Definition search_sel (filters : list mfilter) (groups : list mgroup) : bool :=
  match groups with
  | _ :: _ => existsb group_sel groups
  | [] => match filters with [] => memz x (m_all s) | _ => forallb inb filters end
  end.

Theorem msearch_is_set_algebra filters groups r :
  msearch s filters groups = Some r -> memz x r = search_sel filters groups.
Proof.
  unfold msearch, search_sel. destruct groups as [|g gt].
  - destruct filters as [|f t].
    + intro H. inversion H. apply memz_isort_id.
    + destruct (eval_and s None (f :: t)) as [o|] eqn:E; [|discriminate].
      pose proof (eval_and_nonempty _ _ _ E) as Hn. pose proof (eval_and_mem _ _ _ E) as Hm.
      destruct o as [r'|]; [|congruence]. intro H. inversion H; subst.
      rewrite memz_isort_id. exact Hm.
  - destruct (eval_groups s [] (g :: gt)) as [r'|] eqn:E; [|discriminate].
    intro H. inversion H; subst. rewrite memz_isort_id, (eval_groups_mem _ _ _ E). reflexivity.
Qed.
End Compose.

(** ---- what the document store says about one document and one filter ---- *)
Definition doc_sat (s : mstate) (docs : list doc) (f : mfilter) (x : Z) : bool :=
  match f_op f with
  | OExists =>
      match num_find (f_field f) (m_num s) with
      | Some _ => match doc_num docs (f_field f) x with Some _ => true | None => false end
      | None => doc_has_prefix docs (f_field f ++ [colon]) x
      end
  | ONotExists =>
      live docs x &&
      negb match num_find (f_field f) (m_num s) with
           | Some _ => match doc_num docs (f_field f) x with Some _ => true | None => false end
           | None => doc_has_prefix docs (f_field f ++ [colon]) x
           end
  | _ =>
  match num_find (f_field f) (m_num s) with
  | Some _ =>
      match doc_num docs (f_field f) x with
      | None => false
      | Some v =>
          match f_op f, f_num f, f_num2 f with
          | OEq, Some a, _ => v =? a
          | ONe, Some a, _ => negb (v =? a)
          | OGt, Some a, _ => a <? v
          | OGte, Some a, _ => a <=? v
          | OLt, Some a, _ => v <? a
          | OLte, Some a, _ => v <=? a
          | ORange, Some a, Some b => (a <=? v) && (v <=? b)
          | _, _, _ => false
          end
      end
  | None =>
      match f_op f, f_list f with
      | OEq, _ => doc_has_key docs (key_of (f_field f) (f_str f)) x
      | ONe, _ => live docs x && negb (doc_has_key docs (key_of (f_field f) (f_str f)) x)
      | OIn, Some vals => existsb (fun v => doc_has_key docs (key_of (f_field f) v) x) vals
      | ONotIn, Some vals => live docs x && negb (existsb (fun v => doc_has_key docs (key_of (f_field f) v) x) vals)
      | _, _ => false
      end
  end
  end.

Definition filter_int64 (f : mfilter) : Prop :=
  (forall z, f_num f = Some z -> int64 z) /\ (forall z, f_num2 f = Some z -> int64 z).

Lemma memz_map_fst_stored (vs : list (Z * Z)) x :
  memz x (map fst vs) = match stored vs x with Some _ => true | None => false end.
Proof.
  unfold stored. induction vs as [|[i v] t IH]; cbn [map memz find fst]; [reflexivity|].
  rewrite (Z.eqb_sym x i). destruct (i =? x); [reflexivity|exact IH].
Qed.

Lemma existence_refines ops field x :
  let '(s, docs) := hrun ops in
  memz x (existence s field) =
  match num_find field (m_num s) with
  | Some _ => match doc_num docs field x with Some _ => true | None => false end
  | None => doc_has_prefix docs (field ++ [colon]) x
  end.
Proof.
  pose proof (existence_categorical ops field x) as He. pose proof (inv_num_run ops) as Hn.
  destruct (hrun ops) as [s docs]. destruct Hn as [_ Hn].
  destruct (num_find field (m_num s)) as [vs|] eqn:En; [|exact (He eq_refl)].
  unfold existence. rewrite En, memz_map_fst_stored.
  specialize (Hn field x). unfold nget in Hn. rewrite En in Hn. rewrite Hn. reflexivity.
Qed.

(** every single filter, Exists / NotExists included *)
Theorem single_filter_refines ops f r x :
  ops_int64 ops -> filter_int64 f ->
  let '(s, docs) := hrun ops in
  eval_filter s f = Some r -> memz x r = doc_sat s docs f x.
Proof.
  intros Ho [H1 H2].
  pose proof (filter_refines_document_store ops f r x Ho H1 H2) as HR.
  pose proof (existence_refines ops (f_field f) x) as HE.
  pose proof (inv_cat_run ops) as Hc.
  destruct (hrun ops) as [s docs]. destruct Hc as [Ha _].
  intros Hr. unfold doc_sat.
  destruct (f_op f) eqn:Eop;
    try (apply HR; [exact I|exact Hr]).
  - unfold eval_filter in Hr. rewrite Eop in Hr. inversion Hr; subst r. exact HE.
  - unfold eval_filter in Hr. rewrite Eop in Hr. inversion Hr; subst r.
    rewrite memz_set_diff, HE, Ha. reflexivity.
Qed.

(** ---- THE END-TO-END REFINEMENT ---- *)
Definition group_sat (s : mstate) (docs : list doc) (x : Z) (g : mgroup) : bool :=
  match g_filters g with
  | [] => live docs x
  | fs => if g_and g then forallb (fun f => doc_sat s docs f x) fs else existsb (fun f => doc_sat s docs f x) fs
  end.

(** the document store's answer to a whole request: groups take precedence; no filter = all live *)
Definition search_sat (s : mstate) (docs : list doc) (filters : list mfilter) (groups : list mgroup) (x : Z) : bool :=
  match groups with
  | _ :: _ => existsb (group_sat s docs x) groups
  | [] => match filters with [] => live docs x | _ => forallb (fun f => doc_sat s docs f x) filters end
  end.

Lemma forallb_ext_in {A} (f g : A -> bool) l : (forall a, In a l -> f a = g a) -> forallb f l = forallb g l.
Proof.
  induction l as [|a t IH]; intros H; cbn [forallb]; [reflexivity|].
  rewrite (H a (or_introl eq_refl)), IH; [reflexivity|]. intros b Hb. apply H. right. exact Hb.
Qed.
Lemma existsb_ext_in {A} (f g : A -> bool) l : (forall a, In a l -> f a = g a) -> existsb f l = existsb g l.
Proof.
  induction l as [|a t IH]; intros H; cbn [existsb]; [reflexivity|].
  rewrite (H a (or_introl eq_refl)), IH; [reflexivity|]. intros b Hb. apply H. right. exact Hb.
Qed.

(** no filter of the request is in error (an erroneous filter makes the search fail unless an
    early exit skips it; the theorem is about the searches in which every filter is well formed) *)
Definition filters_ok (s : mstate) (fs : list mfilter) : Prop :=
  Forall (fun f => filter_int64 f /\ eval_filter s f <> None) fs.

Theorem search_refines_document_store ops filters groups r x :
  ops_int64 ops ->
  let '(s, docs) := hrun ops in
  filters_ok s filters -> Forall (fun g => filters_ok s (g_filters g)) groups ->
  msearch s filters groups = Some r ->
  memz x r = search_sat s docs filters groups x.
Proof.
  intros Ho.
  assert (HS : forall f r', filter_int64 f ->
           let '(s, docs) := hrun ops in eval_filter s f = Some r' -> memz x r' = doc_sat s docs f x).
  { intros f r' Hf. exact (single_filter_refines ops f r' x Ho Hf). }
  pose proof (inv_cat_run ops) as Hc.
  destruct (hrun ops) as [s docs]. destruct Hc as [Ha _].
  intros Hfs Hgs Hm.
  rewrite (msearch_is_set_algebra s x filters groups r Hm).
  assert (Hin : forall fs, filters_ok s fs -> forall f, In f fs -> inb s x f = doc_sat s docs f x).
  { intros fs Hok f Hf. unfold filters_ok in Hok. rewrite Forall_forall in Hok.
    destruct (Hok f Hf) as [Hi Hne]. unfold inb.
    destruct (eval_filter s f) as [b|] eqn:Eb; [|congruence]. exact (HS f b Hi Eb). }
  unfold search_sel, search_sat.
  destruct groups as [|g gt].
  - destruct filters as [|f t]; [apply Ha|]. apply forallb_ext_in. apply (Hin _ Hfs).
  - apply existsb_ext_in. intros g' Hg'. rewrite Forall_forall in Hgs. specialize (Hgs g' Hg').
    unfold group_sel, group_sat. destruct (g_filters g') as [|f t]; [apply Ha|].
    destruct (g_and g'); [apply forallb_ext_in|apply existsb_ext_in]; apply (Hin _ Hgs).
Qed.
