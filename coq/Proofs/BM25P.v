(** C03: BM25 statistics invariant, replacement, flush, and match exactness. *)
From Coq Require Import ZArith List Bool Lia Permutation Sorted.
From Comet Require Import Base.FBits Base.Parse Base.Sorting.
From Comet Require Import Model.Limiter Model.Aggregation Model.VecIndex Model.BM25.
From Comet Require Import Proofs.SortingP Proofs.FlatP.
Import ListNotations.
Open Scope Z_scope.

Fixpoint sum_len (docs : list (Z * list Z)) : Z :=
  match docs with [] => 0 | d :: t => Z.of_nat (length (snd d)) + sum_len t end.

Definition ids (docs : list (Z * list Z)) : list Z := map fst docs.

(** the running statistics equal the from-scratch ones over the resident documents *)
Definition binv (s : bstate) : Prop :=
  b_num s = Z.of_nat (length (b_docs s)) /\
  b_total s = sum_len (b_docs s) /\
  b_avg s = avg_of (b_total s) (b_num s) /\
  NoDup (ids (b_docs s)) /\
  (forall id, memz id (b_deleted s) = true -> In id (ids (b_docs s))).

Lemma sum_len_app a b : sum_len (a ++ b) = sum_len a + sum_len b.
Proof. induction a as [|d t IH]; cbn [app sum_len]; [lia|]. rewrite IH. lia. Qed.

Lemma sum_len_nonneg l : 0 <= sum_len l.
Proof. induction l as [|d t IH]; cbn [sum_len]; lia. Qed.

Lemma doc_tokens_none s id : doc_tokens s id = None -> ~ In id (ids (b_docs s)).
Proof.
  unfold doc_tokens. destruct (find _ _) as [d|] eqn:E; [discriminate|]. intros _ Hin.
  apply in_map_iff in Hin. destruct Hin as [d [Hd Hi]]. eapply find_none in E; [|exact Hi].
  cbn beta in E. rewrite Hd, Z.eqb_refl in E. discriminate.
Qed.

Lemma doc_tokens_some s id toks : doc_tokens s id = Some toks -> In (id, toks) (b_docs s).
Proof.
  unfold doc_tokens. destruct (find _ _) as [d|] eqn:E; [|discriminate]. intro H. inversion H; subst.
  apply find_some in E. destruct E as [Hin He]. apply Z.eqb_eq in He. destruct d as [i t]. cbn in *. subst. exact Hin.
Qed.

Lemma filter_not_in_id docs id : ~ In id (ids docs) -> filter (fun d => negb (fst d =? id)) docs = docs.
Proof.
  intro H. apply filter_all_true. intros d Hd. apply negb_true_iff, Z.eqb_neq. intros Heq.
  apply H. rewrite <- Heq. apply in_map. exact Hd.
Qed.

(** removing the unique document with identifier [id] *)
Lemma remove_unique docs id toks :
  NoDup (ids docs) -> In (id, toks) docs ->
  let rest := filter (fun d => negb (fst d =? id)) docs in
  Z.of_nat (length docs) = Z.of_nat (length rest) + 1 /\
  sum_len docs = sum_len rest + Z.of_nat (length toks) /\
  NoDup (ids rest) /\ ~ In id (ids rest) /\ (forall x, In x (ids rest) -> In x (ids docs)) /\
  (forall x, In x (ids docs) -> x <> id -> In x (ids rest)).
Proof.
  induction docs as [|d t IH]; intros Hnd Hin; [contradiction|].
  cbn [ids map] in Hnd. inversion Hnd as [|? ? Hnotin Hnd']; subst.
  cbn [filter]. destruct Hin as [->|Hin].
  - cbn [fst]. rewrite Z.eqb_refl. cbn [negb].
    rewrite (filter_not_in_id t id Hnotin). cbn [length sum_len snd].
    repeat split; try lia; try assumption.
    + intros x Hx. right. exact Hx.
    + intros x [Hx|Hx] Hne; [cbn in Hx; congruence | exact Hx].
  - assert (Hne : fst d <> id).
    { intros Heq. apply Hnotin. subst id. apply in_map_iff. exists (fst d, toks). split; [reflexivity | exact Hin]. }
    apply Z.eqb_neq in Hne. rewrite Hne. cbn [negb].
    destruct (IH Hnd' Hin) as [Hl [Hs [Hn [Hni [Hsub Hsup]]]]].
    cbn [length sum_len ids map].
    repeat split.
    + lia.
    + lia.
    + constructor; [|exact Hn]. intro Hc. apply Hnotin. apply Hsub. exact Hc.
    + intros [Hc|Hc]; [apply Z.eqb_neq in Hne; congruence | contradiction].
    + intros x [Hx|Hx]; [left; exact Hx | right; apply Hsub; exact Hx].
    + intros x [Hx|Hx] Hnx; [left; exact Hx | right; apply Hsup; assumption].
Qed.

Lemma NoDup_app_one {A} (l : list A) x : NoDup l -> ~ In x l -> NoDup (l ++ [x]).
Proof.
  induction l as [|y t IH]; intros Hn Hx; cbn [app]; [constructor; [intros []|constructor]|].
  inversion Hn as [|? ? Hy Ht]; subst. constructor.
  - intro Hc. apply in_app_or in Hc. destruct Hc as [Hc|[Hc|[]]]; [contradiction|]. subst. apply Hx. now left.
  - apply IH; [exact Ht|]. intro Hc. apply Hx. now right.
Qed.

Lemma avg_of_zero t : avg_of t 0 = F64.zero.
Proof. reflexivity. Qed.

Lemma binv_remove_internal s id :
  binv s -> memz id (b_deleted s) = false \/ True ->
  let s' := bremove_internal s id in
  b_num s' = Z.of_nat (length (b_docs s')) /\ b_total s' = sum_len (b_docs s') /\
  b_avg s' = avg_of (b_total s') (b_num s') /\ NoDup (ids (b_docs s')) /\
  ~ In id (ids (b_docs s')) /\
  (forall x, In x (ids (b_docs s')) -> In x (ids (b_docs s))) /\
  (forall x, In x (ids (b_docs s)) -> x <> id -> In x (ids (b_docs s'))).
Proof.
  intros [Hn [Ht [Ha [Hnd Hdel]]]] _. unfold bremove_internal.
  destruct (doc_tokens s id) as [toks|] eqn:E.
  - apply doc_tokens_some in E.
    destruct (remove_unique (b_docs s) id toks Hnd E) as [Hl [Hs [Hn' [Hni [Hsub Hsup]]]]].
    cbn [b_docs b_num b_total b_avg].
    set (rest := filter (fun d => negb (fst d =? id)) (b_docs s)) in *.
    assert (Hnum : b_num s - 1 = Z.of_nat (length rest)) by lia.
    destruct (Z.ltb_spec 0 (b_num s - 1)) as [Hp|Hp].
    + repeat split; try assumption; lia.
    + assert (Hz : length rest = O) by lia. destruct rest as [|r0 rr] eqn:Er; [|discriminate].
      cbn [length sum_len]. repeat split; try assumption; try lia.
      rewrite Hnum. reflexivity.
  - apply doc_tokens_none in E. repeat split; try assumption; auto.
Qed.

Lemma memz_filter_true x (f : Z -> bool) l : memz x (filter f l) = true -> memz x l = true.
Proof.
  intro H. apply memz_In in H. apply filter_In in H. destruct H as [H _]. apply memz_In. exact H.
Qed.

Lemma binv_add s id toks : binv s -> binv (badd s id toks).
Proof.
  intros Hi. pose proof (binv_remove_internal s id Hi (or_intror I)) as H. cbn zeta in H.
  destruct H as [Hn [Ht [Ha [Hnd [Hni [Hsub Hsup]]]]]].
  destruct Hi as [_ [_ [_ [_ Hdel]]]].
  unfold badd. set (s1 := bremove_internal s id) in *.
  assert (Hd1 : b_deleted s1 = b_deleted s).
  { unfold s1, bremove_internal. destruct (doc_tokens s id); reflexivity. }
  split; [|split; [|split; [|split]]]; cbn [b_docs b_num b_total b_avg b_deleted].
  - rewrite app_length. cbn [length]. lia.
  - rewrite sum_len_app. cbn [sum_len snd]. lia.
  - reflexivity.
  - unfold ids. rewrite map_app. cbn [map fst]. apply NoDup_app_one; assumption.
  - intros x Hx. rewrite Hd1 in Hx. unfold ids. rewrite map_app. apply in_or_app.
    destruct (Z.eq_dec x id) as [->|Hne]; [right; left; reflexivity|].
    left. apply Hsup; [apply Hdel; eapply memz_filter_true; exact Hx | exact Hne].
Qed.

Lemma binv_remove s id : binv s -> binv (bremove s id).
Proof.
  intros Hi. unfold bremove. destruct (doc_tokens s id) as [toks|] eqn:E; [|exact Hi].
  destruct (memz id (b_deleted s)) eqn:Em; [exact Hi|].
  destruct Hi as [Hn [Ht [Ha [Hnd Hdel]]]]. repeat split; try assumption.
  intros x Hx. cbn [b_deleted memz] in Hx. apply orb_true_iff in Hx. destruct Hx as [Hx|Hx]; [|auto].
  apply Z.eqb_eq in Hx. subst x. apply doc_tokens_some in E. apply in_map_iff. exists (id, toks). auto.
Qed.

Lemma bremove_internal_docs s id :
  NoDup (ids (b_docs s)) ->
  b_docs (bremove_internal s id) = filter (fun d => negb (fst d =? id)) (b_docs s).
Proof.
  intro Hnd. unfold bremove_internal. destruct (doc_tokens s id) eqn:E; [reflexivity|].
  apply doc_tokens_none in E. symmetry. apply filter_not_in_id. exact E.
Qed.

Definition binv_core (s : bstate) : Prop :=
  b_num s = Z.of_nat (length (b_docs s)) /\ b_total s = sum_len (b_docs s) /\
  b_avg s = avg_of (b_total s) (b_num s) /\ NoDup (ids (b_docs s)).

Lemma binv_core_remove_internal s id : binv_core s -> binv_core (bremove_internal s id).
Proof.
  intros [Hn [Ht [Ha Hnd]]].
  assert (Hi : binv {| b_docs := b_docs s; b_num := b_num s; b_total := b_total s; b_avg := b_avg s; b_deleted := [] |}).
  { repeat split; try assumption. cbn. discriminate. }
  pose proof (binv_remove_internal _ id Hi (or_intror I)) as H. cbn zeta in H.
  unfold bremove_internal in *. unfold doc_tokens in *. cbn [b_docs b_num b_total b_avg b_deleted] in H.
  destruct (find (fun d => fst d =? id) (b_docs s)) as [d|]; cbn [b_docs b_num b_total b_avg] in *;
    destruct H as [H1 [H2 [H3 [H4 _]]]]; repeat split; assumption.
Qed.

Lemma fold_remove_internal l : forall s, binv_core s ->
  binv_core (fold_left bremove_internal l s) /\
  b_docs (fold_left bremove_internal l s) = filter (fun d => negb (memz (fst d) l)) (b_docs s) /\
  b_deleted (fold_left bremove_internal l s) = b_deleted s.
Proof.
  induction l as [|id t IH]; intros s Hc; cbn [fold_left].
  - split; [exact Hc|]. split; [|reflexivity]. symmetry. apply filter_all_true. intros; reflexivity.
  - destruct (IH _ (binv_core_remove_internal s id Hc)) as [H1 [H2 H3]]. split; [exact H1|]. split.
    + rewrite H2, bremove_internal_docs by (destruct Hc as [_ [_ [_ H]]]; exact H).
      clear. induction (b_docs s) as [|d u IHu]; cbn [filter memz]; [reflexivity|].
      destruct (fst d =? id) eqn:E; cbn [negb filter orb].
      * exact IHu.
      * destruct (memz (fst d) t); cbn [negb]; [exact IHu | f_equal; exact IHu].
    + rewrite H3. unfold bremove_internal. destruct (doc_tokens s id); reflexivity.
Qed.

Lemma memz_isort x l : memz x (isort (fun y => y) l) = memz x l.
Proof.
  destruct (memz x l) eqn:E.
  - apply memz_In. apply isort_in. apply memz_In. exact E.
  - destruct (memz x (isort (fun y => y) l)) eqn:E2; [|reflexivity].
    apply memz_In in E2. apply isort_in in E2. apply memz_In in E2. congruence.
Qed.

(** after a flush the resident documents are exactly the live ones, and the statistics are theirs *)
Theorem bflush_live s : binv s ->
  binv (bflush s) /\
  b_docs (bflush s) = filter (fun d => negb (memz (fst d) (b_deleted s))) (b_docs s) /\
  b_deleted (bflush s) = [].
Proof.
  intros [Hn [Ht [Ha [Hnd _]]]]. unfold bflush.
  destruct (fold_remove_internal (isort (fun x => x) (b_deleted s)) s) as [[H1 [H2 [H3 H4]]] [Hd _]];
    [repeat split; assumption|].
  cbn [b_docs b_num b_total b_avg b_deleted]. split; [|split; [|reflexivity]].
  - repeat split; try assumption. cbn. discriminate.
  - rewrite Hd. apply filter_ext. intro d. now rewrite memz_isort.
Qed.

Theorem binv_flush s : binv s -> binv (bflush s).
Proof. intro H. apply (bflush_live s H). Qed.

(** histories *)
Inductive bhop := HBAdd (id : Z) (toks : list Z) | HBRemove (id : Z) | HBFlush.
Definition bapply (s : bstate) (o : bhop) : bstate :=
  match o with HBAdd id t => badd s id t | HBRemove id => bremove s id | HBFlush => bflush s end.
Definition brun_ops (ops : list bhop) : bstate := fold_left bapply ops binit.

Theorem bm25_stats_invariant ops : binv (brun_ops ops).
Proof.
  unfold brun_ops.
  assert (H : forall s, binv s -> binv (fold_left bapply ops s)).
  { induction ops as [|o t IH]; intros s Hs; cbn [fold_left]; [exact Hs|].
    apply IH. destruct o; cbn [bapply]; [apply binv_add | apply binv_remove | apply binv_flush]; exact Hs. }
  apply H. repeat split; try reflexivity; [constructor | cbn; discriminate].
Qed.

(** replacing a document's text leaves no trace of the old text *)
Theorem badd_replaces s id toks : binv s ->
  doc_tokens (badd s id toks) id = Some toks /\
  (forall old, In (id, old) (b_docs (badd s id toks)) -> old = toks).
Proof.
  intro Hi. pose proof (binv_add s id toks Hi) as [_ [_ [_ [Hnd _]]]].
  assert (Hin : In (id, toks) (b_docs (badd s id toks))).
  { unfold badd. cbn [b_docs]. apply in_or_app. right. now left. }
  assert (Huniq : forall old, In (id, old) (b_docs (badd s id toks)) -> old = toks).
  { intros old Ho. clear - Hnd Hin Ho. induction (b_docs (badd s id toks)) as [|d t IH]; [contradiction|].
    cbn [ids map] in Hnd. inversion Hnd as [|? ? Hni Hnd']; subst.
    destruct Hin as [->|Hin]; destruct Ho as [Ho|Ho].
    - inversion Ho. reflexivity.
    - exfalso. apply Hni. apply in_map_iff. exists (id, old). auto.
    - subst d. exfalso. apply Hni. apply in_map_iff. exists (id, toks). auto.
    - apply IH; assumption. }
  split; [|exact Huniq].
  unfold doc_tokens. destruct (find (fun d => fst d =? id) (b_docs (badd s id toks))) as [d|] eqn:E.
  - apply find_some in E. destruct E as [Hd He]. apply Z.eqb_eq in He. destruct d as [i t]. cbn in He. subst i.
    cbn [snd]. f_equal. apply Huniq. exact Hd.
  - eapply find_none in E; [|exact Hin]. cbn in E. rewrite Z.eqb_refl in E. discriminate.
Qed.

(** ---- which documents a search scores ---- *)
Lemma upsert_add_keys id sc m x :
  In x (map fst (upsert_add id sc m)) <-> x = id \/ In x (map fst m).
Proof.
  induction m as [|[i v] t IH]; cbn [upsert_add map fst In].
  - split; [intros [H|[]]; left; auto | intros [H|[]]; left; auto].
  - destruct (i =? id) eqn:E; cbn [map fst In].
    + apply Z.eqb_eq in E. subst. intuition (subst; auto).
    + rewrite IH. intuition (subst; auto).
Qed.

Lemma upsert_add_nodup id sc m : NoDup (map fst m) -> NoDup (map fst (upsert_add id sc m)).
Proof.
  induction m as [|[i v] t IH]; intro H; cbn [upsert_add map fst].
  - constructor; [intros []|constructor].
  - inversion H as [|? ? Hni Ht]; subst. destruct (i =? id) eqn:E; cbn [map fst].
    + constructor; assumption.
    + constructor; [|apply IH; exact Ht]. intro Hc. apply upsert_add_keys in Hc. destruct Hc as [Hc|Hc].
      * apply Z.eqb_neq in E. congruence.
      * contradiction.
Qed.

Definition doc_eligible (s : bstate) (rq : brequest) (d : Z) : bool :=
  negb (memz d (b_deleted s)) && (match q_docids rq with [] => true | ds => memz d ds end).

(** a document matches token [t] *)
Definition has_token (s : bstate) (d t : Z) : Prop := exists toks, In (d, toks) (b_docs s) /\ memz t toks = true.

Lemma in_posting s t d : In d (posting s t) <-> has_token s d t.
Proof.
  unfold posting, has_token. rewrite isort_in, in_map_iff. split.
  - intros [[i toks] [Hi Hf]]. cbn in Hi. subst. apply filter_In in Hf. destruct Hf as [Hin Hm]. eauto.
  - intros [toks [Hin Hm]]. exists (d, toks). split; [reflexivity|]. apply filter_In. auto.
Qed.

(** the inner loop over one posting list *)
Definition score_post (s : bstate) (rq : brequest) (t idf : Z) (post : list Z) (m : list (Z * Z)) : list (Z * Z) :=
  fold_left (fun m d =>
     if memz d (b_deleted s) then m
     else if (match q_docids rq with [] => true | ds => memz d ds end) then
       match doc_tokens s d with
       | Some toks => upsert_add d (term_score idf (count_tok t toks) (Z.of_nat (length toks)) (b_avg s)) m
       | None => m
       end
     else m) post m.

Lemma score_post_keys s rq t idf : forall post m x,
  (forall d, In d post -> exists toks, doc_tokens s d = Some toks) ->
  (In x (map fst (score_post s rq t idf post m)) <->
   In x (map fst m) \/ (In x post /\ doc_eligible s rq x = true)).
Proof.
  unfold score_post, doc_eligible. induction post as [|d ds IH]; intros m x Hdoc; cbn [fold_left].
  - split; [auto | intros [H|[[] _]]; exact H].
  - rewrite IH by (intros d' Hd'; apply Hdoc; now right).
    destruct (Hdoc d (or_introl eq_refl)) as [toks Ht]. rewrite Ht.
    destruct (memz d (b_deleted s)) eqn:Ed; cbn [negb andb].
    + split; [intros [H|[H1 H2]]; [left; exact H | right; split; [right; exact H1 | exact H2]]|].
      intros [H|[[H1|H1] H2]]; [left; exact H | subst; rewrite Ed in H2; discriminate | right; auto].
    + destruct (match q_docids rq with [] => true | z :: l => memz d (z :: l) end) eqn:Ee.
      * rewrite upsert_add_keys. split.
        -- intros [[H|H]|[H1 H2]]; [right; split; [left; auto | subst; rewrite Ed; exact Ee] | left; exact H | right; split; [right; exact H1 | exact H2]].
        -- intros [H|[[H1|H1] H2]]; [left; right; exact H | left; left; auto | right; auto].
      * split; [intros [H|[H1 H2]]; [left; exact H | right; split; [right; exact H1 | exact H2]]|].
        intros [H|[[H1|H1] H2]]; [left; exact H | subst; rewrite Ed, Ee in H2; discriminate | right; auto].
Qed.

Lemma score_post_nodup s rq t idf : forall post m,
  NoDup (map fst m) -> NoDup (map fst (score_post s rq t idf post m)).
Proof.
  unfold score_post. induction post as [|d ds IH]; intros m H; cbn [fold_left]; [exact H|].
  apply IH. destruct (memz d (b_deleted s)); [exact H|].
  destruct (match q_docids rq with [] => true | _ => _ end); [|exact H].
  destruct (doc_tokens s d); [apply upsert_add_nodup; exact H | exact H].
Qed.

Lemma posting_docs s t d : binv s -> In d (posting s t) -> exists toks, doc_tokens s d = Some toks.
Proof.
  intros Hi Hd. apply in_posting in Hd. destruct Hd as [toks [Hin _]].
  unfold doc_tokens. destruct (find (fun x => fst x =? d) (b_docs s)) as [x|] eqn:E; [eauto|].
  eapply find_none in E; [|exact Hin]. cbn in E. rewrite Z.eqb_refl in E. discriminate.
Qed.

(** the documents scored by a query are exactly the live, eligible documents sharing a token with it *)
Theorem bsearch_scores_keys s rq : binv s -> forall qtoks m,
  bsearch_scores s rq qtoks = Some m ->
  NoDup (map fst m) /\
  forall x, In x (map fst m) <-> (doc_eligible s rq x = true /\ exists t, In t qtoks /\ has_token s x t).
Proof.
  intros Hi. unfold bsearch_scores.
  assert (G : forall qtoks m0 m,
    NoDup (map fst m0) ->
    fold_left (fun (acc : option (list (Z * Z))) t =>
       match acc with
       | None => None
       | Some m =>
           match posting s t with
           | [] => Some m
           | _ :: _ =>
               match ln_lookup (q_ln rq) (idf_arg (b_num s) (Z.of_nat (length (posting s t)))) with
               | None => None
               | Some idf => Some (score_post s rq t idf (posting s t) m)
               end
           end
       end) qtoks (Some m0) = Some m ->
    NoDup (map fst m) /\
    forall x, In x (map fst m) <->
      In x (map fst m0) \/ (doc_eligible s rq x = true /\ exists t, In t qtoks /\ has_token s x t)).
  { induction qtoks as [|t ts IH]; intros m0 m Hnd H; cbn [fold_left] in H.
    - inversion H; subst. split; [exact Hnd|]. intro x. split; [auto|]. intros [Hx|[_ [t [[] _]]]]. exact Hx.
    - destruct (posting s t) as [|p0 ps] eqn:Ep.
      + destruct (IH _ _ Hnd H) as [H1 H2]. split; [exact H1|]. intro x. rewrite H2. split.
        * intros [Hx|[He [t' [Ht' Hh]]]]; [left; exact Hx | right; split; [exact He|]; exists t'; split; [right; exact Ht' | exact Hh]].
        * intros [Hx|[He [t' [[Ht'|Ht'] Hh]]]]; [left; exact Hx | | right; split; [exact He | eauto]].
          subst t'. apply in_posting in Hh. rewrite Ep in Hh. contradiction.
      + destruct (ln_lookup (q_ln rq) _) as [idf|].
        2:{ exfalso. clear - H. induction ts as [|a b IHb]; cbn [fold_left] in H; [discriminate | auto]. }
        rewrite <- Ep in H.
        destruct (IH _ _ (score_post_nodup s rq t idf (posting s t) m0 Hnd) H) as [H1 H2].
        split; [exact H1|]. intro x. rewrite H2.
        rewrite score_post_keys by (intros d Hd; eapply posting_docs; eassumption).
        split.
        * intros [[Hx|[Hp He]]|[He [t' [Ht' Hh]]]].
          -- left; exact Hx.
          -- right. split; [exact He|]. exists t. split; [left; reflexivity | apply in_posting; exact Hp].
          -- right. split; [exact He|]. exists t'. split; [right; exact Ht' | exact Hh].
        * intros [Hx|[He [t' [[Ht'|Ht'] Hh]]]].
          -- left; left; exact Hx.
          -- subst t'. left. right. split; [apply in_posting; exact Hh | exact He].
          -- right. split; [exact He | eauto]. }
  intros qtoks m H.
  destruct (G qtoks [] m ltac:(constructor) H) as [H1 H2]. split; [exact H1|].
  intro x. rewrite H2. cbn [map In]. tauto.
Qed.

Definition dkey (x : Z * Z) : Z := - F64.key (snd x).

(** single-query answer: exact top-k (descending BM25 score) of the scored documents, whose id set is
    exactly the live eligible documents sharing a token with the query *)
Theorem bsearch_single_spec s rq qtoks o : binv s ->
  bsearch_single s rq qtoks = Some o ->
  (qtoks = [] \/ b_num s = 0) /\ so_full o = [] /\ so_cut o = O
  \/
  exists m, bsearch_scores s rq qtoks = Some m /\
    NoDup (map fst m) /\
    (forall x, In x (map fst m) <-> (doc_eligible s rq x = true /\ exists t, In t qtoks /\ has_token s x t)) /\
    so_full o = map (fun p => (fst p, f64_to_f32 (snd p))) (isort dkey m) /\
    so_cut o = (if (q_k rq <=? 0) || (Z.of_nat (length m) <=? q_k rq) then length m else Z.to_nat (q_k rq)) /\
    ExactTopK dkey m (so_cut o) (firstn (so_cut o) (isort dkey m)).
Proof.
  intros Hi H. unfold bsearch_single in H.
  destruct qtoks as [|t0 ts]; [left; inversion H; auto|].
  destruct (b_num s =? 0) eqn:En; [left; inversion H; apply Z.eqb_eq in En; auto|].
  destruct (bsearch_scores s rq (t0 :: ts)) as [m|] eqn:Es; [|discriminate].
  right. exists m. split; [reflexivity|].
  destruct (bsearch_scores_keys s rq Hi _ _ Es) as [Hnd Hk]. split; [exact Hnd|]. split; [exact Hk|].
  inversion H; subst o; clear H. cbn [so_full so_cut]. fold dkey.
  rewrite (isort_length dkey m). split; [reflexivity|]. split.
  - destruct ((q_k rq <=? 0) || (Z.of_nat (length m) <=? q_k rq)); [apply Nat2Z.id | reflexivity].
  - apply firstn_isort_exact_topk.
Qed.

(** empty query or empty corpus give the empty result *)
Theorem bsearch_empty s rq : bsearch_single s rq [] = Some {| so_full := []; so_cut := O; so_tie := false; so_ptie := false |}.
Proof. reflexivity. Qed.
