(** C08 / C09 / C10: facts about the faithful store model — what holds (segment identifiers are never
    reused) and what is refuted with concrete histories (acknowledged writes get lost). *)
From Coq Require Import ZArith List Bool Lia Permutation.
From Comet Require Import Base.FBits Base.Parse Base.Sorting.
From Comet Require Import Model.Distance Model.Limiter Model.Aggregation Model.Fusion Model.KMeans Model.VecIndex.
From Comet Require Import Model.BM25 Model.BSI Model.Metadata Model.Hybrid Model.Store Proofs.BM25P Proofs.SortingP.
Import ListNotations.
Open Scope Z_scope.

(** every registered segment id is at most the counter, and ids are pairwise distinct *)
Definition ids_ok (segs : list segment) (c : Z) : Prop :=
  (forall g, In g segs -> sg_id g <= c) /\ NoDup (map sg_id segs).

Lemma flush_frozen_ids : forall frozen t c acc t' c' segs',
  flush_frozen t frozen c acc = (t', c', segs') -> ids_ok acc c ->
  c <= c' /\ ids_ok segs' c' /\ (forall g, In g segs' -> In g acc \/ c < sg_id g).
Proof.
  induction frozen as [|m rest IH]; intros t c acc t' c' segs' H [Hb Hnd]; cbn [flush_frozen] in H.
  - inversion H; subst. repeat split; auto; lia.
  - apply IH in H.
    + destruct H as [Hc [[Hb' Hnd'] Hnew]]. repeat split; auto; try lia.
      intros g Hg. destruct (Hnew g Hg) as [Hin|Hlt]; [|right; lia].
      apply in_app_or in Hin. destruct Hin as [Hin|[<-|[]]]; [left; exact Hin | right; cbn; lia].
    + split.
      * intros g Hg. apply in_app_or in Hg. destruct Hg as [Hg|[<-|[]]]; [apply Hb in Hg; lia | cbn; lia].
      * rewrite map_app. cbn [map sg_id]. apply NoDup_app_one; [exact Hnd|].
        intro Hc. apply in_map_iff in Hc. destruct Hc as [g [Hid Hg]]. apply Hb in Hg. lia.
Qed.

(** a flush never reuses an identifier: new segments get ids above the old counter, old segments
    keep theirs, ids stay distinct *)
Theorem flush_ids_never_reused s : ids_ok (s_segs s) (s_counter s) ->
  let s' := st_flush_internal s in
  s_counter s <= s_counter s' /\ ids_ok (s_segs s') (s_counter s') /\
  (forall g, In g (s_segs s') -> In g (s_segs s) \/ s_counter s < sg_id g).
Proof.
  intros Hok. unfold st_flush_internal.
  destruct (s_queue s) as [|m0 [|m1 q]]; cbn zeta; [repeat split; auto; try lia; apply Hok .. |].
  destruct (flush_frozen (s_T s) (removelast (m0 :: m1 :: q)) (s_counter s) (s_segs s)) as [[t' c'] segs'] eqn:E.
  cbn [s_counter s_segs]. eapply flush_frozen_ids; eauto.
Qed.

Lemma in_last {A} (l : list A) d : l <> [] -> In (last l d) l.
Proof.
  induction l as [|a t IH]; intro H; [congruence|]. destruct t as [|b t]; [now left|].
  right. apply IH. discriminate.
Qed.

Lemma in_removelast {A} (x : A) l : In x (removelast l) -> In x l.
Proof.
  induction l as [|a t IH]; cbn [removelast]; [auto|]. destruct t as [|b t]; [intros []|].
  intros [<-|H]; [now left | right; apply IH; exact H].
Qed.

Lemma in_swap_remove id : forall segs g, In g (swap_remove id segs) -> In g segs.
Proof.
  induction segs as [|a rest IH]; intros g H; cbn [swap_remove] in H; [contradiction|].
  destruct (sg_id a =? id).
  - destruct rest as [|b r]; [contradiction|]. destruct H as [<-|H].
    + right. apply in_last. discriminate.
    + right. apply in_removelast. exact H.
  - destruct H as [<-|H]; [now left | right; apply IH; exact H].
Qed.

Lemma nodup_swap_remove id : forall segs, NoDup (map sg_id segs) -> NoDup (map sg_id (swap_remove id segs)).
Proof.
  induction segs as [|a rest IH]; intro H; cbn [swap_remove]; [constructor|].
  cbn [map] in H. inversion H as [|? ? Hni Hnd]; subst.
  destruct (sg_id a =? id).
  - destruct rest as [|b r]; [constructor|].
    assert (Hp : Permutation (b :: r) (last (b :: r) a :: removelast (b :: r))).
    { rewrite (app_removelast_last a (l := b :: r)) at 1 by discriminate.
      apply Permutation_sym, Permutation_cons_append. }
    eapply Permutation_NoDup; [apply Permutation_map; exact Hp | exact Hnd].
  - cbn [map]. constructor; [|apply IH; exact Hnd].
    intro Hc. apply in_map_iff in Hc. destruct Hc as [g [Hg Hin]]. apply in_swap_remove in Hin.
    apply Hni. rewrite <- Hg. apply in_map. exact Hin.
Qed.

Lemma fold_swap_remove_ok (rm : list segment) : forall segs c,
  ids_ok segs c -> ids_ok (fold_left (fun acc g => swap_remove (sg_id g) acc) rm segs) c /\ (forall g, In g (fold_left (fun acc g => swap_remove (sg_id g) acc) rm segs) -> In g segs).
Proof.
  induction rm as [|r rs IH]; intros segs c [Hb Hnd]; cbn [fold_left]; [repeat split; auto|].
  destruct (IH (swap_remove (sg_id r) segs) c) as [Hok Hsub].
  - split; [intros g Hg; apply Hb; eapply in_swap_remove; exact Hg | apply nodup_swap_remove; exact Hnd].
  - split; [exact Hok|]. intros g Hg. eapply in_swap_remove. apply Hsub. exact Hg.
Qed.

(** a compaction never reuses an identifier either *)
Theorem compact_ids_never_reused s s' : ids_ok (s_segs s) (s_counter s) -> st_compact s = (s', 0) ->
  s_counter s <= s_counter s' /\ ids_ok (s_segs s') (s_counter s') /\ (forall g, In g (s_segs s') -> sg_id g <= s_counter s \/ sg_id g = s_counter s + 1).
Proof.
  intros [Hb Hnd] H. unfold st_compact in H.
  destruct (length (s_segs s) <? Z.to_nat (s_cthr s))%nat; [inversion H; subst; repeat split; auto; try lia|].
  destruct (load_all (s_T s) (firstn (Z.to_nat (s_cthr s)) (s_segs s)) []) as [[t1 loaded]|] eqn:El; [|discriminate].
  inversion H; subst s'; clear H. cbn [s_counter s_segs].
  (* the loaded prefix keeps the identifiers of the segments it was computed from *)
  assert (Hload : forall segs t done t' out, load_all t segs done = Some (t', out) ->
                  map sg_id out = map sg_id done ++ map sg_id segs).
  { clear. induction segs as [|g r IH]; intros t done t' out H; cbn [load_all] in H.
    - inversion H; subst. now rewrite app_nil_r.
    - destruct (sg_cached g).
      + apply IH in H. rewrite H, map_app. cbn [map]. now rewrite <- app_assoc.
      + destruct (load_segment t g) as [t1' ok]. destruct ok; [|discriminate].
        apply IH in H. rewrite H, map_app. cbn [map sg_id]. now rewrite <- app_assoc. }
  apply Hload in El. cbn [map app] in El.
  set (n := Z.to_nat (s_cthr s)) in *.
  set (newseg := {| sg_id := s_counter s + 1; sg_info := []; sg_T := flush_triple t1; sg_files := all_complete; sg_cached := false |}).
  assert (Hids : map sg_id (loaded ++ skipn n (s_segs s) ++ [newseg]) = map sg_id (s_segs s) ++ [s_counter s + 1]).
  { rewrite !map_app, El. cbn [map sg_id]. rewrite app_assoc, <- map_app, firstn_skipn. reflexivity. }
  assert (Hok1 : ids_ok (loaded ++ skipn n (s_segs s) ++ [newseg]) (s_counter s + 1)).
  { split.
    - intros g Hg. apply (in_map sg_id) in Hg. rewrite Hids in Hg. apply in_app_or in Hg.
      destruct Hg as [Hg|[Hg|[]]]; [|lia]. apply in_map_iff in Hg. destruct Hg as [g' [Heq Hg']].
      apply Hb in Hg'. lia.
    - rewrite Hids. apply NoDup_app_one; [exact Hnd|]. intro Hc. apply in_map_iff in Hc.
      destruct Hc as [g [Hg Hin]]. apply Hb in Hin. lia. }
  destruct (fold_swap_remove_ok loaded _ _ Hok1) as [Hok2 Hsub].
  split; [lia|]. split; [exact Hok2|].
  intros g Hg. apply Hsub in Hg. apply (in_map sg_id) in Hg. rewrite Hids in Hg. apply in_app_or in Hg.
  destruct Hg as [Hg|[Hg|[]]]; [left | right; lia]. apply in_map_iff in Hg. destruct Hg as [g' [Heq Hg']].
  apply Hb in Hg'. lia.
Qed.

(** the two refutations below are about the faithful model, i.e. about the code as it is *)
Definition p1 : params := {| p_kind := KFlat; p_dim := 1; p_metric := L2; p_nlist := 1; p_M := 1; p_nbits := 1 |}.
Definition vq (z : Z) : hyrequest :=
  {| hq_vec := [F32.of_Z z]; hq_txt := []; hq_filters := []; hq_groups := []; hq_k := 100; hq_thr := 0;
     hq_agg := AggSum; hq_cutoff := -1; hq_nprobes := 1; hq_fusion := FWeighted; hq_vw := F64.one; hq_tw := F64.one;
     hq_kk := F64.one; hq_ln := [] |}.
Definition found (s : store) (rq : hyrequest) : list Z :=
  match st_search s rq with SOk o => map fst (firstn (so_n o) (so_merged o)) | _ => [] end.
Definition after (s : store) (rq : hyrequest) : store :=
  match st_search s rq with SOk o => after_search s o | _ => s end.
Definition add1 (s : store) (id z : Z) : store := fst (st_add s id (Some [F32.of_Z z]) None [] 68).

(** C08 refuted: add 1; rotate; flush; add 2; search (finds both, and loads segment 1 into the shared
    templates); search again: document 2, acknowledged and never removed, is gone *)
Definition h08 : store :=
  let s0 := open_store p1 true false false 1000 5 [] 0 in
  let s1 := add1 s0 1 10 in
  let s2 := fst (st_flush (rotate s1)) in
  let s3 := add1 s2 2 20 in
  after s3 (vq 0).
Theorem ack_visible_refuted :
  found (fst (st_flush (rotate (add1 (open_store p1 true false false 1000 5 [] 0) 1 10)))) (vq 0) = [1] /\
  found (add1 (fst (st_flush (rotate (add1 (open_store p1 true false false 1000 5 [] 0) 1 10)))) 2 20) (vq 0) = [2; 1] /\
  found h08 (vq 0) = [1].
Proof. vm_compute. repeat split. Qed.

(** C09 refuted: add 1; Close (returns nil); reopen with fresh templates; search: nothing *)
Definition h09 : store :=
  let s0 := open_store p1 true false false 1000 5 [] 0 in
  let s1 := fst (st_close (add1 s0 1 10)) in
  open_store p1 true false false 1000 5 (s_segs s1) (s_counter s1).
Theorem durable_after_close_refuted :
  snd (st_close (add1 (open_store p1 true false false 1000 5 [] 0) 1 10)) = 0 /\ found h09 (vq 0) = [].
Proof. vm_compute. split; reflexivity. Qed.

(** C10: a segment whose hybrid file is missing, empty or truncated contributes nothing and changes
    nothing; any missing/empty component makes the load fail before anything is deserialised *)
Theorem broken_hybrid_ignored t g fh fv ft fm :
  sg_files g = (fh, fv, ft, fm) -> fh <> FComplete ->
  (t_vec t <> None \/ t_txt t <> None \/ t_meta t <> None) ->
  load_segment t g = (t, false).
Proof.
  intros Hf Hh Hc. unfold load_segment. rewrite Hf.
  destruct (t_vec t) as [v|], (t_txt t) as [x|], (t_meta t) as [m|];
    try (exfalso; destruct Hc as [Hc|[Hc|Hc]]; congruence);
    destruct fh; try contradiction; destruct fv, ft, fm; reflexivity.
Qed.

Theorem missing_component_ignored t g fh fv ft fm :
  sg_files g = (fh, fv, ft, fm) ->
  (t_vec t <> None /\ (fv = FMissing \/ fv = FEmpty)) \/ (t_txt t <> None /\ (ft = FMissing \/ ft = FEmpty)) \/
  (t_meta t <> None /\ (fm = FMissing \/ fm = FEmpty)) ->
  load_segment t g = (t, false).
Proof.
  intros Hf H. unfold load_segment. rewrite Hf.
  destruct (t_vec t) as [v|], (t_txt t) as [x|], (t_meta t) as [m|];
    destruct H as [[Hn [->| ->]]|[[Hn [->| ->]]|[Hn [->| ->]]]]; try congruence;
    destruct fh; try reflexivity; destruct fv; try reflexivity; destruct ft; try reflexivity; destruct fm; reflexivity.
Qed.

(** a load that fails never yields a cached, searchable segment *)
Theorem failed_load_contributes_nothing rq t g rest acc weak done t1 :
  sg_cached g = false -> load_segment t g = (t1, false) ->
  search_segments rq t (g :: rest) acc weak done =
  search_segments rq t1 rest acc weak
    (done ++ [{| sg_id := sg_id g; sg_info := sg_info g; sg_T := sg_T g; sg_files := sg_files g; sg_cached := false |}]).
Proof. intros Hc Hl. cbn [search_segments]. rewrite Hc, Hl. reflexivity. Qed.

(** ---- reopening: the restored counter dominates every identifier that names any file ---- *)
Lemma fold_max_ge : forall (l : list Z) a, a <= fold_left Z.max l a /\ forall x, In x l -> x <= fold_left Z.max l a.
Proof.
  induction l as [|y t IH]; intros a; cbn [fold_left]; [split; [lia|intros x []]|].
  destruct (IH (Z.max a y)) as [H1 H2]. split; [lia|].
  intros x [<-|Hx]; [lia|apply H2, Hx].
Qed.

Lemma reopen_segs_ids p hv ht hm known listing g :
  In g (reopen_segs p hv ht hm known listing) -> In (sg_id g) (map fst listing).
Proof.
  unfold reopen_segs. intros H. apply in_flat_map in H. destruct H as [[id [[[fh fv] ft] fm]] [Hin Hg]].
  assert (E : sg_id g = id).
  { destruct fh; try (destruct Hg; fail);
      destruct (find (fun x => fst x =? id) known) as [[? g0]|]; destruct Hg as [<-|[]]; reflexivity. }
  rewrite E. apply in_map_iff. exists (id, (fh, fv, ft, fm)). split; [reflexivity|exact Hin].
Qed.

Lemma reopen_segs_nodup p hv ht hm known : forall listing,
  NoDup (map fst listing) -> NoDup (map sg_id (reopen_segs p hv ht hm known listing)).
Proof.
  induction listing as [|[id [[[fh fv] ft] fm]] t IH]; intros Hnd; [constructor|].
  cbn [map fst] in Hnd. inversion Hnd as [|? ? Hni Ht]; subst.
  unfold reopen_segs. cbn [flat_map]. fold (reopen_segs p hv ht hm known t).
  assert (Hrest : NoDup (map sg_id (reopen_segs p hv ht hm known t))) by (apply IH, Ht).
  assert (Hfresh : ~ In id (map sg_id (reopen_segs p hv ht hm known t))).
  { intros Hc. apply in_map_iff in Hc. destruct Hc as [g [Eg Hg]]. apply Hni. rewrite <- Eg.
    eapply reopen_segs_ids; exact Hg. }
  destruct fh; try exact Hrest;
    destruct (find (fun x => fst x =? id) known) as [[? g0]|]; cbn [app map sg_id]; constructor; assumption.
Qed.

(** Every identifier that names ANY file of the directory (even a partial segment that is not
    registered) is at most the restored counter, and the registered segments are pairwise distinct:
    together with [flush_ids_never_reused] / [compact_ids_never_reused] no identifier present on disk
    is ever handed out again. *)
Theorem reopen_ids_ok p hv ht hm limit cthr known listing :
  NoDup (map fst listing) ->
  let s := reopen_store p hv ht hm limit cthr known listing in
  ids_ok (s_segs s) (s_counter s) /\ (forall id, In id (map fst listing) -> id <= s_counter s).
Proof.
  intros Hnd s. unfold s, reopen_store, open_store. cbn [s_segs s_counter].
  destruct (fold_max_ge (map fst listing) 0) as [_ Hmax].
  split; [split|].
  - intros g Hg. apply in_map_iff in Hg. destruct Hg as [g0 [<- Hg0]]. cbn [sg_id].
    apply isort_in in Hg0. apply Hmax. eapply reopen_segs_ids; exact Hg0.
  - rewrite map_map. cbn [sg_id].
    eapply Permutation.Permutation_NoDup; [apply Permutation.Permutation_map, isort_perm|].
    apply reopen_segs_nodup, Hnd.
  - intros id Hid. apply Hmax, Hid.
Qed.

(** loading a SAFE tuple of file states is all-or-nothing: a load that reports failure has not touched
    the shared sub-index states *)
Theorem safe_files_all_or_nothing t g :
  safe_files (match t_vec t with Some _ => true | None => false end)
             (match t_txt t with Some _ => true | None => false end)
             (match t_meta t with Some _ => true | None => false end) (sg_files g) = true ->
  snd (load_segment t g) = false -> fst (load_segment t g) = t.
Proof.
  destruct t as [p tv tt tm]. destruct g as [id info T [[[fh fv] ft] fm] c].
  unfold safe_files, load_segment. cbn [sg_files t_vec t_txt t_meta sg_T t_p].
  destruct tv, tt, tm, fh, fv, ft, fm; cbn; intros H1 H2; try reflexivity; try discriminate.
Qed.

(** finishing the hybrid_ file last is enough: every directory a crash of such a writer leaves behind
    loads all-or-nothing *)
Theorem hybrid_last_safe hv ht hm files : hybrid_last hv ht hm files = true -> safe_files hv ht hm files = true.
Proof.
  destruct files as [[[fh fv] ft] fm]. unfold hybrid_last, safe_files.
  destruct hv, ht, hm, fh, fv, ft, fm; cbn; intros H; try reflexivity; try discriminate.
Qed.
