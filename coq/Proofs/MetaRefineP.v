(** C04 refinement: after ANY history of Add (fresh or removed ids, supported values) and Remove, the
    metadata index is an exact image of the document store — every categorical key holds exactly the
    live documents carrying "field:value", every numeric field stores exactly each live document's
    (last) numeric value — and therefore every single filter (eq / ne / in / not_in on categorical
    fields; eq / ne / gt / gte / lt / lte / range on numeric fields) selects exactly the documents of
    the store that satisfy it. *)
From Coq Require Import ZArith List Bool Lia.
From Comet Require Import Base.FBits Base.Parse Base.Sorting Model.BSI Model.VecIndex Model.Metadata Proofs.MetaP Proofs.BSIP.
Import ListNotations.
Open Scope Z_scope.


(** ---- strings ---- *)
Lemma str_eqb_eq a : forall b, str_eqb a b = true <-> a = b.
Proof.
  induction a as [|x a IH]; intros [|y b]; cbn [str_eqb]; split; intro H; try discriminate; try reflexivity.
  - apply andb_true_iff in H. destruct H as [H1 H2]. apply Z.eqb_eq in H1. apply IH in H2. subst. reflexivity.
  - inversion H; subst. rewrite Z.eqb_refl. cbn. apply IH. reflexivity.
Qed.
Lemma str_eqb_refl a : str_eqb a a = true. Proof. apply str_eqb_eq. reflexivity. Qed.
Lemma str_eqb_sym a b : str_eqb a b = str_eqb b a.
Proof.
  destruct (str_eqb a b) eqn:E; destruct (str_eqb b a) eqn:F; try reflexivity.
  - apply str_eqb_eq in E. subst. rewrite str_eqb_refl in F. discriminate.
  - apply str_eqb_eq in F. subst. rewrite str_eqb_refl in E. discriminate.
Qed.
Lemma str_eqb_trans_true a b c : str_eqb a b = true -> str_eqb b c = str_eqb a c.
Proof. intros H. apply str_eqb_eq in H. subst. reflexivity. Qed.

(** ---- sets ---- *)
Lemma memz_app x a b : memz x (a ++ b) = memz x a || memz x b.
Proof. induction a as [|y t IH]; cbn [app memz]; [reflexivity|]. rewrite IH. now rewrite orb_assoc. Qed.
Lemma memz_set_add x y l : memz x (set_add y l) = (x =? y) || memz x l.
Proof.
  unfold set_add. destruct (memz y l) eqn:E.
  - destruct (Z.eqb_spec x y) as [->|]; [rewrite E; reflexivity|reflexivity].
  - rewrite memz_app. cbn [memz]. rewrite orb_false_r, orb_comm. reflexivity.
Qed.
Lemma memz_set_remove x y l : memz x (set_remove y l) = negb (x =? y) && memz x l.
Proof.
  unfold set_remove. induction l as [|z t IH]; cbn [filter memz]; [now rewrite andb_false_r|].
  destruct (Z.eqb_spec z y) as [->|Hn]; cbn [negb].
  - rewrite IH. destruct (Z.eqb_spec x y); cbn [negb andb orb]; reflexivity.
  - cbn [memz]. rewrite IH. destruct (Z.eqb_spec x z) as [->|]; cbn [orb].
    + destruct (Z.eqb_spec z y); [contradiction|reflexivity].
    + reflexivity.
Qed.

(** ---- the categorical map ---- *)
Definition cget (key : str) (m : list (str * list Z)) : list Z :=
  match cat_find key m with Some ids => ids | None => [] end.

Lemma cget_update key f m k :
  cget k (cat_update key f m) = if str_eqb k key then f (cget key m) else cget k m.
Proof.
  unfold cget. induction m as [|[k0 ids] t IH]; cbn [cat_update cat_find].
  - rewrite (str_eqb_sym key k). destruct (str_eqb k key); reflexivity.
  - destruct (str_eqb k0 key) eqn:E0; cbn [cat_find].
    + apply str_eqb_eq in E0. subst k0. rewrite (str_eqb_sym key k). destruct (str_eqb k key); reflexivity.
    + destruct (str_eqb k0 k) eqn:E1.
      * apply str_eqb_eq in E1. subst k0. rewrite E0. reflexivity.
      * exact IH.
Qed.

(** ---- documents ---- *)
Definition doc := (Z * list (str * mvalue))%type.
Definition render (v : mvalue) : option str :=
  match v with MStr x => Some x | MBool b => Some (if b then s_true else s_false) | _ => None end.
Definition numval (v : mvalue) : option Z :=
  match v with MInt z => Some z | MFloat b => Some (float_fix b) | _ => None end.
Definition no_bad (fields : list (str * mvalue)) : bool :=
  negb (existsb (fun kv => match snd kv with MBad => true | _ => false end) fields).

(** does the field list put [key] = "field:rendered value" into the categorical index? *)
Definition has_key (key : str) (fields : list (str * mvalue)) : bool :=
  existsb (fun kv => match render (snd kv) with Some r => str_eqb (key_of (fst kv) r) key | None => false end) fields.

Lemma madd_fields_cat : forall fields s id, no_bad fields = true ->
  exists s', madd_fields s id fields = (s', true) /\ m_all s' = m_all s /\
    forall key x, memz x (cget key (m_cat s')) = memz x (cget key (m_cat s)) || ((x =? id) && has_key key fields).
Proof.
  induction fields as [|[f v] t IH]; intros s id Hb.
  - exists s. split; [reflexivity|]. split; [reflexivity|]. intros. cbn. now rewrite andb_false_r, orb_false_r.
  - unfold no_bad in Hb. cbn [existsb snd] in Hb. rewrite negb_orb in Hb. apply andb_true_iff in Hb. destruct Hb as [Hv Ht].
    fold (no_bad t) in Ht.
    cbn [madd_fields].
    destruct v as [x0|b|z|bits|]; try discriminate.
    + (* string *)
      destruct (IH {| m_all := m_all s; m_cat := cat_update (key_of f x0) (set_add id) (m_cat s); m_num := m_num s |} id Ht)
        as (s' & E & Ha & Hc).
      exists s'. split; [exact E|]. split; [exact Ha|]. intros key x. rewrite Hc. cbn [m_cat].
      rewrite cget_update. unfold has_key at 2. cbn [existsb render snd fst]. fold (has_key key t).
      rewrite (str_eqb_sym (key_of f x0) key).
      destruct (str_eqb key (key_of f x0)) eqn:Ek.
      * apply str_eqb_eq in Ek. subst key. rewrite memz_set_add.
        destruct (x =? id); cbn [andb orb]; [now rewrite orb_true_r|now rewrite !orb_false_r].
      * cbn [orb]. reflexivity.
    + destruct (IH {| m_all := m_all s; m_cat := cat_update (key_of f (if b then s_true else s_false)) (set_add id) (m_cat s); m_num := m_num s |} id Ht)
        as (s' & E & Ha & Hc).
      exists s'. split; [exact E|]. split; [exact Ha|]. intros key x. rewrite Hc. cbn [m_cat].
      rewrite cget_update. unfold has_key at 2. cbn [existsb render snd fst]. fold (has_key key t).
      rewrite (str_eqb_sym (key_of f _) key).
      destruct (str_eqb key (key_of f (if b then s_true else s_false))) eqn:Ek.
      * apply str_eqb_eq in Ek. subst key. rewrite memz_set_add.
        destruct (x =? id); cbn [andb orb]; [now rewrite orb_true_r|now rewrite !orb_false_r].
      * cbn [orb]. reflexivity.
    + destruct (IH {| m_all := m_all s; m_cat := m_cat s; m_num := num_update f (set_value id z) (m_num s) |} id Ht)
        as (s' & E & Ha & Hc).
      exists s'. split; [exact E|]. split; [exact Ha|]. intros key x. rewrite Hc. cbn [m_cat].
      unfold has_key at 2. cbn [existsb render snd]. reflexivity.
    + destruct (IH {| m_all := m_all s; m_cat := m_cat s; m_num := num_update f (set_value id (float_fix bits)) (m_num s) |} id Ht)
        as (s' & E & Ha & Hc).
      exists s'. split; [exact E|]. split; [exact Ha|]. intros key x. rewrite Hc. cbn [m_cat].
      unfold has_key at 2. cbn [existsb render snd]. reflexivity.
Qed.


Definition dfind (x : Z) (docs : list doc) : option (list (str * mvalue)) :=
  match find (fun d => fst d =? x) docs with Some d => Some (snd d) | None => None end.

Lemma dfind_app x a b : dfind x (a ++ b) = match dfind x a with Some f => Some f | None => dfind x b end.
Proof.
  unfold dfind. induction a as [|d t IH]; cbn [app find]; [reflexivity|].
  destruct (fst d =? x); [reflexivity|exact IH].
Qed.
Lemma dfind_none x docs : memz x (map fst docs) = false -> dfind x docs = None.
Proof.
  unfold dfind. induction docs as [|d t IH]; cbn [map memz find]; intros H; [reflexivity|].
  apply orb_false_iff in H. destruct H as [H1 H2]. rewrite Z.eqb_sym, H1. apply IH, H2.
Qed.
Lemma dfind_memz x docs : memz x (map fst docs) = match dfind x docs with Some _ => true | None => false end.
Proof.
  unfold dfind. induction docs as [|d t IH]; cbn [map memz find]; [reflexivity|].
  rewrite (Z.eqb_sym x). destruct (fst d =? x); cbn [orb]; [reflexivity|exact IH].
Qed.
Lemma dfind_filter x id docs :
  dfind x (filter (fun d => negb (fst d =? id)) docs) = if x =? id then None else dfind x docs.
Proof.
  unfold dfind. induction docs as [|d t IH]; cbn [filter find]; [destruct (x =? id); reflexivity|].
  destruct (Z.eqb_spec (fst d) id) as [E|E]; cbn [negb].
  - rewrite IH. destruct (Z.eqb_spec x id) as [->|Hx]; [reflexivity|].
    destruct (Z.eqb_spec (fst d) x); [congruence|reflexivity].
  - cbn [find]. destruct (Z.eqb_spec (fst d) x) as [Ex|Ex].
    + destruct (Z.eqb_spec x id); [congruence|reflexivity].
    + exact IH.
Qed.

Lemma cget_map_remove key id m :
  cget key (map (fun kv : str * list Z => (fst kv, set_remove id (snd kv))) m) = set_remove id (cget key m).
Proof.
  unfold cget. induction m as [|[k ids] t IH]; cbn [map cat_find fst snd]; [reflexivity|].
  destruct (str_eqb k key); [reflexivity|exact IH].
Qed.

(** ---- histories over the metadata index and over the document store ---- *)
Inductive hop := HAdd (id : Z) (fields : list (str * mvalue)) | HRemove (id : Z).

(** an Add of an id that is live, or with an unsupported value, is outside the property's histories
    (re-use goes through Remove first; bad values are rejected without effect) and is skipped *)
Definition hstep (st : mstate * list doc) (o : hop) : mstate * list doc :=
  let '(s, docs) := st in
  match o with
  | HAdd id fields =>
      if memz id (map fst docs) || negb (no_bad fields) then st
      else (fst (madd s id fields), docs ++ [(id, fields)])
  | HRemove id => (mremove s id, filter (fun d => negb (fst d =? id)) docs)
  end.
Definition hrun (ops : list hop) : mstate * list doc := fold_left hstep ops (minit, []).

Definition inv_cat (s : mstate) (docs : list doc) : Prop :=
  (forall x, memz x (m_all s) = memz x (map fst docs)) /\
  (forall key x, memz x (cget key (m_cat s)) =
                 match dfind x docs with Some fl => has_key key fl | None => false end).

Lemma inv_cat_step s docs o : inv_cat s docs -> let '(s', docs') := hstep (s, docs) o in inv_cat s' docs'.
Proof.
  intros [Ha Hc]. destruct o as [id fields|id]; cbn [hstep].
  - destruct (memz id (map fst docs)) eqn:Em; cbn [orb]; [split; assumption|].
    destruct (no_bad fields) eqn:Eb; cbn [negb]; [|split; assumption].
    unfold madd. unfold no_bad in Eb. apply negb_true_iff in Eb. rewrite Eb.
    destruct (madd_fields_cat fields {| m_all := set_add id (m_all s); m_cat := m_cat s; m_num := m_num s |} id
                ltac:(unfold no_bad; rewrite Eb; reflexivity)) as (s' & E & Hall & Hcat).
    rewrite E. cbn [fst]. split.
    + intros x. rewrite Hall. cbn [m_all]. rewrite memz_set_add, Ha, map_app, memz_app. cbn [map fst memz].
      rewrite orb_false_r, orb_comm. reflexivity.
    + intros key x. rewrite Hcat. cbn [m_cat]. rewrite Hc, dfind_app.
      destruct (dfind x docs) as [fl|] eqn:Ed.
      * (* x already live: it is not the new id *)
        assert (x =? id = false).
        { destruct (Z.eqb_spec x id) as [->|]; [|reflexivity]. rewrite (dfind_none id docs Em) in Ed. discriminate. }
        rewrite H. cbn [andb]. now rewrite orb_false_r.
      * cbn [orb]. unfold dfind. cbn [find fst snd]. rewrite (Z.eqb_sym id x). destruct (x =? id); reflexivity.
  - split.
    + intros x. cbn [mremove m_all]. rewrite memz_set_remove, Ha, !dfind_memz, dfind_filter.
      destruct (x =? id); cbn [negb andb]; reflexivity.
    + intros key x. cbn [mremove m_cat]. rewrite cget_map_remove, memz_set_remove, Hc, dfind_filter.
      destruct (x =? id); cbn [negb andb]; reflexivity.
Qed.

Theorem inv_cat_run ops : let '(s, docs) := hrun ops in inv_cat s docs.
Proof.
  unfold hrun.
  assert (G : forall ops s docs, inv_cat s docs -> let '(s', docs') := fold_left hstep ops (s, docs) in inv_cat s' docs').
  { induction ops0 as [|o t IH]; intros s docs Hi; cbn [fold_left]; [exact Hi|].
    pose proof (inv_cat_step s docs o Hi) as Hs. destruct (hstep (s, docs) o) as [s1 d1]. apply IH, Hs. }
  apply G. split; intros; reflexivity.
Qed.


(** ---- categorical operators against the document store ---- *)
Definition doc_has_key (docs : list doc) (key : str) (x : Z) : bool :=
  match dfind x docs with Some fl => has_key key fl | None => false end.
Definition live (docs : list doc) (x : Z) : bool := memz x (map fst docs).

Lemma fold_union_mem (g : str -> list Z) (vals : list str) : forall acc x,
  memz x (fold_left (fun acc v => set_union acc (g v)) vals acc) = memz x acc || existsb (fun v => memz x (g v)) vals.
Proof.
  induction vals as [|v t IH]; intros acc x; cbn [fold_left existsb]; [now rewrite orb_false_r|].
  rewrite IH, memz_set_union. now rewrite orb_assoc.
Qed.
Lemma fold_diff_mem (g : str -> list Z) (vals : list str) : forall acc x,
  memz x (fold_left (fun acc v => set_diff acc (g v)) vals acc) = memz x acc && negb (existsb (fun v => memz x (g v)) vals).
Proof.
  induction vals as [|v t IH]; intros acc x; cbn [fold_left existsb]; [now rewrite andb_true_r|].
  rewrite IH, memz_set_diff, negb_orb. now rewrite andb_assoc.
Qed.

Theorem categorical_exact s docs f r x :
  inv_cat s docs -> query_categorical s f = Some r ->
  memz x r =
  match f_op f, f_list f with
  | OEq, _ => doc_has_key docs (key_of (f_field f) (f_str f)) x
  | ONe, _ => live docs x && negb (doc_has_key docs (key_of (f_field f) (f_str f)) x)
  | OIn, Some vals => existsb (fun v => doc_has_key docs (key_of (f_field f) v) x) vals
  | ONotIn, Some vals => live docs x && negb (existsb (fun v => doc_has_key docs (key_of (f_field f) v) x) vals)
  | _, _ => false
  end.
Proof.
  intros [Ha Hc] H. unfold query_categorical in H. unfold doc_has_key, live.
  assert (Hget : forall key, memz x (match cat_find key (m_cat s) with Some ids => ids | None => [] end) =
                            match dfind x docs with Some fl => has_key key fl | None => false end).
  { intros key. apply (Hc key x). }
  assert (Hex : forall vals, existsb (fun v => memz x (match cat_find (key_of (f_field f) v) (m_cat s) with Some ids => ids | None => [] end)) vals =
                          existsb (fun v => match dfind x docs with Some fl => has_key (key_of (f_field f) v) fl | None => false end) vals).
  { induction vals as [|v t IH]; cbn [existsb]; [reflexivity|]. rewrite Hget, IH. reflexivity. }
  destruct (f_op f); try discriminate.
  - inversion H; subst r. apply Hget.
  - inversion H; subst r. rewrite memz_set_diff, Ha, Hget. reflexivity.
  - destruct (f_list f) as [vals|]; [|discriminate]. inversion H; subst r.
    rewrite (fold_union_mem (fun v => match cat_find (key_of (f_field f) v) (m_cat s) with Some ids => ids | None => [] end)).
    cbn [memz orb]. apply Hex.
  - destruct (f_list f) as [vals|]; [|discriminate]. inversion H; subst r.
    rewrite (fold_diff_mem (fun v => match cat_find (key_of (f_field f) v) (m_cat s) with Some ids => ids | None => [] end)).
    rewrite Ha, Hex. reflexivity.
Qed.


(** ---- the numeric map ---- *)
Definition nget (field : str) (m : list (str * list (Z * Z))) : list (Z * Z) :=
  match num_find field m with Some vs => vs | None => [] end.

Lemma nget_update key f m k :
  nget k (num_update key f m) = if str_eqb k key then f (nget key m) else nget k m.
Proof.
  unfold nget. induction m as [|[k0 vs] t IH]; cbn [num_update num_find].
  - rewrite (str_eqb_sym key k). destruct (str_eqb k key); reflexivity.
  - destruct (str_eqb k0 key) eqn:E0; cbn [num_find].
    + apply str_eqb_eq in E0. subst k0. rewrite (str_eqb_sym key k). destruct (str_eqb k key); reflexivity.
    + destruct (str_eqb k0 k) eqn:E1.
      * apply str_eqb_eq in E1. subst k0. rewrite E0. reflexivity.
      * exact IH.
Qed.

Lemma num_find_update key f m k :
  num_find k (num_update key f m) = if str_eqb k key then Some (f (nget key m)) else num_find k m.
Proof.
  unfold nget. induction m as [|[k0 vs] t IH]; cbn [num_update num_find].
  - rewrite (str_eqb_sym key k). destruct (str_eqb k key); reflexivity.
  - destruct (str_eqb k0 key) eqn:E0; cbn [num_find].
    + apply str_eqb_eq in E0. subst k0. rewrite (str_eqb_sym key k). destruct (str_eqb k key); reflexivity.
    + destruct (str_eqb k0 k) eqn:E1.
      * apply str_eqb_eq in E1. subst k0. rewrite E0. reflexivity.
      * exact IH.
Qed.

Lemma stored_app_single vs id z x :
  stored (filter (fun p => negb (fst p =? id)) vs ++ [(id, z)]) x = if x =? id then Some z else stored vs x.
Proof.
  unfold stored. induction vs as [|q t IH]; cbn [filter app find fst snd].
  - rewrite (Z.eqb_sym id x). destruct (x =? id); reflexivity.
  - destruct (Z.eqb_spec (fst q) id) as [E|E]; cbn [negb].
    + rewrite IH. destruct (Z.eqb_spec x id) as [Ex0|Hx]; [reflexivity|].
      destruct (Z.eqb_spec (fst q) x); [congruence|reflexivity].
    + cbn [app find]. destruct (Z.eqb_spec (fst q) x) as [Ex|Ex].
      * destruct (Z.eqb_spec x id); [congruence|reflexivity].
      * exact IH.
Qed.
Lemma stored_set_value vs id z x : stored (set_value id z vs) x = if x =? id then Some z else stored vs x.
Proof. apply stored_app_single. Qed.

Lemma stored_filter vs id x :
  stored (filter (fun p => negb (fst p =? id)) vs) x = if x =? id then None else stored vs x.
Proof.
  unfold stored. induction vs as [|q t IH]; cbn [filter find]; [destruct (x =? id); reflexivity|].
  destruct (Z.eqb_spec (fst q) id) as [E|E]; cbn [negb].
  - rewrite IH. destruct (Z.eqb_spec x id) as [Ex0|Hx]; [reflexivity|].
    destruct (Z.eqb_spec (fst q) x); [congruence|reflexivity].
  - cbn [find]. destruct (Z.eqb_spec (fst q) x) as [Ex|Ex].
    + destruct (Z.eqb_spec x id); [congruence|reflexivity].
    + exact IH.
Qed.

Lemma nodup_filter_fst vs id : NoDup (map fst vs) -> NoDup (map fst (filter (fun p : Z * Z => negb (fst p =? id)) vs)).
Proof.
  induction vs as [|q t IH]; intros H; cbn [filter map]; [constructor|].
  cbn [map] in H. inversion H as [|? ? Hn Ht]; subst.
  destruct (negb (fst q =? id)); [|apply IH, Ht]. cbn [map]. constructor; [|apply IH, Ht].
  intros Hc. apply Hn. apply in_map_iff in Hc. destruct Hc as [p [Ep Hp]]. apply filter_In in Hp.
  apply in_map_iff. exists p. tauto.
Qed.
Lemma nodup_app_single' {A} (l : list A) (a : A) : NoDup l -> ~ In a l -> NoDup (l ++ [a]).
Proof.
  induction l as [|x t IH]; intros Hn Hi; cbn [app]; [constructor; [intros []|constructor]|].
  inversion Hn as [|? ? Hx Ht]; subst. constructor.
  - intros Hc. apply in_app_or in Hc. destruct Hc as [Hc|[Hc|[]]]; [contradiction|]. subst. apply Hi. now left.
  - apply IH; [exact Ht|]. intros Hc. apply Hi. now right.
Qed.
Lemma nodup_set_value vs id z : NoDup (map fst vs) -> NoDup (map fst (set_value id z vs)).
Proof.
  intros H. unfold set_value. rewrite map_app. cbn [map fst].
  apply nodup_app_single'; [apply nodup_filter_fst, H|].
  intros Hc. apply in_map_iff in Hc. destruct Hc as [p [Ep Hp]]. apply filter_In in Hp. destruct Hp as [_ Hp].
  rewrite Ep, Z.eqb_refl in Hp. discriminate.
Qed.


(** the numeric value a document stores under [field]: the last numeric value its field list gives it *)
Definition last_num_from (field : str) (fields : list (str * mvalue)) (acc : option Z) : option Z :=
  fold_left (fun acc kv => if str_eqb (fst kv) field
                           then match numval (snd kv) with Some z => Some z | None => acc end
                           else acc) fields acc.
Definition last_num (field : str) (fields : list (str * mvalue)) : option Z := last_num_from field fields None.

Lemma madd_fields_num : forall fields s id, no_bad fields = true ->
  (forall field, NoDup (map fst (nget field (m_num s)))) ->
  exists s', madd_fields s id fields = (s', true) /\
    (forall field, NoDup (map fst (nget field (m_num s')))) /\
    (forall field x, stored (nget field (m_num s')) x =
       if x =? id then last_num_from field fields (stored (nget field (m_num s)) id)
       else stored (nget field (m_num s)) x) /\
    (forall field, num_find field (m_num s) <> None -> num_find field (m_num s') <> None).
Proof.
  induction fields as [|[f v] t IH]; intros s id Hb Hnd.
  - exists s. split; [reflexivity|]. split; [exact Hnd|]. split.
    + intros field x. cbn [last_num_from fold_left]. destruct (Z.eqb_spec x id) as [E|E]; [rewrite E|]; reflexivity.
    + auto.
  - unfold no_bad in Hb. cbn [existsb snd] in Hb. rewrite negb_orb in Hb. apply andb_true_iff in Hb. destruct Hb as [Hv Ht].
    fold (no_bad t) in Ht. cbn [madd_fields].
    assert (Hnum : forall z, exists s', madd_fields {| m_all := m_all s; m_cat := m_cat s; m_num := num_update f (set_value id z) (m_num s) |} id t = (s', true) /\
       (forall field, NoDup (map fst (nget field (m_num s')))) /\
       (forall field x, stored (nget field (m_num s')) x =
          if x =? id then last_num_from field t (if str_eqb field f then Some z else stored (nget field (m_num s)) id)
          else stored (nget field (m_num s)) x) /\
       (forall field, num_find field (m_num s) <> None -> num_find field (m_num s') <> None)).
    { intros z.
      destruct (IH {| m_all := m_all s; m_cat := m_cat s; m_num := num_update f (set_value id z) (m_num s) |} id Ht) as (s' & E & Hn' & Hs' & Hk').
      { intros field. cbn [m_num]. rewrite nget_update. destruct (str_eqb field f); [apply nodup_set_value, Hnd|apply Hnd]. }
      exists s'. split; [exact E|]. split; [exact Hn'|]. split.
      - intros field x. rewrite Hs'. cbn [m_num]. rewrite !nget_update.
        destruct (str_eqb field f) eqn:Ef.
        + rewrite !stored_set_value, Z.eqb_refl. apply str_eqb_eq in Ef. subst field.
          destruct (x =? id); reflexivity.
        + reflexivity.
      - intros field Hf. apply Hk'. cbn [m_num]. rewrite num_find_update. destruct (str_eqb field f); [discriminate|exact Hf]. }
    assert (Hcat : forall key, exists s', madd_fields {| m_all := m_all s; m_cat := cat_update key (set_add id) (m_cat s); m_num := m_num s |} id t = (s', true) /\
       (forall field, NoDup (map fst (nget field (m_num s')))) /\
       (forall field x, stored (nget field (m_num s')) x =
          if x =? id then last_num_from field t (stored (nget field (m_num s)) id)
          else stored (nget field (m_num s)) x) /\
       (forall field, num_find field (m_num s) <> None -> num_find field (m_num s') <> None)).
    { intros key.
      destruct (IH {| m_all := m_all s; m_cat := cat_update key (set_add id) (m_cat s); m_num := m_num s |} id Ht Hnd) as (s' & E & Hn' & Hs' & Hk').
      exists s'. auto. }
    destruct v as [x0|b|z|bits|]; try discriminate.
    + destruct (Hcat (key_of f x0)) as (s' & E & Hn' & Hs' & Hk'). exists s'. split; [exact E|]. split; [exact Hn'|]. split; [|exact Hk'].
      intros field x. rewrite Hs'. unfold last_num_from at 2. cbn [fold_left fst snd numval].
      destruct (str_eqb f field); reflexivity.
    + destruct (Hcat (key_of f (if b then s_true else s_false))) as (s' & E & Hn' & Hs' & Hk'). exists s'. split; [exact E|]. split; [exact Hn'|]. split; [|exact Hk'].
      intros field x. rewrite Hs'. unfold last_num_from at 2. cbn [fold_left fst snd numval].
      destruct (str_eqb f field); reflexivity.
    + destruct (Hnum z) as (s' & E & Hn' & Hs' & Hk'). exists s'. split; [exact E|]. split; [exact Hn'|]. split; [|exact Hk'].
      intros field x. rewrite Hs'. unfold last_num_from at 2. cbn [fold_left fst snd numval].
      rewrite (str_eqb_sym f field). destruct (str_eqb field f); reflexivity.
    + destruct (Hnum (float_fix bits)) as (s' & E & Hn' & Hs' & Hk'). exists s'. split; [exact E|]. split; [exact Hn'|]. split; [|exact Hk'].
      intros field x. rewrite Hs'. unfold last_num_from at 2. cbn [fold_left fst snd numval].
      rewrite (str_eqb_sym f field). destruct (str_eqb field f); reflexivity.
Qed.

Lemma nget_map_remove field id m :
  nget field (map (fun kv : str * list (Z * Z) => (fst kv, filter (fun p => negb (fst p =? id)) (snd kv))) m) =
  filter (fun p => negb (fst p =? id)) (nget field m).
Proof.
  unfold nget. induction m as [|[k vs] t IH]; cbn [map num_find fst snd]; [reflexivity|].
  destruct (str_eqb k field); [reflexivity|exact IH].
Qed.

Definition inv_num (s : mstate) (docs : list doc) : Prop :=
  (forall field, NoDup (map fst (nget field (m_num s)))) /\
  (forall field x, stored (nget field (m_num s)) x =
                   match dfind x docs with Some fl => last_num field fl | None => None end).

Lemma inv_num_step s docs o : inv_num s docs -> let '(s', docs') := hstep (s, docs) o in inv_num s' docs'.
Proof.
  intros [Hn Hs]. destruct o as [id fields|id]; cbn [hstep].
  - destruct (memz id (map fst docs)) eqn:Em; cbn [orb]; [split; assumption|].
    destruct (no_bad fields) eqn:Eb; cbn [negb]; [|split; assumption].
    unfold madd. assert (Eb' := Eb). unfold no_bad in Eb'. apply negb_true_iff in Eb'. rewrite Eb'.
    destruct (madd_fields_num fields {| m_all := set_add id (m_all s); m_cat := m_cat s; m_num := m_num s |} id Eb Hn)
      as (s' & E & Hn' & Hs' & _).
    rewrite E. cbn [fst]. split; [exact Hn'|].
    intros field x. rewrite Hs'. cbn [m_num]. rewrite !Hs, dfind_app, (dfind_none id docs Em).
    destruct (Z.eqb_spec x id) as [Ex|Ex].
    + subst x. rewrite (dfind_none id docs Em). unfold dfind. cbn [find fst snd]. rewrite Z.eqb_refl. reflexivity.
    + destruct (dfind x docs); [reflexivity|]. unfold dfind. cbn [find fst]. destruct (Z.eqb_spec id x); [congruence|reflexivity].
  - split.
    + intros field. cbn [mremove m_num]. rewrite nget_map_remove. apply nodup_filter_fst, Hn.
    + intros field x. cbn [mremove m_num]. rewrite nget_map_remove, stored_filter, Hs, dfind_filter.
      destruct (x =? id); reflexivity.
Qed.

Theorem inv_num_run ops : let '(s, docs) := hrun ops in inv_num s docs.
Proof.
  unfold hrun.
  assert (G : forall ops s docs, inv_num s docs -> let '(s', docs') := fold_left hstep ops (s, docs) in inv_num s' docs').
  { induction ops0 as [|o t IH]; intros s docs Hi; cbn [fold_left]; [exact Hi|].
    pose proof (inv_num_step s docs o Hi) as Hs. destruct (hstep (s, docs) o) as [s1 d1]. apply IH, Hs. }
  apply G. split; [intros; constructor|intros; reflexivity].
Qed.


(** every numeric value handed to Add fits an int64 (what Go's toInt64 produces) *)
Definition fields_int64 (fields : list (str * mvalue)) : Prop :=
  forall kv z, In kv fields -> numval (snd kv) = Some z -> int64 z.
Definition ops_int64 (ops : list hop) : Prop :=
  forall id fields, In (HAdd id fields) ops -> fields_int64 fields.

Definition inv_vals (s : mstate) : Prop := forall field, Forall int64 (map snd (nget field (m_num s))).

Lemma forall_filter_snd (vs : list (Z * Z)) (P : Z * Z -> bool) :
  Forall int64 (map snd vs) -> Forall int64 (map snd (filter P vs)).
Proof.
  induction vs as [|q t IH]; intros H; cbn [filter map]; [constructor|].
  cbn [map] in H. inversion H; subst. destruct (P q); [constructor; [assumption|apply IH; assumption]|apply IH; assumption].
Qed.

Lemma set_value_int64 vs id z : int64 z -> Forall int64 (map snd vs) -> Forall int64 (map snd (set_value id z vs)).
Proof.
  intros Hz H. unfold set_value. rewrite map_app. apply Forall_app. split; [apply forall_filter_snd, H|].
  constructor; [exact Hz|constructor].
Qed.

Lemma madd_fields_vals : forall fields s id, fields_int64 fields -> inv_vals s ->
  forall s' b, madd_fields s id fields = (s', b) -> inv_vals s'.
Proof.
  induction fields as [|[f v] t IH]; intros s id Hf Hi s' b E; cbn [madd_fields] in E.
  - inversion E; subst. exact Hi.
  - assert (Ht : fields_int64 t) by (intros kv z Hin; apply Hf; now right).
    assert (Hnum : forall z, int64 z -> inv_vals {| m_all := m_all s; m_cat := m_cat s; m_num := num_update f (set_value id z) (m_num s) |}).
    { intros z Hz field. cbn [m_num]. rewrite nget_update. destruct (str_eqb field f); [apply set_value_int64; [exact Hz|apply Hi]|apply Hi]. }
    destruct v as [x0|b0|z|bits|].
    + eapply IH; [exact Ht| |exact E]. intros field. apply Hi.
    + eapply IH; [exact Ht| |exact E]. intros field. apply Hi.
    + eapply IH; [exact Ht|apply Hnum|exact E]. apply (Hf (f, MInt z) z); [now left|reflexivity].
    + eapply IH; [exact Ht|apply Hnum|exact E]. apply (Hf (f, MFloat bits) (float_fix bits)); [now left|reflexivity].
    + inversion E; subst. exact Hi.
Qed.

Lemma inv_vals_step s docs o : (forall id fields, o = HAdd id fields -> fields_int64 fields) ->
  inv_vals s -> inv_vals (fst (hstep (s, docs) o)).
Proof.
  intros Ho Hi. destruct o as [id fields|id]; cbn [hstep].
  - destruct (_ || _); [exact Hi|]. cbn [fst]. unfold madd.
    destruct (existsb _ fields); [exact Hi|].
    destruct (madd_fields {| m_all := set_add id (m_all s); m_cat := m_cat s; m_num := m_num s |} id fields) as [s' b] eqn:E.
    cbn [fst]. eapply madd_fields_vals; [apply (Ho id fields eq_refl)| |exact E]. intros field. apply Hi.
  - cbn [fst]. intros field. cbn [mremove m_num]. rewrite nget_map_remove. apply forall_filter_snd, Hi.
Qed.

Theorem inv_vals_run ops : ops_int64 ops -> inv_vals (fst (hrun ops)).
Proof.
  unfold hrun.
  assert (G : forall ops st, (forall id fields, In (HAdd id fields) ops -> fields_int64 fields) -> inv_vals (fst st) ->
                            inv_vals (fst (fold_left hstep ops st))).
  { induction ops0 as [|o t IH]; intros [s docs] Ho Hi; cbn [fold_left]; [exact Hi|].
    apply IH; [intros id fields Hin; apply (Ho id fields); now right|].
    apply inv_vals_step; [|exact Hi]. intros id fields ->. apply (Ho id fields). now left. }
  intros Ho. apply G; [exact Ho|]. intros field. constructor.
Qed.

(** ---- THE REFINEMENT: after any history, every single filter selects exactly the documents of the
    document store that satisfy it ---- *)

(** what the document store says about one document and one filter, given whether the index treats
    the field as numeric (some document ever carried a numeric value under it) *)
Definition doc_num (docs : list doc) (field : str) (x : Z) : option Z :=
  match dfind x docs with Some fl => last_num field fl | None => None end.

Theorem filter_refines_document_store ops f r x :
  ops_int64 ops ->
  (forall z, f_num f = Some z -> int64 z) -> (forall z, f_num2 f = Some z -> int64 z) ->
  let '(s, docs) := hrun ops in
  match f_op f with OExists | ONotExists => False | _ => True end ->
  eval_filter s f = Some r ->
  memz x r =
  match num_find (f_field f) (m_num s) with
  | Some _ =>   (* numeric field: ordinary integer comparison on the stored value *)
      match doc_num docs (f_field f) x with
      | None => false
      | Some v =>
          match f_op f, f_num f, f_num2 f with
          | OEq, Some a, _ => v =? a
          | ONe, Some a, _ => negb (v =? a)
          | OGt, Some a, _ => a <? v
          | OGte, Some a, _ => a <=? v
          | OLt, Some a, _ => v <? a
          | OLte, Some a, _ => v <=? a
          | ORange, Some a, Some b => (a <=? v) && (v <=? b)
          | _, _, _ => false
          end
      end
  | None =>     (* categorical field: the document carries "field:value" *)
      match f_op f, f_list f with
      | OEq, _ => doc_has_key docs (key_of (f_field f) (f_str f)) x
      | ONe, _ => live docs x && negb (doc_has_key docs (key_of (f_field f) (f_str f)) x)
      | OIn, Some vals => existsb (fun v => doc_has_key docs (key_of (f_field f) v) x) vals
      | ONotIn, Some vals => live docs x && negb (existsb (fun v => doc_has_key docs (key_of (f_field f) v) x) vals)
      | _, _ => false
      end
  end.
Proof.
  intros Hops H1 H2.
  pose proof (inv_cat_run ops) as Hc. pose proof (inv_num_run ops) as Hn. pose proof (inv_vals_run ops Hops) as Hv.
  destruct (hrun ops) as [s docs]. cbn [fst] in Hv. destruct Hn as [Hnd Hst].
  intros Hop He. unfold eval_filter in He.
  destruct (f_op f) eqn:Eop; try contradiction;
    (destruct (num_find (f_field f) (m_num s)) as [vs|] eqn:Enf;
     [ (* numeric *)
       assert (Evs : vs = nget (f_field f) (m_num s)) by (unfold nget; rewrite Enf; reflexivity);
       pose proof (query_numeric_correct int64 bsi_ge_correct bsi_le_correct vs f r x) as Q;
       rewrite Evs in Q; specialize (Q (Hnd _) (Hv _) H1 H2); rewrite <- Evs in Q; specialize (Q He);
       rewrite Q; rewrite Evs, Hst; unfold doc_num; rewrite Eop; reflexivity
     | (* categorical *)
       rewrite (categorical_exact s docs f r x Hc He), Eop; reflexivity ]).
Qed.

(** boolean form of the int64 side condition, for concrete histories *)
Definition ops_int64b (ops : list hop) : bool :=
  forallb (fun o => match o with
                    | HAdd _ fields => forallb (fun kv => match numval (snd kv) with
                                                          | Some z => (- two63 <=? z) && (z <? two63) | None => true end) fields
                    | HRemove _ => true end) ops.
Lemma ops_int64b_sound ops : ops_int64b ops = true -> ops_int64 ops.
Proof.
  unfold ops_int64b, ops_int64, fields_int64. intros H id fields Hin kv z Hkv Hz.
  rewrite forallb_forall in H. specialize (H _ Hin). cbn in H. rewrite forallb_forall in H. specialize (H _ Hkv).
  rewrite Hz in H. apply andb_true_iff in H. destruct H as [H1 H2]. apply Z.leb_le in H1. apply Z.ltb_lt in H2.
  unfold int64, two63 in *. lia.
Qed.
