(** Correspondence checkers for the serialisation formats (C07, C16). *)
From Coq Require Import ZArith List Bool.
From Comet Require Import Base.FBits Base.Parse Check.Common Model.Format Model.Distance Model.VecIndex Model.Codecs.
From Comet Require Import Check.VecHist.
Import ListNotations.
Open Scope Z_scope.

(** receiver specification: 0..3 exhaustive vector kinds (params), 4 hnsw, 5 bm25, 6 metadata,
    7 hybrid (hasV [vector spec] hasT hasM) *)
Definition pvecfmt : P fmt :=
  ck <- pz ;;
  if ck <=? 3 then (p <- pparams ;; ret (fmt_vec p))
  else (d <- pz ;; m <- pz ;; mm <- pz ;; efc <- pz ;; efs <- pz ;;
        ret (fmt_hnsw {| h_dim := d; h_metric := metric_of_Z m; h_M := mm; h_efc := efc; h_efs := efs |})).

Definition pfmt : P fmt :=
  ck <- pz ;;
  if ck <=? 3 then (p <- pparams ;; ret (fmt_vec p))
  else if ck =? 4 then
    (d <- pz ;; m <- pz ;; mm <- pz ;; efc <- pz ;; efs <- pz ;;
     ret (fmt_hnsw {| h_dim := d; h_metric := metric_of_Z m; h_M := mm; h_efc := efc; h_efs := efs |}))
  else if ck =? 5 then ret fmt_bm25
  else if ck =? 6 then ret fmt_meta
  else (hv <- pbool ;;
        vf <- (if hv then (f <- pvecfmt ;; ret (Some f)) else ret None) ;;
        ht <- pbool ;; hm <- pbool ;;
        ret (fmt_hybrid vf ht hm)).

(** 701: one read.  receiver, stream, expectation (0 = valid stream followed by [extra] sentinel
    bytes, 1 = must be rejected), extra, Go: err flag (2 = panic), bytes reported, bytes consumed *)
Definition chk_read : P (list Z) :=
  f <- pfmt ;; s <- pzs ;; expect <- pz ;; extra <- pz ;; gerr <- pz ;; gn <- pz ;; gcons <- pz ;;
  let len := Z.of_nat (length s) in
  match decode f s with
  | Some (v, r) =>
      let used := len - Z.of_nat (length r) in
      let exact := (gerr =? 0) && (gn =? used) && (gcons =? used) in
      let specb := if expect =? 0 then (gerr =? 0) && (gn =? len - extra) && (gcons =? len - extra)
                   else negb (gerr =? 0) in
      ret (verdict (exact && specb) specb [0; used])
  | None =>
      let exact := (gerr =? 1) in
      let specb := if expect =? 0 then false else (gerr =? 1) in
      ret (verdict (exact && specb) specb [1])
  end.

(** 704: every strict prefix of a valid stream. receiver, stream, Go flag per prefix length
    0..len-1 (1 = error, 0 = success, 2 = panic/hang), number of prefixes after which the
    receiver answered a probe differently *)
Definition chk_prefixes : P (list Z) :=
  f <- pfmt ;; s <- pzs ;; flags <- pzs ;; changed <- pz ;;
  let n := length s in
  let model_all_fail := forallb (fun i => match decode f (firstn i s) with None => true | Some _ => false end) (seq 0 n) in
  let model_full_ok := match decode f s with Some (_, []) => true | _ => false end in
  let go_all_fail := (length flags =? n)%nat && forallb (fun x => x =? 1) flags in
  ret (verdict (model_all_fail && model_full_ok && go_all_fail && (changed =? 0))
               (go_all_fail && (changed =? 0)) [if model_all_fail then 1 else 0; if model_full_ok then 1 else 0]).

(** 703: implementation-only observation (reload equivalence, byte counts): number of queries whose
    answer differed after reload, write count - stream length, read count - stream length *)
Definition chk_reload_equiv : P (list Z) :=
  ck <- pz ;; nq <- pz ;; diffs <- pz ;; dw <- pz ;; dr <- pz ;; src_changed <- pz ;; had_deleted <- pz ;;
  let ok := (diffs =? 0) && (dw =? 0) && (dr =? 0) in
  if ok && (src_changed =? 1) && (had_deleted =? 1) && (ck =? 5) then
    (* known finding C07/1: BM25.WriteTo flushes soft-deleted documents, so N / df / avgdl and hence
       the scores returned by the SOURCE change (the id sets do not) *)
    ret (v_known 1)
  else if ok && (src_changed =? 1) && (had_deleted =? 1) && (ck =? 4) then
    (* known finding C07/2: HNSW.WriteTo flushes, which rewires the graph of the source *)
    ret (v_known 2)
  else
    let ok := ok && (src_changed =? 0) in
    ret (verdict ok ok [diffs; dw; dr; src_changed]).
