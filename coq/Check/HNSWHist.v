(** History checker for the HNSW index (C12; C02 / C06 HNSW part). *)
From Coq Require Import ZArith List Bool.
From Comet Require Import Base.FBits Base.Parse Base.Sorting Check.Common.
From Comet Require Import Model.Distance Model.Limiter Model.Aggregation Model.KMeans Model.VecIndex Model.HNSW.
From Comet Require Import Check.VecHist.
Import ListNotations.
Open Scope Z_scope.

Inductive hop :=
| HAdd (id : Z) (v : vec) (level elected : Z) (err : Z)
| HRemove (id : Z) (err : Z)
| HFlush (elected : Z)
| HSearch (rq : request) (ef : Z) (err : Z) (out : list (Z * Z))
| HDump (entry maxl : Z) (nodes : list hnode) (del : list Z).

Definition phnode : P hnode :=
  id <- pz ;; lv <- pz ;; v <- pvec ;; es <- plist pzs ;;
  ret {| n_id := id; n_level := lv; n_vec := v; n_edges := es |}.

Definition phop : P hop :=
  t <- pz ;;
  if t =? 1 then (id <- pz ;; v <- pvec ;; lv <- pz ;; el <- pz ;; e <- pz ;; ret (HAdd id v lv el e))
  else if t =? 2 then (id <- pz ;; e <- pz ;; ret (HRemove id e))
  else if t =? 3 then (el <- pz ;; ret (HFlush el))
  else if t =? 4 then (rq <- prequest ;; ef <- pz ;; e <- pz ;; out <- ppairs ;; ret (HSearch rq ef e out))
  else if t =? 6 then (en <- pz ;; ml <- pz ;; ns <- plist phnode ;; del <- pzs ;; ret (HDump en ml ns del))
  else (fun _ => None).

Definition node_eqb (a b : hnode) : bool :=
  (n_id a =? n_id b) && (n_level a =? n_level b) && veceq (n_vec a) (n_vec b) &&
  list_eqb_by list_eqb (n_edges a) (n_edges b).
Definition sort_nodes (l : list hnode) : list hnode := isort (fun n => n_id n) l.
Definition hstate_eqb (s : HNSW.hstate) (entry maxl : Z) (nodes : list hnode) (del : list Z) : bool :=
  (hs_entry s =? entry) && (hs_maxlevel s =? maxl) && seteqz (hs_deleted s) del &&
  list_eqb_by node_eqb (sort_nodes (hs_nodes s)) (sort_nodes nodes).

Record hh := {
  hh_model : HNSW.hstate; hh_live : list (Z * vec); hh_i : Z; hh_weak : Z;
  hh_tainted : bool;        (* an unstable sort met equal distances: the model may have diverged *)
  hh_peak : Z;              (* most vertices resident at once since the index was last empty or flushed *)
  hh_found : list Z;
  hh_div : option (list Z) }.  (* the implementation's graph stopped being the model's (first place); the model then follows the implementation and only the property's own clauses decide *)

(** the structure the property demands: every resident vertex reachable from the entry point *)
Definition all_reachable (s : HNSW.hstate) : bool :=
  let r := reachable0 s in forallb (fun n => memz (n_id n) r) (hs_nodes s).

(** ... and from every other resident vertex: a search leaves the entry point on its way down through the
    upper layers, and on the bottom layer it only finds what can be reached from where it landed *)
Definition reachable0_from (s : HNSW.hstate) (u : Z) : list Z :=
  match hs_nodes s with [] => [] | _ => reach (S (length (hs_nodes s))) s [u] [u] end.
Definition strongly_connected0 (s : HNSW.hstate) : bool :=
  forallb (fun u => let r := reachable0_from s (n_id u) in forallb (fun n => memz (n_id n) r) (hs_nodes s)) (hs_nodes s).

Definition hstep (cfg : hcfg) (h : hh) (o : hop) : hh + list Z :=
  let s := hh_model h in
  let mk s' live w t peak found :=
      inl {| hh_model := s'; hh_live := live; hh_i := hh_i h + 1; hh_weak := hh_weak h + w;
             hh_tainted := t; hh_peak := peak; hh_found := found; hh_div := hh_div h |} in
  match o with
  | HAdd id v level elected err =>
      let '(s', e, tie) := hadd cfg s id v level elected in
      if e =? err then
        let live' := if e =? 0 then match preprocess (hc_metric cfg) v with
                                    | Some w => filter (fun lv => negb (fst lv =? id)) (hh_live h) ++ [(id, w)]
                                    | None => hh_live h end
                     else hh_live h in
        let n := Z.of_nat (length (hs_nodes s')) in
        mk s' live' 0 (hh_tainted h || tie) (if deleted s id || deleted s (hs_entry s) then n else Z.max (hh_peak h) n) (hh_found h)
      else inr (verdict false (Bool.eqb (e =? 0) (err =? 0)) [hh_i h; e])
  | HRemove id err =>
      let '(s', e) := hremove s id in
      if e =? err then mk s' (if e =? 0 then filter (fun lv => negb (fst lv =? id)) (hh_live h) else hh_live h)
                          0 (hh_tainted h) (hh_peak h) (hh_found h)
      else inr (verdict false (Bool.eqb (e =? 0) (err =? 0)) [hh_i h; e])
  | HFlush elected =>
      if hh_tainted h then mk (hflush s elected) (hh_live h) 0 true (Z.of_nat (length (hs_nodes (hflush s elected)))) (hh_found h)
      else if election_ok s elected
      then mk (hflush s elected) (hh_live h) 0 false (Z.of_nat (length (hs_nodes (hflush s elected)))) (hh_found h)
      else inr (v_violation [hh_i h; -3; elected])
  | HDump entry maxl nodes del =>
      let s_impl := {| hs_nodes := nodes; hs_deleted := del; hs_entry := entry; hs_maxlevel := maxl |} in
      let found' := if all_reachable s_impl || memz 1 (hh_found h) then hh_found h else 1 :: hh_found h in
      if hstate_eqb s entry maxl nodes del then mk s (hh_live h) 0 false (hh_peak h) found'
      else if hh_tainted h then
        (* resynchronise on the implementation's graph after an order-dependent step *)
        mk s_impl (hh_live h) 1 false (hh_peak h) found'
      else if all_reachable s && negb (all_reachable s_impl) then
        (* the reachability clause itself, on the implementation's own graph: a resident vertex is cut
           off from the entry point although the unchanged algorithm (the model) keeps every vertex
           reachable at this point of the history *)
        inr (v_violation [hh_i h; -7; hs_entry s_impl])
      else
        (* the graphs differ but the structure clause still holds: follow the implementation and let
           the non-emptiness / exactness clauses look for a failing query *)
        inl {| hh_model := s_impl; hh_live := hh_live h; hh_i := hh_i h + 1; hh_weak := hh_weak h;
               hh_tainted := false; hh_peak := hh_peak h; hh_found := hh_found h;
               hh_div := match hh_div h with Some d => Some d | None => Some [hh_i h; -6; hs_entry s; hs_maxlevel s] end |}
  | HSearch rq ef err out =>
      let out := canon32_pairs out in
      match hexecute cfg s rq ef with
      | Err e => if e =? err then mk s (hh_live h) 0 (hh_tainted h) (hh_peak h) (hh_found h)
                 else inr (verdict false (negb (err =? 0)) [hh_i h; e])
      | Ok xo =>
          let p := {| p_kind := KFlat; p_dim := hc_dim cfg; p_metric := hc_metric cfg; p_nlist := 1; p_M := 1; p_nbits := 1 |} in
          let single := match r_queries rq, r_nodes rq with
                        | [q], [] => preprocess (hc_metric cfg) q | _, _ => None end in
          let efs := if ef <=? 0 then hc_efs cfg else ef in
          let small := (hh_peak h <=? 2 * hc_M cfg) && (hh_peak h <=? hc_efc cfg) && (hh_peak h <=? efs) in
          let plain := match r_docids rq with [] => negb (F32.gtb (r_thr rq) F32.zero) | _ => false end in
          let sound := sound_results p (hh_live h) None rq single out in
          let found_ok :=
                        (* non-empty while a live vector exists *)
                        (match single with
                         | Some _ => negb plain || (match hh_live h with [] => true | _ => negb (match out with [] => true | _ => false end) end)
                         | None => true end) &&
                        (* exact while small *)
                        (match single with
                         | Some pq => negb small || complete_results p (hh_live h) rq pq out
                         | None => true end) in
          let snd_ok := sound && found_ok in
          (* a live vertex that is missed while the graph (identical in model and implementation) has a
             resident vertex unreachable through the bottom layer is the listed finding (nearest-M
             pruning / Flush without reconnecting), seen through the non-emptiness or exactness clause *)
          (* ... the second listed finding: every vertex can be reached from the entry point, but not from the
             vertex the descent lands on (Flush / the purge inside Add drop the edges INTO a vertex with its
             removed neighbours and reconnect nothing): that vertex -- the entry point itself, typically -- is missed *)
          let missed v := if sound && match hh_div h with None => true | Some _ => false end
                          then (if negb (all_reachable s) then v_known 1
                                else if negb (strongly_connected0 s) then v_known 2 else v)
                          else v in
          if negb (err =? 0) then inr (verdict false false [hh_i h; 0])
          else match xo_n xo with
               | None => inr (verdict false snd_ok [hh_i h; E_PANIC])
               | Some n =>
                   if hh_tainted h || (xo_tie xo && negb (xo_single xo)) then
                     (if snd_ok then mk s (hh_live h) 1 (hh_tainted h) (hh_peak h) (hh_found h)
                      else inr (if hh_tainted h then v_violation [hh_i h; -1] else missed (v_violation [hh_i h; -1])))
                   else if match_results (if xo_single xo then xo_aggfull xo else xo_agg xo) n out then
                     (if snd_ok then mk s (hh_live h) 0 false (hh_peak h) (hh_found h)
                      else inr (missed (v_violation (hh_i h :: -2 :: flatten_pairs (firstn n (xo_agg xo))))))
                   else if snd_ok then
                     inl {| hh_model := s; hh_live := hh_live h; hh_i := hh_i h + 1; hh_weak := hh_weak h;
                            hh_tainted := hh_tainted h; hh_peak := hh_peak h; hh_found := hh_found h;
                            hh_div := match hh_div h with Some d => Some d
                                      | None => Some (hh_i h :: 0 :: flatten_pairs (firstn n (xo_agg xo))) end |}
                   else inr (verdict false false (hh_i h :: 0 :: flatten_pairs (firstn n (xo_agg xo))))
               end
      end
  end.

Fixpoint hrun (cfg : hcfg) (h : hh) (ops : list hop) : list Z :=
  match ops with
  | [] => match hh_div h, hh_found h with
          | Some d, _ => v_diverge d
          | None, k :: _ => [3; k]
          | None, [] => if hh_weak h =? 0 then v_ok else [0; hh_weak h]
          end
  | o :: t => match hstep cfg h o with inl h' => hrun cfg h' t | inr v => v end
  end.

(** 1200: dim metric M efConstruction efSearch, ops *)
Definition chk_hnswhist : P (list Z) :=
  d <- pz ;; m <- pz ;; mm <- pz ;; efc <- pz ;; efs <- pz ;; ops <- plist phop ;;
  let cfg := {| hc_dim := d; hc_metric := metric_of_Z m; hc_M := mm; hc_efc := efc; hc_efs := efs |} in
  ret (hrun cfg {| hh_model := hinit; hh_live := []; hh_i := 0; hh_weak := 0; hh_tainted := false; hh_peak := 0; hh_found := []; hh_div := None |} ops).
