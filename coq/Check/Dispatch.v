(** One entry point for the correspondence: checker id -> case -> verdict. *)
From Coq Require Import ZArith List Bool.
From Comet Require Import Base.Parse Check.C19 Check.C18 Check.VecHist Check.Codec Check.BM25Hist Check.MetaHist Check.HybridHist Check.StoreHist Check.LockHist Check.HNSWHist Check.C20 Check.C15 Check.ConcHist.
Import ListNotations.
Open Scope Z_scope.

Definition dispatch (id : Z) (s : list Z) : list Z :=
  if id =? 1901 then run_P chk_limit s
  else if id =? 1902 then run_P chk_autocut s
  else if id =? 1903 then run_P chk_autocut_results s
  else if id =? 1904 then run_P (chk_agg true) s
  else if id =? 1905 then run_P (chk_agg false) s
  else if id =? 1906 then run_P chk_fusion s
  else if id =? 1907 then run_P chk_merge s
  else if id =? 1908 then run_P chk_ranks s
  else if id =? 1801 then run_P chk_dist s
  else if id =? 1802 then run_P chk_batch s
  else if id =? 1803 then run_P chk_preprocess s
  else if id =? 1804 then run_P chk_helpers s
  else if id =? 1805 then run_P chk_cmp32 s
  else if id =? 1806 then run_P chk_triangle s
  else if id =? 200 then run_P chk_vechist s
  else if id =? 701 then run_P chk_read s
  else if id =? 703 then run_P chk_reload_equiv s
  else if id =? 704 then run_P chk_prefixes s
  else if id =? 300 then run_P chk_bm25hist s
  else if id =? 400 then run_P chk_metahist s
  else if id =? 401 then run_P chk_bsi s
  else if id =? 402 then run_P chk_ctor s
  else if id =? 500 then run_P chk_hybridhist s
  else if id =? 501 then run_P chk_hnsw_hybrid s
  else if id =? 800 then run_P chk_storehist s
  else if id =? 801 then run_P chk_store_hnsw s
  else if id =? 1001 then run_P chk_flush_race s
  else if id =? 1700 then run_P chk_lockhist s
  else if id =? 1701 then run_P chk_close_order s
  else if id =? 1200 then run_P chk_hnswhist s
  else if id =? 2001 then run_P chk_kmeans s
  else if id =? 2002 then run_P chk_quant s
  else if id =? 2003 then run_P chk_train_twice s
  else if id =? 1500 then run_P chk_recall s
  else if id =? 1501 then run_P chk_order s
  else if id =? 1100 then run_P chk_conchist s
  else if id =? 1101 then run_P chk_pick_schedule s
  else if id =? 1102 then run_P chk_readonly s
  else if id =? 1103 then run_P chk_contended s
  else if id =? 1104 then run_P chk_update_visible s
  else [8].

(** used by cases.v: the list of case numbers whose verdict is not OK *)
Fixpoint mismatches_from (n : Z) (cases : list (Z * list Z)) : list (Z * list Z) :=
  match cases with
  | [] => []
  | (id, s) :: t =>
      let v := dispatch id s in
      match v with
      | 0 :: _ => mismatches_from (n + 1) t
      | _ => (n, v) :: mismatches_from (n + 1) t
      end
  end.
Definition mismatches := mismatches_from 0.
