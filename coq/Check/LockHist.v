(** Checker for the directory ownership protocol (C17). *)
From Coq Require Import ZArith List Bool.
From Comet Require Import Base.Parse Check.Common Model.Lock.
Import ListNotations.
Open Scope Z_scope.

Inductive lop :=
| LOpen (h code : Z) (lockafter : bool)
| LClose (h code : Z) (lockafter : bool)
| LUse (h code : Z)
| LRace (hs codes : list Z) (lockafter : bool)
| LFailOpen (code : Z) (lockleft : bool)
| LExtOpen (h code : Z) (lockafter : bool)
| LScanFail (h code : Z) (lockafter : bool)    (* an open whose directory scan is made to fail *)
| LCloseRace (h : Z) (closes uses : list Z) (lockafter : bool)
| LDirChanged (h : Z)    (* a FAILED open left the directory different from what it was *)
| LOpenAny (h code : Z) (lockafter : bool).
(* LOpenAny: an open with an arbitrary configuration (extreme thresholds, missing templates): it may be
   refused -- for any reason -- but then it leaves the directory's ownership exactly as it was; if it
   succeeds the directory was free and is now owned *)
(* LCloseRace: several goroutines call Close on the same handle at once while others use it
   (codes: 0 ok, 3 "closed" error, 12 panic) *)

Definition plop : P lop :=
  t <- pz ;;
  if t =? 1 then (h <- pz ;; c <- pz ;; l <- pbool ;; ret (LOpen h c l))
  else if t =? 2 then (h <- pz ;; c <- pz ;; l <- pbool ;; ret (LClose h c l))
  else if t =? 3 then (h <- pz ;; c <- pz ;; ret (LUse h c))
  else if t =? 4 then (hs <- pzs ;; cs <- pzs ;; l <- pbool ;; ret (LRace hs cs l))
  else if t =? 5 then (c <- pz ;; l <- pbool ;; ret (LFailOpen c l))
  else if t =? 6 then (h <- pz ;; c <- pz ;; l <- pbool ;; ret (LExtOpen h c l))
  else if t =? 7 then (h <- pz ;; c <- pz ;; l <- pbool ;; ret (LScanFail h c l))
  else if t =? 8 then (h <- pz ;; cs <- pzs ;; us <- pzs ;; l <- pbool ;; ret (LCloseRace h cs us l))
  else if t =? 9 then (h <- pz ;; ret (LDirChanged h))
  else if t =? 10 then (h <- pz ;; c <- pz ;; l <- pbool ;; ret (LOpenAny h c l))
  else (fun _ => None).

(** a complete open attempt of the model: try the lock, then scan (which succeeds) *)
Definition model_open (s : lstate) (h : Z) : lstate * Z :=
  let '(s1, c) := lstep s (ETryLock h) in
  if c =? 0 then lstep s1 (EScan h true) else (s1, c).
Definition model_open_scanfail (s : lstate) (h : Z) : lstate * Z :=
  let '(s1, c) := lstep s (ETryLock h) in
  if c =? 0 then lstep s1 (EScan h false) else (s1, c).
Definition model_close (s : lstate) (h : Z) : lstate * Z :=
  let '(s1, c) := lstep s (ECloseFlag h) in
  if c =? 0 then lstep s1 (ERelease h) else (s1, c).

Fixpoint lcheck (s : lstate) (i : Z) (ops : list lop) : list Z :=
  match ops with
  | [] => v_ok
  | o :: t =>
      match o with
      | LOpen h code la =>
          let '(s', c) := model_open s h in
          if (c =? code) && Bool.eqb (lock s') la then lcheck s' (i + 1) t
          else v_violation [i; c; if lock s' then 1 else 0]
      | LOpenAny h code la =>
          if code =? 0 then
            let '(s', c) := model_open s h in
            if (c =? 0) && Bool.eqb (lock s') la then lcheck s' (i + 1) t
            else v_violation [i; c; if lock s' then 1 else 0]
          else if Bool.eqb (lock s) la then lcheck s (i + 1) t
          else v_violation [i; code; if lock s then 1 else 0]
      | LExtOpen h code la =>
          (* another process: it opens, and if that succeeds closes again before exiting *)
          let '(s1, c) := model_open s h in
          let s' := if c =? 0 then fst (model_close s1 h) else s1 in
          if (c =? code) && Bool.eqb (lock s') la then lcheck s' (i + 1) t
          else v_violation [i; c; if lock s' then 1 else 0]
      | LScanFail h code la =>
          let '(s', c) := model_open_scanfail s h in
          if (c =? code) && Bool.eqb (lock s') la then lcheck s' (i + 1) t
          else v_violation [i; c; if lock s' then 1 else 0]
      | LClose h code la =>
          let '(s', c) := model_close s h in
          if (c =? code) && Bool.eqb (lock s') la then lcheck s' (i + 1) t
          else v_violation [i; c; if lock s' then 1 else 0]
      | LUse h code =>
          let '(s', c) := lstep s (EUse h) in
          if c =? code then lcheck s' (i + 1) t else v_violation [i; c]
      | LRace hs codes la =>
          (* any interleaving: exactly one winner iff the directory was free, none otherwise; the
             model is advanced with the winner first *)
          let winners := filter (fun hc => snd hc =? 0) (combine hs codes) in
          let losers_ok := forallb (fun hc => (snd hc =? 0) || (snd hc =? 1)) (combine hs codes) in
          let expected := if lock s then 0%nat else 1%nat in
          if negb ((length winners =? expected)%nat && losers_ok && Bool.eqb la true && (length hs =? length codes)%nat)
          then v_violation [i; Z.of_nat (length winners)]
          else
            let s1 := fold_left (fun s hc => fst (model_open s (fst hc))) winners s in
            let s2 := fold_left (fun s hc => if snd hc =? 0 then s else fst (model_open s (fst hc))) (combine hs codes) s1 in
            lcheck s2 (i + 1) t
      | LCloseRace h closes uses la =>
          (* whatever the interleaving: Close takes effect exactly once (one nil, every other call the
             "closed" error, none if the handle was closed before), every racing operation either
             succeeds or fails with the "closed" error, nothing panics, and the lock ends released *)
          let '(s', c) := model_close s h in
          let nok := length (filter (fun x => x =? 0) closes) in
          let expected := if c =? 0 then 1%nat else 0%nat in
          if (nok =? expected)%nat && forallb (fun x => (x =? 0) || (x =? 3)) closes &&
             forallb (fun x => (x =? 3) || ((c =? 0) && (x =? 0))) uses && Bool.eqb (lock s') la
          then lcheck s' (i + 1) t
          else v_violation [i; Z.of_nat nok; if lock s' then 1 else 0]
      | LDirChanged h => v_violation [i; -15; h]     (* "fails without modifying the directory" *)
      | LFailOpen code lockleft =>
          if negb (code =? 0) && negb lockleft then lcheck s (i + 1) t else v_violation [i; code]
      end
  end.

(** 1700: ops *)
Definition chk_lockhist : P (list Z) := ops <- plist plop ;; ret (lcheck linit 0 ops).

(** 1701: the order of a Close with background work pending.  pending memtables, segment files present
    at the instant the LOCK file was seen to be gone, segment files present when Close returned, result
    code of Close, LOCK present afterwards.  Ownership is released last: whatever the handle still
    writes, it writes while it holds the lock -- so nothing appears in the directory after the lock
    has gone, the Close succeeds and everything pending has been written. *)
Definition chk_close_order : P (list Z) :=
  pending <- pz ;; at_unlock <- pz ;; at_end <- pz ;; code <- pz ;; la <- pbool ;;
  let ok := (code =? 0) && negb la && (at_unlock =? at_end) && (pending <=? at_end) in
  ret (verdict ok ok [at_unlock; at_end]).
