(** Correspondence checkers for C19 (post-processing). Input = inputs ++ impl observable. *)
From Coq Require Import ZArith List Bool.
From Comet Require Import Base.FBits Base.Parse Base.Sorting Check.Common.
From Comet Require Import Model.Limiter Model.Aggregation Model.Fusion Model.XSort.
Import ListNotations.
Open Scope Z_scope.

(** 1901: LimitResults.  k, ids in, ids out *)
Definition chk_limit : P (list Z) :=
  k <- pz ;; ins <- pzs ;; outs <- pzs ;;
  let m := limit ins k in
  ret (verdict (list_eqb m outs) false (m)).

(** 1902: Autocut. ys, cutoff, impl index (-1 = panic) *)
Definition chk_autocut : P (list Z) :=
  ys <- pzs ;; c <- pz ;; r <- pz ;;
  let n := Z.of_nat (length ys) in
  let m := match autocut ys c with Cut i => i | CutPanic => -1 end in
  ret (verdict (m =? r) ((0 <=? r) && (r <=? n)) [m]).

(** 1903: AutocutResults. (id,score) list, cutoff, panic flag, ids out *)
Definition chk_autocut_results : P (list Z) :=
  l <- ppairs ;; c <- pz ;; pan <- pbool ;; outs <- pzs ;;
  let ids := map fst l in
  let specb := negb pan && list_eqb outs (firstn (length outs) ids)
               && (negb (c =? -1) || list_eqb outs ids) in
  match autocut_results l c with
  | Some m => ret (verdict (negb pan && list_eqb (map fst m) outs) specb (map fst m))
  | None => ret (verdict pan specb [-1])
  end.

(** spec of aggregation, evaluated on the implementation's output *)
Definition agg_specb (k : agg_kind) (vecflavour : bool) (ins outs : list (Z * Z)) : bool :=
  let ids := map fst outs in
  nodupz ids && seteqz ids (map fst ins) &&
  pairs_close (close32 64) outs (canon32_pairs (agg_scores k ins)) &&
  (if vecflavour then asc32 (map snd outs) else desc32 (map snd outs)).

(** 1904 / 1905: vector / text aggregation. kind, in pairs, out pairs, input-mutated flag *)
Definition chk_agg (vecflavour : bool) : P (list Z) :=
  kz <- pz ;; ins <- ppairs ;; outs <- ppairs ;; mut <- pbool ;;
  let k := agg_of_Z kz in
  let outs := canon32_pairs outs in
  let m := canon32_pairs (if vecflavour then aggregate_vec k ins else aggregate_txt k ins) in
  let order_ok := if vecflavour then asc32 (map snd outs) else desc32 (map snd outs) in
  ret (verdict (negb mut && same_pairs m outs && order_ok)
               (negb mut && agg_specb k vecflavour ins outs) (flatten_pairs m)).

(** RRF with ties: each score must be explainable by SOME admissible rank per modality *)
Definition rank_range (ascending : bool) (m : smap) (id : Z) : option (Z * Z) :=
  match lookup id m with
  | None => None
  | Some s =>
      (* a NaN score compares false against everything: the exchange sort leaves it wherever the map
         order put it, and the other scores are ordered among the remaining positions *)
      let nans := filter (fun p => F64.is_nan (snd p)) m in
      if F64.is_nan s then Some (0, Z.of_nat (length m) - 1) else
      let better := filter (fun p => if ascending then F64.ltb (snd p) s else F64.gtb (snd p) s) m in
      let equal := filter (fun p => F64.eqb (snd p) s) m in
      Some (Z.of_nat (length better), Z.of_nat (length better + length equal + length nans) - 1)
  end.
Definition zrange (lo hi : Z) : list Z := map (fun i => lo + Z.of_nat i) (seq 0 (Z.to_nat (hi - lo + 1))).
Definition rrf_candidates (k : Z) (v t : smap) (id : Z) : list Z :=
  let tv := match rank_range true v id with
            | Some (lo, hi) => map (fun r => Some (rrf_term k r)) (zrange lo hi) | None => [None] end in
  let tt := match rank_range false t id with
            | Some (lo, hi) => map (fun r => Some (rrf_term k r)) (zrange lo hi) | None => [None] end in
  flat_map (fun a => flat_map (fun b =>
     match a, b with
     | Some x, Some y => [F64.add x y]
     | Some x, None => [x]
     | None, Some y => [y]
     | None, None => []
     end) tt) tv.
Definition rrf_specb (k : Z) (v t outs : smap) : bool :=
  let ids := map fst outs in
  nodupz ids && subsetz (map fst v ++ map fst t) ids && subsetz ids (map fst v ++ map fst t) &&
  forallb (fun p => existsb (fun c => F64.canon c =? snd p) (rrf_candidates k v t (fst p))) outs.

Definition has_ties (m : smap) : bool := negb (nodupz (map (fun p => F64.key (snd p)) m))
  || existsb (fun p => F64.is_nan (snd p)) m.

(** 1906: fusion. kind, vw, tw, K, vec map, text map, out map, mutated flag *)
Definition chk_fusion : P (list Z) :=
  kz <- pz ;; vw <- pz ;; tw <- pz ;; kk <- pz ;; v <- ppairs ;; t <- ppairs ;;
  outs <- ppairs ;; mut <- pbool ;;
  let kind := fusion_of_Z kz in
  let outs := canon64_pairs outs in
  let m := canon64_pairs (fuse kind vw tw kk v t) in
  let exact := match kind with
               | FRRF => if has_ties v || has_ties t then rrf_specb kk v t outs else same_pairs m outs
               | _ => same_pairs m outs
               end in
  let specb := nodupz (map fst outs) && seteqz (map fst outs) (map fst m) &&
               match kind with FRRF => rrf_specb kk v t outs
                          | _ => pairs_close (close64 16) outs m end in
  ret (verdict (negb mut && exact) (negb mut && specb) (flatten_pairs m)).

(** 1907: mergeResults. in pairs (float64), out pairs *)
Definition chk_merge : P (list Z) :=
  ins <- ppairs ;; outs <- ppairs ;;
  let m := canon64_pairs (merge_results ins) in
  ret (verdict (same_pairs m (canon64_pairs outs)) false (flatten_pairs m)).

(** 1908: scoreMapToRanks (the ranking step of reciprocal-rank fusion). ascending flag, (id, score)
    pairs, (id, rank) pairs.  Ranks are the positions 0..n-1 of a best-first ordering: a bijection
    onto 0..n-1 in which a strictly better score always has the smaller rank (equal scores may take
    their positions in any order, but never share one). *)
Definition chk_ranks : P (list Z) :=
  asc <- pbool ;; scores <- ppairs ;; ranks <- ppairs ;;
  let n := Z.of_nat (length scores) in
  let better (a b : Z) := if asc then F64.ltb a b else F64.gtb a b in
  let rank_of (id : Z) := match find (fun p => fst p =? id) ranks with Some p => snd p | None => -1 end in
  let ok :=
      (length ranks =? length scores)%nat && nodupz (map fst ranks) && seteqz (map fst ranks) (map fst scores) &&
      nodupz (map snd ranks) && forallb (fun p => (0 <=? snd p) && (snd p <? n)) ranks &&
      forallb (fun a => forallb (fun b => negb (better (snd a) (snd b)) || (rank_of (fst a) <? rank_of (fst b))) scores) scores in
  (* without ties or NaN the result does not depend on the iteration order: it must then be exactly what
     the exchange sort of Model/XSort.v (proved best-first for every order in Proofs/XSortP.v) produces *)
  let exact := ok && (has_ties scores || same_pairs (xranks asc scores) ranks) in
  ret (verdict exact ok [n]).

Definition run_P (p : P (list Z)) (s : list Z) : list Z :=
  match run_parser p s with Some v => v | None => v_parse end.
