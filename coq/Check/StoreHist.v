(** History checker for the persistent store (C08, C09, C10): the implementation is compared with
    the FAITHFUL model (Model.Store) and judged against the specification (one in-memory hybrid
    index holding exactly the acknowledged live documents). *)
From Coq Require Import ZArith List Bool.
From Comet Require Import Base.FBits Base.Parse Base.Sorting Check.Common.
From Comet Require Import Model.Distance Model.Limiter Model.Aggregation Model.Fusion Model.KMeans Model.VecIndex.
From Comet Require Import Model.BM25 Model.BSI Model.Metadata Model.Hybrid Model.Store.
From Comet Require Import Check.VecHist Check.BM25Hist Check.MetaHist Check.HybridHist.
Import ListNotations.
Open Scope Z_scope.

Inductive stop :=
| SAdd (id : Z) (v : vec) (toks : option (list Z)) (fields : list (str * mvalue)) (textlen : Z) (hasvec : bool) (err : Z)
| SRemove (id : Z) (err : Z)
| SFlush (err : Z)
| SSearch (rq : hyrequest) (err : Z) (out : list (Z * Z))
| SRotate
| SCompact (err : Z)
| SEvict
| SClose (err : Z)
| SReopen (crash : Z) (listing : list (Z * (Z * Z * Z * Z))) (err : Z)
| SObserve (segs : list (Z * Z)) (nmem : Z)
| SHolders (gap : Z)     (* during the preceding Flush: min over its hook points of (#queued memtables + #registered segments) minus the value at its start *)
| SCompactFiles (lost : Z)  (* during the preceding compaction: segment files that existed at its start and were gone before the merged segment was registered *)
| SInFlight (compact : bool)
| SFlushFail (err : Z)   (* a Flush during which the creation of the next segment's first file is made to fail *)
| STrainT (vs : list vec) (err : Z).   (* the freshly constructed vector template of this session is trained before the store is opened *)

Definition pfst4 : P (Z * Z * Z * Z) := a <- pz ;; b <- pz ;; c <- pz ;; d <- pz ;; ret (a, b, c, d).

Definition pstop : P stop :=
  t <- pz ;;
  if t =? 1 then (id <- pz ;; hasv <- pbool ;; v <- pvec ;; tk <- popt pzs ;; fl <- plist (ppair pstr pmvalue) ;;
                  tl <- pz ;; e <- pz ;; ret (SAdd id v tk fl tl hasv e))
  else if t =? 2 then (id <- pz ;; e <- pz ;; ret (SRemove id e))
  else if t =? 3 then (e <- pz ;; ret (SFlush e))
  else if t =? 4 then (rq <- phyrequest ;; e <- pz ;; out <- ppairs ;; ret (SSearch rq e out))
  else if t =? 5 then ret SRotate
  else if t =? 6 then (e <- pz ;; ret (SCompact e))
  else if t =? 7 then ret SEvict
  else if t =? 8 then (e <- pz ;; ret (SClose e))
  else if t =? 9 then (c <- pz ;; l <- plist (ppair pz pfst4) ;; e <- pz ;; ret (SReopen c l e))
  else if t =? 10 then (sg <- ppairs ;; n <- pz ;; ret (SObserve sg n))
  else if t =? 12 then (g <- pz ;; ret (SHolders g))
  else if t =? 13 then (g <- pz ;; ret (SCompactFiles g))
  else if t =? 11 then (c <- pbool ;; ret (SInFlight c))
  else if t =? 14 then (vs <- pvecs ;; e <- pz ;; ret (STrainT vs e))
  else if t =? 15 then (e <- pz ;; ret (SFlushFail e))
  else (fun _ => None).

Definition fstate_of (z : Z) : fstate :=
  if z =? 0 then FComplete else if z =? 1 then FBroken else if z =? 3 then FEmpty else if z =? 4 then FTrailer else FMissing.

Record sth := {
  sh_model : store;
  sh_spec : hystate;             (* the specification: every acknowledged live document *)
  sh_durable : hystate;          (* documents covered by a COMPLETED Flush / Close (crash properties) *)
  sh_added : list Z;             (* ids ever added successfully *)
  sh_known : list (Z * segment); (* every segment ever written, by id *)
  sh_cfg : params * (bool * bool * bool) * (Z * Z);
  sh_session : Z;
  sh_spec_session : list (Z * Z);   (* id -> session in which it was (last) added *)
  sh_crashed : bool; sh_corrupt : bool;
  sh_i : Z; sh_weak : Z; sh_found : list Z;
  sh_maxid : Z;                 (* the largest segment identifier ever seen, in a directory listing or registered *)
  sh_prev : list Z }.           (* the identifiers known at the last look (listing or registered list) *)

Definition est_size (hasvec : bool) (v : vec) (textlen : Z) (fields : list (str * mvalue)) : Z :=
  (if hasvec then Z.of_nat (length v) * 4 else 0) + textlen * 2 + Z.of_nat (length fields) * 96 + 64.

Definition ids_of (l : list (Z * Z)) : list Z := map fst l.

Definition triple_ids (t : triple) : list Z :=
  (match t_vec t with Some vs => map e_id (all_entries vs) | None => [] end) ++
  (match t_txt t with Some bs => map fst (b_docs bs) | None => [] end) ++
  (match t_meta t with Some ms => m_all ms | None => [] end).

Definition seg_complete (hv ht hm : bool) (g : segment) : bool :=
  let '(fh, fv, ft, fm) := sg_files g in
  let ok (f : fstate) (c : bool) := negb c || match f with FComplete => true | _ => false end in
  ok fh true && ok fv hv && ok ft ht && ok fm hm.

(** after a crash: only documents of COMPLETE segments may be returned (a partial segment must be
    ignored as a whole) *)
Definition only_complete_segments (h : sth) (out : list (Z * Z)) : bool :=
  let '(_, (hv, ht, hm), _) := sh_cfg h in
  let allowed := flat_map (fun g => if seg_complete hv ht hm g then triple_ids (sg_T g) else []) (s_segs (sh_model h)) in
  subsetz (map fst out) allowed.

(** what the property demands of one search answer, given the specification state *)
(** A store over a partitioned (IVF) vector template legitimately misses far documents when fewer
    cells are probed than exist, so the specification index (exhaustive) cannot be demanded in full.
    What C08 / C09 demand of a vector query there: a live document whose stored vector IS the query
    vector sits in the cell its own vector is nearest to, so a vector-only query with that vector,
    no threshold and k at least the number of live documents must return it -- whatever partition the
    freshly trained template of the current session has.  (Not demanded when the faithful model
    reports a probe tie, [weak], or when a coordinate is not an ordinary number.) *)
Definition ordinary32 (b : Z) : bool := Z.land b 2147483647 <=? 1233125376.   (* |x| <= 2^20 *)
Definition self_query_ok (spec : hystate) (rq : hyrequest) (out : list (Z * Z)) : bool :=
  match hy_vec spec, preprocess (p_metric (hy_p spec)) (hq_vec rq) with
  | Some vs, Some q =>
      if forallb ordinary32 (hq_vec rq) && (Z.of_nat (length (hy_info spec)) <=? hq_k rq) && (hq_thr rq =? 0)
      then forallb (fun e => negb (list_eqb (e_vec e) q) || memz (e_id e) (st_deleted vs) || negb (memz (e_id e) (map fst (hy_info spec))) || memz (e_id e) (ids_of out))
                   (all_entries vs)
      else true
  | _, _ => true
  end.

Definition spec_ok (h : sth) (rq : hyrequest) (weak : bool) (out : list (Z * Z)) : bool :=
  let spec := if sh_crashed h then sh_durable h else sh_spec h in
  let '(cfgp, _, _) := sh_cfg h in
  let partitioned := match p_kind cfgp with KFlat => false | _ => true end in
  let has_vec := match hq_vec rq with [] => false | _ => true end in
  subsetz (ids_of out) (sh_added h) &&
  (negb (sh_crashed h) || only_complete_segments h out) &&
  if partitioned && has_vec then
    match hq_txt rq, hq_filters rq, hq_groups rq with
    | [], [], [] => weak || sh_corrupt h || self_query_ok spec rq out
    | _, _, _ => true
    end
  else
  match hy_search spec rq with
  | HOk o =>
      let want := firstn (ho_n o) (ho_full o) in
      let all_wanted := (length (ho_full o) <=? ho_n o)%nat in       (* k large enough: nothing was cut *)
      let vector_only := match hq_txt rq, hq_filters rq, hq_groups rq with [], [], [] => true | _, _, _ => false end in
      if ho_weak o then true
      else if sh_corrupt h then true      (* a corrupted segment's documents are expected to be missing *)
      else if sh_crashed h then (negb all_wanted) || subsetz (ids_of want) (ids_of out)
      else if vector_only && match p_kind (hy_p spec) with KFlat => true | _ => false end
           then match_results64 (ho_full o) (ho_n o) out || (negb (nodupz (map (fun p => F64.key (snd p)) (ho_full o))))
      else (negb all_wanted) || subsetz (ids_of want) (ids_of out)
  | HErr _ => true
  | HNoOracle => true
  end.

Definition upd_model (h : sth) (m : store) : sth :=
  {| sh_model := m; sh_spec := sh_spec h; sh_durable := sh_durable h; sh_added := sh_added h; sh_known := sh_known h;
     sh_cfg := sh_cfg h; sh_session := sh_session h; sh_spec_session := sh_spec_session h; sh_crashed := sh_crashed h; sh_corrupt := sh_corrupt h;
     sh_i := sh_i h + 1; sh_weak := sh_weak h; sh_found := sh_found h; sh_maxid := sh_maxid h; sh_prev := sh_prev h |}.

Definition remember_segs (h : sth) (m : store) : list (Z * segment) :=
  fold_left (fun acc g => if existsb (fun x => fst x =? sg_id g) acc then acc else acc ++ [(sg_id g, g)])
            (s_segs m) (sh_known h).

Definition ststep (h : sth) (o : stop) : sth + list Z :=
  let s := sh_model h in
  let errmis (e err : Z) := inr (verdict false (Bool.eqb (e =? 0) (err =? 0)) [sh_i h; e]) in
  match o with
  | SAdd id v toks fields tl hasv err =>
      let vo := if hasv then Some v else None in
      let '(s', e) := st_add s id vo toks fields (est_size hasv v tl fields) in
      if e =? err then
        let h1 := upd_model h s' in
        if e =? 0 then
          inl {| sh_model := s'; sh_spec := fst (hy_add (sh_spec h) id vo toks fields); sh_durable := sh_durable h;
                 sh_added := id :: sh_added h; sh_known := sh_known h; sh_cfg := sh_cfg h; sh_session := sh_session h;
                 sh_spec_session := (id, sh_session h) :: sh_spec_session h; sh_crashed := sh_crashed h; sh_corrupt := sh_corrupt h;
                 sh_i := sh_i h + 1; sh_weak := sh_weak h; sh_found := sh_found h; sh_maxid := sh_maxid h; sh_prev := sh_prev h |}
        else inl h1
      else errmis e err
  | SRemove id err =>
      let '(s', e) := st_remove s id in
      if e =? err then
        if e =? 0 then
          inl {| sh_model := s'; sh_spec := fst (hy_remove (sh_spec h) id); sh_durable := sh_durable h;
                 sh_added := sh_added h; sh_known := sh_known h; sh_cfg := sh_cfg h; sh_session := sh_session h;
                 sh_spec_session := sh_spec_session h; sh_crashed := sh_crashed h; sh_corrupt := sh_corrupt h;
                 sh_i := sh_i h + 1; sh_weak := sh_weak h; sh_found := sh_found h; sh_maxid := sh_maxid h; sh_prev := sh_prev h |}
        else
          (* a Remove that fails although the document is live in the specification (it sits in a
             frozen or flushed memtable) is finding 3 *)
          match info_get id (hy_info (sh_spec h)) with
          | Some _ => inl {| sh_model := s'; sh_spec := sh_spec h; sh_durable := sh_durable h; sh_added := sh_added h;
                             sh_known := sh_known h; sh_cfg := sh_cfg h; sh_session := sh_session h;
                             sh_spec_session := sh_spec_session h; sh_crashed := sh_crashed h; sh_corrupt := sh_corrupt h;
                             sh_i := sh_i h + 1; sh_weak := sh_weak h; sh_found := if memz 3 (sh_found h) then sh_found h else 3 :: sh_found h; sh_maxid := sh_maxid h; sh_prev := sh_prev h |}
          | None => inl (upd_model h s')
          end
      else errmis e err
  | SFlush err =>
      let '(s', e) := st_flush s in
      if e =? err then
        inl {| sh_model := s'; sh_spec := sh_spec h;
               sh_durable := if e =? 0 then sh_spec h else sh_durable h;
               sh_added := sh_added h; sh_known := remember_segs h s'; sh_cfg := sh_cfg h; sh_session := sh_session h;
               sh_spec_session := sh_spec_session h; sh_crashed := sh_crashed h; sh_corrupt := sh_corrupt h;
               sh_i := sh_i h + 1; sh_weak := sh_weak h; sh_found := sh_found h; sh_maxid := sh_maxid h; sh_prev := sh_prev h |}
      else errmis e err
  | SClose err =>
      let '(s', e) := st_close s in
      if e =? err then
        inl {| sh_model := s'; sh_spec := sh_spec h;
               sh_durable := if e =? 0 then sh_spec h else sh_durable h;
               sh_added := sh_added h; sh_known := remember_segs h s'; sh_cfg := sh_cfg h; sh_session := sh_session h;
               sh_spec_session := sh_spec_session h; sh_crashed := sh_crashed h; sh_corrupt := sh_corrupt h;
               sh_i := sh_i h + 1; sh_weak := sh_weak h; sh_found := sh_found h; sh_maxid := sh_maxid h; sh_prev := sh_prev h |}
      else errmis e err
  | SRotate => inl (upd_model h (rotate s))
  | SEvict => inl (upd_model h (st_evict s))
  | SCompact err =>
      let '(s', e) := st_compact s in
      if Bool.eqb (e =? 0) (err =? 0) then
        inl {| sh_model := s'; sh_spec := sh_spec h; sh_durable := sh_durable h; sh_added := sh_added h;
               sh_known := remember_segs h s'; sh_cfg := sh_cfg h; sh_session := sh_session h;
               sh_spec_session := sh_spec_session h; sh_crashed := sh_crashed h; sh_corrupt := sh_corrupt h;
               sh_i := sh_i h + 1; sh_weak := sh_weak h; sh_found := sh_found h; sh_maxid := sh_maxid h; sh_prev := sh_prev h |}
      else errmis e err
  | SReopen crash listing err =>
      let '(p, (hv, ht, hm), (limit, cthr)) := sh_cfg h in
      let listing' := map (fun l => let '(id, (fh, fv, ft, fm)) := l in
                                     (id, (fstate_of fh, fstate_of fv, fstate_of ft, fstate_of fm))) listing in
      if negb (err =? 0) then inr (v_violation [sh_i h; -9])     (* reopening must not fail *)
      else if (crash =? 1) && negb (forallb (fun l => safe_files hv ht hm (snd l)) listing') then
        (* a crash point of the segment writers left a directory in which a segment can be loaded
           partially (its hybrid_ file is intact while a component is not): "ignored as a whole rather
           than loaded partially" cannot hold for it *)
        inr (v_violation [sh_i h; -14])
      else
        inl {| sh_model := reopen_store p hv ht hm limit cthr (sh_known h) listing';
               sh_spec := sh_spec h; sh_durable := sh_durable h; sh_added := sh_added h; sh_known := sh_known h;
               sh_cfg := sh_cfg h; sh_session := sh_session h + 1; sh_spec_session := sh_spec_session h;
               sh_crashed := sh_crashed h || negb (crash =? 0); sh_corrupt := sh_corrupt h || (crash =? 2);
               sh_i := sh_i h + 1; sh_weak := sh_weak h; sh_found := sh_found h;
               sh_maxid := fold_left Z.max (map fst listing) (sh_maxid h); sh_prev := map fst listing ++ sh_prev h |}
  | SInFlight compact =>
      (* the operation during which the process dies: run it in the model only to learn what the
         segment files would contain; nothing it does counts as completed *)
      let s' := if compact then fst (st_compact s) else st_flush_internal s in
      inl {| sh_model := s'; sh_spec := sh_spec h; sh_durable := sh_durable h; sh_added := sh_added h;
             sh_known := remember_segs h s'; sh_cfg := sh_cfg h; sh_session := sh_session h;
             sh_spec_session := sh_spec_session h; sh_crashed := sh_crashed h; sh_corrupt := sh_corrupt h;
             sh_i := sh_i h + 1; sh_weak := sh_weak h; sh_found := sh_found h; sh_maxid := sh_maxid h; sh_prev := sh_prev h |}
  | SFlushFail err =>
      (* the failing Flush reports its failure; nothing becomes durable by it *)
      let '(s', e) := st_flush_fail s in
      if Bool.eqb (e =? 0) (err =? 0) then inl (upd_model h s') else errmis e err
  | STrainT vs err =>
      let '(hy', e) := hy_train (hy_of (s_T s) []) vs in
      if e =? err then
        inl (upd_model h {| s_T := triple_of hy'; s_queue := s_queue s; s_segs := s_segs s; s_counter := s_counter s;
                            s_limit := s_limit s; s_cthr := s_cthr s; s_closed := s_closed s |})
      else errmis e err
  | SHolders gap =>
      (* no instant of a flush at which an acknowledged memtable is neither queued nor registered as a
         segment (a concurrent search would miss its documents; a failing flush would lose them) *)
      if gap <? 0 then inr (v_violation [sh_i h; -12; gap]) else inl (upd_model h s)
  | SCompactFiles lost =>
      (* the input segments' files must outlive the registration of the merged segment: a crash in
         between would otherwise leave neither *)
      if 0 <? lost then inr (v_violation [sh_i h; -13; lost]) else inl (upd_model h s)
  | SObserve segs nmem =>
      let ms := map (fun g => (sg_id g, if sg_cached g then 1 else 0)) (s_segs s) in
      (* "its identifier is not reused": a registered identifier that was not known at the last look is a
         new segment's, and must lie above every identifier ever seen in this directory -- in a listing
         (files of partial segments included) or registered -- whatever has been deleted since *)
      let ids := map fst segs in
      let fresh := filter (fun i => negb (memz i (sh_prev h))) ids in
      let sh_maxid_before := sh_maxid h in
      let h := {| sh_model := sh_model h; sh_spec := sh_spec h; sh_durable := sh_durable h; sh_added := sh_added h;
                  sh_known := sh_known h; sh_cfg := sh_cfg h; sh_session := sh_session h;
                  sh_spec_session := sh_spec_session h; sh_crashed := sh_crashed h; sh_corrupt := sh_corrupt h;
                  sh_i := sh_i h; sh_weak := sh_weak h; sh_found := sh_found h;
                  sh_maxid := fold_left Z.max ids (sh_maxid h); sh_prev := ids ++ sh_prev h |} in
      if negb (forallb (fun i => sh_maxid_before <? i) fresh) then inr (v_violation [sh_i h; -16])
      else
      if plist_eqb ms segs && (nmem =? Z.of_nat (length (s_queue s))) then inl (upd_model h s)
      else
        (* the property's own demand on the segment list: no identifier is carried by two live
           segments (an identifier seen on disk, even of a partial segment, is never handed out again) *)
        let '(_, (hv, ht, hm), _) := sh_cfg h in
        let readable (f : fstate) (c : bool) := negb c || match f with FComplete | FTrailer => true | _ => false end in
        let loadable (g : segment) := let '(fh, fv, ft, fm) := sg_files g in
                                      readable fh true && readable fv hv && readable ft ht && readable fm hm in
        (* ... and a segment one of whose component files cannot be read in full is never kept as a
           loaded (cached) index: it must be rejected again on every access, not half-loaded once *)
        let cached_ok := forallb (fun ic => (snd ic =? 0) ||
                                           match find (fun g => sg_id g =? fst ic) (s_segs s) with
                                           | Some g => loadable g | None => true end) segs in
        (* ... and every segment whose files are all there and readable is registered: a store that opens
           (or carries on) without one of them has lost what that segment holds *)
        let registered_ok := forallb (fun g => negb (loadable g) || memz (sg_id g) (map fst segs)) (s_segs s) in
        inr (verdict false (nodupz (map fst segs) && cached_ok && registered_ok) (sh_i h :: -10 :: flatten_pairs ms))
  | SSearch rq err out =>
      let out := canon64_pairs out in
      match st_search s rq with
      | SNoOracle => inr [9; sh_i h]
      | SErr e => if e =? err then inl (upd_model h s) else inr (verdict false (negb (err =? 0)) [sh_i h; e])
      | SOk o =>
          if negb (err =? 0) then inr (verdict false false [sh_i h; 0])
          else
            let sok := spec_ok h rq (so_weak o) out in
            let s' := after_search s o in
            let agree := so_weak o || match_results64 (so_merged o) (so_n o) out in
            if agree then
              if sok then
                inl {| sh_model := s'; sh_spec := sh_spec h; sh_durable := sh_durable h; sh_added := sh_added h;
                       sh_known := sh_known h; sh_cfg := sh_cfg h; sh_session := sh_session h;
                       sh_spec_session := sh_spec_session h; sh_crashed := sh_crashed h; sh_corrupt := sh_corrupt h;
                       sh_i := sh_i h + 1; sh_weak := sh_weak h + (if so_weak o then 1 else 0); sh_found := sh_found h; sh_maxid := sh_maxid h; sh_prev := sh_prev h |}
              else
                (* implementation = faithful model, and the specification is violated: a listed
                   mechanism.  1 = lost inside a session (shared templates overwritten by a segment
                   load / compaction), 2 = lost across a restart (active memtable never flushed, or
                   segment content from the shared templates) *)
                let trailer := existsb (fun g => let '(a, b, c, d) := sg_files g in
                                                 existsb (fun f => match f with FTrailer => true | _ => false end) [a; b; c; d])
                                       (s_segs s) in
                let code := if sh_crashed h && negb (only_complete_segments h out) then (if trailer then 5 else 4)
                            else if 1 <? sh_session h then 2 else 1 in
                inl {| sh_model := s'; sh_spec := sh_spec h; sh_durable := sh_durable h; sh_added := sh_added h;
                       sh_known := sh_known h; sh_cfg := sh_cfg h; sh_session := sh_session h;
                       sh_spec_session := sh_spec_session h; sh_crashed := sh_crashed h; sh_corrupt := sh_corrupt h;
                       sh_i := sh_i h + 1; sh_weak := sh_weak h;
                       sh_found := if memz code (sh_found h) then sh_found h else code :: sh_found h; sh_maxid := sh_maxid h; sh_prev := sh_prev h |}
            else inr (verdict false sok (sh_i h :: 0 :: flatten_pairs (firstn (so_n o) (so_merged o))))
      end
  end.

Fixpoint strun (h : sth) (ops : list stop) : list Z :=
  match ops with
  | [] => match sh_found h with
          | _ :: _ => 3 :: isort (fun x => x) (sh_found h)     (* every mechanism met, each must be a listed finding *)
          | [] => if sh_weak h =? 0 then v_ok else [0; sh_weak h]
          end
  | o :: t => match ststep h o with inl h' => strun h' t | inr v => v end
  end.

(** 800: params, hasV hasT hasM, memtable size limit, compaction threshold, ops *)
Definition chk_storehist : P (list Z) :=
  p <- pparams ;; hv <- pbool ;; ht <- pbool ;; hm <- pbool ;; limit <- pz ;; cthr <- pz ;; ops <- plist pstop ;;
  (* the specification index is exhaustive whatever the kind of the configured template *)
  let fp := {| p_kind := KFlat; p_dim := p_dim p; p_metric := p_metric p; p_nlist := 1; p_M := 1; p_nbits := 1 |} in
  let spec0 := {| hy_p := fp; hy_vec := if hv then Some (vinit fp) else None; hy_txt := if ht then Some binit else None;
                  hy_meta := if hm then Some minit else None; hy_info := [] |} in
  ret (strun {| sh_model := open_store p hv ht hm limit cthr [] 0; sh_spec := spec0; sh_durable := spec0;
                sh_added := []; sh_known := []; sh_cfg := (p, (hv, ht, hm), (limit, cthr)); sh_session := 1;
                sh_spec_session := []; sh_crashed := false; sh_corrupt := false; sh_i := 0; sh_weak := 0; sh_found := []; sh_maxid := 0; sh_prev := [] |} ops).

(** 801: the persistent store over an HNSW vector template (HNSW's exact regime) against the store over
    a flat template: same directory-level history (adds, rotations, flushes, close / reopen with fresh
    templates), same searches; number of compared searches, number answered differently, number of
    operations whose success differed.  C08 / C09 quantify over the template kinds flat / hnsw / ivf: what
    holds or fails for the flat template (the listed findings included, which do not depend on the
    kind) must hold or fail in the same way for an HNSW template that answers exactly. *)
Definition chk_store_hnsw : P (list Z) :=
  n <- pz ;; diffs <- pz ;; opdiffs <- pz ;;
  let ok := (diffs =? 0) && (opdiffs =? 0) in
  ret (verdict ok ok [diffs; opdiffs]).

(** 1001: an explicit Flush racing the background flush worker, then a crash.  The worker is held at its
    first file creation; Flush() is called and returns; the directory is copied at that instant (the
    crash image) and reopened with fresh templates.  documents in frozen memtables when Flush was called,
    how many of them the reopened image returns, Flush's result code, reopen failed, search failed,
    returned ids that were never added.  "every document made durable by an earlier completed Flush is
    still found": a Flush that returned nil has written what it covers, whoever else was writing. *)
Definition chk_flush_race : P (list Z) :=
  expected <- pz ;; found <- pz ;; fcode <- pz ;; reopen_err <- pbool ;; search_err <- pbool ;; alien <- pz ;;
  let ok := negb reopen_err && negb search_err && (alien =? 0) && (negb (fcode =? 0) || (found =? expected)) in
  ret (verdict ok ok [expected; found; fcode]).
