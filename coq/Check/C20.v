(** Correspondence checkers for C20 (k-means, quantizers, deterministic training). *)
From Coq Require Import ZArith List Bool.
From Comet Require Import Base.FBits Base.Parse Base.Sorting Check.Common Check.VecHist.
From Comet Require Import Model.Distance Model.KMeans Model.Quantizer.
Import ListNotations.
Open Scope Z_scope.

Definition key_min (l : list Z) : Z := fold_left Z.min (map F32.key l) (F32.key F32.pinf).
Definition key_max (l : list Z) : Z := fold_left Z.max (map F32.key l) (- F32.key F32.pinf).

(** 2001: vectors, k, metric, maxIter, returned-nil flag, centroids, mapping, input-changed flag,
    second-run-differs flag, settled flag (the implementation, allowed one more iteration, answers the same:
    its own witness that the run converged -- every vector must then sit with its first nearest centroid,
    evaluated on the implementation's centroids) *)
Definition chk_kmeans : P (list Z) :=
  vs <- pvecs ;; k <- pz ;; mz <- pz ;; it <- pz ;; isnil <- pbool ;; cents <- pvecs ;; mapping <- pzs ;;
  changed <- pbool ;; nondet <- pbool ;; settled <- pbool ;;
  let m := metric_of_Z mz in
  let n := Z.of_nat (length vs) in
  match kmeans vs k m it with
  | None => ret (verdict (isnil && negb changed && negb nondet) (isnil && negb changed && negb nondet) [0])
  | Some (mc, mm, conv) =>
      let exact := negb isnil && list_eqb_by veceq mc cents && list_eqb mm mapping && negb changed && negb nondet in
      let kk := if n <? k then n else k in
      let dimn := length (hd [] vs) in
      let finite := forallb (fun c => forallb F32.is_finite c) cents in
      (* bounding box per coordinate (Euclidean family), with the slack the float32 mean needs: summing
         up to n values one after the other and dividing is off by at most about n units in the last
         place (already three identical values have a float32 mean that differs from them in a fifth of
         the cases), so a centroid may leave the box by n + 4 ulps at most *)
      let inbox := match m with
                   | Cos => true
                   | _ => forallb (fun c =>
                            forallb (fun jc => let '(j, x) := jc in
                                               let col := map (fun v => nth j v F32.zero) vs in
                                               (key_min col - 4 - n <=? F32.key x) && (F32.key x <=? key_max col + 4 + n))
                                    (combine (seq 0 (length c)) c)) cents
                   end in
      let specb := negb isnil && (Z.of_nat (length cents) =? kk) && (Z.of_nat (length mapping) =? n) &&
                   forallb (fun a => (0 <=? a) && (a <? kk)) mapping && finite && inbox &&
                   (negb settled || list_eqb mapping (map (fun v => nearest m v cents) vs)) &&
                   negb changed && negb nondet in
      ret (verdict exact specb [Z.of_nat (length mc); if conv then 1 else 0])
  end.

(** 2002: quantizers.  type (0 float32, 1 float16, 2 int8), training vectors, input, error flag,
    quantized ints, dequantized floats, input-changed flag *)
Definition chk_quant : P (list Z) :=
  ty <- pz ;; train <- pvecs ;; v <- pvec ;; err <- pbool ;; q <- pzs ;; dq <- pvec ;; changed <- pbool ;;
  if ty =? 0 then
    ret (verdict (negb err && veceq v dq && veceq v q && negb changed) false v)
  else if ty =? 1 then
    let mq := map canon16 (q16 v) in
    let md := dq16 (q16 v) in
    (* spec: a component in the float16 normal range (2^-14 <= |x| <= 65504) is reconstructed within
       half-precision rounding, |x - deq(q x)| <= 2^-11 |x| (both sides are exact in float32: the
       difference of two neighbours by Sterbenz, the bound by scaling with a power of two) *)
    let normal16 x := F32.leb 947912704 (f32_abs x) && F32.leb (f32_abs x) 1199562752 in
    let errs_ok := forallb (fun p => negb (normal16 (fst p)) ||
                                     F32.leb (f32_abs (F32.sub (fst p) (snd p))) (F32.mul (f32_abs (fst p)) 973078528))
                           (combine v dq) in
    ret (verdict (negb err && list_eqb mq (map canon16 q) && veceq md dq && negb changed)
                 (negb err && (length q =? length v)%nat && (length dq =? length v)%nat && negb changed && errs_ok) mq)
  else
    let am := q8_train train in
    match q8 am v with
    | None => ret (verdict (err && negb changed) (err && negb changed) [-1])
    | Some mq =>
        let md := match dq8 am mq with Some d => d | None => [] end in
        (* spec: |x - deq(q x)| <= absMax/254 (+ rounding slack) for |x| <= absMax *)
        let bound := F32.add (F32.div am (F32.of_Z 254)) (F32.div am (F32.of_Z 1000000)) in
        let inrange := forallb (fun x => F32.leb (f32_abs x) am) v in
        let errs_ok := forallb (fun p => F32.leb (f32_abs (F32.sub (fst p) (snd p))) bound) (combine v dq) in
        ret (verdict (negb err && list_eqb mq q && veceq md dq && negb changed)
                     (negb err && (length q =? length v)%nat && (length dq =? length v)%nat && negb changed &&
                      (negb inrange || errs_ok)) mq)
    end.

(** 2003: implementation-only: two indexes trained on the same data answer the same queries identically *)
Definition chk_train_twice : P (list Z) :=
  kind <- pz ;; nq <- pz ;; diffs <- pz ;;
  ret (verdict (diffs =? 0) (diffs =? 0) [diffs]).
