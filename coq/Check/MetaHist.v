(** History checker for the metadata index (C04, C06 metadata part): faithful model vs implementation,
    and both against the document-store specification. *)
From Coq Require Import ZArith List Bool.
From Comet Require Import Base.FBits Base.Parse Base.Sorting Check.Common Model.BSI Model.Metadata.
Import ListNotations.
Open Scope Z_scope.

Definition pstr : P str := pzs.
Definition pmvalue : P mvalue :=
  t <- pz ;;
  if t =? 0 then (s <- pstr ;; ret (MStr s))
  else if t =? 1 then (b <- pbool ;; ret (MBool b))
  else if t =? 2 then (z <- pz ;; ret (MInt z))
  else if t =? 3 then (z <- pz ;; ret (MFloat z))
  else ret MBad.
Definition popt {A} (p : P A) : P (option A) := b <- pbool ;; if b then (x <- p ;; ret (Some x)) else ret None.
(** toInt64 of a filter operand: int and int64 as they are, float64 through [float_fix] (the same
    int64(v*100) that Add applies to stored values), anything else is not numeric *)
Definition num_of (v : mvalue) : option Z :=
  match v with MInt z => Some z | MFloat b => Some (float_fix b) | _ => None end.
Definition pnum : P (option Z) := v <- pmvalue ;; ret (num_of v).
Definition pfilter : P mfilter :=
  fld <- pstr ;; op <- pz ;; n1 <- pnum ;; n2 <- pnum ;; s <- pstr ;; l <- popt (plist pstr) ;;
  ret {| f_field := fld; f_op := mop_of_Z op; f_num := n1; f_num2 := n2; f_str := s; f_list := l |}.
Definition pgroup : P mgroup := a <- pbool ;; fs <- plist pfilter ;; ret {| g_and := a; g_filters := fs |}.

Inductive meop :=
| MAdd (id : Z) (fields : list (str * mvalue)) (err : bool)
| MRemove (id : Z)
| MSearch (fs : list mfilter) (gs : list mgroup) (err : bool) (out : list Z)
| MNot (f g : mfilter) (errf : bool) (outf : list Z) (errg : bool) (outg : list Z).

Definition pmeop : P meop :=
  t <- pz ;;
  if t =? 1 then (id <- pz ;; fl <- plist (ppair pstr pmvalue) ;; e <- pbool ;; ret (MAdd id fl e))
  else if t =? 2 then (id <- pz ;; ret (MRemove id))
  else if t =? 4 then (fs <- plist pfilter ;; gs <- plist pgroup ;; e <- pbool ;; out <- pzs ;; ret (MSearch fs gs e out))
  else if t =? 5 then (f <- pfilter ;; g <- pfilter ;; ef <- pbool ;; outf <- pzs ;; eg <- pbool ;; outg <- pzs ;;
                       ret (MNot f g ef outf eg outg))
  else (fun _ => None).

(** ---- the specification: a store of documents, ordinary comparison ---- *)
Definition doc := (Z * list (str * mvalue))%type.

Definition field_value (d : doc) (f : str) : option mvalue :=
  match find (fun kv => str_eqb (fst kv) f) (snd d) with Some kv => Some (snd kv) | None => None end.

Definition render_of (v : mvalue) : option str :=
  match v with MStr s => Some s | MBool b => Some (if b then s_true else s_false) | _ => None end.

Fixpoint mem_str (x : str) (l : list str) : bool :=
  match l with [] => false | y :: t => str_eqb x y || mem_str x t end.

(** Some b = truth value; None = the expression is an error for this field type *)
Definition spec_filter (numeric_field : bool) (f : mfilter) (d : doc) : option bool :=
  let v := field_value d (f_field f) in
  match f_op f with
  | OExists => Some (match v with Some _ => true | None => false end)
  | ONotExists => Some (match v with Some _ => false | None => true end)
  | OOther => None
  | op =>
      if numeric_field then
        let nv := match v with Some x => num_of x | None => None end in
        let cmp (k : Z -> Z -> bool) := match f_num f with
                                        | Some x => Some (match nv with Some y => k y x | None => false end)
                                        | None => None end in
        match op with
        | OEq => cmp Z.eqb
        | ONe => cmp (fun y x => negb (y =? x))
        | OGt => cmp (fun y x => x <? y)
        | OGte => cmp (fun y x => x <=? y)
        | OLt => cmp (fun y x => y <? x)
        | OLte => cmp (fun y x => y <=? x)
        | ORange => match f_num f, f_num2 f with
                    | Some a, Some b => Some (match nv with Some y => (a <=? y) && (y <=? b) | None => false end)
                    | _, _ => None
                    end
        | _ => None
        end
      else
        let rv := match v with Some x => render_of x | None => None end in
        match op with
        | OEq => Some (match rv with Some r => str_eqb r (f_str f) | None => false end)
        | ONe => Some (negb (match rv with Some r => str_eqb r (f_str f) | None => false end))
        | OIn => match f_list f with
                 | Some l => Some (match rv with Some r => mem_str r l | None => false end) | None => None end
        | ONotIn => match f_list f with
                    | Some l => Some (negb (match rv with Some r => mem_str r l | None => false end)) | None => None end
        | _ => None
        end
  end.

Definition all_some (l : list (option bool)) : option (list bool) :=
  fold_right (fun x acc => match x, acc with Some b, Some bs => Some (b :: bs) | _, _ => None end) (Some []) l.

Definition spec_search (numf : str -> bool) (docs : list doc) (fs : list mfilter) (gs : list mgroup) : option (list Z) :=
  let eval_all (conj : bool) (fl : list mfilter) (d : doc) : option bool :=
      match all_some (map (fun f => spec_filter (numf (f_field f)) f d) fl) with
      | Some bs => Some (if conj then forallb (fun b => b) bs else existsb (fun b => b) bs)
      | None => None
      end in
  let sel (p : doc -> option bool) : option (list Z) :=
      match all_some (map p docs) with
      | Some bs => Some (isort (fun x => x) (map (fun db => fst (fst db)) (filter (fun db => snd db) (combine docs bs))))
      | None => None
      end in
  let defined (f : mfilter) := match spec_filter (numf (f_field f)) f (0, []) with Some _ => true | None => false end in
  if negb (forallb defined fs && forallb (fun g => forallb defined (g_filters g)) gs) then None else
  match gs with
  | _ :: _ =>
      sel (fun d => match all_some (map (fun g => match g_filters g with
                                                  | [] => Some true
                                                  | fl => eval_all (g_and g) fl d end) gs) with
                    | Some bs => Some (existsb (fun b => b) bs) | None => None end)
  | [] => match fs with
          | [] => Some (isort (fun x => x) (map fst docs))
          | _ => sel (eval_all true fs)
          end
  end.

Record mh := { mh_model : mstate; mh_docs : list doc; mh_numf : list str; mh_i : Z; mh_weak : Z }.

Definition is_numeric_value (v : mvalue) : bool := match v with MInt _ | MFloat _ => true | _ => false end.

Definition res_eqb (a : option (list Z)) (err : bool) (out : list Z) : bool :=
  match a with None => err | Some l => negb err && list_eqb l out end.

Definition mstep (h : mh) (o : meop) : mh + list Z :=
  let s := mh_model h in
  match o with
  | MAdd id fields err =>
      let '(s', ok) := madd s id fields in
      if Bool.eqb ok (negb err) then
        if ok then
          inl {| mh_model := s'; mh_docs := filter (fun d => negb (fst d =? id)) (mh_docs h) ++ [(id, fields)];
                 mh_numf := mh_numf h ++ map fst (filter (fun kv => is_numeric_value (snd kv)) fields);
                 mh_i := mh_i h + 1; mh_weak := mh_weak h |}
        else
          (* failed add: the implementation has already mutated (C06 finding); keep the faithful model *)
          inl {| mh_model := s'; mh_docs := mh_docs h;
                 mh_numf := mh_numf h; mh_i := mh_i h + 1; mh_weak := mh_weak h + 1 |}
      else inr (verdict false false [mh_i h; -1])
  | MRemove id =>
      inl {| mh_model := mremove s id; mh_docs := filter (fun d => negb (fst d =? id)) (mh_docs h);
             mh_numf := mh_numf h; mh_i := mh_i h + 1; mh_weak := mh_weak h |}
  | MSearch fs gs err out =>
      let m := msearch s fs gs in
      let sp := spec_search (fun f => mem_str f (mh_numf h)) (mh_docs h) fs gs in
      let spec_ok := match sp with None => true | Some l => negb err && list_eqb l out end in
      if res_eqb m err out then
        (if spec_ok then inl {| mh_model := s; mh_docs := mh_docs h; mh_numf := mh_numf h; mh_i := mh_i h + 1;
                                mh_weak := mh_weak h + (match sp with None => 1 | _ => 0 end) |}
         else inr (v_violation (mh_i h :: -2 :: match sp with Some l => l | None => [] end)))
      else inr (verdict false spec_ok (mh_i h :: match m with Some l => 0 :: l | None => [1] end))
  | MNot f g ef outf eg outg =>
      let mf := msearch s [f] [] in
      let mg := msearch s [g] [] in
      if res_eqb mf ef outf && res_eqb mg eg outg then
        if ef || eg then inl {| mh_model := s; mh_docs := mh_docs h; mh_numf := mh_numf h; mh_i := mh_i h + 1; mh_weak := mh_weak h |}
        else
          (* the universe of f: documents having the field for numeric comparisons, all live otherwise *)
          let numeric := mem_str (f_field f) (mh_numf h) in
          let live := isort (fun x => x) (map fst (mh_docs h)) in
          let univ := match f_op f with
                      | OExists | ONotExists => live
                      | _ => if numeric
                             then isort (fun x => x) (map fst (filter (fun d => match field_value d (f_field f) with
                                                                              | Some v => is_numeric_value v | None => false end) (mh_docs h)))
                             else live
                      end in
          let want := filter (fun x => negb (memz x outf)) univ in
          if list_eqb want outg then inl {| mh_model := s; mh_docs := mh_docs h; mh_numf := mh_numf h; mh_i := mh_i h + 1; mh_weak := mh_weak h |}
          else match f_op f with
               | ORange => inr (v_known 1)     (* Not(Range) is the identity: no inverse operator exists *)
               | _ => inr (v_violation (mh_i h :: -5 :: want))
               end
      else inr (verdict false false [mh_i h; -3])
  end.

Fixpoint mrun (h : mh) (ops : list meop) (known : list Z) : list Z :=
  match ops with
  | [] => match known with
          | k :: _ => [3; k]
          | [] => if mh_weak h =? 0 then v_ok else [0; mh_weak h]
          end
  | o :: t => match mstep h o with
              | inl h' => mrun h' t known
              | inr [3; k] =>
                  (* a listed finding reproduced: remember it and keep checking the rest of the history *)
                  mrun {| mh_model := mh_model h; mh_docs := mh_docs h; mh_numf := mh_numf h; mh_i := mh_i h + 1; mh_weak := mh_weak h |} t (k :: known)
              | inr v => v
              end
  end.

(** 400: ops *)
Definition chk_metahist : P (list Z) :=
  ops <- plist pmeop ;;
  ret (mrun {| mh_model := minit; mh_docs := []; mh_numf := []; mh_i := 0; mh_weak := 0 |} ops []).

(** 401: the bit-sliced comparison of roaring's BSI, per stored value: op, stored, a, b, member? *)
Definition chk_bsi : P (list Z) :=
  op <- pz ;; v <- pz ;; a <- pz ;; b <- pz ;; r <- pbool ;;
  ret (verdict (Bool.eqb (bsi_cmp (bop_of_Z op) v a b) r) false [if bsi_cmp (bop_of_Z op) v a b then 1 else 0]).

(** 402: the filter constructors (incl. the aliases Between / IsNull / IsNotNull / AnyOf / NoneOf) build
    the documented filter: constructor number, operator of the filter it produced, and whether the field
    and the operand(s) are the ones it was given.  Constructor numbers 0..10 are the operators
    themselves (Eq Ne Gt Gte Lt Lte In NotIn Range Exists NotExists), 11 Between = Range,
    12 IsNull = NotExists, 13 IsNotNull = Exists, 14 AnyOf = In, 15 NoneOf = NotIn. *)
Definition ctor_op (c : Z) : Z :=
  if c <=? 10 then c else if c =? 11 then 8 else if c =? 12 then 10 else if c =? 13 then 9
  else if c =? 14 then 6 else if c =? 15 then 7 else -1.
Definition chk_ctor : P (list Z) :=
  c <- pz ;; op <- pz ;; fieldok <- pbool ;; v1ok <- pbool ;; v2ok <- pbool ;;
  let ok := (0 <=? c) && (c <=? 15) && (op =? ctor_op c) && fieldok && v1ok && v2ok in
  ret (verdict ok ok [c; op]).
