(** History checker for the hybrid index (C05, C06). *)
From Coq Require Import ZArith List Bool.
From Comet Require Import Base.FBits Base.Parse Base.Sorting Check.Common.
From Comet Require Import Model.Distance Model.Limiter Model.Aggregation Model.Fusion Model.KMeans Model.VecIndex.
From Comet Require Import Model.BM25 Model.BSI Model.Metadata Model.Hybrid.
From Comet Require Import Check.VecHist Check.BM25Hist Check.MetaHist.
Import ListNotations.
Open Scope Z_scope.

Definition phyrequest : P hyrequest :=
  v <- pvec ;; tx <- plist pzs ;; fs <- plist pfilter ;; gs <- plist pgroup ;;
  k <- pz ;; thr <- pz ;; a <- pz ;; c <- pz ;; np <- pz ;;
  fk <- pz ;; vw <- pz ;; tw <- pz ;; kk <- pz ;; ln <- ppairs ;;
  ret {| hq_vec := v; hq_txt := tx; hq_filters := fs; hq_groups := gs; hq_k := k; hq_thr := thr;
         hq_agg := agg_of_Z a; hq_cutoff := c; hq_nprobes := np; hq_fusion := fusion_of_Z fk;
         hq_vw := vw; hq_tw := tw; hq_kk := kk; hq_ln := ln |}.

Inductive hyop :=
| YAdd (id : Z) (v : vec) (toks : option (list Z)) (fields : list (str * mvalue)) (err : Z) (dupid : Z)
| YRemove (id : Z) (err : Z)
| YFlush
| YTrain (vs : list vec) (err : Z)
| YSearch (rq : hyrequest) (err : Z) (out : list (Z * Z))
| YVec (rq : request) (err : Z) (out : list (Z * Z))
| YTxt (rq : brequest) (err : Z) (out : list (Z * Z))
| YMeta (fs : list mfilter) (err : bool) (out : list Z).

Definition phyop : P hyop :=
  t <- pz ;;
  if t =? 1 then (id <- pz ;; v <- pvec ;; tk <- popt pzs ;; fl <- plist (ppair pstr pmvalue) ;; e <- pz ;; d <- pz ;;
                  ret (YAdd id v tk fl e d))
  else if t =? 2 then (id <- pz ;; e <- pz ;; ret (YRemove id e))
  else if t =? 3 then ret YFlush
  else if t =? 5 then (vs <- pvecs ;; e <- pz ;; ret (YTrain vs e))
  else if t =? 4 then (rq <- phyrequest ;; e <- pz ;; out <- ppairs ;; ret (YSearch rq e out))
  else if t =? 8 then (rq <- prequest ;; e <- pz ;; out <- ppairs ;; ret (YVec rq e out))
  else if t =? 9 then (rq <- pbrequest ;; e <- pz ;; out <- ppairs ;; ret (YTxt rq e out))
  else if t =? 10 then (fs <- plist pfilter ;; e <- pbool ;; out <- pzs ;; ret (YMeta fs e out))
  else (fun _ => None).

(** tie-tolerant comparison on float64 scores *)
Definition match_results64 (full : list (Z * Z)) (n : nat) (r : list (Z * Z)) : bool :=
  let full := canon64_pairs full in
  (length r =? n)%nat && list_eqb (map snd r) (map snd (firstn n full))
  && nodupz (map fst r) && forallb (fun x => pair_in x full) r.

Definition hy_sound (rq : hyrequest) (o : hyout) (r : list (Z * Z)) : bool :=
  nodupz (map fst r) && desc64 (map snd r) && (Z.of_nat (length r) <=? hq_k rq) &&
  (match ho_cands o with Some c => subsetz (map fst r) c | None => true end) &&
  (match hq_vec rq, hq_txt rq with
   | [], [] => true
   | _, _ => negb (ho_modal_known o) || subsetz (map fst r) (ho_vecids o ++ ho_txtids o)
   end).

Record yh := { yh_model : hystate; yh_i : Z; yh_weak : Z }.

Definition ystep (h : yh) (o : hyop) : yh + list Z :=
  let s := yh_model h in
  let next s' w := inl {| yh_model := s'; yh_i := yh_i h + 1; yh_weak := yh_weak h + w |} in
  let errmis (e err : Z) := inr (verdict false (Bool.eqb (e =? 0) (err =? 0)) [yh_i h; e]) in
  match o with
  | YAdd id v toks fields err dup =>
      let '(s', e) := hy_add s id (match v with [] => None | _ => Some v end) toks fields in
      if dup =? 1 then inr (v_violation [yh_i h; -11])       (* an automatically generated id was returned twice *)
      else if dup =? 2 then inr (verdict false true [yh_i h; -12])   (* the id generator went backwards: not the model's counter any more *)
      else if e =? err then next s' 0 else errmis e err
  | YRemove id err => let '(s', e) := hy_remove s id in if e =? err then next s' 0 else errmis e err
  | YFlush => next (hy_flush s) 0
  | YTrain vs err => let '(s', e) := hy_train s vs in if e =? err then next s' 0 else errmis e err
  | YSearch rq err out =>
      let out := canon64_pairs out in
      match hy_search s rq with
      | HNoOracle => inr [9; yh_i h]
      | HErr e => if e =? err then next s 0 else inr (verdict false (negb (err =? 0)) [yh_i h; e])
      | HOk o =>
          if negb (err =? 0) then inr (verdict false false [yh_i h; 0])
          else
            let snd_ok := hy_sound rq o out in
            if ho_weak o then (if snd_ok then next s 1 else inr (v_violation [yh_i h; -1]))
            else if match_results64 (ho_full o) (ho_n o) out then next s 0
            else inr (verdict false false (yh_i h :: 0 :: flatten_pairs (firstn (ho_n o) (ho_full o))))
      end
  | YVec rq err out =>
      match hy_vec s with
      | None => inr (verdict false false [yh_i h; -8])
      | Some vs =>
          match execute (hy_p s) vs rq with
          | Err e => if e =? err then next s 0 else inr (verdict false (negb (err =? 0)) [yh_i h; e])
          | Ok xo => match xo_n xo with
                     | None => inr (verdict false false [yh_i h; E_PANIC])
                     | Some n =>
                         if negb (err =? 0) then inr (verdict false false [yh_i h; 0])
                         else if xo_ptie xo || (xo_tie xo && negb (xo_single xo)) then next s 1
                         else if match_results (if xo_single xo then xo_aggfull xo else xo_agg xo) n (canon32_pairs out) then next s 0
                         else inr (verdict false false (yh_i h :: -80 :: flatten_pairs (firstn n (xo_agg xo))))
                     end
          end
      end
  | YTxt rq err out =>
      match hy_txt s with
      | None => inr (verdict false false [yh_i h; -9])
      | Some bs =>
          match bexecute bs rq with
          | BNoOracle => inr [9; yh_i h]
          | BErr e => if e =? err then next s 0 else inr (verdict false (negb (err =? 0)) [yh_i h; e])
          | BOk xo => match xo_n xo with
                      | None => inr (verdict false false [yh_i h; E_PANIC])
                      | Some n =>
                          if negb (err =? 0) then inr (verdict false false [yh_i h; 0])
                          else if xo_tie xo && negb (xo_single xo) then next s 1
                          else if match_results (if xo_single xo then xo_aggfull xo else xo_agg xo) n (canon32_pairs out) then next s 0
                          else inr (verdict false false (yh_i h :: -90 :: flatten_pairs (firstn n (xo_agg xo))))
                      end
          end
      end
  | YMeta fs err out =>
      match hy_meta s with
      | None => inr (verdict false false [yh_i h; -10])
      | Some ms => if res_eqb (msearch ms fs []) err out then next s 0
                   else inr (verdict false false (yh_i h :: -100 :: match msearch ms fs [] with Some l => l | None => [] end))
      end
  end.

Fixpoint yrun (h : yh) (ops : list hyop) : list Z :=
  match ops with
  | [] => if yh_weak h =? 0 then v_ok else [0; yh_weak h]
  | o :: t => match ystep h o with inl h' => yrun h' t | inr v => v end
  end.

(** 500: has_vec, params, has_txt, has_meta, ops *)
Definition chk_hybridhist : P (list Z) :=
  hv <- pbool ;; p <- pparams ;; ht <- pbool ;; hm <- pbool ;; ops <- plist phyop ;;
  ret (yrun {| yh_model := {| hy_p := p; hy_vec := if hv then Some (vinit p) else None;
                              hy_txt := if ht then Some binit else None;
                              hy_meta := if hm then Some minit else None; hy_info := [] |};
               yh_i := 0; yh_weak := 0 |} ops).

(** 501: the hybrid index over an HNSW vector index in HNSW's exact regime (at most 2M vectors, ef at
    least that) against the hybrid index over a flat index, same history, same searches: number of
    compared searches, how many answered differently, result of reloading the HNSW hybrid into a fresh
    one (0 ok), how many answers differed after the reload.  C12's exactness clause and C05's / C07's
    statements do not depend on which exact vector index is plugged in. *)
Definition chk_hnsw_hybrid : P (list Z) :=
  n <- pz ;; diffs <- pz ;; reload <- pz ;; rdiffs <- pz ;;
  let ok := (diffs =? 0) && (reload =? 0) && (rdiffs =? 0) in
  ret (verdict ok ok [diffs; reload; rdiffs]).
