(** Correspondence checkers for C18 (distance.go). *)
From Coq Require Import ZArith List Bool.
From Comet Require Import Base.FBits Base.Parse Base.Sorting Check.Common Model.Distance.
Import ListNotations.
Open Scope Z_scope.

Fixpoint vec_eqb (a b : list Z) : bool :=
  match a, b with
  | [], [] => true
  | x :: a', y :: b' => (F32.canon x =? F32.canon y) && vec_eqb a' b'
  | _, _ => false
  end.
Definition vec_close (tol : Z) (a b : list Z) : bool :=
  (length a =? length b)%nat && forallb (fun p => close32 tol (fst p) (snd p)) (combine a b).

Definition nonneg32 (x : Z) : bool := F32.is_nan x || (0 <=? F32.key x).

(** 1801: metric, a, b, impl d(a,b), d(b,a), d(a,a).
    spec_b: non-negative, symmetric, self-distance zero for the Euclidean family, cosine within [0,2]. *)
Definition chk_dist : P (list Z) :=
  mz <- pz ;; a <- pvec ;; b <- pvec ;; dab <- pz ;; dba <- pz ;; daa <- pz ;;
  let m := metric_of_Z mz in
  let mab := F32.canon (dist m a b) in
  let mba := F32.canon (dist m b a) in
  let maa := F32.canon (dist m a a) in
  let exact := (mab =? dab) && (mba =? dba) && (maa =? daa) in
  let finite := forallb F32.is_finite (a ++ b) in
  let specb :=
      negb finite ||
      (nonneg32 dab && nonneg32 dba && close32 4 dab dba &&
       match m with
       | Cos => (F32.is_nan dab || (F32.key dab <=? F32.key F32.two))
       | _ => F32.is_nan daa || (F32.key daa =? 0)
       end && close32 256 dab mab) in
  ret (verdict exact specb [mab; mba; maa]).

(** 1802: batch = element-wise. metric, queries, target, impl batch result, the implementation's own
    element-wise results for the same pairs.  The property's demand is evaluated on the implementation
    alone: the two lists are bit-identical *)
Definition chk_batch : P (list Z) :=
  mz <- pz ;; qs <- pvecs ;; t <- pvec ;; outs <- pzs ;; calc <- pzs ;;
  let m := metric_of_Z mz in
  let mo := map F32.canon (dist_batch m qs t) in
  ret (verdict (list_eqb mo outs && list_eqb (map F32.canon calc) outs) (list_eqb (map F32.canon calc) (map F32.canon outs)) mo).

(** 1803: preprocess. metric, v, err flag, out, v after Preprocess (purity), err flag in place, v after in-place *)
Definition chk_preprocess : P (list Z) :=
  mz <- pz ;; v <- pvec ;; err <- pbool ;; out <- pvec ;; vafter <- pvec ;;
  err2 <- pbool ;; vin <- pvec ;;
  let m := metric_of_Z mz in
  let pure := vec_eqb v vafter in
  match preprocess m v with
  | None =>
      (* zero vector under cosine: error, argument untouched in both variants *)
      ret (verdict (err && err2 && pure && vec_eqb v vin) false [1])
  | Some w =>
      let exact := negb err && negb err2 && pure && vec_eqb w out && vec_eqb w vin in
      let specb := negb err && negb err2 && pure && vec_close 64 w out && vec_close 64 w vin in
      ret (verdict exact specb (0 :: w))
  end.

(** 1804: helpers. v, scalar, Norm, Scale, Normalize, NormalizeInPlace result, v after the pure calls *)
Definition chk_helpers : P (list Z) :=
  v <- pvec ;; c <- pz ;; n <- pz ;; sc <- pvec ;; nz <- pvec ;; nzin <- pvec ;; vafter <- pvec ;;
  let exact := (F32.canon (norm v) =? n) && vec_eqb (scale v c) sc && vec_eqb (normalize v) nz
               && vec_eqb (normalize v) nzin && vec_eqb v vafter in
  let specb := close32 64 (norm v) n && vec_close 64 (scale v c) sc && vec_close 64 (normalize v) nz
               && vec_close 64 (normalize v) nzin && vec_eqb v vafter in
  ret (verdict exact specb (F32.canon (norm v) :: normalize v)).

(** 1805: float comparison semantics used by every model: a, b, impl (a<b, a==b, a>b) *)
Definition chk_cmp32 : P (list Z) :=
  a <- pz ;; b <- pz ;; lt <- pbool ;; eq <- pbool ;; gt <- pbool ;;
  let ok := Bool.eqb (F32.ltb a b) lt && Bool.eqb (F32.eqb a b) eq && Bool.eqb (F32.gtb a b) gt
            && Bool.eqb (fltb_sf 23 8 a b) lt && Bool.eqb (feqb_sf 23 8 a b) eq in
  ret (verdict ok false [if F32.ltb a b then 1 else 0; if F32.eqb a b then 1 else 0]).

(** 1806: triangle inequality and scaling laws on the implementation's outputs (tolerance form):
    a b c (vectors), d(a,b) d(b,c) d(a,c) Euclidean; l2sq(a,b); model compared bit-exactly *)
Definition chk_triangle : P (list Z) :=
  a <- pvec ;; b <- pvec ;; c <- pvec ;; dab <- pz ;; dbc <- pz ;; dac <- pz ;; sq <- pz ;;
  let exact := (F32.canon (l2 a b) =? dab) && (F32.canon (l2 b c) =? dbc) && (F32.canon (l2 a c) =? dac)
               && (F32.canon (l2sq a b) =? sq) in
  (* d(a,c) <= (d(a,b)+d(b,c)) * (1 + 2^-10) + tiny, evaluated in float32 *)
  let slack := F32.mul (F32.add dab dbc) 1065361408 (* 1 + 2^-10 *) in
  let finite := forallb F32.is_finite [dab; dbc; dac; sq] in
  let tri := negb finite || F32.leb dac (F32.add slack 8388608 (* 2^-126 *)) in
  let sqok := negb finite || close32 1024 (F32.mul dab dab) sq || (F32.key sq <? 16777216) in
  ret (verdict (exact && tri && sqok) (tri && sqok) [F32.canon (l2 a b); F32.canon (l2 b c); F32.canon (l2 a c)]).
