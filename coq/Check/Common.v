(** Helpers shared by the correspondence checkers. *)
From Coq Require Import ZArith List Bool.
From Comet Require Import Base.FBits Base.Parse Base.Sorting.
Import ListNotations.
Open Scope Z_scope.

Definition ppairs : P (list (Z * Z)) := plist (ppair pz pz).
Definition pvec : P (list Z) := pzs.
Definition pvecs : P (list (list Z)) := plist pzs.

Definition canon32_pairs (l : list (Z * Z)) := map (fun p => (fst p, F32.canon (snd p))) l.
Definition canon64_pairs (l : list (Z * Z)) := map (fun p => (fst p, F64.canon (snd p))) l.

Fixpoint memz (x : Z) (l : list Z) : bool :=
  match l with [] => false | y :: t => (x =? y) || memz x t end.

Fixpoint nodupz (l : list Z) : bool :=
  match l with [] => true | x :: t => negb (memz x t) && nodupz t end.

Definition subsetz (a b : list Z) : bool := forallb (fun x => memz x b) a.
Definition seteqz (a b : list Z) : bool := subsetz a b && subsetz b a.

(** same multiset of (id, score) *)
Definition same_pairs (a b : list (Z * Z)) : bool := plist_eqb (sort_pairs a) (sort_pairs b).

(** ulp distance between two float32 values of the same sign region (keys are monotone) *)
Definition close32 (tol : Z) (a b : Z) : bool :=
  (F32.is_nan a && F32.is_nan b) ||
  (negb (F32.is_nan a) && negb (F32.is_nan b) && (Z.abs (F32.key a - F32.key b) <=? tol)).
Definition close64 (tol : Z) (a b : Z) : bool :=
  (F64.is_nan a && F64.is_nan b) ||
  (negb (F64.is_nan a) && negb (F64.is_nan b) && (Z.abs (F64.key a - F64.key b) <=? tol)).

Definition has_nan32 (l : list Z) : bool := existsb F32.is_nan l.

(** best-first order on non-NaN float32 scores *)
Definition asc32 (l : list Z) : bool := has_nan32 l || sortedb F32.key l.
Definition desc32 (l : list Z) : bool := has_nan32 l || sortedb (fun x => - F32.key x) l.
Definition desc64 (l : list Z) : bool := existsb F64.is_nan l || sortedb (fun x => - F64.key x) l.

Fixpoint lookup_pair (id : Z) (m : list (Z * Z)) : option Z :=
  match m with [] => None | (i, s) :: t => if i =? id then Some s else lookup_pair id t end.

(** every (id, s) of [a] has a counterpart (id, s') in [b] with s ~ s' *)
Definition pairs_close (cl : Z -> Z -> bool) (a b : list (Z * Z)) : bool :=
  forallb (fun p => match lookup_pair (fst p) b with Some s => cl (snd p) s | None => false end) a.

Definition verdict (exact specb : bool) (detail : list Z) : list Z :=
  if exact then v_ok else if specb then v_diverge detail else v_violation detail.
