(** Checker for recorded concurrent executions (C11): every operation carries the logical times at
    which it began and ended (one global atomic counter); the visibility condition of the property
    is evaluated on the implementation's answers. *)
From Coq Require Import ZArith List Bool.
From Comet Require Import Base.Parse Check.Common.
Import ListNotations.
Open Scope Z_scope.

(** kind: 1 add, 2 remove, 3 search (matches everything), 4 other (flush, write, rotate...) *)
Record cop := { o_kind : Z; o_id : Z; o_begin : Z; o_end : Z; o_err : Z; o_res : list Z }.

Definition pcop : P cop :=
  k <- pz ;; id <- pz ;; b <- pz ;; e <- pz ;; er <- pz ;; r <- pzs ;;
  ret {| o_kind := k; o_id := id; o_begin := b; o_end := e; o_err := er; o_res := r |}.

Definition visibility_ok (ops : list cop) (s : cop) : bool :=
  let adds := filter (fun o => (o_kind o =? 1) && (o_err o =? 0)) ops in
  let rems := filter (fun o => (o_kind o =? 2)) ops in
  (* must contain: added before the search began, no removal begun before the search ended *)
  forallb (fun a => negb (o_end a <? o_begin s) ||
                    existsb (fun r => (o_id r =? o_id a) && (o_begin r <? o_end s)) rems ||
                    memz (o_id a) (o_res s)) adds &&
  (* must not contain: never added (no add begun before the search ended), or removal completed
     before the search began *)
  forallb (fun id =>
             existsb (fun a => (o_id a =? id) && (o_begin a <? o_end s)) (filter (fun o => o_kind o =? 1) ops) &&
             negb (existsb (fun r => (o_id r =? id) && (o_err r =? 0) && (o_end r <? o_begin s)) rems))
          (o_res s).

(** 1100: index kind, unexpected-failure count, duplicate-auto-id count, ops *)
Definition chk_conchist : P (list Z) :=
  kind <- pz ;; failures <- pz ;; dupids <- pz ;; ops <- plist pcop ;;
  let searches := filter (fun o => (o_kind o =? 3) && (o_err o =? 0)) ops in
  let bad := filter (fun s => negb (visibility_ok ops s)) searches in
  let ok := (failures =? 0) && (dupids =? 0) && match bad with [] => true | _ => false end in
  ret (verdict ok ok [failures; dupids; Z.of_nat (length bad)]).

(** 1101: the targeted schedule at the memtable pick point: T1 picks, T2 rotates, T1 writes; outcome
    code of T1's Add (0 = success) *)
Definition chk_pick_schedule : P (list Z) :=
  code <- pz ;; found <- pbool ;;
  let ok := (code =? 0) && found in
  ret (verdict ok ok [code]).

(** 1102: read-only phase: kind, number of concurrent searches, how many answered differently from the
    same search run alone (no writer is active, so every difference is a search disturbed by another) *)
Definition chk_readonly : P (list Z) :=
  kind <- pz ;; n <- pz ;; mism <- pz ;;
  ret (verdict (mism =? 0) (mism =? 0) [mism]).

(** 1104: update phase: a fixed set of documents, one of them re-added (replaced by an equal version of
    itself) over and over by a writer while readers search: documents present in the index (standing set
    size), searches done, searches that missed a document of the standing set (every one of them was
    added before every search began and is never removed), panics *)
Definition chk_update_visible : P (list Z) :=
  kind <- pz ;; ndocs <- pz ;; searches <- pz ;; missed <- pz ;; panics <- pz ;;
  let ok := (missed =? 0) && (panics =? 0) in
  ret (verdict ok ok [missed; panics]).

(** 1103: contended phase: kind, ids, goroutines, stuck (a round of same-id operations did not come back
    within the watchdog's time), panics *)
Definition chk_contended : P (list Z) :=
  kind <- pz ;; nids <- pz ;; g <- pz ;; stuck <- pz ;; panics <- pz ;;
  let ok := (stuck =? 0) && (panics =? 0) in
  ret (verdict ok ok [stuck; panics]).
