(** C15: measured recall envelope (implementation-only observations judged by fixed floors). *)
From Coq Require Import ZArith List Bool.
From Comet Require Import Base.Parse Check.Common.
Import ListNotations.
Open Scope Z_scope.

(** 1500: index, metric, recall*1e6, floor*1e6, top1-in-10*1e6, its floor*1e6, must-be-exactly-one *)
Definition chk_recall : P (list Z) :=
  ix <- pz ;; mz <- pz ;; rec <- pz ;; fl <- pz ;; t1 <- pz ;; t1f <- pz ;; one <- pbool ;;
  let ok := (fl <=? rec) && (t1f <=? t1) && (negb one || (rec =? 1000000)) in
  ret (verdict ok ok [rec; t1]).

(** 1501: insertion-order independence: hit rate of the first and of the last inserted tenth *)
Definition chk_order : P (list Z) :=
  ix <- pz ;; mz <- pz ;; f <- pz ;; l <- pz ;;
  let ok := Z.abs (f - l) <=? 100000 in
  ret (verdict ok ok [f; l]).
