(** History checker for the BM25 text index (C03, C06 text part). *)
From Coq Require Import ZArith List Bool.
From Comet Require Import Base.FBits Base.Parse Base.Sorting Check.Common.
From Comet Require Import Model.Limiter Model.Aggregation Model.VecIndex Model.BM25 Check.VecHist.
Import ListNotations.
Open Scope Z_scope.

Inductive bop :=
| BAdd (id : Z) (toks : list Z)
| BRemove (id : Z)
| BFlush
| BSearch (rq : brequest) (err : Z) (out : list (Z * Z))
| BDump (num total avg : Z) (docs : list (Z * list Z)) (deleted : list Z) (incons : Z).

Definition pbrequest : P brequest :=
  qs <- plist pzs ;; ns <- pzs ;; nq <- plist pzs ;; ds <- pzs ;; k <- pz ;; a <- pz ;; c <- pz ;; ln <- ppairs ;;
  ret {| q_queries := qs; q_nodes := ns; q_nodeq := nq; q_docids := ds; q_k := k;
         q_agg := agg_of_Z a; q_cutoff := c; q_ln := ln |}.

Definition pbop : P bop :=
  t <- pz ;;
  if t =? 1 then (id <- pz ;; tk <- pzs ;; ret (BAdd id tk))
  else if t =? 2 then (id <- pz ;; ret (BRemove id))
  else if t =? 3 then ret BFlush
  else if t =? 4 then (rq <- pbrequest ;; e <- pz ;; out <- ppairs ;; ret (BSearch rq e out))
  else if t =? 6 then (n <- pz ;; tt <- pz ;; av <- pz ;; docs <- plist (ppair pz pzs) ;; del <- pzs ;; inc <- pz ;;
                       ret (BDump n tt av docs del inc))
  else (fun _ => None).

Definition sort_docs (l : list (Z * list Z)) : list (Z * list Z) := isort (fun d => fst d) l.
Fixpoint docs_eqb (a b : list (Z * list Z)) : bool :=
  match a, b with
  | [], [] => true
  | x :: a', y :: b' => (fst x =? fst y) && list_eqb (snd x) (snd y) && docs_eqb a' b'
  | _, _ => false
  end.

(** the statistics a from-scratch computation over the dumped documents would give *)
Definition stats_specb (num total avg : Z) (docs : list (Z * list Z)) : bool :=
  let n := Z.of_nat (length docs) in
  let tt := fold_left (fun a d => a + Z.of_nat (length (snd d))) docs 0 in
  (num =? n) && (total =? tt) && (F64.canon avg =? F64.canon (avg_of tt n)).

(** spec_b of a result list against the history-live documents: live, eligible, sharing a token
    with some query, no duplicates, descending *)
Definition bsound (s_docs : list (Z * list Z)) (deleted : list Z) (rq : brequest) (r : list (Z * Z)) : bool :=
  let allq := q_queries rq ++ q_nodeq rq in
  nodupz (map fst r) && desc32 (map snd r) &&
  ((q_k rq <=? 0) || (Z.of_nat (length r) <=? q_k rq)) &&
  forallb (fun x =>
     match find (fun d => fst d =? fst x) s_docs with
     | None => false
     | Some d =>
         negb (memz (fst x) deleted) &&
         (match q_docids rq with [] => true | ds => memz (fst x) ds end) &&
         existsb (fun q => existsb (fun t => memz t (snd d)) q) allq
     end) r.

Record bh := { bh_model : bstate; bh_i : Z; bh_weak : Z }.

Definition bstep (h : bh) (o : bop) : bh + list Z :=
  let s := bh_model h in
  let next s' w := inl {| bh_model := s'; bh_i := bh_i h + 1; bh_weak := bh_weak h + w |} in
  match o with
  | BAdd id toks => next (badd s id toks) 0
  | BRemove id => next (bremove s id) 0
  | BFlush => next (bflush s) 0
  | BDump num total avg docs del incons =>
      let exact := (num =? b_num s) && (total =? b_total s) && (F64.canon avg =? F64.canon (b_avg s))
                   && docs_eqb (sort_docs docs) (sort_docs (b_docs s)) && seteqz del (b_deleted s)
                   && (incons =? 0) in
      if exact then next s 0
      else inr (verdict false (stats_specb num total avg docs && (incons =? 0)) [bh_i h; -6; b_num s; b_total s; b_avg s])
  | BSearch rq err out =>
      let out := canon32_pairs out in
      match bexecute s rq with
      | BNoOracle => inr [9; bh_i h]
      | BErr e => if e =? err then next s 0 else inr (verdict false (negb (err =? 0)) [bh_i h; e])
      | BOk xo =>
          let snd_ok := bsound (b_docs s) (b_deleted s) rq out in
          if negb (err =? 0) then inr (verdict false false [bh_i h; 0])
          else match xo_n xo with
               | None => inr (verdict false snd_ok [bh_i h; E_PANIC])
               | Some n =>
                   if xo_tie xo && negb (xo_single xo) then
                     (if snd_ok then next s 1 else inr (v_violation [bh_i h; -1]))
                   else if match_results (if xo_single xo then xo_aggfull xo else xo_agg xo) n out then next s 0
                   else inr (verdict false
                               (snd_ok && (length out =? n)%nat && xo_single xo &&
                                pairs_close (close32 16) out (canon32_pairs (xo_aggfull xo)))
                               (bh_i h :: 0 :: flatten_pairs (firstn n (xo_agg xo))))
               end
      end
  end.

Fixpoint brun (h : bh) (ops : list bop) : list Z :=
  match ops with
  | [] => if bh_weak h =? 0 then v_ok else [0; bh_weak h]
  | o :: t => match bstep h o with inl h' => brun h' t | inr v => v end
  end.

(** 300: ops *)
Definition chk_bm25hist : P (list Z) :=
  ops <- plist pbop ;; ret (brun {| bh_model := binit; bh_i := 0; bh_weak := 0 |} ops).
