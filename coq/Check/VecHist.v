(** History checker for the exhaustive vector index kinds (C01, C02, C13, C14, C06 vector part). *)
From Coq Require Import ZArith List Bool.
From Comet Require Import Base.FBits Base.Parse Base.Sorting Check.Common.
From Comet Require Import Model.Distance Model.Limiter Model.Aggregation Model.KMeans Model.VecIndex Model.Format Model.Codecs.
Import ListNotations.
Open Scope Z_scope.

Definition pparams : P params :=
  kz <- pz ;; d <- pz ;; mz <- pz ;; nl <- pz ;; m <- pz ;; nb <- pz ;;
  ret {| p_kind := vkind_of_Z kz; p_dim := d; p_metric := metric_of_Z mz; p_nlist := nl; p_M := m; p_nbits := nb |}.

Definition prequest : P request :=
  qs <- pvecs ;; ns <- pzs ;; ds <- pzs ;; k <- pz ;; thr <- pz ;; a <- pz ;; c <- pz ;; np <- pz ;;
  ret {| r_queries := qs; r_nodes := ns; r_docids := ds; r_k := k; r_thr := thr;
         r_agg := agg_of_Z a; r_cutoff := c; r_nprobes := np |}.

Inductive vop :=
| OAdd (id : Z) (v : vec) (err : Z)
| ORemove (id : Z) (err : Z)
| OFlush
| OSearch (rq : request) (err : Z) (out : list (Z * Z))
| OTrain (vs : list vec) (err : Z)
| ODump (st : vstate)
| OWrite (bm bytes : list Z) (n : Z)
| OReload (bytes : list Z) (err n : Z)
| ONodeLaw (a : list (Z * Z)) (err : Z) (b : list (Z * Z)).
(* ONodeLaw: the following search names stored nodes and succeeded with answer [a]; [b] is the
   implementation's answer to the same search with each node id replaced by that node's stored vector *)

Definition pvop : P vop :=
  t <- pz ;;
  if t =? 1 then (id <- pz ;; v <- pvec ;; e <- pz ;; ret (OAdd id v e))
  else if t =? 2 then (id <- pz ;; e <- pz ;; ret (ORemove id e))
  else if t =? 3 then ret OFlush
  else if t =? 4 then (rq <- prequest ;; e <- pz ;; out <- ppairs ;; ret (OSearch rq e out))
  else if t =? 5 then (vs <- pvecs ;; e <- pz ;; ret (OTrain vs e))
  else if t =? 6 then
    (tr <- pbool ;; cs <- pvecs ;; bs <- plist pvecs ;;
     ls <- plist (plist (id <- pz ;; v <- pvec ;; c <- pzs ;; ret {| e_id := id; e_vec := v; e_code := c |})) ;;
     del <- pzs ;;
     ret (ODump {| st_trained := tr; st_centroids := cs; st_codebooks := bs; st_lists := ls; st_deleted := del |}))
  else if t =? 7 then (bm <- pzs ;; b <- pzs ;; n <- pz ;; ret (OWrite bm b n))
  else if t =? 8 then (b <- pzs ;; e <- pz ;; n <- pz ;; ret (OReload b e n))
  else if t =? 9 then (a <- ppairs ;; e <- pz ;; b <- ppairs ;; ret (ONodeLaw a e b))
  else (fun _ => None).

(** ---- structural comparison (verif snapshot) ---- *)
Fixpoint veceq (a b : list Z) : bool :=
  match a, b with
  | [], [] => true
  | x :: a', y :: b' => (F32.canon x =? F32.canon y) && veceq a' b'
  | _, _ => false
  end.
Fixpoint list_eqb_by {A} (eq : A -> A -> bool) (a b : list A) : bool :=
  match a, b with
  | [], [] => true
  | x :: a', y :: b' => eq x y && list_eqb_by eq a' b'
  | _, _ => false
  end.
Definition entry_eqb (a b : entry) : bool :=
  (e_id a =? e_id b) && veceq (e_vec a) (e_vec b) && list_eqb (e_code a) (e_code b).
Definition state_eqb (a b : vstate) : bool :=
  Bool.eqb (st_trained a) (st_trained b) &&
  list_eqb_by veceq (st_centroids a) (st_centroids b) &&
  list_eqb_by (list_eqb_by veceq) (st_codebooks a) (st_codebooks b) &&
  list_eqb_by (list_eqb_by entry_eqb) (st_lists a) (st_lists b) &&
  seteqz (st_deleted a) (st_deleted b).

Definition min_key (l : list Z) : Z :=
  fold_left (fun m x => if F32.ltb x m then x else m) l F32.pinf.

(** what the property demands of the structure, evaluated on the implementation's own data:
    every vector sits in the list of a nearest centroid, every code byte names a nearest codeword *)
Definition countz (x : Z) (l : list Z) : Z := Z.of_nat (length (filter (fun y => y =? x) l)).
Definition struct_specb (p : params) (live : list (Z * vec)) (im : vstate) : bool :=
  let cents := st_centroids im in
  (* among the entries that are not soft-deleted, no id is resident more often than the history added
     it while live (once, unless the caller added a live id again): a removed-then-re-added id must
     leave no second, stale copy behind *)
  (let ids := filter (fun id => negb (memz id (st_deleted im))) (map e_id (concat (st_lists im))) in
   forallb (fun id => countz id ids <=? countz id (map fst live)) ids) &&
  forallb (fun il =>
    let '(li, l) := il in
    forallb (fun e =>
      (negb (uses_lists (p_kind p)) ||
       (F32.key (dist (p_metric p) (e_vec e) (nthv cents li)) =?
        F32.key (min_key (map (fun c => dist (p_metric p) (e_vec e) c) cents)))) &&
      (negb (uses_codes (p_kind p)) ||
       let base := match p_kind p with KIVFPQ => vsub (e_vec e) (nthv cents li) | _ => e_vec e end in
       (length (e_code e) =? length (st_codebooks im))%nat &&
       forallb (fun mbc =>
          let '(m, book, c) := mbc in
          let sv := subvec base (m * p_dsub p) (p_dsub p) in
          (c <? Z.of_nat (length book)) &&
          (F32.key (l2sq sv (nthv book c)) =? F32.key (min_key (map (fun cw => l2sq sv cw) book))))
        (combine (combine (map Z.of_nat (seq 0 (length (st_codebooks im)))) (st_codebooks im)) (e_code e)))) l)
   (combine (map Z.of_nat (seq 0 (length (st_lists im)))) (st_lists im)).

(** tie-tolerant equality of a result list with the model's sorted candidate list *)
Definition pair_in (x : Z * Z) (l : list (Z * Z)) : bool := existsb (pair_eqb x) l.
Definition match_results (full : list (Z * Z)) (n : nat) (r : list (Z * Z)) : bool :=
  let full := canon32_pairs full in
  (length r =? n)%nat && list_eqb (map snd r) (map snd (firstn n full))
  && nodupz (map fst r) && forallb (fun x => pair_in x full) r.

(** soundness against the history (independent of how the model searches) *)
Definition find_entry (im : vstate) (id : Z) : option (Z * entry) :=
  find (fun le => e_id (snd le) =? id)
       (flat_map (fun il => map (fun e => (fst il, e)) (snd il))
                 (combine (map Z.of_nat (seq 0 (length (st_lists im)))) (st_lists im))).

Definition pq_kind_score (p : params) (im : vstate) (pq : vec) (li : Z) (e : entry) : Z :=
  adist (dist_tables p (st_codebooks im)
           (match p_kind p with KIVFPQ => vsub pq (nthv (st_centroids im) li) | _ => pq end)) (e_code e).

Definition sound_results (p : params) (live : list (Z * vec)) (impl : option vstate) (rq : request)
           (single : option vec) (r : list (Z * Z)) : bool :=
  nodupz (map fst r) && asc32 (map snd r) &&
  ((r_k rq <=? 0) || (Z.of_nat (length r) <=? r_k rq)) &&
  forallb (fun x =>
     match find (fun lv => fst lv =? fst x) live with
     | None => false
     | Some lv =>
         (match r_docids rq with [] => true | ds => memz (fst x) ds end) &&
         match single, p_kind p with
         | Some pq, (KFlat | KIVF) =>
             close32 64 (snd x) (dist (p_metric p) pq (snd lv)) &&
             negb (F32.gtb (r_thr rq) F32.zero && F32.gtb (snd x) (r_thr rq))
         | Some pq, (KPQ | KIVFPQ) =>
             negb (F32.gtb (r_thr rq) F32.zero && F32.gtb (snd x) (r_thr rq)) &&
             match impl with
             | Some im => match find_entry im (fst x) with
                          | Some (li, e) => close32 64 (snd x) (pq_kind_score p im pq li e)
                          | None => false
                          end
             | None => true
             end
         | _, _ => true
         end
     end) r.

(** exactness against the history for one flat (or full-probe IVF) query: when every returned score
    is bit-identical to the model's distance, the answer must be the exact top-k of the
    history-live, eligible candidates within the threshold *)
Definition complete_results (p : params) (live : list (Z * vec)) (rq : request) (pq : vec)
           (r : list (Z * Z)) : bool :=
  let E := flat_map (fun lv =>
              if (match r_docids rq with [] => true | ds => memz (fst lv) ds end)
              then let d := F32.canon (dist (p_metric p) pq (snd lv)) in
                   if thr_ok rq d then [(fst lv, d)] else []
              else []) live in
  if negb (r_cutoff rq =? -1) then true      (* autocut may shorten the list further *)
  else if forallb (fun x => pair_in x E) r then
    (Z.of_nat (length r) =? sanitizeK (r_k rq) (Z.of_nat (length E))) &&
    match r with
    | [] => true
    | _ => let lastk := F32.key (snd (last r (0, 0))) in
           forallb (fun c => memz (fst c) (map fst r) || (lastk <=? F32.key (snd c))) E
    end
  else true.

(** the same for the code-based kinds, with each live vector's score recomputed from the
    implementation's own codes, codebooks and centroids (PQ scans everything; IVFPQ at full probe) *)
Definition complete_code_results (p : params) (live : list (Z * vec)) (im : vstate) (rq : request) (pq : vec)
           (r : list (Z * Z)) : bool :=
  let E := flat_map (fun lv =>
              if (match r_docids rq with [] => true | ds => memz (fst lv) ds end)
              then match find_entry im (fst lv) with
                   | Some (li, e) => let d := F32.canon (pq_kind_score p im pq li e) in
                                     if thr_ok rq d then [(fst lv, d)] else []
                   | None => []
                   end
              else []) live in
  if negb (r_cutoff rq =? -1) then true
  else if forallb (fun x => pair_in x E) r then
    (Z.of_nat (length r) =? sanitizeK (r_k rq) (Z.of_nat (length E))) &&
    match r with
    | [] => true
    | _ => let lastk := F32.key (snd (last r (0, 0))) in
           forallb (fun c => memz (fst c) (map fst r) || (lastk <=? F32.key (snd c))) E
    end
  else true.

Definition full_probe (p : params) (rq : request) : bool :=
  match p_kind p with
  | KFlat => true
  | KIVF => (r_nprobes rq <=? 0) || (p_nlist p <=? r_nprobes rq)
  | _ => false
  end.

(** what the property demands of a partial-probe IVF answer, evaluated on the implementation's own
    centroids and lists (independent of the model's search): every returned id is stored in one of
    the p clusters nearest to the query, and no eligible live vector of a cluster STRICTLY nearer
    than the p-th nearest centroid is missing while a worse one (or a free slot) is present *)
Definition probe_specb (p : params) (live : list (Z * vec)) (im : vstate) (rq : request) (pq : vec)
           (r : list (Z * Z)) : bool :=
  let cents := st_centroids im in
  let np := r_nprobes rq in
  let partial := (0 <? np) && (np <? Z.of_nat (length cents)) in
    let cdk := map (fun c => F32.key (F32.canon (dist (p_metric p) pq c))) cents in
    (* with every cell probed the bound lies above all of them: the answer is then held against ALL eligible
       live vectors -- "exactly what exact search returns" *)
    let dp := if partial then nth (Z.to_nat (np - 1)) (isort (fun x => x) cdk) 0 else fold_left Z.max cdk 0 + 1 in
    let keyof := fun li => nth (Z.to_nat li) cdk 0 in
    forallb (fun x => match find_entry im (fst x) with
                      | Some (li, _) => keyof li <=? dp
                      | None => false
                      end) r &&
    (let lastk := F32.key (snd (last r (0, 0))) in
     (* without autocut the answer is the whole top-k; with it, a prefix of that ranking (possibly empty):
        either way nothing strictly better than the last returned hit may be missing *)
     let fullk := if r_cutoff rq =? -1 then (0 <? r_k rq) && (Z.of_nat (length r) =? r_k rq)
                  else match r with [] => false | _ => true end in
     let may_be_empty := negb (r_cutoff rq =? -1) && match r with [] => true | _ => false end in
     may_be_empty ||
     forallb (fun lv =>
        match find_entry im (fst lv) with
        | Some (li, _) =>
            if (keyof li <? dp) &&
               (match r_docids rq with [] => true | ds => memz (fst lv) ds end)
            then let d := F32.canon (dist (p_metric p) pq (snd lv)) in
                 negb (thr_ok rq d) || memz (fst lv) (map fst r) || (fullk && (lastk <=? F32.key d))
            else true
        | None => true
        end) live).

(** the soundness half alone (it also holds for IVFPQ, whose scores are not distances to the stored
    vectors): every returned id is stored in one of the p clusters nearest to the query *)
Definition probe_soundb (p : params) (im : vstate) (rq : request) (pq : vec) (r : list (Z * Z)) : bool :=
  let cents := st_centroids im in
  let np := r_nprobes rq in
  if negb ((0 <? np) && (np <? Z.of_nat (length cents))) then true
  else
    let cdk := map (fun c => F32.key (F32.canon (dist (p_metric p) pq c))) cents in
    let dp := nth (Z.to_nat (np - 1)) (isort (fun x => x) cdk) 0 in
    forallb (fun x => match find_entry im (fst x) with
                      | Some (li, _) => nth (Z.to_nat li) cdk 0 <=? dp
                      | None => false
                      end) r.

(** the completeness half for IVFPQ under a partial probe, with each score recomputed from the
    implementation's own codes, codebooks and centroids: a cell whose centroid is STRICTLY nearer (in the
    index's own metric) than the p-th nearest is certainly among the probed ones, so none of its eligible
    live vectors may be missing unless k better-or-equal hits fill the answer (no autocut, ids stored once) *)
Definition partial_code_complete (p : params) (live : list (Z * vec)) (im : vstate) (rq : request) (pq : vec)
           (r : list (Z * Z)) : bool :=
  let cents := st_centroids im in
  let np := r_nprobes rq in
  if negb ((0 <? np) && (np <? Z.of_nat (length cents)) && (r_cutoff rq =? -1) && nodupz (map fst live)) then true
  else
    let cdk := map (fun c => F32.key (F32.canon (dist (p_metric p) pq c))) cents in
    let dp := nth (Z.to_nat (np - 1)) (isort (fun x => x) cdk) 0 in
    let fullk := (0 <? r_k rq) && (Z.of_nat (length r) =? r_k rq) in
    let lastk := F32.key (snd (last r (0, 0))) in
    forallb (fun lv =>
       if (match r_docids rq with [] => true | ds => memz (fst lv) ds end)
       then match find_entry im (fst lv) with
            | Some (li, e) =>
                if nth (Z.to_nat li) cdk 0 <? dp
                then let d := F32.canon (pq_kind_score p im pq li e) in
                     negb (thr_ok rq d) || memz (fst lv) (map fst r) || (fullk && (lastk <=? F32.key d))
                else true
            | None => true
            end
       else true) live.

(** C02: a search from stored node ids is equivalent to the search with those nodes' stored vectors.
    Both answers come from the implementation; they must carry the same scores in the same order, and
    the same (id, score) pairs except inside the group of entries tied with the last one (where the
    cut after aggregation may keep either member of a tie). *)
Definition node_law_ok (a b : list (Z * Z)) : bool :=
  let a := canon32_pairs a in let b := canon32_pairs b in
  same_pairs a b ||
  (list_eqb (map snd a) (map snd b) &&
   let lastk := snd (last a (0, 0)) in
   same_pairs (filter (fun x => negb (snd x =? lastk)) a) (filter (fun x => negb (snd x =? lastk)) b)).

Record hstate := { h_model : vstate; h_live : list (Z * vec); h_i : Z; h_weak : Z; h_impl : option vstate;
                   h_div : option (list Z) (* first state divergence, after which the model follows the implementation's state and only the history oracles decide *) }.

Definition step_check (p : params) (h : hstate) (o : vop) : hstate + list Z :=
  let s := h_model h in
  let next s' live' weak := inl {| h_model := s'; h_live := live'; h_i := h_i h + 1; h_weak := h_weak h + weak; h_impl := h_impl h; h_div := h_div h |} in
  let nextc s' live' weak := inl {| h_model := s'; h_live := live'; h_i := h_i h + 1; h_weak := h_weak h + weak; h_impl := None; h_div := h_div h |} in
  match o with
  | OAdd id v err =>
      let '(s', e) := vadd_op p s id v in
      if e =? err then
        nextc s' (if e =? 0 then match preprocess (p_metric p) v with
                                | Some w => h_live h ++ [(id, w)] | None => h_live h end
                 else h_live h) 0
      else inr (verdict false (Bool.eqb (e =? 0) (err =? 0)) [h_i h; e])
  | ORemove id err =>
      let '(s', e) := vremove_op s id in
      if e =? err then nextc s' (if e =? 0 then filter (fun lv => negb (fst lv =? id)) (h_live h) else h_live h) 0
      else inr (verdict false (Bool.eqb (e =? 0) (err =? 0)) [h_i h; e])
  | OFlush => nextc (vflush_op s) (h_live h) 0
  | OTrain vs err =>
      let '(s', e) := vtrain_op p s vs in
      if e =? err then nextc s' (h_live h) 0
      else inr (verdict false (Bool.eqb (e =? 0) (err =? 0)) [h_i h; e])
  | OWrite bm bytes n =>
      (* WriteTo flushes the source, then emits the stream *)
      let s' := vflush_op s in
      let mb := encode (fmt_vec p) (to_val p bm s') in
      let framing := match decode (fmt_vec p) bytes with Some (_, []) => true | _ => false end in
      if list_eqb mb bytes && (n =? Z.of_nat (length bytes)) then nextc s' (h_live h) 0
      else if framing && (n =? Z.of_nat (length bytes)) then
        (* the stream is not the model's but is a well-formed stream of this kind with the right byte
           count: record the divergence and go on -- the reload that follows takes its state from the
           stream itself, and the continuation history decides *)
        inl {| h_model := s'; h_live := h_live h; h_i := h_i h + 1; h_weak := h_weak h; h_impl := None;
               h_div := match h_div h with Some d => Some d | None => Some [h_i h; -7; Z.of_nat (length mb)] end |}
      else inr (verdict false false [h_i h; -7; Z.of_nat (length mb)])
  | OReload bytes err n =>
      match decode (fmt_vec p) bytes with
      | Some (v, []) =>
          match of_val p v with
          | Some s' =>
              if (err =? 0) && (n =? Z.of_nat (length bytes)) then nextc s' (h_live h) 0
              else inr (verdict false false [h_i h; -8])
          | None => inr (verdict false (err =? 0) [h_i h; -81])
          end
      | _ => inr (verdict false (err =? 0) [h_i h; -82])
      end
  | ODump im =>
      if state_eqb s im then
        inl {| h_model := s; h_live := h_live h; h_i := h_i h + 1; h_weak := h_weak h; h_impl := Some im; h_div := h_div h |}
      else if struct_specb p (h_live h) im then
        (* the implementation's state differs from the model's but still satisfies the structural
           clauses: follow the implementation and let the history oracles look for a failing query *)
        inl {| h_model := im; h_live := h_live h; h_i := h_i h + 1; h_weak := h_weak h; h_impl := Some im;
               h_div := match h_div h with Some d => Some d | None => Some [h_i h; -6] end |}
      else inr (v_violation [h_i h; -6])
  | ONodeLaw a err b =>
      if (err =? 0) && node_law_ok a b then next s (h_live h) 0 else inr (v_violation [h_i h; -9])
  | OSearch rq err out =>
      let out := canon32_pairs out in
      match execute p s rq with
      | Err e =>
          if e =? err then next s (h_live h) 0
          else inr (verdict false (negb (err =? 0)) [h_i h; e])
      | Ok xo =>
          (* an id the history added again while it was live (outside the documented contract of unique
             ids) is stored twice and its scores are aggregated: score / completeness oracles then do
             not apply; membership (a removed id never appears) still does *)
          let single :=
              match r_queries rq, r_nodes rq with
              | [q], [] => if nodupz (map fst (h_live h)) then preprocess (p_metric p) q else None
              | _, _ => None
              end in
          let snd_ok := sound_results p (h_live h) (h_impl h) rq single out &&
                        match single with
                        | Some pq => negb (full_probe p rq) || complete_results p (h_live h) rq pq out
                        | None => true
                        end &&
                        match single, h_impl h, p_kind p with
                        | Some pq, Some im, KIVF => probe_specb p (h_live h) im rq pq out
                        | Some pq, Some im, KPQ => complete_code_results p (h_live h) im rq pq out
                        | Some pq, Some im, KIVFPQ =>
                            probe_soundb p im rq pq out && partial_code_complete p (h_live h) im rq pq out &&
                            (negb ((r_nprobes rq <=? 0) || (p_nlist p <=? r_nprobes rq)) ||
                             complete_code_results p (h_live h) im rq pq out)
                        | _, _, _ => true
                        end in
          if negb (err =? 0) then inr (verdict false false [h_i h; 0])
          else
            match xo_n xo with
            | None => inr (verdict false snd_ok [h_i h; E_PANIC])
            | Some n =>
                (* a single query over ids stored twice is aggregated like a multi-query search *)
                let xsingle := xo_single xo && nodupz (map fst (h_live h)) in
                if xo_ptie xo || (xo_tie xo && negb xsingle) then
                  (* a per-query cut fell inside a tie group: aggregated answers may differ
                     legitimately; only soundness is decidable here *)
                  (if snd_ok then next s (h_live h) 1 else inr (v_violation [h_i h; -1]))
                else if match_results (if xsingle then xo_aggfull xo else xo_agg xo) n out then
                  (match h_div h with
                   | Some _ => if snd_ok then next s (h_live h) 0 else inr (v_violation [h_i h; -2])
                   | None => next s (h_live h) 0
                   end)
                else if snd_ok then
                  (* the answer differs from the model's but meets every clause decidable on it: a search
                     changes no state, so record the divergence and keep judging the later queries *)
                  inl {| h_model := s; h_live := h_live h; h_i := h_i h + 1; h_weak := h_weak h; h_impl := h_impl h;
                         h_div := match h_div h with Some d => Some d
                                  | None => Some (h_i h :: 0 :: flatten_pairs (firstn n (xo_agg xo))) end |}
                else inr (verdict false false (h_i h :: 0 :: flatten_pairs (firstn n (xo_agg xo))))
            end
      end
  end.

Fixpoint run_check (p : params) (h : hstate) (ops : list vop) : list Z :=
  match ops with
  | [] => match h_div h with
          | Some d => v_diverge d
          | None => if h_weak h =? 0 then v_ok else [0; h_weak h]
          end
  | o :: t => match step_check p h o with
              | inl h' => run_check p h' t
              | inr v => v
              end
  end.

(** 200: params, ops *)
Definition chk_vechist : P (list Z) :=
  p <- pparams ;; ops <- plist pvop ;;
  ret (run_check p {| h_model := vinit p; h_live := []; h_i := 0; h_weak := 0; h_impl := None; h_div := None |} ops).
