(** History checker for the exhaustive vector index kinds (C01, C02, C13, C14, C06 vector part). *)
From Coq Require Import ZArith List Bool.
From Comet Require Import Base.FBits Base.Parse Base.Sorting Check.Common.
From Comet Require Import Model.Distance Model.Limiter Model.Aggregation Model.KMeans Model.VecIndex.
Import ListNotations.
Open Scope Z_scope.

Definition pparams : P params :=
  kz <- pz ;; d <- pz ;; mz <- pz ;; nl <- pz ;; m <- pz ;; nb <- pz ;;
  ret {| p_kind := vkind_of_Z kz; p_dim := d; p_metric := metric_of_Z mz; p_nlist := nl; p_M := m; p_nbits := nb |}.

Definition prequest : P request :=
  qs <- pvecs ;; ns <- pzs ;; ds <- pzs ;; k <- pz ;; thr <- pz ;; a <- pz ;; c <- pz ;; np <- pz ;;
  ret {| r_queries := qs; r_nodes := ns; r_docids := ds; r_k := k; r_thr := thr;
         r_agg := agg_of_Z a; r_cutoff := c; r_nprobes := np |}.

Inductive vop :=
| OAdd (id : Z) (v : vec) (err : Z)
| ORemove (id : Z) (err : Z)
| OFlush
| OSearch (rq : request) (err : Z) (out : list (Z * Z))
| OTrain (vs : list vec) (err : Z).

Definition pvop : P vop :=
  t <- pz ;;
  if t =? 1 then (id <- pz ;; v <- pvec ;; e <- pz ;; ret (OAdd id v e))
  else if t =? 2 then (id <- pz ;; e <- pz ;; ret (ORemove id e))
  else if t =? 3 then ret OFlush
  else if t =? 4 then (rq <- prequest ;; e <- pz ;; out <- ppairs ;; ret (OSearch rq e out))
  else if t =? 5 then (vs <- pvecs ;; e <- pz ;; ret (OTrain vs e))
  else (fun _ => None).

(** tie-tolerant equality of a result list with the model's sorted candidate list *)
Definition pair_in (x : Z * Z) (l : list (Z * Z)) : bool := existsb (pair_eqb x) l.
Definition match_results (full : list (Z * Z)) (n : nat) (r : list (Z * Z)) : bool :=
  let full := canon32_pairs full in
  (length r =? n)%nat && list_eqb (map snd r) (map snd (firstn n full))
  && nodupz (map fst r) && forallb (fun x => pair_in x full) r.

(** soundness against the history (independent of how the model searches) *)
Definition sound_results (p : params) (live : list (Z * vec)) (rq : request) (single : option vec)
           (r : list (Z * Z)) : bool :=
  nodupz (map fst r) && asc32 (map snd r) &&
  ((r_k rq <=? 0) || (Z.of_nat (length r) <=? r_k rq)) &&
  forallb (fun x =>
     match find (fun lv => fst lv =? fst x) live with
     | None => false
     | Some lv =>
         (match r_docids rq with [] => true | ds => memz (fst x) ds end) &&
         match single, p_kind p with
         | Some pq, (KFlat | KIVF) =>
             close32 64 (snd x) (dist (p_metric p) pq (snd lv)) &&
             negb (F32.gtb (r_thr rq) F32.zero && F32.gtb (snd x) (r_thr rq))
         | _, _ => true
         end
     end) r.

(** exactness against the history for one flat (or full-probe IVF) query: when every returned score
    is bit-identical to the model's distance, the answer must be the exact top-k of the
    history-live, eligible candidates within the threshold *)
Definition complete_results (p : params) (live : list (Z * vec)) (rq : request) (pq : vec)
           (r : list (Z * Z)) : bool :=
  let E := flat_map (fun lv =>
              if (match r_docids rq with [] => true | ds => memz (fst lv) ds end)
              then let d := F32.canon (dist (p_metric p) pq (snd lv)) in
                   if thr_ok rq d then [(fst lv, d)] else []
              else []) live in
  if forallb (fun x => pair_in x E) r then
    (Z.of_nat (length r) =? sanitizeK (r_k rq) (Z.of_nat (length E))) &&
    match r with
    | [] => true
    | _ => let lastk := F32.key (snd (last r (0, 0))) in
           forallb (fun c => memz (fst c) (map fst r) || (lastk <=? F32.key (snd c))) E
    end
  else true.

Definition full_probe (p : params) (rq : request) : bool :=
  match p_kind p with
  | KFlat => true
  | KIVF => (r_nprobes rq <=? 0) || (p_nlist p <=? r_nprobes rq)
  | _ => false
  end.

Record hstate := { h_model : vstate; h_live : list (Z * vec); h_i : Z; h_weak : Z }.

Definition step_check (p : params) (h : hstate) (o : vop) : hstate + list Z :=
  let s := h_model h in
  let next s' live' weak := inl {| h_model := s'; h_live := live'; h_i := h_i h + 1; h_weak := h_weak h + weak |} in
  match o with
  | OAdd id v err =>
      let '(s', e) := vadd_op p s id v in
      if e =? err then
        next s' (if e =? 0 then match preprocess (p_metric p) v with
                                | Some w => h_live h ++ [(id, w)] | None => h_live h end
                 else h_live h) 0
      else inr (verdict false (Bool.eqb (e =? 0) (err =? 0)) [h_i h; e])
  | ORemove id err =>
      let '(s', e) := vremove_op s id in
      if e =? err then next s' (if e =? 0 then filter (fun lv => negb (fst lv =? id)) (h_live h) else h_live h) 0
      else inr (verdict false (Bool.eqb (e =? 0) (err =? 0)) [h_i h; e])
  | OFlush => next (vflush_op s) (h_live h) 0
  | OTrain vs err =>
      let '(s', e) := vtrain_op p s vs in
      if e =? err then next s' (h_live h) 0
      else inr (verdict false (Bool.eqb (e =? 0) (err =? 0)) [h_i h; e])
  | OSearch rq err out =>
      let out := canon32_pairs out in
      match execute p s rq with
      | Err e =>
          if e =? err then next s (h_live h) 0
          else inr (verdict false (negb (err =? 0)) [h_i h; e])
      | Ok xo =>
          let single :=
              match r_queries rq, r_nodes rq with
              | [q], [] => preprocess (p_metric p) q
              | _, _ => None
              end in
          let snd_ok := sound_results p (h_live h) rq single out &&
                        match single with
                        | Some pq => negb (full_probe p rq) || complete_results p (h_live h) rq pq out
                        | None => true
                        end in
          if negb (err =? 0) then inr (verdict false false [h_i h; 0])
          else
            match xo_n xo with
            | None => inr (verdict false snd_ok [h_i h; E_PANIC])
            | Some n =>
                if xo_ptie xo || (xo_tie xo && negb (xo_single xo)) then
                  (* a per-query cut fell inside a tie group: aggregated answers may differ
                     legitimately; only soundness is decidable here *)
                  (if snd_ok then next s (h_live h) 1 else inr (v_violation [h_i h; -1]))
                else if match_results (xo_agg xo) n out then next s (h_live h) 0
                else inr (verdict false snd_ok (h_i h :: 0 :: flatten_pairs (firstn n (xo_agg xo))))
            end
      end
  end.

Fixpoint run_check (p : params) (h : hstate) (ops : list vop) : list Z :=
  match ops with
  | [] => if h_weak h =? 0 then v_ok else [0; h_weak h]
  | o :: t => match step_check p h o with
              | inl h' => run_check p h' t
              | inr v => v
              end
  end.

(** 200: params, ops *)
Definition chk_vechist : P (list Z) :=
  p <- pparams ;; ops <- plist pvop ;;
  ret (run_check p {| h_model := vinit p; h_live := []; h_i := 0; h_weak := 0 |} ops).
