(** bm25_index.go / bm25_index_search.go.  Tokens are integers (interned by the harness from the
    real normalize+tokenize); math.Log is an oracle table (trusted base). *)
From Coq Require Import ZArith List Bool.
From Comet Require Import Base.FBits Base.Parse Base.Sorting.
From Comet Require Import Model.Limiter Model.Aggregation Model.VecIndex.
Import ListNotations.
Open Scope Z_scope.

Record bstate := {
  b_docs : list (Z * list Z);    (* resident documents (live and soft-deleted), insertion order *)
  b_num : Z; b_total : Z; b_avg : Z;   (* numDocs, totalTokens, avgDocLen (float64 bits) *)
  b_deleted : list Z }.

Definition binit : bstate := {| b_docs := []; b_num := 0; b_total := 0; b_avg := F64.zero; b_deleted := [] |}.

Definition doc_tokens (s : bstate) (id : Z) : option (list Z) :=
  match find (fun d => fst d =? id) (b_docs s) with Some d => Some (snd d) | None => None end.

Definition avg_of (total num : Z) : Z :=
  if num =? 0 then F64.zero else F64.div (F64.of_Z total) (F64.of_Z num).

(** removeInternal *)
Definition bremove_internal (s : bstate) (id : Z) : bstate :=
  match doc_tokens s id with
  | None => s
  | Some toks =>
      let num := b_num s - 1 in
      let total := b_total s - Z.of_nat (length toks) in
      {| b_docs := filter (fun d => negb (fst d =? id)) (b_docs s);
         b_num := num;
         b_total := if 0 <? num then total else 0;
         b_avg := if 0 <? num then avg_of total num else F64.zero;
         b_deleted := b_deleted s |}
  end.

Definition badd (s : bstate) (id : Z) (toks : list Z) : bstate :=
  let s := bremove_internal s id in
  let total := b_total s + Z.of_nat (length toks) in
  (* a re-added id is live again (fix: commit "re-adding a removed id") *)
  {| b_docs := b_docs s ++ [(id, toks)]; b_num := b_num s + 1; b_total := total;
     b_avg := avg_of total (b_num s + 1); b_deleted := filter (fun x => negb (x =? id)) (b_deleted s) |}.

Definition bremove (s : bstate) (id : Z) : bstate :=
  match doc_tokens s id with
  | None => s
  | Some _ => if memz id (b_deleted s) then s
              else {| b_docs := b_docs s; b_num := b_num s; b_total := b_total s; b_avg := b_avg s;
                      b_deleted := id :: b_deleted s |}
  end.

(** Flush: removeInternal for every soft-deleted id in ascending id order *)
Definition bflush (s : bstate) : bstate :=
  let ids := isort (fun x => x) (b_deleted s) in
  let s' := fold_left bremove_internal ids s in
  {| b_docs := b_docs s'; b_num := b_num s'; b_total := b_total s'; b_avg := b_avg s'; b_deleted := [] |}.

(** derived statistics *)
Definition count_tok (t : Z) (toks : list Z) : Z := Z.of_nat (length (filter (Z.eqb t) toks)).
Definition posting (s : bstate) (t : Z) : list Z :=
  isort (fun x => x) (map fst (filter (fun d => memz t (snd d)) (b_docs s))).

(** float64 constants of the scoring expression *)
Definition c_half : Z := 4602678819172646912.      (* 0.5  *)
Definition c_one : Z := 4607182418800017408.       (* 1.0  *)
Definition c_k1p1 : Z := 4612136378390124954.      (* 2.2  = K1 + 1 (constant-folded) *)
Definition c_k1 : Z := 4608083138725491507.        (* 1.2  *)
Definition c_b : Z := 4604930618986332160.         (* 0.75 *)
Definition c_1mb : Z := 4598175219545276416.       (* 0.25 = 1 - B (constant-folded) *)

Definition idf_arg (n df : Z) : Z :=
  F64.add (F64.div (F64.add (F64.sub (F64.of_Z n) (F64.of_Z df)) c_half)
                   (F64.add (F64.of_Z df) c_half)) c_one.

Definition ln_lookup (table : list (Z * Z)) (x : Z) : option Z :=
  match find (fun p => fst p =? x) table with Some p => Some (snd p) | None => None end.

Definition term_score (idf tf doclen avg : Z) : Z :=
  let tfv := F64.of_Z tf in
  F64.div (F64.mul idf (F64.mul tfv c_k1p1))
          (F64.add tfv (F64.mul c_k1 (F64.add c_1mb (F64.mul c_b (F64.div (F64.of_Z doclen) avg))))).

Fixpoint upsert_add (id sc : Z) (m : list (Z * Z)) : list (Z * Z) :=
  match m with
  | [] => [(id, F64.add F64.zero sc)]
  | (i, x) :: t => if i =? id then (i, F64.add x sc) :: t else (i, x) :: upsert_add id sc t
  end.

Record brequest := {
  q_queries : list (list Z); q_nodes : list Z; q_nodeq : list (list Z); q_docids : list Z;
  q_k : Z; q_agg : agg_kind; q_cutoff : Z; q_ln : list (Z * Z) }.

(** None = a math.Log argument missing from the oracle table *)
Definition bsearch_scores (s : bstate) (rq : brequest) (qtoks : list Z) : option (list (Z * Z)) :=
  fold_left
    (fun (acc : option (list (Z * Z))) t =>
       match acc with
       | None => None
       | Some m =>
           let post := posting s t in
           match post with
           | [] => Some m
           | _ =>
               let df := Z.of_nat (length post) in
               match ln_lookup (q_ln rq) (idf_arg (b_num s) df) with
               | None => None
               | Some idf =>
                   Some (fold_left
                           (fun m d =>
                              if memz d (b_deleted s) then m
                              else if (match q_docids rq with [] => true | ds => memz d ds end) then
                                match doc_tokens s d with
                                | Some toks => upsert_add d (term_score idf (count_tok t toks)
                                                                         (Z.of_nat (length toks)) (b_avg s)) m
                                | None => m
                                end
                              else m) post m)
               end
           end
       end) qtoks (Some []).

Definition bsearch_single (s : bstate) (rq : brequest) (qtoks : list Z) : option single_out :=
  let mk full cut tie := Some {| so_full := full; so_cut := cut; so_tie := tie; so_ptie := false |} in
  match qtoks with
  | [] => mk [] O false
  | _ =>
      if b_num s =? 0 then mk [] O false else
      match bsearch_scores s rq qtoks with
      | None => None
      | Some m =>
          let sorted := isort (fun p => - F64.key (snd p)) m in
          let n := Z.of_nat (length sorted) in
          let cut := Z.to_nat (if (q_k rq <=? 0) || (n <=? q_k rq) then n else q_k rq) in
          let tie := tie_at (fun x => F64.key (snd x)) sorted (0, 0) cut in
          mk (map (fun p => (fst p, f64_to_f32 (snd p))) sorted) cut tie
      end
  end.

Definition blookup_node (s : bstate) (id : Z) : bool :=
  negb (memz id (b_deleted s)) && match doc_tokens s id with Some _ => true | None => false end.

Inductive bres := BOk (xo : exec_out) | BErr (e : Z) | BNoOracle.

Definition bexecute (s : bstate) (rq : brequest) : bres :=
  match q_queries rq, q_nodes rq with
  | [], [] => BErr E_NOQUERY
  | _, _ =>
      if negb (forallb (blookup_node s) (q_nodes rq)) then BErr E_NOTFOUND else
      let allq := q_queries rq ++ q_nodeq rq in
      let outs := map (bsearch_single s rq) allq in
      if existsb (fun o => match o with None => true | _ => false end) outs then BNoOracle else
      let outs := flat_map (fun o => match o with Some x => [x] | None => [] end) outs in
      let allres := flat_map (fun o => firstn (so_cut o) (so_full o)) outs in
      let agg := aggregate_txt (q_agg rq) allres in
      let lim := limit agg (q_k rq) in
      let n := match autocut_results lim (q_cutoff rq) with Some l => Some (length l) | None => None end in
      BOk {| xo_agg := agg; xo_aggfull := aggregate_txt (q_agg rq) (flat_map so_full outs); xo_n := n;
             xo_tie := existsb so_tie outs; xo_ptie := false; xo_single := (length allq =? 1)%nat |}
  end.
