(** fusion.go and storage_merge.go: score maps are association lists with unique keys
    (float64 scores as bit patterns).  Output maps are compared as sets. *)
From Coq Require Import ZArith List Bool.
From Comet Require Import Base.FBits Base.Sorting.
Import ListNotations.
Open Scope Z_scope.

Definition smap := list (Z * Z).

Fixpoint lookup (id : Z) (m : smap) : option Z :=
  match m with
  | [] => None
  | (i, s) :: t => if i =? id then Some s else lookup id t
  end.

Fixpoint upsert (id s : Z) (m : smap) : smap :=
  match m with
  | [] => [(id, s)]
  | (i, x) :: t => if i =? id then (i, s) :: t else (i, x) :: upsert id s t
  end.

Inductive fusion_kind := FWeighted | FRRF | FMax | FMin.

Definition fuse_weighted (vw tw : Z) (v t : smap) : smap :=
  let c := fold_left (fun c p => upsert (fst p) (F64.mul (snd p) vw) c) v [] in
  fold_left (fun c p =>
               match lookup (fst p) c with
               | Some e => upsert (fst p) (F64.add e (F64.mul (snd p) tw)) c
               | None => upsert (fst p) (F64.mul (snd p) tw) c
               end) t c.

(** ranks: position in the stable sort (ascending for distances, descending for relevance).
    The code's exchange sort on a map-ordered slice yields SOME order consistent with the
    scores; ties are ranked arbitrarily (the theorem quantifies over the input order). *)
Definition ranks (ascending : bool) (m : smap) : list (Z * Z) :=
  let sorted := isort (fun p => if ascending then F64.key (snd p) else - F64.key (snd p)) m in
  combine (map fst sorted) (map Z.of_nat (seq 0 (length sorted))).

Definition rrf_term (k : Z) (rank : Z) : Z := F64.div F64.one (F64.add k (F64.of_Z rank)).

Definition fuse_rrf (k : Z) (v t : smap) : smap :=
  let c := fold_left (fun c p => upsert (fst p) (rrf_term k (snd p)) c) (ranks true v) [] in
  fold_left (fun c p =>
               match lookup (fst p) c with
               | Some e => upsert (fst p) (F64.add e (rrf_term k (snd p))) c
               | None => upsert (fst p) (rrf_term k (snd p)) c
               end) (ranks false t) c.

Definition fuse_max (v t : smap) : smap :=
  fold_left (fun c p =>
               match lookup (fst p) c with
               | Some e => if F64.gtb (snd p) e then upsert (fst p) (snd p) c else c
               | None => upsert (fst p) (snd p) c
               end) t v.

Definition fuse_min (v t : smap) : smap :=
  flat_map (fun p => match lookup (fst p) t with
                     | Some ts => [(fst p, if F64.ltb (snd p) ts then snd p else ts)]
                     | None => []
                     end) v.

Definition fuse (kind : fusion_kind) (vw tw k : Z) (v t : smap) : smap :=
  match kind with
  | FWeighted => fuse_weighted vw tw v t
  | FRRF => fuse_rrf k v t
  | FMax => fuse_max v t
  | FMin => fuse_min v t
  end.

Definition fusion_of_Z (z : Z) : fusion_kind :=
  if z =? 1 then FRRF else if z =? 2 then FMax else if z =? 3 then FMin else FWeighted.

(** storage_merge.go: keep each id once with its highest score *)
Definition merge_results (l : list (Z * Z)) : smap :=
  fold_left (fun c p =>
               match lookup (fst p) c with
               | Some e => if F64.gtb (snd p) e then upsert (fst p) (snd p) c else c
               | None => upsert (fst p) (snd p) c
               end) l [].
