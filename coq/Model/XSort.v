(** The exchange sort of fusion.go's scoreMapToRanks, exactly as written there:

      for i := 0; i < len(sorted)-1; i++ {
        for j := i + 1; j < len(sorted); j++ {
          if shouldSwap(sorted[i], sorted[j]) { sorted[i], sorted[j] = sorted[j], sorted[i] }

    with shouldSwap(a, b) = a.score > b.score (ascending) or a.score < b.score (descending): Go float
    comparisons, false whenever a NaN is involved.  The input order is the map's iteration order, i.e.
    arbitrary; the theorems in Proofs/XSortP.v hold for every input list. *)
From Coq Require Import ZArith List Bool.
From Comet Require Import Base.FBits.
Import ListNotations.
Open Scope Z_scope.

Section XSort.
  Context {A : Type} (better : A -> A -> bool).   (* better b a: b must stand before a; = shouldSwap a b *)

  (** the inner loop for one position i: [x] is what stands at i, [l] the positions after it *)
  Fixpoint carry_best (x : A) (l : list A) : A * list A :=
    match l with
    | [] => (x, [])
    | y :: l' => if better y x
                 then let (m, r) := carry_best y l' in (m, x :: r)
                 else let (m, r) := carry_best x l' in (m, y :: r)
    end.

  Fixpoint xsort_fuel (n : nat) (l : list A) : list A :=
    match n, l with
    | O, _ => l
    | _, [] => []
    | S n', x :: l' => let (m, r) := carry_best x l' in m :: xsort_fuel n' r
    end.
  Definition xsort (l : list A) : list A := xsort_fuel (length l) l.
End XSort.

(** scoreMapToRanks on a given iteration order of the map: (id, score) pairs in, (id, rank) pairs out *)
Definition better64 (ascending : bool) (b a : Z * Z) : bool :=
  if ascending then F64.gtb (snd a) (snd b) else F64.ltb (snd a) (snd b).
Definition xranks (ascending : bool) (m : list (Z * Z)) : list (Z * Z) :=
  let sorted := xsort (better64 ascending) m in
  combine (map fst sorted) (map Z.of_nat (seq 0 (length sorted))).
