(** hybrid_search_index.go: composition of a vector index (exhaustive kinds), the BM25 index and the
    metadata index, with documentInfo bookkeeping, metadata pre-filter, per-modality top-k, fusion. *)
From Coq Require Import ZArith List Bool.
From Comet Require Import Base.FBits Base.Parse Base.Sorting.
From Comet Require Import Model.Distance Model.Limiter Model.Aggregation Model.Fusion Model.KMeans Model.VecIndex.
From Comet Require Import Model.BM25 Model.BSI Model.Metadata.
Import ListNotations.
Open Scope Z_scope.

Record dinfo := { di_vec : bool; di_txt : bool; di_meta : bool }.

Record hystate := {
  hy_p : params;                       (* parameters of the vector sub-index (when configured) *)
  hy_vec : option vstate;
  hy_txt : option bstate;
  hy_meta : option mstate;
  hy_info : list (Z * dinfo) }.

Definition E_BADTYPE := 6. Definition E_NOTCONFIGURED := 10. Definition E_METASEARCH := 11.

Definition info_set (id : Z) (i : dinfo) (l : list (Z * dinfo)) : list (Z * dinfo) :=
  filter (fun x => negb (fst x =? id)) l ++ [(id, i)].
Definition info_get (id : Z) (l : list (Z * dinfo)) : option dinfo :=
  match find (fun x => fst x =? id) l with Some x => Some (snd x) | None => None end.

(** addInternal: metadata value types are validated first; sub-adds run in the order vector, text,
    metadata and the first failure returns without recording the document *)
Definition hy_add (s : hystate) (id : Z) (v : option vec) (toks : option (list Z))
           (fields : list (str * mvalue)) : hystate * Z :=
  let bad := existsb (fun kv => match snd kv with MBad => true | _ => false end) fields in
  match hy_meta s, fields with
  | Some _, _ :: _ => if bad then (s, E_BADTYPE) else
      (* fallthrough below *)
      match (match hy_vec s, v with
             | Some vs, Some (x :: xs) => let '(vs', e) := vadd_op (hy_p s) vs id (x :: xs) in (Some vs', e, true)
             | ov, _ => (ov, 0, false) end) with
      | (_, (Zpos _ | Zneg _) as e, _) => (s, e)
      | (ov, _, hv) =>
          let '(ot, ht) := match hy_txt s, toks with
                           | Some bs, Some tk => (Some (badd bs id tk), true) | o, _ => (o, false) end in
          let '(om, hm) := match hy_meta s with
                           | Some ms => (Some (fst (madd ms id fields)), true) | None => (None, false) end in
          ({| hy_p := hy_p s; hy_vec := ov; hy_txt := ot; hy_meta := om;
              hy_info := info_set id {| di_vec := hv; di_txt := ht; di_meta := hm |} (hy_info s) |}, 0)
      end
  | _, _ =>
      match (match hy_vec s, v with
             | Some vs, Some (x :: xs) => let '(vs', e) := vadd_op (hy_p s) vs id (x :: xs) in (Some vs', e, true)
             | ov, _ => (ov, 0, false) end) with
      | (_, (Zpos _ | Zneg _) as e, _) => (s, e)
      | (ov, _, hv) =>
          let '(ot, ht) := match hy_txt s, toks with
                           | Some bs, Some tk => (Some (badd bs id tk), true) | o, _ => (o, false) end in
          ({| hy_p := hy_p s; hy_vec := ov; hy_txt := ot; hy_meta := hy_meta s;
              hy_info := info_set id {| di_vec := hv; di_txt := ht; di_meta := false |} (hy_info s) |}, 0)
      end
  end.

Definition hy_remove (s : hystate) (id : Z) : hystate * Z :=
  match info_get id (hy_info s) with
  | None => (s, E_NOTFOUND)
  | Some i =>
      match (match hy_vec s with
             | Some vs => if di_vec i then let '(vs', e) := vremove_op vs id in (Some vs', e) else (Some vs, 0)
             | None => (None, 0) end) with
      | (_, (Zpos _ | Zneg _) as e) => (s, e)
      | (ov, _) =>
          let ot := match hy_txt s with Some bs => if di_txt i then Some (bremove bs id) else Some bs | None => None end in
          let om := match hy_meta s with Some ms => if di_meta i then Some (mremove ms id) else Some ms | None => None end in
          ({| hy_p := hy_p s; hy_vec := ov; hy_txt := ot; hy_meta := om;
              hy_info := filter (fun x => negb (fst x =? id)) (hy_info s) |}, 0)
      end
  end.

Definition hy_flush (s : hystate) : hystate :=
  {| hy_p := hy_p s;
     hy_vec := match hy_vec s with Some vs => Some (vflush_op vs) | None => None end;
     hy_txt := match hy_txt s with Some bs => Some (bflush bs) | None => None end;
     hy_meta := hy_meta s; hy_info := hy_info s |}.

Definition hy_train (s : hystate) (vs : list vec) : hystate * Z :=
  match hy_vec s with
  | None => (s, E_NOTCONFIGURED)
  | Some st => let '(st', e) := vtrain_op (hy_p s) st vs in
               ({| hy_p := hy_p s; hy_vec := Some st'; hy_txt := hy_txt s; hy_meta := hy_meta s; hy_info := hy_info s |}, e)
  end.

(** ---- search ---- *)
Record hyrequest := {
  hq_vec : vec; hq_txt : list (list Z); hq_filters : list mfilter; hq_groups : list mgroup;
  hq_k : Z; hq_thr : Z; hq_agg : agg_kind; hq_cutoff : Z; hq_nprobes : Z;
  hq_fusion : fusion_kind; hq_vw : Z; hq_tw : Z; hq_kk : Z; hq_ln : list (Z * Z) }.

Record hyout := {
  ho_full : list (Z * Z);       (* every fused (id, float64 score), best first *)
  ho_n : nat;                   (* number returned *)
  ho_weak : bool;               (* a sub-search cut or an RRF rank fell inside a tie group *)
  ho_cands : option (list Z);   (* metadata candidates when a filter was given *)
  ho_vecids : list Z; ho_txtids : list Z;   (* per-modality candidates, closed under ties at the cut *)
  ho_modal_known : bool }.                  (* false: a probe / per-query cut tie makes the candidate sets ambiguous *)

Inductive hyres := HOk (o : hyout) | HErr (e : Z) | HNoOracle.

Definition cut_tie32 (agg : list (Z * Z)) (n : nat) : bool :=
  tie_at (fun x => F32.key (snd x)) agg (0, 0) n.
(** the first n entries of a sorted list plus every following entry that ties with the n-th *)
Definition tie_closed32 (agg : list (Z * Z)) (n : nat) : list (Z * Z) :=
  match n with
  | O => []
  | S m => let lastk := F32.key (snd (nth m agg (0, 0))) in
           firstn n agg ++ filter (fun x => F32.key (snd x) =? lastk) (skipn n agg)
  end.
Definition has_dup_keys64 (m : list (Z * Z)) : bool :=
  let ks := map (fun p => F64.key (snd p)) m in
  negb (Nat.eqb (length (nodup Z.eq_dec ks)) (length ks)).

(** sort best-first and keep at most k *)
Definition hy_final (combined : list (Z * Z)) (k : Z) : list (Z * Z) * nat :=
  let full := isort (fun p => - F64.key (snd p)) combined in
  (full, if Z.of_nat (length full) <=? k then length full else Z.to_nat k).

(** the sub-requests a hybrid request issues to its vector / text sub-index *)
Definition hy_vreq (p : params) (rq : hyrequest) (docids : list Z) : request :=
  {| r_queries := [hq_vec rq]; r_nodes := []; r_docids := docids; r_k := hq_k rq;
     r_thr := if F32.gtb (hq_thr rq) F32.zero then hq_thr rq else F32.zero;
     r_agg := hq_agg rq; r_cutoff := hq_cutoff rq;
     r_nprobes := if 0 <? hq_nprobes rq then hq_nprobes rq else Z.sqrt (p_nlist p) |}.
Definition hy_treq (rq : hyrequest) (docids : list Z) : brequest :=
  {| q_queries := hq_txt rq; q_nodes := []; q_nodeq := []; q_docids := docids;
     q_k := hq_k rq; q_agg := hq_agg rq; q_cutoff := hq_cutoff rq; q_ln := hq_ln rq |}.

Definition hy_vq (rq : hyrequest) : bool := negb (match hq_vec rq with [] => true | _ => false end).
Definition hy_tq (rq : hyrequest) : bool := negb (match hq_txt rq with [] => true | _ => false end).

(** vector modality: (results, weak, (tie-closed candidate ids, candidates known)) *)
Definition hy_vpart (s : hystate) (rq : hyrequest) (docids : list Z) : res (list (Z * Z) * bool * (list Z * bool)) :=
  if hy_vq rq then
    match hy_vec s with
    | None => Err E_NOTCONFIGURED
    | Some vs =>
        match execute (hy_p s) vs (hy_vreq (hy_p s) rq docids) with
        | Err e => Err e
        | Ok xo => match xo_n xo with
                   | None => Err E_PANIC
                   | Some n => Ok (firstn n (xo_agg xo), xo_ptie xo || xo_tie xo || cut_tie32 (xo_agg xo) n,
                                   (map fst (tie_closed32 (if xo_single xo then xo_aggfull xo else xo_agg xo) n),
                                    negb (xo_ptie xo) && (xo_single xo || negb (xo_tie xo))))
                   end
        end
    end
  else Ok ([], false, ([], true)).

(** text modality (None = no oracle for some token) *)
Definition hy_tpart (s : hystate) (rq : hyrequest) (docids : list Z) : option (res (list (Z * Z) * bool * (list Z * bool))) :=
  if hy_tq rq then
    match hy_txt s with
    | None => Some (Err E_NOTCONFIGURED)
    | Some bs =>
        match bexecute bs (hy_treq rq docids) with
        | BNoOracle => None
        | BErr e => Some (Err e)
        | BOk xo => match xo_n xo with
                    | None => Some (Err E_PANIC)
                    | Some n => Some (Ok (firstn n (xo_agg xo), xo_tie xo || cut_tie32 (xo_agg xo) n,
                                          (map fst (tie_closed32 (if xo_single xo then xo_aggfull xo else xo_agg xo) n),
                                           xo_single xo || negb (xo_tie xo))))
                    end
        end
    end
  else Some (Ok ([], false, ([], true))).

(** fusion of the two modalities' answers (float32 scores widened to float64), or the single
    modality's answer, or score 1 for every candidate of a metadata-only query *)
Definition hy_combined (rq : hyrequest) (docids : list Z) (vl tl : list (Z * Z)) : list (Z * Z) :=
  let vm := map (fun p => (fst p, f32_to_f64 (snd p))) vl in
  let tm := map (fun p => (fst p, f32_to_f64 (snd p))) tl in
  if hy_vq rq && hy_tq rq then fuse (hq_fusion rq) (hq_vw rq) (hq_tw rq) (hq_kk rq) vm tm
  else if hy_vq rq then vm else if hy_tq rq then tm
  else map (fun id => (id, F64.one)) docids.

Definition hy_search (s : hystate) (rq : hyrequest) : hyres :=
  let filtered := match hq_filters rq, hq_groups rq with [], [] => false | _, _ => true end in
  let cands : option (option (list Z)) :=      (* None = error *)
      if filtered then
        match hy_meta s with
        | None => None
        | Some ms => match msearch ms (hq_filters rq) (hq_groups rq) with
                     | None => None | Some ids => Some (Some ids) end
        end
      else Some None in
  match cands with
  | None => HErr (match hy_meta s with None => E_NOTCONFIGURED | Some _ => E_METASEARCH end)
  | Some (Some []) => HOk {| ho_full := []; ho_n := O; ho_weak := false; ho_cands := Some []; ho_vecids := []; ho_txtids := []; ho_modal_known := true |}
  | Some co =>
      let docids := match co with Some l => l | None => [] end in
      match hy_vpart s rq docids with
      | Err e => HErr e
      | Ok (vl, vweak, (vids, vknown)) =>
          match hy_tpart s rq docids with
          | None => HNoOracle
          | Some (Err e) => HErr e
          | Some (Ok (tl, tweak, (tids, tknown))) =>
              let vm := map (fun p => (fst p, f32_to_f64 (snd p))) vl in
              let tm := map (fun p => (fst p, f32_to_f64 (snd p))) tl in
              let rrfweak := match hq_fusion rq with
                             | FRRF => hy_vq rq && hy_tq rq && (has_dup_keys64 vm || has_dup_keys64 tm) | _ => false end in
              let '(full, n) := hy_final (hy_combined rq docids vl tl) (hq_k rq) in
              HOk {| ho_full := full; ho_n := n; ho_weak := vweak || tweak || rrfweak; ho_cands := co;
                     ho_vecids := vids; ho_txtids := tids; ho_modal_known := vknown && tknown |}
          end
      end
  end.
