(** A small language of dependent binary formats: every WriteTo / ReadFrom pair of comet is an
    instance (little-endian fixed-width integers and float bit patterns, fixed byte strings that
    are validated on read, raw byte runs, dependent sequencing, counted repetition). *)
From Coq Require Import ZArith List Bool.
From Comet Require Import Base.Parse.
Import ListNotations.
Open Scope Z_scope.

Inductive val := VUnit | VZ (z : Z) | VB (bs : list Z) | VP (a b : val) | VL (l : list val).

Inductive fmt :=
| FEmpty
| FU (n : nat)                       (* n-byte little-endian unsigned integer *)
| FConst (bs : list Z)               (* exactly these bytes, validated on read *)
| FRaw (n : nat)                     (* n raw bytes *)
| FPair (a : fmt) (k : val -> fmt)   (* a, then a format that depends on a's value *)
| FList (n : nat) (a : fmt).         (* exactly n repetitions *)

Fixpoint le_bytes (n : nat) (z : Z) : list Z :=
  match n with O => [] | S n' => (z mod 256) :: le_bytes n' (z / 256) end.
Fixpoint le_val (bs : list Z) : Z :=
  match bs with [] => 0 | b :: t => b + 256 * le_val t end.

Fixpoint encode (f : fmt) (v : val) : list Z :=
  match f, v with
  | FU n, VZ z => le_bytes n z
  | FConst bs, _ => bs
  | FRaw n, VB bs => bs
  | FPair a k, VP v1 v2 => encode a v1 ++ encode (k v1) v2
  | FList n a, VL vs => flat_map (encode a) vs
  | _, _ => []
  end.

Definition take (n : nat) (s : list Z) : option (list Z * list Z) :=
  if (length s <? n)%nat then None else Some (firstn n s, skipn n s).

Fixpoint decode (f : fmt) (s : list Z) : option (val * list Z) :=
  match f with
  | FEmpty => Some (VUnit, s)
  | FU n => match take n s with Some (b, r) => Some (VZ (le_val b), r) | None => None end
  | FConst bs =>
      match take (length bs) s with
      | Some (b, r) => if list_eqb b bs then Some (VUnit, r) else None
      | None => None
      end
  | FRaw n => match take n s with Some (b, r) => Some (VB b, r) | None => None end
  | FPair a k =>
      match decode a s with
      | Some (v1, r) => match decode (k v1) r with
                        | Some (v2, r') => Some (VP v1 v2, r')
                        | None => None
                        end
      | None => None
      end
  | FList n a =>
      match (fix rep (n : nat) (s : list Z) {struct n} : option (list val * list Z) :=
               match n with
               | O => Some ([], s)
               | S n' => match decode a s with
                         | Some (v, r) => match rep n' r with
                                          | Some (vs, r') => Some (v :: vs, r')
                                          | None => None
                                          end
                         | None => None
                         end
               end) n s with
      | Some (vs, r) => Some (VL vs, r)
      | None => None
      end
  end.

(** well-typed values: exactly the values an encoder may be given *)
Fixpoint wt (f : fmt) (v : val) : Prop :=
  match f, v with
  | FEmpty, VUnit => True
  | FU n, VZ z => 0 <= z < 256 ^ Z.of_nat n
  | FConst _, VUnit => True
  | FRaw n, VB bs => length bs = n
  | FPair a k, VP v1 v2 => wt a v1 /\ wt (k v1) v2
  | FList n a, VL vs => length vs = n /\ Forall (wt a) vs
  | _, _ => False
  end.

(** derived formats *)
Definition zval (v : val) : Z := match v with VZ z => z | _ => 0 end.
Definition FU32 := FU 4.
Definition FLP (a : fmt) : fmt := FPair FU32 (fun c => FList (Z.to_nat (zval c)) a).   (* u32 count + items *)
Definition FLPBytes : fmt := FPair FU32 (fun c => FRaw (Z.to_nat (zval c))).           (* u32 length + bytes *)
Definition FConstU32 (z : Z) : fmt := FConst (le_bytes 4 z).
Definition FConstU8 (z : Z) : fmt := FConst [z mod 256].
Fixpoint FSeq (l : list fmt) : fmt :=
  match l with [] => FEmpty | [a] => a | a :: t => FPair a (fun _ => FSeq t) end.
