(** metadata_index.go / metadata_index_search.go (with the two fix: commits applied):
    roaring bitmaps are finite sets of ids, the BSI is a map id -> int64 queried through the
    bit-level [bsi_cmp] GE / LE only.  Strings are byte lists. *)
From Coq Require Import ZArith List Bool.
From Coq Require Import Floats.SpecFloat.
From Comet Require Import Base.FBits Base.Parse Base.Sorting Model.BSI Model.VecIndex.
Import ListNotations.
Open Scope Z_scope.

Definition str := list Z.
Fixpoint str_eqb (a b : str) : bool :=
  match a, b with
  | [], [] => true
  | x :: a', y :: b' => (x =? y) && str_eqb a' b'
  | _, _ => false
  end.
Fixpoint is_prefix (p s : str) : bool :=
  match p, s with
  | [], _ => true
  | x :: p', y :: s' => (x =? y) && is_prefix p' s'
  | _, _ => false
  end.

Inductive mvalue := MStr (s : str) | MBool (b : bool) | MInt (z : Z) | MFloat (bits : Z) | MBad.

Definition colon : Z := 58.
Definition s_true : str := [116; 114; 117; 101].
Definition s_false : str := [102; 97; 108; 115; 101].

(** int64(v * 100): float64 multiply, then truncation toward zero *)
Definition c_hundred : Z := 4636737291354636288.
Definition trunc_sf (f : spec_float) : Z :=
  match f with
  | S754_finite s m e =>
      let mag := if 0 <=? e then Zpos m * 2 ^ e else Zpos m / 2 ^ (- e) in
      if s then - mag else mag
  | _ => 0
  end.
Definition float_fix (bits : Z) : Z := trunc_sf (F64.of_bits (F64.mul bits c_hundred)).

(** set operations on sorted-free id lists *)
Definition set_add (x : Z) (l : list Z) : list Z := if memz x l then l else l ++ [x].
Definition set_remove (x : Z) (l : list Z) : list Z := filter (fun y => negb (y =? x)) l.
Definition set_union (a b : list Z) : list Z := fold_left (fun acc x => set_add x acc) b a.
Definition set_inter (a b : list Z) : list Z := filter (fun x => memz x b) a.
Definition set_diff (a b : list Z) : list Z := filter (fun x => negb (memz x b)) a.

Record mstate := {
  m_all : list Z;
  m_cat : list (str * list Z);            (* "field:value" -> ids *)
  m_num : list (str * list (Z * Z)) }.    (* field -> (id, int64) *)

Definition minit : mstate := {| m_all := []; m_cat := []; m_num := [] |}.

Fixpoint cat_update (key : str) (f : list Z -> list Z) (m : list (str * list Z)) : list (str * list Z) :=
  match m with
  | [] => [(key, f [])]
  | (k, ids) :: t => if str_eqb k key then (k, f ids) :: t else (k, ids) :: cat_update key f t
  end.
Fixpoint cat_find (key : str) (m : list (str * list Z)) : option (list Z) :=
  match m with
  | [] => None
  | (k, ids) :: t => if str_eqb k key then Some ids else cat_find key t
  end.
Fixpoint num_update (field : str) (f : list (Z * Z) -> list (Z * Z)) (m : list (str * list (Z * Z))) :=
  match m with
  | [] => [(field, f [])]
  | (k, vs) :: t => if str_eqb k field then (k, f vs) :: t else (k, vs) :: num_update field f t
  end.
Fixpoint num_find (field : str) (m : list (str * list (Z * Z))) : option (list (Z * Z)) :=
  match m with
  | [] => None
  | (k, vs) :: t => if str_eqb k field then Some vs else num_find field t
  end.

Definition set_value (id v : Z) (vs : list (Z * Z)) : list (Z * Z) :=
  filter (fun p => negb (fst p =? id)) vs ++ [(id, v)].

Definition key_of (field value : str) : str := field ++ colon :: value.

(** Add: allDocs first, then the fields in (map) iteration order; an unsupported value type aborts
    with an error AFTER the earlier effects (the order is an input) *)
Fixpoint madd_fields (s : mstate) (id : Z) (fields : list (str * mvalue)) : mstate * bool :=
  match fields with
  | [] => (s, true)
  | (f, v) :: t =>
      let num z := {| m_all := m_all s; m_cat := m_cat s; m_num := num_update f (set_value id z) (m_num s) |} in
      let cat x := {| m_all := m_all s; m_cat := cat_update (key_of f x) (set_add id) (m_cat s); m_num := m_num s |} in
      match v with
      | MInt z => madd_fields (num z) id t
      | MFloat b => madd_fields (num (float_fix b)) id t
      | MStr x => madd_fields (cat x) id t
      | MBool b => madd_fields (cat (if b then s_true else s_false)) id t
      | MBad => (s, false)
      end
  end.

(** values are validated before anything is modified (fix: commit "a failed Add left the document
    partly indexed") *)
Definition madd (s : mstate) (id : Z) (fields : list (str * mvalue)) : mstate * bool :=
  if existsb (fun kv => match snd kv with MBad => true | _ => false end) fields then (s, false) else
  madd_fields {| m_all := set_add id (m_all s); m_cat := m_cat s; m_num := m_num s |} id fields.

Definition mremove (s : mstate) (id : Z) : mstate :=
  {| m_all := set_remove id (m_all s);
     m_cat := map (fun kv => (fst kv, set_remove id (snd kv))) (m_cat s);
     m_num := map (fun kv => (fst kv, filter (fun p => negb (fst p =? id)) (snd kv))) (m_num s) |}.

(** ---- filters ---- *)
Inductive mop := OEq | ONe | OGt | OGte | OLt | OLte | OIn | ONotIn | ORange | OExists | ONotExists | OOther.
Definition mop_of_Z (z : Z) : mop :=
  match z with
  | 0 => OEq | 1 => ONe | 2 => OGt | 3 => OGte | 4 => OLt | 5 => OLte | 6 => OIn | 7 => ONotIn
  | 8 => ORange | 9 => OExists | 10 => ONotExists | _ => OOther
  end.

Record mfilter := {
  f_field : str; f_op : mop;
  f_num : option Z;            (* toInt64(Value), None = conversion error *)
  f_num2 : option Z;           (* toInt64(Value2) *)
  f_str : str;                 (* fmt "%v" of Value *)
  f_list : option (list str) }.  (* rendered items when Value is []string / []interface{} *)

Definition existence (s : mstate) (field : str) : list Z :=
  match num_find field (m_num s) with
  | Some vs => map fst vs
  | None =>
      let prefix := field ++ [colon] in
      fold_left (fun acc kv => if is_prefix prefix (fst kv) then set_union acc (snd kv) else acc) (m_cat s) []
  end.

Definition bsi_ge (vs : list (Z * Z)) (x : Z) : list Z := map fst (filter (fun p => bsi_cmp GE (snd p) x 0) vs).
Definition bsi_le (vs : list (Z * Z)) (x : Z) : list Z := map fst (filter (fun p => bsi_cmp LE (snd p) x 0) vs).

Definition query_numeric (vs : list (Z * Z)) (f : mfilter) : option (list Z) :=
  let with1 (k : Z -> list Z) := match f_num f with Some x => Some (k x) | None => None end in
  match f_op f with
  | OEq => with1 (fun x => set_inter (bsi_ge vs x) (bsi_le vs x))
  | ONe => with1 (fun x => set_diff (map fst vs) (set_inter (bsi_ge vs x) (bsi_le vs x)))
  | OGt => with1 (fun x => set_diff (bsi_ge vs x) (bsi_le vs x))
  | OGte => with1 (fun x => bsi_ge vs x)
  | OLt => with1 (fun x => set_diff (bsi_le vs x) (bsi_ge vs x))
  | OLte => with1 (fun x => bsi_le vs x)
  | ORange => match f_num f, f_num2 f with
              | Some a, Some b => Some (set_inter (bsi_ge vs a) (bsi_le vs b))
              | _, _ => None
              end
  | _ => None
  end.

Definition query_categorical (s : mstate) (f : mfilter) : option (list Z) :=
  let get key := match cat_find key (m_cat s) with Some ids => ids | None => [] end in
  match f_op f with
  | OEq => Some (get (key_of (f_field f) (f_str f)))
  | ONe => Some (set_diff (m_all s) (get (key_of (f_field f) (f_str f))))
  | OIn => match f_list f with
           | Some vals => Some (fold_left (fun acc v => set_union acc (get (key_of (f_field f) v))) vals [])
           | None => None
           end
  | ONotIn => match f_list f with
              | Some vals => Some (fold_left (fun acc v => set_diff acc (get (key_of (f_field f) v))) vals (m_all s))
              | None => None
              end
  | _ => None
  end.

Definition eval_filter (s : mstate) (f : mfilter) : option (list Z) :=
  match f_op f with
  | OExists => Some (existence s (f_field f))
  | ONotExists => Some (set_diff (m_all s) (existence s (f_field f)))
  | _ => match num_find (f_field f) (m_num s) with
         | Some vs => query_numeric vs f
         | None => query_categorical s f
         end
  end.

(** AND with early exit on the empty set (later filters are then not even evaluated) *)
Fixpoint eval_and (s : mstate) (acc : option (list Z)) (fs : list mfilter) : option (option (list Z)) :=
  match fs with
  | [] => Some acc
  | f :: t =>
      match eval_filter s f with
      | None => None
      | Some b =>
          let r := match acc with None => b | Some a => set_inter a b end in
          match r with [] => Some (Some []) | _ => eval_and s (Some r) t end
      end
  end.

Fixpoint eval_or (s : mstate) (acc : option (list Z)) (fs : list mfilter) : option (option (list Z)) :=
  match fs with
  | [] => Some acc
  | f :: t =>
      match eval_filter s f with
      | None => None
      | Some b => eval_or s (Some (match acc with None => b | Some a => set_union a b end)) t
      end
  end.

Record mgroup := { g_and : bool; g_filters : list mfilter }.

Definition eval_group (s : mstate) (g : mgroup) : option (list Z) :=
  match g_filters g with
  | [] => Some (m_all s)
  | fs => match (if g_and g then eval_and s None fs else eval_or s None fs) with
          | None => None
          | Some None => Some []
          | Some (Some r) => Some r
          end
  end.

Fixpoint eval_groups (s : mstate) (acc : list Z) (gs : list mgroup) : option (list Z) :=
  match gs with
  | [] => Some acc
  | g :: t => match eval_group s g with
              | None => None
              | Some r => eval_groups s (set_union acc r) t
              end
  end.

(** Execute: groups take precedence over simple filters; no filter at all = every live document.
    The answer is a sorted id list; None = error *)
Definition msearch (s : mstate) (filters : list mfilter) (groups : list mgroup) : option (list Z) :=
  let sorted l := isort (fun x => x) l in
  match groups with
  | _ :: _ => match eval_groups s [] groups with Some r => Some (sorted r) | None => None end
  | [] =>
      match filters with
      | [] => Some (sorted (m_all s))
      | _ => match eval_and s None filters with
             | None => None
             | Some None => Some []
             | Some (Some r) => Some (sorted r)
             end
      end
  end.
