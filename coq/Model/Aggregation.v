(** aggregation.go: per-id sum / max / mean of float32 scores, best-first order.
    Vector results sort ascending (distances), text results descending (relevance). *)
From Coq Require Import ZArith List Bool.
From Comet Require Import Base.FBits Base.Sorting.
Import ListNotations.
Open Scope Z_scope.

(** group scores by id, ids in first-occurrence order, scores in input order *)
Fixpoint group_add (id s : Z) (acc : list (Z * list Z)) : list (Z * list Z) :=
  match acc with
  | [] => [(id, [s])]
  | (i, ss) :: t => if i =? id then (i, ss ++ [s]) :: t else (i, ss) :: group_add id s t
  end.

Definition group (l : list (Z * Z)) : list (Z * list Z) :=
  fold_left (fun acc p => group_add (fst p) (snd p) acc) l [].

Inductive agg_kind := AggSum | AggMax | AggMean.

Definition f32_sum (ss : list Z) : Z := fold_left F32.add ss F32.zero.
Definition f32_max (ss : list Z) : Z :=
  match ss with
  | [] => F32.zero
  | s :: t => fold_left (fun m x => if F32.gtb x m then x else m) t s
  end.
Definition f32_mean (ss : list Z) : Z :=
  F32.div (f32_sum ss) (F32.of_Z (Z.of_nat (length ss))).

Definition agg_score (k : agg_kind) (ss : list Z) : Z :=
  match k with AggSum => f32_sum ss | AggMax => f32_max ss | AggMean => f32_mean ss end.

Definition agg_scores (k : agg_kind) (l : list (Z * Z)) : list (Z * Z) :=
  map (fun g => (fst g, agg_score k (snd g))) (group l).

(** vector flavour: ascending;  text flavour: descending *)
Definition aggregate_vec (k : agg_kind) (l : list (Z * Z)) : list (Z * Z) :=
  isort (fun p => F32.key (snd p)) (agg_scores k l).
Definition aggregate_txt (k : agg_kind) (l : list (Z * Z)) : list (Z * Z) :=
  isort (fun p => - F32.key (snd p)) (agg_scores k l).

Definition agg_of_Z (z : Z) : agg_kind :=
  if z =? 1 then AggMax else if z =? 2 then AggMean else AggSum.
