(** The eight serialisation formats of comet as descriptors of the format language, with the
    receiver's construction parameters baked in as validated constants, and the conversion
    between the exhaustive vector kinds' model states and format values. *)
From Coq Require Import ZArith List Bool.
From Comet Require Import Base.FBits Base.Parse Model.Format Model.Distance Model.VecIndex.
Import ListNotations.
Open Scope Z_scope.

Definition magic_FLAT := [70; 76; 65; 84].   Definition magic_IVFX := [73; 86; 70; 88].
Definition magic_PQIX := [80; 81; 73; 88].   Definition magic_IVPQ := [73; 86; 80; 81].
Definition magic_HNSW := [72; 78; 83; 87].   Definition magic_BM25 := [66; 77; 50; 53].
Definition magic_MTIX := [77; 84; 73; 88].   Definition magic_HYBR := [72; 89; 66; 82].

Definition metric_name (m : metric) : list Z :=
  match m with
  | L2 => [108; 50]
  | L2Sq => [108; 50; 95; 115; 113; 117; 97; 114; 101; 100]
  | Cos => [99; 111; 115; 105; 110; 101]
  end.
Definition f_metric (m : metric) : fmt :=
  FConst (le_bytes 4 (Z.of_nat (length (metric_name m))) ++ metric_name m).

Definition natZ (z : Z) : nat := Z.to_nat z.
Definition f_floats_lp : fmt := FLP FU32.

(** vector kinds: kind-specific parameters *)
Record hparams := { h_dim : Z; h_metric : metric; h_M : Z; h_efc : Z; h_efs : Z }.

Definition fmt_flat (p : params) : fmt :=
  FSeq [FConst magic_FLAT; FConstU32 1; FConstU32 (p_dim p); f_metric (p_metric p);
        FLP (FSeq [FU32; FConstU32 (p_dim p); FList (natZ (p_dim p)) FU32]);
        FLPBytes].

Definition fmt_ivf (p : params) : fmt :=
  FSeq [FConst magic_IVFX; FConstU32 1; FConstU32 (p_dim p); f_metric (p_metric p);
        FConstU32 (p_nlist p);
        FPair (FU 1) (fun t => if zval t =? 1 then FList (natZ (p_nlist p)) f_floats_lp else FEmpty);
        FLP (FLP (FSeq [FU32; FList (natZ (p_dim p)) FU32]));
        FLPBytes].

Definition fmt_pq (p : params) : fmt :=
  FSeq [FConst magic_PQIX; FConstU32 1; FConstU32 (p_dim p); f_metric (p_metric p);
        FConstU32 (p_M p); FConstU32 (p_nbits p); FConstU32 (p_ksub p); FConstU32 (p_dsub p);
        FPair (FU 1) (fun t => if zval t =? 1 then FList (natZ (p_M p)) f_floats_lp else FEmpty);
        FLP (FSeq [FU32; FRaw (natZ (p_M p))]);
        FLPBytes].

Definition fmt_ivfpq (p : params) : fmt :=
  FSeq [FConst magic_IVPQ; FConstU32 1; FConstU32 (p_dim p); f_metric (p_metric p);
        FConstU32 (p_nlist p); FConstU32 (p_M p); FConstU32 (p_nbits p); FConstU32 (p_ksub p);
        FConstU32 (p_dsub p);
        FPair (FU 1) (fun t => if zval t =? 1
                               then FSeq [FList (natZ (p_nlist p)) f_floats_lp; FList (natZ (p_M p)) f_floats_lp]
                               else FEmpty);
        FLP (FLP (FSeq [FU32; FRaw (natZ (p_M p))]));
        FLPBytes].

Definition fmt_hnsw (h : hparams) : fmt :=
  FSeq [FConst magic_HNSW; FConstU32 1; FConstU32 (h_dim h); f_metric (h_metric h);
        FConstU32 (h_M h); FConstU32 (h_efc h); FConstU32 (h_efs h);
        FU 8; FU32; FU32;
        FLP (FSeq [FU32; FU32; f_floats_lp; FLP (FLP FU32)]);
        FLPBytes].

Definition fmt_bm25 : fmt :=
  FSeq [FConst magic_BM25; FConstU32 1; FU32; FU32; FU 8;
        FLP (FSeq [FU32; FU32]);
        FLP (FSeq [FU32; FLP FLPBytes]);
        FLP (FSeq [FLPBytes; FLPBytes]);
        FLP (FSeq [FLPBytes; FLP (FSeq [FU32; FU32])]);
        FLPBytes].

Definition fmt_meta : fmt :=
  FSeq [FConst magic_MTIX; FConstU32 1; FLPBytes;
        FLP (FSeq [FLPBytes; FLPBytes]);
        FLP (FSeq [FLPBytes; FLP FLPBytes])].

Definition fmt_vec (p : params) : fmt :=
  match p_kind p with
  | KFlat => fmt_flat p | KIVF => fmt_ivf p | KPQ => fmt_pq p | KIVFPQ => fmt_ivfpq p
  end.

(** hybrid header followed (in one concatenated stream) by the configured sub-indexes *)
Definition fmt_hybrid (vecf : option fmt) (has_text has_meta : bool) : fmt :=
  FSeq [FConst magic_HYBR; FConstU32 1;
        FConstU8 (if vecf then 1 else 0); FConstU8 (if has_text then 1 else 0);
        FConstU8 (if has_meta then 1 else 0);
        FLP (FSeq [FU32; FU 1; FU 1; FU 1]);
        match vecf with Some f => f | None => FEmpty end;
        if has_text then fmt_bm25 else FEmpty;
        if has_meta then fmt_meta else FEmpty].

(** ---- values <-> model states (exhaustive vector kinds) ---- *)
Fixpoint vseq (l : list val) : val :=
  match l with [] => VUnit | [a] => a | a :: t => VP a (vseq t) end.
Definition vlp (l : list val) : val := VP (VZ (Z.of_nat (length l))) (VL l).
Definition vlpbytes (b : list Z) : val := VP (VZ (Z.of_nat (length b))) (VB b).
Definition vfloats (v : vec) : val := VL (map VZ v).
Definition vfloats_lp (v : vec) : val := vlp (map VZ v).

(** [bm] = serialised empty deletion bitmap (opaque roaring blob supplied by the harness) *)
Definition trained_val (tr : bool) (body : val) : val := VP (VZ (if tr then 1 else 0)) (if tr then body else VUnit).

Definition to_val (p : params) (bm : list Z) (s : vstate) : val :=
  match p_kind p with
  | KFlat =>
      vseq [VUnit; VUnit; VUnit; VUnit;
            vlp (map (fun e => vseq [VZ (e_id e); VUnit; vfloats (e_vec e)]) (all_entries s));
            vlpbytes bm]
  | KIVF =>
      vseq [VUnit; VUnit; VUnit; VUnit; VUnit;
            trained_val (st_trained s) (VL (map vfloats_lp (st_centroids s)));
            vlp (map (fun l => vlp (map (fun e => vseq [VZ (e_id e); vfloats (e_vec e)]) l)) (st_lists s));
            vlpbytes bm]
  | KPQ =>
      vseq [VUnit; VUnit; VUnit; VUnit; VUnit; VUnit; VUnit; VUnit;
            trained_val (st_trained s) (VL (map (fun b => vfloats_lp (concat b)) (st_codebooks s)));
            vlp (map (fun e => vseq [VZ (e_id e); VB (e_code e)]) (all_entries s));
            vlpbytes bm]
  | KIVFPQ =>
      vseq [VUnit; VUnit; VUnit; VUnit; VUnit; VUnit; VUnit; VUnit; VUnit;
            trained_val (st_trained s)
              (vseq [VL (map vfloats_lp (st_centroids s));
                     VL (map (fun b => vfloats_lp (concat b)) (st_codebooks s))]);
            vlp (map (fun l => vlp (map (fun e => vseq [VZ (e_id e); VB (e_code e)]) l)) (st_lists s));
            vlpbytes bm]
  end.

(** inverse direction *)
Definition zs_of (v : val) : option (list Z) :=
  match v with
  | VL l => Some (map zval l)
  | _ => None
  end.
Definition lp_items (v : val) : option (list val) :=
  match v with VP (VZ _) (VL l) => Some l | _ => None end.
Definition lp_floats (v : val) : option vec :=
  match lp_items v with Some l => Some (map zval l) | None => None end.

Fixpoint mapM_opt {A B} (f : A -> option B) (l : list A) : option (list B) :=
  match l with
  | [] => Some []
  | x :: t => match f x, mapM_opt f t with Some y, Some ys => Some (y :: ys) | _, _ => None end
  end.

Fixpoint chunks (n : nat) (fuel : nat) (l : list Z) : list (list Z) :=
  match fuel with
  | O => []
  | S f => match l with [] => [] | _ => firstn n l :: chunks n f (skipn n l) end
  end.
Definition book_of (dsub : Z) (flat : list Z) : list vec :=
  if dsub <=? 0 then [] else chunks (natZ dsub) (length flat) flat.

Definition entry_flat (v : val) : option entry :=
  match v with
  | VP (VZ id) (VP VUnit fl) => match zs_of fl with Some x => Some {| e_id := id; e_vec := x; e_code := [] |} | None => None end
  | _ => None
  end.
Definition entry_ivf (v : val) : option entry :=
  match v with
  | VP (VZ id) fl => match zs_of fl with Some x => Some {| e_id := id; e_vec := x; e_code := [] |} | None => None end
  | _ => None
  end.
Definition entry_code (v : val) : option entry :=
  match v with
  | VP (VZ id) (VB c) => Some {| e_id := id; e_vec := []; e_code := c |}
  | _ => None
  end.

Definition mk_state tr c b l := {| st_trained := tr; st_centroids := c; st_codebooks := b; st_lists := l; st_deleted := [] |}.

Definition of_val (p : params) (v : val) : option vstate :=
  match p_kind p, v with
  | KFlat, VP _ (VP _ (VP _ (VP _ (VP es _)))) =>
      match lp_items es with
      | Some items => match mapM_opt entry_flat items with
                      | Some l => Some (mk_state true [] [] [l]) | None => None end
      | None => None
      end
  | KIVF, VP _ (VP _ (VP _ (VP _ (VP _ (VP (VP (VZ t) cb) (VP ls _)))))) =>
      let cents := if t =? 1 then match cb with VL cs => mapM_opt lp_floats cs | _ => None end else Some [] in
      match cents, lp_items ls with
      | Some c, Some lists =>
          match mapM_opt (fun l => match lp_items l with Some it => mapM_opt entry_ivf it | None => None end) lists with
          | Some l => Some (mk_state (t =? 1) c [] l) | None => None end
      | _, _ => None
      end
  | KPQ, VP _ (VP _ (VP _ (VP _ (VP _ (VP _ (VP _ (VP _ (VP (VP (VZ t) cb) (VP es _))))))))) =>
      let books := if t =? 1 then match cb with VL bs => mapM_opt lp_floats bs | _ => None end else Some [] in
      match books, lp_items es with
      | Some b, Some items =>
          match mapM_opt entry_code items with
          | Some l => Some (mk_state (t =? 1) [] (map (book_of (p_dsub p)) b) [l]) | None => None end
      | _, _ => None
      end
  | KIVFPQ, VP _ (VP _ (VP _ (VP _ (VP _ (VP _ (VP _ (VP _ (VP _ (VP (VP (VZ t) cb) (VP ls _)))))))))) =>
      let cb' := if t =? 1
                 then match cb with
                      | VP (VL cs) (VL bs) =>
                          match mapM_opt lp_floats cs, mapM_opt lp_floats bs with
                          | Some c, Some b => Some (c, b) | _, _ => None end
                      | _ => None
                      end
                 else Some ([], []) in
      match cb', lp_items ls with
      | Some (c, b), Some lists =>
          match mapM_opt (fun l => match lp_items l with Some it => mapM_opt entry_code it | None => None end) lists with
          | Some l => Some (mk_state (t =? 1) c (map (book_of (p_dsub p)) b) l) | None => None end
      | _, _ => None
      end
  | _, _ => None
  end.
