(** The four exhaustive vector index kinds (flat, IVF, PQ, IVFPQ) as one state machine:
    soft-delete protocol + kind-specific add / train / single-query search, and the shared
    Execute pipeline (node lookup, per-query search, aggregation, limit, autocut). *)
From Coq Require Import ZArith List Bool.
From Comet Require Import Base.FBits Base.Parse Base.Sorting.
From Comet Require Import Model.Distance Model.Limiter Model.Aggregation Model.KMeans.
Import ListNotations.
Open Scope Z_scope.

Inductive vkind := KFlat | KIVF | KPQ | KIVFPQ.
Definition vkind_of_Z (z : Z) : vkind :=
  if z =? 1 then KIVF else if z =? 2 then KPQ else if z =? 3 then KIVFPQ else KFlat.

Record params := { p_kind : vkind; p_dim : Z; p_metric : metric; p_nlist : Z; p_M : Z; p_nbits : Z }.
Definition p_ksub (p : params) : Z := 2 ^ p_nbits p.
Definition p_dsub (p : params) : Z := p_dim p / p_M p.

Record entry := { e_id : Z; e_vec : vec; e_code : list Z }.

Record vstate := {
  st_trained : bool;
  st_centroids : list vec;
  st_codebooks : list (list vec);    (* per subspace, Ksub codewords of dsub components *)
  st_lists : list (list entry);
  st_deleted : list Z }.

Definition uses_lists (k : vkind) : bool := match k with KIVF | KIVFPQ => true | _ => false end.
Definition uses_codes (k : vkind) : bool := match k with KPQ | KIVFPQ => true | _ => false end.

Definition vinit (p : params) : vstate :=
  {| st_trained := match p_kind p with KFlat => true | _ => false end;
     st_centroids := []; st_codebooks := [];
     st_lists := if uses_lists (p_kind p) then repeat [] (Z.to_nat (p_nlist p)) else [[]];
     st_deleted := [] |}.

(** error codes shared with the harness *)
Definition E_OK := 0. Definition E_DIM := 1. Definition E_ZERO := 2. Definition E_NOTFOUND := 3.
Definition E_DELETED := 4. Definition E_UNTRAINED := 5. Definition E_TRAINSIZE := 6.
Definition E_KMEANS := 7. Definition E_NOQUERY := 8. Definition E_PANIC := 12.

Fixpoint memz (x : Z) (l : list Z) : bool :=
  match l with [] => false | y :: t => (x =? y) || memz x t end.

Definition subvec (v : vec) (start len : Z) : vec := firstn (Z.to_nat len) (skipn (Z.to_nat start) v).
Definition vsub (a b : vec) : vec := map (fun p => F32.sub (fst p) (snd p)) (combine a b).

(** encode: per subspace the FIRST strict arg-min codeword, stored as uint8 *)
Definition pq_encode (p : params) (books : list (list vec)) (v : vec) : list Z :=
  map (fun mb => let '(m, book) := mb in
                 let sv := subvec v (m * p_dsub p) (p_dsub p) in
                 (nearest L2Sq sv book) mod 256)
      (combine (map Z.of_nat (seq 0 (length books))) books).

Definition all_entries (s : vstate) : list entry := concat (st_lists s).
Definition resident (s : vstate) (id : Z) : bool := existsb (fun e => e_id e =? id) (all_entries s).

Fixpoint app_nth {A} (n : nat) (x : A) (ls : list (list A)) : list (list A) :=
  match ls with
  | [] => []
  | l :: t => match n with O => (l ++ [x]) :: t | S n' => l :: app_nth n' x t end
  end.

Definition vadd_op (p : params) (s : vstate) (id : Z) (v : vec) : vstate * Z :=
  if negb (st_trained s) then (s, E_UNTRAINED)
  else if negb (Z.of_nat (length v) =? p_dim p) then (s, E_DIM)
  else match preprocess (p_metric p) v with
       | None => (s, E_ZERO)
       | Some w =>
           let li := if uses_lists (p_kind p) then nearest (p_metric p) w (st_centroids s) else 0 in
           let code :=
               match p_kind p with
               | KPQ => pq_encode p (st_codebooks s) w
               | KIVFPQ => pq_encode p (st_codebooks s) (vsub w (nthv (st_centroids s) li))
               | _ => []
               end in
           let e := {| e_id := id; e_vec := w; e_code := code |} in
           (* re-adding a removed id is an update: the stale soft-deleted entry is dropped and the
              bit cleared before the new entry is appended (fix: commit "re-adding a removed id") *)
           let readd := memz id (st_deleted s) in
           let lists := if readd then map (filter (fun x => negb (e_id x =? id))) (st_lists s) else st_lists s in
           let deleted := if readd then filter (fun x => negb (x =? id)) (st_deleted s) else st_deleted s in
           ({| st_trained := st_trained s; st_centroids := st_centroids s;
               st_codebooks := st_codebooks s;
               st_lists := app_nth (Z.to_nat li) e lists;
               st_deleted := deleted |}, E_OK)
       end.

Definition vremove_op (s : vstate) (id : Z) : vstate * Z :=
  if negb (resident s id) then (s, E_NOTFOUND)
  else if memz id (st_deleted s) then (s, E_DELETED)
  else ({| st_trained := st_trained s; st_centroids := st_centroids s; st_codebooks := st_codebooks s;
           st_lists := st_lists s; st_deleted := id :: st_deleted s |}, E_OK).

Definition vflush_op (s : vstate) : vstate :=
  match st_deleted s with
  | [] => s
  | _ => {| st_trained := st_trained s; st_centroids := st_centroids s; st_codebooks := st_codebooks s;
            st_lists := map (filter (fun e => negb (memz (e_id e) (st_deleted s)))) (st_lists s);
            st_deleted := [] |}
  end.

(** per-subspace codebooks from (residual) vectors; None = index-out-of-range panic when
    k-means returned fewer than Ksub centroids *)
Definition train_codebooks (p : params) (vs : list vec) : option (list (list vec)) :=
  let books := map (fun m => let subs := map (fun v => subvec v (Z.of_nat m * p_dsub p) (p_dsub p)) vs in
                             match kmeans subs (p_ksub p) L2Sq 20 with
                             | Some (c, _, _) => c
                             | None => []
                             end) (seq 0 (Z.to_nat (p_M p))) in
  if forallb (fun b => Z.of_nat (length b) =? p_ksub p) books then Some books else None.

Definition vtrain_op (p : params) (s : vstate) (vs : list vec) : vstate * Z :=
  let n := Z.of_nat (length vs) in
  let set c b := {| st_trained := true; st_centroids := c; st_codebooks := b;
                    st_lists := st_lists s; st_deleted := st_deleted s |} in
  match p_kind p with
  | KFlat => (s, E_OK)
  | KIVF =>
      if n <? p_nlist p then (s, E_TRAINSIZE) else
      match kmeans vs (p_nlist p) (p_metric p) 20 with
      | Some (c, _, _) => (set c [], E_OK)
      | None => (s, E_KMEANS)
      end
  | KPQ =>
      if n <? p_ksub p then (s, E_TRAINSIZE)
      else if negb (forallb (fun v => Z.of_nat (length v) =? p_dim p) vs) then (s, E_DIM)
      else match train_codebooks p vs with
           | Some b => (set [] b, E_OK)
           | None => (s, E_PANIC)
           end
  | KIVFPQ =>
      if n <? p_nlist p * 10 then (s, E_TRAINSIZE)
      else if negb (forallb (fun v => Z.of_nat (length v) =? p_dim p) vs) then (s, E_DIM)
      else match kmeans vs (p_nlist p) (p_metric p) 20 with
           | None => (s, E_KMEANS)
           | Some (c, _, _) =>
               let res := map (fun v => vsub v (nthv c (nearest (p_metric p) v c))) vs in
               match train_codebooks p res with
               | Some b => (set c b, E_OK)
               | None => (s, E_PANIC)
               end
           end
  end.

(** ---- search ---- *)
Record request := {
  r_queries : list vec; r_nodes : list Z; r_docids : list Z; r_k : Z; r_thr : Z;
  r_agg : agg_kind; r_cutoff : Z; r_nprobes : Z }.

Inductive res (A : Type) := Ok (a : A) | Err (e : Z).
Arguments Ok {A} _. Arguments Err {A} _.

Definition eligible_id (s : vstate) (rq : request) (id : Z) : bool :=
  negb (memz id (st_deleted s)) &&
  (match r_docids rq with [] => true | ds => memz id ds end).

Definition thr_ok (rq : request) (d : Z) : bool :=
  negb (F32.gtb (r_thr rq) F32.zero && F32.gtb d (r_thr rq)).

(** distance tables for a (residual) query: per subspace, squared distance to every codeword *)
Definition dist_tables (p : params) (books : list (list vec)) (q : vec) : list (list Z) :=
  map (fun mb => let '(m, book) := mb in
                 let sq := subvec q (m * p_dsub p) (p_dsub p) in
                 map (fun cw => l2sq sq cw) book)
      (combine (map Z.of_nat (seq 0 (length books))) books).

Definition adist (tables : list (list Z)) (code : list Z) : Z :=
  F32.sqrt (fold_left (fun acc tc => F32.add acc (nth (Z.to_nat (snd tc)) (fst tc) F32.zero))
                      (combine tables code) F32.zero).

(** outcome of a single-query search: the FULL sorted candidate list, the cut, and whether an
    unstable sort could legitimately have produced a different answer (ties at a cut point) *)
Record single_out := { so_full : list (Z * Z); so_cut : nat; so_tie : bool; so_ptie : bool }.

Definition score_at (l : list (Z * Z)) (i : nat) : Z := snd (nth i l (0, 0)).
Definition tie_at {A} (key : A -> Z) (l : list A) (d : A) (cut : nat) : bool :=
  match cut with
  | O => false
  | S c => (cut <? length l)%nat && (key (nth c l d) =? key (nth cut l d))
  end.

Definition sort_cands (l : list (Z * Z)) : list (Z * Z) := isort (fun p => F32.key (snd p)) l.

Definition scan_list (s : vstate) (rq : request) (score : entry -> Z) (l : list entry) : list (Z * Z) :=
  flat_map (fun e => if eligible_id s rq (e_id e)
                     then let d := score e in if thr_ok rq d then [(e_id e, d)] else []
                     else []) l.

Definition search_single (p : params) (s : vstate) (rq : request) (q : vec) : res single_out :=
  if negb (st_trained s) then Err E_UNTRAINED
  else if negb (Z.of_nat (length q) =? p_dim p) then Err E_DIM
  else
    let mk full cut tie ptie := Ok {| so_full := full; so_cut := cut; so_tie := tie; so_ptie := ptie |} in
    match p_kind p with
    | KFlat =>
        match preprocess (p_metric p) q with
        | None => Err E_ZERO
        | Some pq =>
            let ents := all_entries s in
            let k1 := sanitizeK (r_k rq) (Z.of_nat (length ents)) in
            let full := sort_cands (scan_list s rq (fun e => dist (p_metric p) pq (e_vec e)) ents) in
            let cut := Z.to_nat (sanitizeK k1 (Z.of_nat (length full))) in
            mk full cut (tie_at (fun x => F32.key (snd x)) full (0, 0) cut) false
        end
    | KPQ =>
        let ents := all_entries s in
        match ents with
        | [] => mk [] O false false
        | _ =>
            match preprocess (p_metric p) q with
            | None => Err E_ZERO
            | Some pq =>
                let tables := dist_tables p (st_codebooks s) pq in
                let full := sort_cands (scan_list s rq (fun e => adist tables (e_code e)) ents) in
                let cut := Z.to_nat (sanitizeK (r_k rq) (Z.of_nat (length full))) in
                mk full cut (tie_at (fun x => F32.key (snd x)) full (0, 0) cut) false
            end
        end
    | KIVF | KIVFPQ =>
        let nprobes := if (r_nprobes rq <=? 0) || (p_nlist p <? r_nprobes rq) then p_nlist p else r_nprobes rq in
        match preprocess (p_metric p) q with
        | None => Err E_ZERO
        | Some pq =>
            let cds := isort (fun x => F32.key (snd x))
                             (combine (map Z.of_nat (seq 0 (length (st_centroids s))))
                                      (map (fun c => dist (p_metric p) pq c) (st_centroids s))) in
            let probed := firstn (Z.to_nat nprobes) cds in
            let ptie := tie_at (fun x => F32.key (snd x)) cds (0, 0) (Z.to_nat nprobes) in
            let cands :=
                flat_map (fun cd =>
                            let li := fst cd in
                            let l := nth (Z.to_nat li) (st_lists s) [] in
                            match p_kind p with
                            | KIVFPQ =>
                                let tables := dist_tables p (st_codebooks s) (vsub pq (nthv (st_centroids s) li)) in
                                scan_list s rq (fun e => adist tables (e_code e)) l
                            | _ => scan_list s rq (fun e => dist (p_metric p) pq (e_vec e)) l
                            end) probed in
            let full := sort_cands cands in
            let cut := Z.to_nat (sanitizeK (r_k rq) (Z.of_nat (length full))) in
            mk full cut (tie_at (fun x => F32.key (snd x)) full (0, 0) cut) ptie
        end
    end.

(** lookupNodeVectors: first resident entry with that id; deleted or absent = error *)
Definition lookup_node (s : vstate) (id : Z) : res vec :=
  match find (fun e => e_id e =? id) (all_entries s) with
  | Some e => if memz id (st_deleted s) then Err E_NOTFOUND else Ok (e_vec e)
  | None => Err E_NOTFOUND
  end.

Fixpoint mapM_res {A B} (f : A -> res B) (l : list A) : res (list B) :=
  match l with
  | [] => Ok []
  | x :: t => match f x with
              | Err e => Err e
              | Ok b => match mapM_res f t with Err e => Err e | Ok bs => Ok (b :: bs) end
              end
  end.

Record exec_out := {
  xo_agg : list (Z * Z);      (* aggregated, sorted, BEFORE limit/autocut *)
  xo_aggfull : list (Z * Z);  (* the same aggregation over the UNtruncated per-query candidate lists
                                 (for one query: every candidate, so that ties at the cut can be
                                 compared as sets) *)
  xo_n : option nat;          (* number of results after limit + autocut; None = autocut panic *)
  xo_tie : bool;              (* some per-query cut fell inside a tie group *)
  xo_ptie : bool;             (* some probe cut fell inside a group of equidistant centroids *)
  xo_single : bool }.         (* exactly one query *)

Definition execute (p : params) (s : vstate) (rq : request) : res exec_out :=
  match r_queries rq, r_nodes rq with
  | [], [] => Err E_NOQUERY
  | _, _ =>
      match mapM_res (lookup_node s) (r_nodes rq) with
      | Err e => Err e
      | Ok nvs =>
          let allq := r_queries rq ++ nvs in
          match mapM_res (search_single p s rq) allq with
          | Err e => Err e
          | Ok outs =>
              let allres := flat_map (fun o => firstn (so_cut o) (so_full o)) outs in
              let agg := aggregate_vec (r_agg rq) allres in
              let lim := limit agg (r_k rq) in
              let n := match autocut_results lim (r_cutoff rq) with
                       | Some l => Some (length l) | None => None end in
              Ok {| xo_agg := agg; xo_aggfull := aggregate_vec (r_agg rq) (flat_map so_full outs); xo_n := n; xo_tie := existsb so_tie outs; xo_ptie := existsb so_ptie outs;
                    xo_single := (length allq =? 1)%nat |}
          end
      end
  end.
