(** roaring/BitSliceIndexing (v1.9.4) [compareValue] for a 64-slice BSI, per column:
    a pure function of the stored value, the operation and the operand(s).
    Values are int64 (Z in [-2^63, 2^63)); bits are those of the two's complement. *)
From Coq Require Import ZArith List Bool.
Import ListNotations.
Open Scope Z_scope.

Inductive bop := LT | LE | EQ | GE | GT | RANGE.

Definition two63 : Z := 9223372036854775808.
Definition two64 : Z := 18446744073709551616.
Definition u64 (z : Z) : Z := z mod two64.                 (* uint64(int64) *)
Definition neg64 (z : Z) : Z := (two64 - u64 z) mod two64.  (* ^z + 1 on 64 bits *)
Definition bitj (u : Z) (j : Z) : bool := Z.testbit u j.

Record cst := { eq1 : bool; eq2 : bool; lt1 : bool; lt2 : bool; gt1 : bool; stop : bool }.

Definition is_gt_like (op : bop) := match op with GT | GE | RANGE => true | _ => false end.
Definition is_lt_like (op : bop) := match op with LT | LE => true | _ => false end.
Definition is_range (op : bop) := match op with RANGE => true | _ => false end.

(** one iteration of the bit loop for slice [j] *)
Definition cstep (op : bop) (isNeg startNeg endNeg : bool) (cs ce v : Z) (j : Z) (st : cst) : cst :=
  if stop st then st else
  let b := bitj v j in
  (* first operand *)
  let st1 :=
    if bitj cs j then
      if negb b && eq1 st then
        {| eq1 := false; eq2 := eq2 st;
           lt1 := lt1 st || (is_lt_like op && (negb startNeg || Bool.eqb startNeg isNeg));
           lt2 := lt2 st;
           gt1 := gt1 st || (is_gt_like op && startNeg && negb isNeg);
           stop := true |}
      else st
    else
      if b && eq1 st then
        {| eq1 := false; eq2 := eq2 st;
           lt1 := lt1 st || (is_lt_like op && isNeg && negb startNeg);
           lt2 := lt2 st;
           gt1 := gt1 st || (is_gt_like op && (startNeg || Bool.eqb startNeg isNeg));
           stop := negb (is_range op) |}
      else st in
  if stop st1 then st1 else
  (* second operand, RANGE only *)
  if is_range op then
    if bitj ce j then
      if negb b && eq2 st1 then
        {| eq1 := eq1 st1; eq2 := false; lt1 := lt1 st1;
           lt2 := lt2 st1 || (negb endNeg || Bool.eqb endNeg isNeg);
           gt1 := gt1 st1; stop := startNeg && negb endNeg |}
      else st1
    else
      if b && eq2 st1 then
        {| eq1 := eq1 st1; eq2 := false; lt1 := lt1 st1;
           lt2 := lt2 st1 || (isNeg && negb endNeg);
           gt1 := gt1 st1; stop := true |}
      else st1
  else st1.

Fixpoint cloop (op : bop) (isNeg startNeg endNeg : bool) (cs ce v : Z) (n : nat) (st : cst) : cst :=
  match n with
  | O => st
  | S n' => cloop op isNeg startNeg endNeg cs ce v n'
                  (cstep op isNeg startNeg endNeg cs ce v (Z.of_nat n') st)
  end.

(** does the column holding [v] belong to CompareValue(op, a, b)? *)
Definition bsi_cmp (op : bop) (v a b : Z) : bool :=
  let isNeg := v <? 0 in
  let startNeg := a <? 0 in
  let endNeg := b <? 0 in
  let cs := if Bool.eqb isNeg startNeg then u64 a else neg64 a in
  let ce := if Bool.eqb isNeg endNeg then u64 b else neg64 b in
  let st := cloop op isNeg startNeg endNeg cs ce (u64 v) 63
                  {| eq1 := true; eq2 := true; lt1 := false; lt2 := false; gt1 := false; stop := false |} in
  match op with
  | LT => lt1 st
  | LE => lt1 st || (eq1 st && (negb startNeg || (startNeg && isNeg)))
  | EQ => eq1 st
  | GE => gt1 st || (eq1 st && (startNeg || (negb startNeg && negb isNeg)))
  | GT => gt1 st
  | RANGE => (eq1 st || gt1 st) && (eq2 st || lt2 st)
  end.

(** the specification: ordinary integer comparison *)
Definition spec_cmp (op : bop) (v a b : Z) : bool :=
  match op with
  | LT => v <? a | LE => v <=? a | EQ => v =? a | GE => a <=? v | GT => a <? v
  | RANGE => (a <=? v) && (v <=? b)
  end.

Definition bop_of_Z (z : Z) : bop :=
  if z =? 1 then LT else if z =? 2 then LE else if z =? 3 then EQ else if z =? 4 then GE
  else if z =? 5 then GT else RANGE.
