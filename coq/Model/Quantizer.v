(** quantizer.go: float32 (copy), float16 (x448/float16 = IEEE round-to-nearest-even to binary16),
    int8 (scale by absMax, math.Round = half away from zero). *)
From Coq Require Import ZArith List Bool.
From Coq Require Import Floats.SpecFloat.
From Comet Require Import Base.FBits.
Import ListNotations.
Open Scope Z_scope.

(** binary16 *)
Definition f32_to_f16 (x : Z) : Z := round_sf 10 5 (F32.of_bits x).
Definition f16_to_f32 (h : Z) : Z := F32.round_sf (of_bits 10 5 h).
Definition nan16 : Z := nan_bits 10 5.
Definition canon16 (h : Z) : Z := if is_nan 10 5 h then nan16 else h.

Definition q16 (v : list Z) : list Z := map f32_to_f16 v.
Definition dq16 (v : list Z) : list Z := map f16_to_f32 v.

(** math.Round on the (exactly representable) float32 value, as an integer; 0 for non-finite *)
Definition round_half_away (x : Z) : Z :=
  match F32.of_bits x with
  | S754_finite s m e =>
      let mag := if 0 <=? e then Zpos m * 2 ^ e
                 else let d := 2 ^ (- e) in
                      let q := Zpos m / d in let r := Zpos m mod d in
                      if d <=? 2 * r then q + 1 else q in
      if s then - mag else mag
  | _ => 0
  end.

Definition c127 : Z := 1123942400.   (* 127.0f *)

Definition f32_abs (x : Z) : Z := if 2147483648 <=? x then x - 2147483648 else x.

Definition q8_train (vs : list (list Z)) : Z :=
  fold_left (fun mx v => fold_left (fun mx x => let a := f32_abs x in if F32.gtb a mx then a else mx) v mx) vs F32.zero.

Definition q8_trained (absmax : Z) : bool := F32.gtb absmax F32.zero.

(** int8(float64) outside [-128,127] (only for values outside the trained range): amd64 converts through
    int64 and keeps the low byte *)
Definition wrap8 (z : Z) : Z := (z + 128) mod 256 - 128.

(** None = "quantizer must be trained" *)
Definition q8 (absmax : Z) (v : list Z) : option (list Z) :=
  if q8_trained absmax then Some (map (fun x => wrap8 (round_half_away (F32.mul (F32.div x absmax) c127))) v) else None.
Definition dq8 (absmax : Z) (v : list Z) : option (list Z) :=
  if q8_trained absmax then Some (map (fun q => F32.mul (F32.div (F32.of_Z q) c127) absmax) v) else None.
