(** Interleaving semantics of the soft-delete protocol shared by all vector indexes and BM25:
    Add and Search are one lock-protected step; Remove is TWO steps (read [exists] / [deleted] under
    the read lock, then insert into the delete bitmap under the write lock); Flush is one step.
    A schedule is any interleaving of such steps from any number of goroutines. *)
From Coq Require Import ZArith List Bool.
From Comet Require Import Model.VecIndex.
Import ListNotations.
Open Scope Z_scope.

Inductive cstep :=
| CAdd (id : Z)
| CRem1 (t id : Z)        (* goroutine t: phase 1 of Remove(id) *)
| CRem2 (t id : Z)        (* goroutine t: phase 2 of Remove(id) *)
| CFlush
| CSearch.

Record cstate := {
  c_entries : list Z;               (* resident ids *)
  c_del : list Z;                   (* soft-delete bitmap *)
  c_pend : list (Z * Z * bool);     (* (goroutine, id, decision taken in phase 1) *)
  c_gone : list Z }.                (* ghost: ids whose removal took effect *)

Definition cinit : cstate := {| c_entries := []; c_del := []; c_pend := []; c_gone := [] |}.

Definition clive (s : cstate) : list Z := filter (fun x => negb (memz x (c_del s))) (c_entries s).

Definition pend_ok (t id : Z) (p : list (Z * Z * bool)) : bool :=
  existsb (fun x => let '(t', i', ok) := x in (t' =? t) && (i' =? id) && ok) p.
Definition pend_drop (t id : Z) (p : list (Z * Z * bool)) : list (Z * Z * bool) :=
  filter (fun x => let '(t', i', _) := x in negb ((t' =? t) && (i' =? id))) p.

Definition cstep_apply (s : cstate) (e : cstep) : cstate :=
  match e with
  | CAdd id => {| c_entries := c_entries s ++ [id]; c_del := c_del s; c_pend := c_pend s; c_gone := c_gone s |}
  | CRem1 t id =>
      {| c_entries := c_entries s; c_del := c_del s;
         c_pend := (t, id, memz id (c_entries s) && negb (memz id (c_del s))) :: c_pend s; c_gone := c_gone s |}
  | CRem2 t id =>
      if pend_ok t id (c_pend s)
      then {| c_entries := c_entries s; c_del := id :: c_del s; c_pend := pend_drop t id (c_pend s); c_gone := id :: c_gone s |}
      else {| c_entries := c_entries s; c_del := c_del s; c_pend := pend_drop t id (c_pend s); c_gone := c_gone s |}
  | CFlush =>
      {| c_entries := clive s; c_del := []; c_pend := c_pend s; c_gone := c_gone s |}
  | CSearch => s
  end.

Definition crun (es : list cstep) : cstate := fold_left cstep_apply es cinit.

(** ids are added at most once in a schedule (update = remove + add is sequential, C06) *)
Fixpoint adds_of (es : list cstep) : list Z :=
  match es with [] => [] | CAdd id :: t => id :: adds_of t | _ :: t => adds_of t end.
Definition rem1_begun (id : Z) (es : list cstep) : bool :=
  existsb (fun e => match e with CRem1 _ i => i =? id | _ => false end) es.

(** ---- memtableQueue.add: pick the mutable memtable under the queue lock, write after releasing it ---- *)
Inductive qstep := QPick (t : Z) | QRotate | QWrite (t : Z).
Inductive qout := QOk (t gen : Z) | QFrozenError (t : Z) | QRetry (t : Z).

Record qstate := { q_gen : Z; q_picked : list (Z * Z) }.
Definition qinit : qstate := {| q_gen := 0; q_picked := [] |}.

Definition q_get (t : Z) (s : qstate) : option Z :=
  match find (fun x => fst x =? t) (q_picked s) with Some x => Some (snd x) | None => None end.

(** [retry] = the repaired code (a frozen memtable sends the writer back to the pick step) *)
Definition qstep_apply (retry : bool) (s : qstate) (e : qstep) : qstate * list qout :=
  match e with
  | QPick t => ({| q_gen := q_gen s; q_picked := (t, q_gen s) :: filter (fun x => negb (fst x =? t)) (q_picked s) |}, [])
  | QRotate => ({| q_gen := q_gen s + 1; q_picked := q_picked s |}, [])
  | QWrite t =>
      match q_get t s with
      | None => (s, [])
      | Some g =>
          let s' := {| q_gen := q_gen s; q_picked := filter (fun x => negb (fst x =? t)) (q_picked s) |} in
          if g =? q_gen s then (s', [QOk t g])
          else if retry then (s', [QRetry t]) else (s', [QFrozenError t])
      end
  end.

Fixpoint qrun (retry : bool) (s : qstate) (es : list qstep) : list qout :=
  match es with
  | [] => []
  | e :: t => let '(s', o) := qstep_apply retry s e in o ++ qrun retry s' t
  end.
