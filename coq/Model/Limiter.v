(** limiter.go: sanitizeK, LimitResults, Autocut, AutocutResults. *)
From Coq Require Import ZArith List Bool.
From Comet Require Import Base.FBits.
Import ListNotations.
Open Scope Z_scope.

Definition sanitizeK (k maxr : Z) : Z :=
  if (k <=? 0) || (maxr <? k) then maxr else k.

Definition limit {A} (l : list A) (k : Z) : list A :=
  firstn (Z.to_nat (sanitizeK k (Z.of_nat (length l)))) l.

(** Outcome of [Autocut]: a cut index or a Go panic (index out of range). *)
Inductive cut := Cut (i : Z) | CutPanic.

(** diff[i] = (y_i - y_0) / (y_last - y_0) - (0 + float32(i) * step) *)
Definition autocut_diff (ys : list Z) : list Z :=
  let n := Z.of_nat (length ys) in
  let y0 := hd 0 ys in
  let yl := last ys 0 in
  let step := F32.div F32.one (F32.sub (F32.of_Z n) F32.one) in
  let den := F32.sub yl y0 in
  map (fun iy => let '(i, y) := iy in
         F32.sub (F32.div (F32.sub y y0) den)
                 (F32.add F32.zero (F32.mul (F32.of_Z i) step)))
      (combine (map Z.of_nat (seq 0 (length ys))) ys).

(** The scan over diff[1..n-1]; [prev2] is diff[i-2] when it exists. *)
Fixpoint autocut_scan (cutoff : Z) (i : Z) (cnt : Z) (prev2 : option Z) (prev cur : Z)
         (rest : list Z) (n : Z) : cut :=
  match rest with
  | [] =>
      (* i = n-1 : last element *)
      if F32.gtb cur prev then
        match prev2 with
        | None => CutPanic                       (* diff[i-2] with i = 1 *)
        | Some p2 =>
            if F32.gtb cur p2 then
              (if cutoff <=? cnt + 1 then Cut i else Cut n)
            else Cut n
        end
      else Cut n
  | nxt :: rest' =>
      if F32.gtb cur prev && F32.gtb cur nxt then
        (if cutoff <=? cnt + 1 then Cut i
         else autocut_scan cutoff (i + 1) (cnt + 1) (Some prev) cur nxt rest' n)
      else autocut_scan cutoff (i + 1) cnt (Some prev) cur nxt rest' n
  end.

Definition autocut (ys : list Z) (cutoff : Z) : cut :=
  let n := Z.of_nat (length ys) in
  match ys with
  | [] => Cut 0
  | [_] => Cut 1
  | _ =>
      match autocut_diff ys with
      | d0 :: d1 :: rest => autocut_scan cutoff 1 0 None d0 d1 rest n
      | _ => Cut n
      end
  end.

(** AutocutResults on a list of (id, score). *)
Definition autocut_results (l : list (Z * Z)) (cutoff : Z) : option (list (Z * Z)) :=
  if (cutoff =? -1) || (match l with [] => true | _ => false end) then Some l
  else match autocut (map snd l) cutoff with
       | Cut i => Some (firstn (Z.to_nat i) l)
       | CutPanic => None
       end.
