(** storage_provider.go / storage.go ownership protocol of a storage directory.
    The directory is reduced to the existence of the LOCK file; a handle goes through
    Pending (LOCK created with O_EXCL, directory being scanned) -> Open -> Closing (closed flag set,
    workers stopping) -> Closed, or Pending -> Failed (scan failed: LOCK removed).  Each event is one
    atomic step of one handle; a schedule is any interleaving of events of any number of handles
    (goroutines or processes: the protocol only uses the file system). *)
From Coq Require Import ZArith List Bool.
Import ListNotations.
Open Scope Z_scope.

Inductive phase := Fresh | Pending | Open | Closing | Closed | Failed | Busy.
(* Busy = an open attempt that found LOCK present and gave up *)

Inductive event :=
| ETryLock (h : Z)            (* os.OpenFile(LOCK, O_CREATE|O_EXCL) *)
| EScan (h : Z) (ok : bool)   (* initSegmentCounter + listSegments; failure releases the lock *)
| ECloseFlag (h : Z)          (* Close: test-and-set of [closed] under the mutex *)
| ERelease (h : Z)            (* Close: provider.close() removes LOCK *)
| EUse (h : Z).               (* any other public method: only observes [closed] *)

Record lstate := { lock : bool; handles : list (Z * phase) }.
Definition linit : lstate := {| lock := false; handles := [] |}.

Definition get (h : Z) (s : lstate) : phase :=
  match find (fun x => fst x =? h) (handles s) with Some x => snd x | None => Fresh end.
Definition set (h : Z) (p : phase) (s : lstate) (l : bool) : lstate :=
  {| lock := l; handles := (h, p) :: filter (fun x => negb (fst x =? h)) (handles s) |}.

(** result codes: 0 ok, 1 locked, 2 scan failure, 3 already closed / use after close, 9 not enabled *)
Definition lstep (s : lstate) (e : event) : lstate * Z :=
  match e with
  | ETryLock h =>
      match get h s with
      | Fresh => if lock s then (set h Busy s (lock s), 1) else (set h Pending s true, 0)
      | _ => (s, 9)
      end
  | EScan h ok =>
      match get h s with
      | Pending => if ok then (set h Open s (lock s), 0) else (set h Failed s false, 2)
      | _ => (s, 9)
      end
  | ECloseFlag h =>
      match get h s with
      | Open => (set h Closing s (lock s), 0)
      | Closing | Closed => (s, 3)            (* second Close: error, nothing changes *)
      | _ => (s, 9)
      end
  | ERelease h =>
      match get h s with
      | Closing => (set h Closed s false, 0)
      | _ => (s, 9)
      end
  | EUse h =>
      match get h s with
      | Open => (s, 0)
      | Closing | Closed => (s, 3)
      | _ => (s, 9)
      end
  end.

Definition lrun (es : list event) : lstate := fold_left (fun s e => fst (lstep s e)) es linit.

(** handles that currently own the directory *)
Definition owning (p : phase) : bool := match p with Pending | Open | Closing => true | _ => false end.
Definition owners (s : lstate) : list Z := map fst (filter (fun x => owning (snd x)) (handles s)).
