(** hnsw_index.go / hnsw_index_search.go (with the three fix: commits): graph construction and search,
    transcribed procedure by procedure.  container/heap is transcribed exactly (array heap with
    up / down), so pop order among equal distances is the implementation's; random levels and the
    entry point elected by Flush (map iteration) are oracle inputs. *)
From Coq Require Import ZArith List Bool.
From Comet Require Import Base.FBits Base.Parse Base.Sorting.
From Comet Require Import Model.Distance Model.Limiter Model.Aggregation Model.VecIndex.
Import ListNotations.
Open Scope Z_scope.

Record hnode := { n_id : Z; n_level : Z; n_vec : vec; n_edges : list (list Z) }.
Record hcfg := { hc_dim : Z; hc_metric : metric; hc_M : Z; hc_efc : Z; hc_efs : Z }.
Record hstate := { hs_nodes : list hnode; hs_deleted : list Z; hs_entry : Z; hs_maxlevel : Z }.

Definition hinit : hstate := {| hs_nodes := []; hs_deleted := []; hs_entry := 0; hs_maxlevel := -1 |}.

Definition hget (s : hstate) (id : Z) : option hnode := find (fun n => n_id n =? id) (hs_nodes s).
Definition hvec (s : hstate) (id : Z) : vec := match hget s id with Some n => n_vec n | None => [] end.
Definition hset (nodes : list hnode) (n : hnode) : list hnode :=
  if existsb (fun x => n_id x =? n_id n) nodes
  then map (fun x => if n_id x =? n_id n then n else x) nodes
  else nodes ++ [n].
Definition edges_at (n : hnode) (lc : Z) : list Z :=
  if (0 <=? lc) && (lc <? Z.of_nat (length (n_edges n))) then nth (Z.to_nat lc) (n_edges n) [] else [].
Fixpoint set_nth {A} (i : nat) (x : A) (l : list A) : list A :=
  match l, i with
  | [], _ => []
  | _ :: t, O => x :: t
  | a :: t, S i' => a :: set_nth i' x t
  end.
Definition set_edges (n : hnode) (lc : Z) (e : list Z) : hnode :=
  {| n_id := n_id n; n_level := n_level n; n_vec := n_vec n; n_edges := set_nth (Z.to_nat lc) e (n_edges n) |}.

(** ---- container/heap on a slice: elements are (id, distance bits) ---- *)
Definition cand := (Z * Z)%type.
Section Heap.
  Variable less : cand -> cand -> bool.
  Definition hnth (h : list cand) (i : nat) : cand := nth i h (0, 0).
  Definition hswap (h : list cand) (i j : nat) : list cand :=
    set_nth i (hnth h j) (set_nth j (hnth h i) h).
  Fixpoint up (fuel : nat) (h : list cand) (j : nat) : list cand :=
    match fuel with
    | O => h
    | S f =>
        let i := ((j - 1) / 2)%nat in
        if (i =? j)%nat || negb (less (hnth h j) (hnth h i)) then h
        else up f (hswap h i j) i
    end.
  Fixpoint down (fuel : nat) (h : list cand) (i n : nat) : list cand :=
    match fuel with
    | O => h
    | S f =>
        let j1 := (2 * i + 1)%nat in
        if (n <=? j1)%nat then h else
        let j2 := (j1 + 1)%nat in
        let j := if (j2 <? n)%nat && less (hnth h j2) (hnth h j1) then j2 else j1 in
        if negb (less (hnth h j) (hnth h i)) then h
        else down f (hswap h i j) j n
    end.
  Definition hpush (h : list cand) (x : cand) : list cand :=
    let h' := h ++ [x] in up (length h') h' (length h' - 1).
  (** returns the popped element and the new heap *)
  Definition hpop (h : list cand) : cand * list cand :=
    let n := (length h - 1)%nat in
    let h1 := hswap h 0 n in
    let h2 := down (length h) h1 0 n in
    (hnth h2 n, firstn n h2).
End Heap.

Definition min_less (a b : cand) : bool := F32.ltb (snd a) (snd b).
Definition max_less (a b : cand) : bool := F32.gtb (snd a) (snd b).

(** ---- searchLayer ---- *)
Definition deleted (s : hstate) (id : Z) : bool := memz id (hs_deleted s).

Fixpoint sl_neighbors (s : hstate) (m : metric) (q : vec) (ef : Z) (nbs : list Z)
         (visited : list Z) (cands result : list cand) : list Z * list cand * list cand :=
  match nbs with
  | [] => (visited, cands, result)
  | nb :: rest =>
      if memz nb visited then sl_neighbors s m q ef rest visited cands result
      else
        let visited := nb :: visited in
        let d := dist m q (hvec s nb) in
        let rlen := Z.of_nat (length result) in
        if (rlen <? ef) || F32.ltb d (snd (hnth result 0)) then
          let cands := hpush min_less cands (nb, d) in
          let result :=
              if deleted s nb then result
              else let r1 := hpush max_less result (nb, d) in
                   if ef <? Z.of_nat (length r1) then snd (hpop max_less r1) else r1 in
          sl_neighbors s m q ef rest visited cands result
        else sl_neighbors s m q ef rest visited cands result
  end.

Fixpoint sl_loop (fuel : nat) (s : hstate) (m : metric) (q : vec) (ef layer : Z)
         (visited : list Z) (cands result : list cand) : list cand :=
  match fuel with
  | O => result
  | S f =>
      match cands with
      | [] => result
      | _ =>
          let '(cur, cands') := hpop min_less cands in
          if (ef <=? Z.of_nat (length result)) && F32.gtb (snd cur) (snd (hnth result 0)) then result
          else
            let nbs := match hget s (fst cur) with Some n => edges_at n layer | None => [] end in
            let '(visited', cands'', result') := sl_neighbors s m q ef nbs visited cands' result in
            sl_loop f s m q ef layer visited' cands'' result'
      end
  end.

(** pops of the max-heap fill the result slice from the back: ascending distance *)
Fixpoint drain_max (fuel : nat) (h : list cand) (acc : list cand) : list cand :=
  match fuel with
  | O => acc
  | S f => match h with
           | [] => acc
           | _ => let '(x, h') := hpop max_less h in drain_max f h' (x :: acc)
           end
  end.

Definition search_layer (s : hstate) (m : metric) (q : vec) (entry ef layer : Z) : list cand :=
  let d := dist m q (hvec s entry) in
  let cands := hpush min_less [] (entry, d) in
  let result := if deleted s entry then [] else hpush max_less [] (entry, d) in
  let res := sl_loop (S (length (hs_nodes s))) s m q ef layer [entry] cands result in
  drain_max (length res) res [].

(** ---- greedy descent on one upper layer ---- *)
Fixpoint greedy_pass (s : hstate) (m : metric) (q : vec) (nbs : list Z) (curr currDist : Z) (changed : bool)
  : Z * Z * bool :=
  match nbs with
  | [] => (curr, currDist, changed)
  | nb :: rest =>
      if deleted s nb then greedy_pass s m q rest curr currDist changed
      else let d := dist m q (hvec s nb) in
           if F32.ltb d currDist then greedy_pass s m q rest nb d true
           else greedy_pass s m q rest curr currDist changed
  end.

Fixpoint greedy_layer (fuel : nat) (s : hstate) (m : metric) (q : vec) (lc curr currDist : Z) : Z * Z :=
  match fuel with
  | O => (curr, currDist)
  | S f =>
      let nbs := match hget s curr with Some n => edges_at n lc | None => [] end in
      let '(c', d', ch) := greedy_pass s m q nbs curr currDist false in
      if ch then greedy_layer f s m q lc c' d' else (c', d')
  end.

(** layers [from], from-1, ..., [downto]+1 *)
Fixpoint greedy_descent (n : nat) (s : hstate) (m : metric) (q : vec) (lc curr currDist : Z) : Z * Z :=
  match n with
  | O => (curr, currDist)
  | S n' =>
      let '(c', d') := greedy_layer (S (length (hs_nodes s))) s m q lc curr currDist in
      greedy_descent n' s m q (lc - 1) c' d'
  end.

(** ---- neighbour selection and pruning ---- *)
(** sort.Slice: a stable insertion sort up to 12 elements; beyond that the order among equal
    distances is unspecified — [tie] reports that the outcome may then legitimately differ *)
Definition has_dup_dist (l : list cand) : bool :=
  let ks := map (fun c => F32.key (snd c)) l in
  negb (Nat.eqb (length (nodup Z.eq_dec ks)) (length ks)).
Definition sort_cands_by_dist (l : list cand) : list cand * bool :=
  (isort (fun c => F32.key (snd c)) l, (12 <? length l)%nat && has_dup_dist l).

Definition select_neighbors (cands : list cand) (mm : Z) : list Z * bool :=
  if Z.of_nat (length cands) <=? mm then (map fst cands, false)
  else let '(sorted, tie) := sort_cands_by_dist cands in (map fst (firstn (Z.to_nat mm) sorted), tie).

Definition prune (s : hstate) (m : metric) (n : hnode) (layer mm : Z) : hnode * bool :=
  let cl := flat_map (fun nid => match hget s nid with
                                 | Some x => [(nid, dist m (n_vec n) (n_vec x))]
                                 | None => [] end) (edges_at n layer) in
  let '(sorted, tie) := sort_cands_by_dist cl in
  (set_edges n layer (map fst (firstn (Z.to_nat mm) sorted)), tie).

(** link the new node [nid] with [neighbors] at layer [lc] *)
Fixpoint link_neighbors (s : hstate) (m : metric) (nid lc mm : Z) (neighbors : list Z) (tie : bool) : hstate * bool :=
  match neighbors with
  | [] => (s, tie)
  | nb :: rest =>
      (* node.Edges[lc] = append(node.Edges[lc], nb) *)
      let nodes1 := match hget s nid with
                    | Some n => hset (hs_nodes s) (set_edges n lc (edges_at n lc ++ [nb]))
                    | None => hs_nodes s end in
      let s1 := {| hs_nodes := nodes1; hs_deleted := hs_deleted s; hs_entry := hs_entry s; hs_maxlevel := hs_maxlevel s |} in
      match hget s1 nb with
      | Some nbn =>
          if lc <=? n_level nbn then
            let nbn1 := set_edges nbn lc (edges_at nbn lc ++ [nid]) in
            let s2 := {| hs_nodes := hset (hs_nodes s1) nbn1; hs_deleted := hs_deleted s1; hs_entry := hs_entry s1; hs_maxlevel := hs_maxlevel s1 |} in
            if mm <? Z.of_nat (length (edges_at nbn1 lc)) then
              let '(nbn2, t2) := prune s2 m nbn1 lc mm in
              link_neighbors {| hs_nodes := hset (hs_nodes s2) nbn2; hs_deleted := hs_deleted s2; hs_entry := hs_entry s2; hs_maxlevel := hs_maxlevel s2 |}
                             m nid lc mm rest (tie || t2)
            else link_neighbors s2 m nid lc mm rest tie
          else link_neighbors s1 m nid lc mm rest tie
      | None => link_neighbors s1 m nid lc mm rest tie
      end
  end.

(** layers node.Level .. 0 *)
Fixpoint insert_layers (n : nat) (cfg : hcfg) (s : hstate) (nid : Z) (v : vec) (lc curr : Z) (tie : bool) : hstate * bool :=
  match n with
  | O => (s, tie)
  | S n' =>
      let cands := search_layer s (hc_metric cfg) v curr (hc_efc cfg) lc in
      let mm := if lc =? 0 then hc_M cfg * 2 else hc_M cfg in
      let '(nbs, t1) := select_neighbors cands mm in
      let '(s1, t2) := link_neighbors s (hc_metric cfg) nid lc mm nbs (tie || t1) in
      let curr' := match cands with c :: _ => fst c | [] => curr end in
      insert_layers n' cfg s1 nid v (lc - 1) curr' t2
  end.

Definition insert_node (cfg : hcfg) (s : hstate) (nid : Z) (v : vec) (level : Z) : hstate * bool :=
  let curr := hs_entry s in
  let currDist := dist (hc_metric cfg) v (hvec s curr) in
  let '(c1, _) := greedy_descent (Z.to_nat (hs_maxlevel s - level)) s (hc_metric cfg) v (hs_maxlevel s) curr currDist in
  insert_layers (Z.to_nat (level + 1)) cfg s nid v level c1 false.

(** ---- Flush: edges to deleted vertices dropped, entry point re-elected (oracle [elected]) ---- *)
Definition live_nodes (s : hstate) : list hnode := filter (fun n => negb (deleted s (n_id n))) (hs_nodes s).
Definition max_live_level (s : hstate) : Z := fold_left (fun m n => Z.max m (n_level n)) (live_nodes s) (-1).

(** is [e] an admissible outcome of the election? *)
Definition election_ok (s : hstate) (e : Z) : bool :=
  if negb (deleted s (hs_entry s)) then e =? hs_entry s
  else if existsb (fun n => n_level n =? hs_maxlevel s) (live_nodes s)
       then existsb (fun n => (n_id n =? e) && (n_level n =? hs_maxlevel s)) (live_nodes s)
       else match live_nodes s with
            | [] => e =? 0
            | _ => existsb (fun n => (n_id n =? e) && (n_level n =? max_live_level s)) (live_nodes s)
            end.

Definition hflush (s : hstate) (elected : Z) : hstate :=
  match hs_deleted s with
  | [] => s
  | _ =>
      let live := live_nodes s in
      let cleaned := map (fun n => {| n_id := n_id n; n_level := n_level n; n_vec := n_vec n;
                                      n_edges := map (filter (fun x => negb (deleted s x))) (n_edges n) |}) live in
      let maxl := if negb (deleted s (hs_entry s)) then hs_maxlevel s
                  else if existsb (fun n => n_level n =? hs_maxlevel s) live then hs_maxlevel s
                  else max_live_level s in
      (* with no live vertex left the entry point is reset (the oracle is only consulted for a choice
         among live vertices; an entry point that is live stays) *)
      let entry := match live with
                   | [] => 0
                   | _ => if negb (deleted s (hs_entry s)) then hs_entry s else elected
                   end in
      {| hs_nodes := cleaned; hs_deleted := []; hs_entry := entry; hs_maxlevel := maxl |}
  end.

(** ---- Add / Remove ---- *)
Definition hadd (cfg : hcfg) (s : hstate) (id : Z) (v : vec) (level elected : Z) : hstate * Z * bool :=
  if negb (Z.of_nat (length v) =? hc_dim cfg) then (s, E_DIM, false)
  else match preprocess (hc_metric cfg) v with
       | None => (s, E_ZERO, false)
       | Some w =>
           let s0 := if deleted s id then hflush s elected else s in
           (* purge when the entry point is soft-deleted (fix: "added while the entry point was soft-deleted") *)
           let s0 := match hs_nodes s0 with
                     | [] => s0
                     | _ => if deleted s0 (hs_entry s0) then hflush s0 elected else s0
                     end in
           let maxl := Z.max (hs_maxlevel s0) level in
           let node := {| n_id := id; n_level := level; n_vec := w; n_edges := repeat [] (Z.to_nat (level + 1)) |} in
           match hs_nodes s0 with
           | [] =>
               if hs_entry s0 =? 0 then
                 ({| hs_nodes := [node]; hs_deleted := hs_deleted s0; hs_entry := id; hs_maxlevel := maxl |}, 0, false)
               else (s0, E_PANIC, false)
           | _ =>
               let s1 := {| hs_nodes := hset (hs_nodes s0) node; hs_deleted := hs_deleted s0;
                            hs_entry := hs_entry s0; hs_maxlevel := maxl |} in
               let '(s2, tie) := insert_node cfg s1 id w level in
               (s2, 0, tie)
           end
       end.

Definition hremove (s : hstate) (id : Z) : hstate * Z :=
  match hget s id with
  | None => (s, E_NOTFOUND)
  | Some _ => if deleted s id then (s, E_DELETED)
              else ({| hs_nodes := hs_nodes s; hs_deleted := id :: hs_deleted s; hs_entry := hs_entry s; hs_maxlevel := hs_maxlevel s |}, 0)
  end.

(** ---- search ---- *)
Definition hsearch_single (cfg : hcfg) (s : hstate) (rq : request) (ef : Z) (q : vec) : res single_out :=
  let mk full cut tie := Ok {| so_full := full; so_cut := cut; so_tie := tie; so_ptie := false |} in
  if negb (Z.of_nat (length q) =? hc_dim cfg) then Err E_DIM
  else match hs_nodes s with
       | [] => mk [] O false
       | _ =>
           if hs_maxlevel s =? -1 then mk [] O false else
           match preprocess (hc_metric cfg) q with
           | None => Err E_ZERO
           | Some pq =>
               let curr := hs_entry s in
               let currDist := dist (hc_metric cfg) pq (hvec s curr) in
               let '(c1, _) := greedy_descent (Z.to_nat (hs_maxlevel s)) s (hc_metric cfg) pq (hs_maxlevel s) curr currDist in
               let efs := if ef <=? 0 then hc_efs cfg else ef in
               let cands := search_layer s (hc_metric cfg) pq c1 efs 0 in
               let kept := filter (fun c => (match r_docids rq with [] => true | ds => memz (fst c) ds end)
                                            && thr_ok rq (snd c)) cands in
               let full := sort_cands kept in
               let cut := Z.to_nat (sanitizeK (r_k rq) (Z.of_nat (length full))) in
               mk full cut (tie_at (fun x => F32.key (snd x)) full (0, 0) cut)
           end
       end.

Definition hlookup_node (s : hstate) (id : Z) : res vec :=
  match hget s id with
  | Some n => if deleted s id then Err E_NOTFOUND else Ok (n_vec n)
  | None => Err E_NOTFOUND
  end.

Definition hexecute (cfg : hcfg) (s : hstate) (rq : request) (ef : Z) : res exec_out :=
  match r_queries rq, r_nodes rq with
  | [], [] => Err E_NOQUERY
  | _, _ =>
      match mapM_res (hlookup_node s) (r_nodes rq) with
      | Err e => Err e
      | Ok nvs =>
          let allq := r_queries rq ++ nvs in
          match mapM_res (hsearch_single cfg s rq ef) allq with
          | Err e => Err e
          | Ok outs =>
              let allres := flat_map (fun o => firstn (so_cut o) (so_full o)) outs in
              let agg := aggregate_vec (r_agg rq) allres in
              let lim := limit agg (r_k rq) in
              let n := match autocut_results lim (r_cutoff rq) with Some l => Some (length l) | None => None end in
              Ok {| xo_agg := agg; xo_aggfull := aggregate_vec (r_agg rq) (flat_map so_full outs); xo_n := n;
                    xo_tie := existsb so_tie outs; xo_ptie := false; xo_single := (length allq =? 1)%nat |}
          end
      end
  end.

(** ---- graph facts used by C12 ---- *)
(** vertices reachable from the entry point through layer-0 edges (breadth-first, fuelled) *)
Fixpoint reach (fuel : nat) (s : hstate) (frontier seen : list Z) : list Z :=
  match fuel with
  | O => seen
  | S f =>
      match frontier with
      | [] => seen
      | x :: rest =>
          let nbs := match hget s x with Some n => edges_at n 0 | None => [] end in
          let fresh := filter (fun y => negb (memz y seen) && negb (memz y rest)) (nodup Z.eq_dec nbs) in
          reach f s (rest ++ fresh) (seen ++ fresh)
      end
  end.
Definition reachable0 (s : hstate) : list Z :=
  match hs_nodes s with [] => [] | _ => reach (S (length (hs_nodes s))) s [hs_entry s] [hs_entry s] end.
