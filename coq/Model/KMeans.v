(** clustering.go: deterministic k-means (stride initialisation, first arg-min assignment,
    single-pass update, empty clusters keep their centroid, maxIter as fuel). *)
From Coq Require Import ZArith List Bool.
From Comet Require Import Base.FBits Base.Parse Model.Distance.
Import ListNotations.
Open Scope Z_scope.

(** FindNearestCentroidIndex: first strict minimum, starting from +Inf / index 0 *)
Definition nearest (m : metric) (v : vec) (cs : list vec) : Z :=
  let '(_, best, _) :=
    fold_left (fun (st : Z * Z * Z) c =>
                 let '(i, bi, bd) := st in
                 let d := dist m v c in
                 if F32.ltb d bd then (i + 1, i, d) else (i + 1, bi, bd))
              cs (0, 0, F32.pinf) in
  best.

Fixpoint vadd (a b : vec) : vec :=
  match a, b with
  | x :: a', y :: b' => F32.add x y :: vadd a' b'
  | _, _ => a           (* sums keep their own length: [for dimIdx := range vectors[i]] on equal dims *)
  end.

Definition zeros (n : nat) : vec := repeat F32.zero n.

(** members of cluster [c] in input order *)
Definition members (vs : list vec) (mapping : list Z) (c : Z) : list vec :=
  map fst (filter (fun p => snd p =? c) (combine vs mapping)).

Definition update_centroid (dimn : nat) (vs : list vec) (mapping : list Z) (c : Z) (old : vec) : vec :=
  let ms := members vs mapping c in
  match ms with
  | [] => old
  | _ => let s := fold_left vadd ms (zeros dimn) in
         let n := F32.of_Z (Z.of_nat (length ms)) in
         map (fun x => F32.div x n) s
  end.

Definition update (dimn : nat) (vs : list vec) (mapping : list Z) (cents : list vec) : list vec :=
  map (fun ic => update_centroid dimn vs mapping (fst ic) (snd ic))
      (combine (map Z.of_nat (seq 0 (length cents))) cents).

Fixpoint km_loop (fuel : nat) (m : metric) (dimn : nat) (vs cents : list vec) (mapping : list Z)
  : list vec * list Z * bool :=
  match fuel with
  | O => (cents, mapping, false)
  | S f =>
      let newmap := map (fun v => nearest m v cents) vs in
      if list_eqb mapping newmap then (cents, mapping, true)
      else km_loop f m dimn vs (update dimn vs newmap cents) newmap
  end.

Definition nthv (vs : list vec) (i : Z) : vec := nth (Z.to_nat i) vs [].

(** kmeansInternal: None = (nil, nil) *)
Definition kmeans (vs : list vec) (k : Z) (m : metric) (maxIter : Z) : option (list vec * list Z * bool) :=
  let n := Z.of_nat (length vs) in
  if (n =? 0) || (k <=? 0) then None else
  let k := if n <? k then n else k in
  let maxIter := if maxIter <=? 0 then 20 else maxIter in
  let dimn := length (hd [] vs) in
  let step := let s := n / k in if s =? 0 then 1 else s in
  let cents := map (fun c => let i := Z.of_nat c * step in nthv vs (if n <=? i then n - 1 else i))
                   (seq 0 (Z.to_nat k)) in
  Some (km_loop (Z.to_nat maxIter) m dimn vs cents (repeat (-1) (length vs))).
