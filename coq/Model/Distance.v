(** distance.go: float32 kernels, bit-exact. Vectors are lists of bit patterns. *)
From Coq Require Import ZArith List Bool.
From Comet Require Import Base.FBits.
Import ListNotations.
Open Scope Z_scope.

Definition vec := list Z.

Inductive metric := L2 | L2Sq | Cos.
Definition metric_of_Z (z : Z) : metric := if z =? 1 then L2Sq else if z =? 2 then Cos else L2.
Definition metric_to_Z (m : metric) : Z := match m with L2 => 0 | L2Sq => 1 | Cos => 2 end.

(** for i := range a { diff := a[i]-b[i]; sum += diff*diff }  (range over [a]; b must be as long) *)
Fixpoint l2sq_acc (acc : Z) (a b : vec) : Z :=
  match a, b with
  | x :: a', y :: b' => let d := F32.sub x y in l2sq_acc (F32.add acc (F32.mul d d)) a' b'
  | _, _ => acc
  end.
Definition l2sq (a b : vec) : Z := l2sq_acc F32.zero a b.
Definition l2 (a b : vec) : Z := F32.sqrt (l2sq a b).

Fixpoint dot_acc (acc : Z) (a b : vec) : Z :=
  match a, b with
  | x :: a', y :: b' => dot_acc (F32.add acc (F32.mul x y)) a' b'
  | _, _ => acc
  end.
Definition dot (a b : vec) : Z := dot_acc F32.zero a b.

Definition clamp1 (d : Z) : Z :=
  if F32.gtb d F32.one then F32.one else if F32.ltb d F32.neg_one then F32.neg_one else d.
Definition cosine (a b : vec) : Z := F32.sub F32.one (clamp1 (dot a b)).

Definition dist (m : metric) (a b : vec) : Z :=
  match m with L2 => l2 a b | L2Sq => l2sq a b | Cos => cosine a b end.

Definition dist_batch (m : metric) (qs : list vec) (t : vec) : list Z :=
  map (fun q => dist m q t) qs.

Definition sumsq (v : vec) : Z := fold_left (fun s x => F32.add s (F32.mul x x)) v F32.zero.
Definition norm (v : vec) : Z := F32.sqrt (sumsq v).
Definition scale (v : vec) (c : Z) : vec := map (fun x => F32.mul x c) v.

(** Normalize: v unchanged when its norm is zero *)
Definition normalize (v : vec) : vec :=
  let n := norm v in
  if F32.eqb n F32.zero then v else scale v (F32.div F32.one n).

(** Preprocess: None = ErrZeroVector *)
Definition preprocess (m : metric) (v : vec) : option vec :=
  match m with
  | Cos => let n := norm v in
           if F32.eqb n F32.zero then None else Some (scale v (F32.div F32.one n))
  | _ => Some v
  end.
