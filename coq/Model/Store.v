(** The persistent store (storage*.go) AS IT IS: one triple of sub-index states shared by every
    memtable and by every segment load (the configured templates), per-memtable documentInfo,
    frozen flags and size accounting, flush of frozen memtables only, segment loads that deserialise
    INTO the shared triple, compaction that serialises a fresh wrapper over the shared triple.
    Sequential semantics; segment searches happen in segment-list order (the verif handler serialises
    the search goroutines in that order). *)
From Coq Require Import ZArith List Bool.
From Comet Require Import Base.FBits Base.Parse Base.Sorting.
From Comet Require Import Model.Distance Model.Limiter Model.Aggregation Model.Fusion Model.KMeans Model.VecIndex.
From Comet Require Import Model.BM25 Model.BSI Model.Metadata Model.Hybrid.
Import ListNotations.
Open Scope Z_scope.

(** the shared sub-index states *)
Record triple := { t_p : params; t_vec : option vstate; t_txt : option bstate; t_meta : option mstate }.

Definition hy_of (t : triple) (info : list (Z * dinfo)) : hystate :=
  {| hy_p := t_p t; hy_vec := t_vec t; hy_txt := t_txt t; hy_meta := t_meta t; hy_info := info |}.
Definition triple_of (h : hystate) : triple :=
  {| t_p := hy_p h; t_vec := hy_vec h; t_txt := hy_txt h; t_meta := hy_meta h |}.

Record memtable := { mt_info : list (Z * dinfo); mt_frozen : bool; mt_size : Z; mt_count : Z }.
Definition new_memtable : memtable := {| mt_info := []; mt_frozen := false; mt_size := 0; mt_count := 0 |}.

(** state of one component file of a segment *)
Inductive fstate := FComplete | FBroken | FMissing | FEmpty | FTrailer.
(* FTrailer: a component file cut after its complete payload (end-of-stream marker / 8-byte gzip
   trailer missing): deserialising it succeeds; the error only shows when the NEXT component is read,
   and never if it is the last one (the checksum is never verified) *)
(* broken = gzip header present, stream truncated (fails while reading);  empty = shorter than a gzip
   header (fails when the file is opened, before anything is deserialised) *)

Record segment := {
  sg_id : Z;
  sg_info : list (Z * dinfo);
  sg_T : triple;                 (* what the four files hold (flushed snapshot) *)
  sg_files : fstate * fstate * fstate * fstate;   (* hybrid, vector, text, metadata *)
  sg_cached : bool }.

Record store := {
  s_T : triple;
  s_queue : list memtable;       (* oldest first; the last one is the mutable memtable *)
  s_segs : list segment;
  s_counter : Z;
  s_limit : Z;                   (* MemtableSizeLimit *)
  s_cthr : Z;                    (* CompactionThreshold *)
  s_closed : bool }.

Definition E_CLOSED := 9. Definition E_FROZEN := 8. Definition E_LOADFAIL := 13.

Definition fresh_triple (p : params) (hv ht hm : bool) : triple :=
  {| t_p := p; t_vec := if hv then Some (vinit p) else None;
     t_txt := if ht then Some binit else None; t_meta := if hm then Some minit else None |}.

Definition open_store (p : params) (hv ht hm : bool) (limit cthr : Z) (segs : list segment) (counter : Z) : store :=
  {| s_T := fresh_triple p hv ht hm; s_queue := [new_memtable];
     s_segs := map (fun g => {| sg_id := sg_id g; sg_info := sg_info g; sg_T := sg_T g; sg_files := sg_files g; sg_cached := false |}) segs;
     s_counter := counter; s_limit := limit; s_cthr := cthr; s_closed := false |}.

(** Reopening a directory: [listing] gives, per identifier that names ANY segment-like file, the state
    of its four files (hybrid, vector, text, metadata); [known] = content of every segment ever written
    (what a complete file holds).  A segment is registered iff its hybrid file exists; the counter
    restarts at the largest identifier of any file name, registered or not. *)
Definition reopen_counter (ids : list Z) : Z := fold_left Z.max ids 0.
Definition reopen_segs (p : params) (hv ht hm : bool) (known : list (Z * segment))
           (listing : list (Z * (fstate * fstate * fstate * fstate))) : list segment :=
  flat_map (fun l =>
      let '(id, (fh, fv, ft, fm)) := l in
      match fh with
      | FMissing => []
      | _ =>
        match find (fun x => fst x =? id) known with
        | Some (_, g) => [{| sg_id := id; sg_info := sg_info g; sg_T := sg_T g; sg_files := (fh, fv, ft, fm); sg_cached := false |}]
        | None => [{| sg_id := id; sg_info := []; sg_T := fresh_triple p hv ht hm;
                      sg_files := (FBroken, FBroken, FBroken, FBroken); sg_cached := false |}]
        end
      end) listing.
Definition reopen_store (p : params) (hv ht hm : bool) (limit cthr : Z) (known : list (Z * segment))
           (listing : list (Z * (fstate * fstate * fstate * fstate))) : store :=
  open_store p hv ht hm limit cthr (isort (fun g => sg_id g) (reopen_segs p hv ht hm known listing))
             (reopen_counter (map fst listing)).

Definition set_last {A} (l : list A) (x : A) : list A := removelast l ++ [x].
Definition mutable (s : store) : memtable := last (s_queue s) new_memtable.

Definition rotate (s : store) : store :=
  let m := mutable s in
  {| s_T := s_T s;
     s_queue := set_last (s_queue s) {| mt_info := mt_info m; mt_frozen := true; mt_size := mt_size m; mt_count := mt_count m |}
                ++ [new_memtable];
     s_segs := s_segs s; s_counter := s_counter s; s_limit := s_limit s; s_cthr := s_cthr s; s_closed := s_closed s |}.

(** Add / AddWithID: [est] is estimateDocumentSize of the document *)
Definition st_add (s : store) (id : Z) (v : option vec) (toks : option (list Z))
           (fields : list (str * mvalue)) (est : Z) : store * Z :=
  if s_closed s then (s, E_CLOSED) else
  let s1 := if mt_size (mutable s) + est <=? s_limit s then s else rotate s in
  let m := mutable s1 in
  let '(h', e) := hy_add (hy_of (s_T s1) (mt_info m)) id v toks fields in
  if e =? 0 then
    ({| s_T := triple_of h';
        s_queue := set_last (s_queue s1) {| mt_info := hy_info h'; mt_frozen := false;
                                            mt_size := mt_size m + est; mt_count := mt_count m + 1 |};
        s_segs := s_segs s1; s_counter := s_counter s1; s_limit := s_limit s1; s_cthr := s_cthr s1; s_closed := false |}, 0)
  else (s1, e).

(** Remove only consults the mutable memtable's documentInfo *)
Definition st_remove (s : store) (id : Z) : store * Z :=
  if s_closed s then (s, E_CLOSED) else
  let m := mutable s in
  let '(h', e) := hy_remove (hy_of (s_T s) (mt_info m)) id in
  if e =? 0 then
    ({| s_T := triple_of h';
        s_queue := set_last (s_queue s) {| mt_info := hy_info h'; mt_frozen := mt_frozen m; mt_size := mt_size m; mt_count := mt_count m |};
        s_segs := s_segs s; s_counter := s_counter s; s_limit := s_limit s; s_cthr := s_cthr s; s_closed := false |}, 0)
  else (s, e).

Definition flush_triple (t : triple) : triple := triple_of (hy_flush (hy_of t [])).

Definition all_complete : fstate * fstate * fstate * fstate := (FComplete, FComplete, FComplete, FComplete).

(** flushMemtables: every memtable but the last is written as a segment holding the (flushed)
    SHARED triple and that memtable's documentInfo, then dropped from the queue *)
Fixpoint flush_frozen (t : triple) (frozen : list memtable) (counter : Z) (acc : list segment)
  : triple * Z * list segment :=
  match frozen with
  | [] => (t, counter, acc)
  | m :: rest =>
      let t' := flush_triple t in
      let seg := {| sg_id := counter + 1; sg_info := mt_info m; sg_T := t'; sg_files := all_complete; sg_cached := false |} in
      flush_frozen t' rest (counter + 1) (acc ++ [seg])
  end.

Definition st_flush_internal (s : store) : store :=
  match s_queue s with
  | [] | [_] => s
  | q =>
      let '(t', c', segs') := flush_frozen (s_T s) (removelast q) (s_counter s) (s_segs s) in
      {| s_T := t'; s_queue := [last q new_memtable]; s_segs := segs'; s_counter := c';
         s_limit := s_limit s; s_cthr := s_cthr s; s_closed := s_closed s |}
  end.

Definition st_flush (s : store) : store * Z :=
  if s_closed s then (s, E_CLOSED) else (st_flush_internal s, 0).

(** A Flush whose first file creation fails (the segment identifier has been drawn, nothing was
    written, the memtable stays queued): the error is returned and nothing is acknowledged *)
Definition E_IO := 14.
Definition st_flush_fail (s : store) : store * Z :=
  if s_closed s then (s, E_CLOSED) else
  match s_queue s with
  | [] | [_] => (s, 0)
  | _ => ({| s_T := s_T s; s_queue := s_queue s; s_segs := s_segs s; s_counter := s_counter s + 1;
             s_limit := s_limit s; s_cthr := s_cthr s; s_closed := s_closed s |}, E_IO)
  end.

(** Close: the flush worker flushes the frozen memtables one last time *)
Definition st_close (s : store) : store * Z :=
  if s_closed s then (s, E_CLOSED) else
  let s' := st_flush_internal s in
  ({| s_T := s_T s'; s_queue := s_queue s'; s_segs := s_segs s'; s_counter := s_counter s';
      s_limit := s_limit s'; s_cthr := s_cthr s'; s_closed := true |}, 0).

(** getIndex: all files are opened first (missing file / bad gzip header => nothing happens);
    then the hybrid header, the vector, the text and the metadata streams are deserialised one
    after the other INTO THE SHARED TRIPLE; a broken stream aborts, keeping what was already loaded *)
Definition load_segment (t : triple) (g : segment) : triple * bool :=
  let '(fh, fv, ft, fm) := sg_files g in
  let present (f : fstate) (configured : bool) := negb configured || match f with FMissing | FEmpty => false | _ => true end in
  let hv := match t_vec t with Some _ => true | None => false end in
  let ht := match t_txt t with Some _ => true | None => false end in
  let hm := match t_meta t with Some _ => true | None => false end in
  (* a stream whose payload is intact (FComplete / FTrailer) can be deserialised; with FTrailer the
     NEXT read (crossing to the following component) fails *)
  let readable (f : fstate) := match f with FComplete | FTrailer => true | _ => false end in
  let clean (f : fstate) := match f with FComplete => true | _ => false end in
  if negb (present fh true && present fv hv && present ft ht && present fm hm) then (t, false)
  else if negb (readable fh) then (t, false)
  else if negb (clean fh) && (hv || ht || hm) then (t, false)
  else
    (* vector *)
    let after_v : triple * bool * bool :=      (* state, ok so far, stream end still clean *)
        if hv then
          if readable fv then ({| t_p := t_p t; t_vec := t_vec (sg_T g); t_txt := t_txt t; t_meta := t_meta t |}, true, clean fv)
          else (t, false, false)
        else (t, true, true) in
    let '(t1, ok1, clean1) := after_v in
    if negb ok1 then (t1, false)
    else if negb clean1 && (ht || hm) then (t1, false)
    else
      let after_t : triple * bool * bool :=
          if ht then
            if readable ft then ({| t_p := t_p t1; t_vec := t_vec t1; t_txt := t_txt (sg_T g); t_meta := t_meta t1 |}, true, clean ft)
            else (t1, false, false)
          else (t1, true, true) in
      let '(t2, ok2, clean2) := after_t in
      if negb ok2 then (t2, false)
      else if negb clean2 && hm then (t2, false)
      else
        if hm then
          if readable fm then ({| t_p := t_p t2; t_vec := t_vec t2; t_txt := t_txt t2; t_meta := t_meta (sg_T g) |}, true)
          else (t2, false)
        else (t2, true).

(** A tuple of file states is SAFE when loading it is all-or-nothing: either nothing is deserialised
    (a file is absent / empty, the hybrid stream is unreadable or ends dirty) or every configured
    component is deserialised.  The segment writers guarantee this at every crash point by finishing
    the hybrid_ file last (it is the commit marker): see [safe_files_all_or_nothing] and C10. *)
Definition safe_files (hv ht hm : bool) (files : fstate * fstate * fstate * fstate) : bool :=
  let '(fh, fv, ft, fm) := files in
  let present (f : fstate) (configured : bool) := negb configured || match f with FMissing | FEmpty => false | _ => true end in
  let readable (f : fstate) := match f with FComplete | FTrailer => true | _ => false end in
  let clean (f : fstate) := match f with FComplete => true | _ => false end in
  if negb (present fh true && present fv hv && present ft ht && present fm hm) then true
  else if negb (readable fh) then true
  else if negb (clean fh) && (hv || ht || hm) then true
  else
    (* from here on the first configured component is read: after that, every later configured
       component must be read successfully too *)
    let v_ok := negb hv || (readable fv && (clean fv || negb (ht || hm))) in
    let t_ok := negb ht || (readable ft && (clean ft || negb hm)) in
    let m_ok := negb hm || readable fm in
    (* a failure at the FIRST configured component loads nothing *)
    let first_fails := if hv then negb (readable fv) else if ht then negb (readable ft) else if hm then negb (readable fm) else false in
    first_fails || (v_ok && t_ok && m_ok).

(** the writers' discipline: the payload of the hybrid_ file is intact only once every configured
    component file has been finished *)
Definition hybrid_last (hv ht hm : bool) (files : fstate * fstate * fstate * fstate) : bool :=
  let '(fh, fv, ft, fm) := files in
  let readable (f : fstate) := match f with FComplete | FTrailer => true | _ => false end in
  let fin (f : fstate) (configured : bool) := negb configured || match f with FComplete => true | _ => false end in
  negb (readable fh) || (fin fv hv && fin ft ht && fin fm hm).

(** one hybrid search per memtable (newest first), then one per segment in list order *)
Definition results_of (r : hyres) : option (list (Z * Z)) :=
  match r with
  | HOk o => Some (firstn (ho_n o) (ho_full o))
  | _ => None
  end.

Record sout := {
  so_merged : list (Z * Z);      (* merged (id, best score), best first, untruncated *)
  so_n : nat;
  so_weak : bool;
  so_T' : triple;                (* the shared triple after the segment loads of this search *)
  so_segs' : list segment }.

Inductive sres := SOk (o : sout) | SErr (e : Z) | SNoOracle.

(** a source (memtable / segment) whose own top-k cut falls inside a group of equal scores may hand
    any members of that group to the merge: the merged answer is then compared for soundness only *)
Definition src_weak (o : hyout) : bool :=
  ho_weak o || tie_at (fun x => F64.key (snd x)) (ho_full o) (0, 0) (ho_n o).

Fixpoint search_segments (rq : hyrequest) (t : triple) (segs : list segment) (acc : list (Z * Z)) (weak : bool)
         (done : list segment) : option (triple * list segment * list (Z * Z) * bool) :=
  match segs with
  | [] => Some (t, done, acc, weak)
  | g :: rest =>
      let '(t1, ok) := if sg_cached g then (t, true) else load_segment t g in
      let g' := {| sg_id := sg_id g; sg_info := sg_info g; sg_T := sg_T g; sg_files := sg_files g;
                   sg_cached := sg_cached g || ok |} in
      if ok then
        match hy_search (hy_of t1 (sg_info g)) rq with
        | HNoOracle => None
        | HOk o => search_segments rq t1 rest (acc ++ firstn (ho_n o) (ho_full o)) (weak || src_weak o) (done ++ [g'])
        | HErr _ => search_segments rq t1 rest acc weak (done ++ [g'])
        end
      else search_segments rq t1 rest acc weak (done ++ [g'])
  end.

Definition merge_max (l : list (Z * Z)) : list (Z * Z) := Fusion.merge_results l.

Definition st_search (s : store) (rq : hyrequest) : sres :=
  if s_closed s then SErr E_CLOSED else
  (* memtables, newest first: all of them see the same shared triple *)
  let mres := map (fun m => hy_search (hy_of (s_T s) (mt_info m)) rq) (rev (s_queue s)) in
  match find (fun r => match r with HOk _ => false | _ => true end) mres with
  | Some (HErr e) => SErr e
  | Some HNoOracle => SNoOracle
  | _ =>
      let macc := flat_map (fun r => match r with HOk o => firstn (ho_n o) (ho_full o) | _ => [] end) mres in
      let mweak := existsb (fun r => match r with HOk o => src_weak o | _ => false end) mres in
      match search_segments rq (s_T s) (s_segs s) macc mweak [] with
      | None => SNoOracle
      | Some (t', segs', acc, weak) =>
          let merged := isort (fun p => - F64.key (snd p)) (merge_max acc) in
          SOk {| so_merged := merged;
                 so_n := if Z.of_nat (length merged) <=? hq_k rq then length merged else Z.to_nat (hq_k rq);
                 so_weak := weak; so_T' := t'; so_segs' := segs' |}
      end
  end.

Definition after_search (s : store) (o : sout) : store :=
  {| s_T := so_T' o; s_queue := s_queue s; s_segs := so_segs' o; s_counter := s_counter s;
     s_limit := s_limit s; s_cthr := s_cthr s; s_closed := s_closed s |}.

Definition st_evict (s : store) : store :=
  {| s_T := s_T s; s_queue := s_queue s;
     s_segs := map (fun g => {| sg_id := sg_id g; sg_info := sg_info g; sg_T := sg_T g; sg_files := sg_files g; sg_cached := false |}) (s_segs s);
     s_counter := s_counter s; s_limit := s_limit s; s_cthr := s_cthr s; s_closed := s_closed s |}.

(** segmentManager.remove: the last segment is swapped into the removed slot *)
Fixpoint swap_remove (id : Z) (segs : list segment) : list segment :=
  match segs with
  | [] => []
  | g :: rest =>
      if sg_id g =? id then
        match rest with
        | [] => []
        | _ => last rest g :: removelast rest
        end
      else g :: swap_remove id rest
  end.

(** maybeCompact: load the first [threshold] segments (a failed load aborts), write a segment
    holding the flushed shared triple and an EMPTY documentInfo, register it, unregister and delete
    the inputs *)
Fixpoint load_all (t : triple) (segs : list segment) (done : list segment) : option (triple * list segment) :=
  match segs with
  | [] => Some (t, done)
  | g :: rest =>
      if sg_cached g then load_all t rest (done ++ [g])
      else let '(t1, ok) := load_segment t g in
           if ok then load_all t1 rest (done ++ [{| sg_id := sg_id g; sg_info := sg_info g; sg_T := sg_T g;
                                                   sg_files := sg_files g; sg_cached := true |}])
           else None
  end.

Definition st_compact (s : store) : store * Z :=
  let n := Z.to_nat (s_cthr s) in
  if (length (s_segs s) <? n)%nat then (s, 0) else
  match load_all (s_T s) (firstn n (s_segs s)) [] with
  | None =>
      (* the failed load may already have overwritten part of the shared triple *)
      let t' := (fix go t gs := match gs with
                                | [] => t
                                | g :: r => if sg_cached g then go t r
                                            else let '(t1, ok) := load_segment t g in if ok then go t1 r else t1
                                end) (s_T s) (firstn n (s_segs s)) in
      ({| s_T := t'; s_queue := s_queue s; s_segs := s_segs s; s_counter := s_counter s;
          s_limit := s_limit s; s_cthr := s_cthr s; s_closed := s_closed s |}, E_LOADFAIL)
  | Some (t1, loaded) =>
      let t2 := flush_triple t1 in
      let newseg := {| sg_id := s_counter s + 1; sg_info := []; sg_T := t2; sg_files := all_complete; sg_cached := false |} in
      let segs1 := loaded ++ skipn n (s_segs s) ++ [newseg] in
      let segs2 := fold_left (fun acc g => swap_remove (sg_id g) acc) loaded segs1 in
      ({| s_T := t2; s_queue := s_queue s; s_segs := segs2; s_counter := s_counter s + 1;
          s_limit := s_limit s; s_cthr := s_cthr s; s_closed := s_closed s |}, 0)
  end.
