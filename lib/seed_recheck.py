#!/usr/bin/env python3
"""seed_recheck.py [ID...]: re-run the checks against the kept seeded changes (seeded/<ID>/patch.diff)
in a scratch worktree (never /repo) through VERIF_REPO; prints detected / missed per change."""
import sys, os, subprocess, json, glob
ROOT = os.path.dirname(os.path.dirname(os.path.abspath(__file__)))
ids = sys.argv[1:] or sorted(os.path.basename(os.path.dirname(p)) for p in glob.glob(os.path.join(ROOT, "seeded", "C*", "patch.diff")))
wt = "/tmp/repo_seedchk_%d" % os.getpid()  # one scratch worktree per run: concurrent runs must not share it
subprocess.call(["git", "-C", "/repo", "worktree", "remove", "--force", wt], stderr=subprocess.DEVNULL)
subprocess.check_call(["git", "-C", "/repo", "worktree", "add", "-q", "--detach", wt, "HEAD"])
try:
    for pid in ids:
        patch = os.path.join(ROOT, "seeded", pid, "patch.diff")
        name, pid = pid, pid[:3]
        subprocess.check_call(["git", "-C", wt, "apply", patch])
        try:
            p = subprocess.run(["./check", pid], cwd=ROOT, stdout=subprocess.PIPE, stderr=subprocess.STDOUT, text=True,
                               env=dict(os.environ, VERIF_REPO=wt))
            lines = [l for l in p.stdout.splitlines() if l.startswith("VIOLATION") or l.startswith(pid + " ")]
            withinput = any(l.startswith("VIOLATION") and "no-failing-input-found" not in l for l in lines)
            print(name, "DETECTED" if p.returncode != 0 else "MISSED", "failing-input" if withinput else "", "|", lines[-2] if len(lines) > 1 else lines[-1:], flush=True)
        finally:
            subprocess.check_call(["git", "-C", wt, "checkout", "--", "."])
finally:
    subprocess.call(["git", "-C", "/repo", "worktree", "remove", "--force", wt])
