"""Per-property configuration for ./check (generators live in go/harness, checkers in coq/Check)."""

TRUSTED_BASE = [
    "Coq 8.16.1 kernel (coqc full .vo build; coqchk in the thorough tier); vm_compute for cases.v and finite sweeps; no native_compute",
    "hand-written Gallina model under coq/Model tied to /repo by this run's differential correspondence (Go harness built from /repo's working tree, -tags verif)",
    "extraction: ExtrOcamlBasic + ExtrOcamlZBigInt (Extract Inductive positive/Z/N => Big_int_Z.big_int; Extract Constant Pos.add/succ/pred/sub/mul/min/max/compare/compare_cont, N.add/succ/pred/sub/mul/min/max/div_eucl/div/modulo/compare/shiftl/shiftr, Z.add/succ/pred/sub/mul/opp/abs/min/max/compare/eqb/eq_dec/to_N/of_N/abs_N/div_eucl/div/modulo/shiftl/shiftr; ExtrOcamlBasic: bool/option/unit/list/prod/sumbool/sumor/comparison) + zarith 1.12; cross-checked per run against an ExtrOcamlBasic-only build and vm_compute on a sub-sample",
    "Go float32/float64 arithmetic on amd64 (no FMA) = Coq.Floats.SpecFloat SFadd/SFsub/SFmul/SFdiv/SFsqrt at (24,128)/(53,1024): exercised bit-for-bit by every case",
    "OCaml driver glue (ocaml/*/driver.ml), Go harness generators/encoders, this script",
    "axioms: none declared by this development; Print Assumptions reports 'Closed under the global context' for every property theorem except those proved through Flocq 4.1.0 (C18: validity closure of float operations, NaN-freedom, cosine range; C19: autocut never panics; C20: the float16 round-trip error bound), which depend on the Coq standard library's real-number axioms ClassicalDedekindReals.sig_not_dec, ClassicalDedekindReals.sig_forall_dec, FunctionalExtensionality.functional_extensionality_dep and Classical_Prop.classic",
]

# Axioms declared by the Coq standard library that Print Assumptions may report (only the C18 theorems
# that go through Flocq's real-number semantics depend on them; everything else is closed).
ALLOWED_STDLIB_AXIOMS = {
    "ClassicalDedekindReals.sig_not_dec",
    "ClassicalDedekindReals.sig_forall_dec",
    "FunctionalExtensionality.functional_extensionality_dep",
    "Classical_Prop.classic",
}

PROPS = {
    "C19": {
        "level_text": "Theorems over all inputs about the Gallina transcription of aggregation.go/limiter.go/fusion.go/storage_merge.go: limit = prefix of the sanitised length; autocut returns a prefix length and never panics for every list of float32 bit patterns (the two-score case through the Flocq bridge: x/x is 1 or NaN); aggregation keeps each id once, best first, independent of input order; weighted sum and max over the union, min over the intersection, reciprocal rank over the union by rank; fused ids come from the inputs; merge keeps each id once. Tied to the code by bit-exact differential runs on every check.",
        "level_note": "Trusted: Coq kernel, extraction, harness; float32/64 = SpecFloat; the autocut no-panic theorem goes through Flocq and therefore depends on the stdlib real-number axioms named in trusted_base.",
        "correspondence": "aggregation.go/limiter.go/fusion.go/storage_merge.go ~ Model.{Aggregation,Limiter,Fusion}",
        "assumptions": ["map iteration order only permutes outputs (compared as multisets)",
                        "RRF ties: any rank assignment consistent with the scores is accepted"],
    },
}

PROPS["C18"] = {
    "level_text": "Theorems for all vectors of any dimension about the bit-exact Gallina transcription of distance.go (float32 = SpecFloat, linked to IEEE-754 real semantics by a proved bridge to Flocq): every kind symmetric bit for bit; Euclidean kinds never below zero, never NaN on finite inputs, exactly +0 from a finite vector to itself; cosine distance in [0,2] or NaN; zero vectors rejected; batch = element-wise; the comparison key used by every sort is IEEE comparison. Tied to the code by differential runs over magnitudes 1e-6..1e6, dims 1..512; the float-tolerance forms of the remaining real-number laws (triangle, l2sq=l2^2, cosine=1-cos, scale invariance, unit norm after preprocessing) are evaluated on the implementation's outputs as the search arm. 'Squared-Euclidean is its square' is PROVED over the reals for every pair of vectors with a finite squared distance: the Euclidean distance is the correctly rounded root, so |l2^2 - l2sq| <= (2^-23 + 2^-48) l2sq (Proofs/SqrtP.v, through Flocq's Bsqrt_correct and relative_error_N_FLT; the root of a positive float32 is never subnormal).",
    "level_note": "Trusted: Coq kernel, extraction, harness, float32=SpecFloat(24,128) on amd64, math.Sqrt correctly rounded, Flocq 4.1.0 with the stdlib real-number axioms (named in trusted_base). Float error-propagation bounds for the tolerance-form laws are not machine-checked (partial).",
    "correspondence": "distance.go ~ Model.Distance",
    "assumptions": ["amd64 without FMA contraction", "float32(math.Sqrt(float64(x))) = SFsqrt at precision 24"],
}

PROPS["C01"] = {
    "level_text": "Theorem for every Add/Remove/Flush history over fresh ids and every query/k/threshold/id restriction: the flat model's answer is the exact top-k (ExactTopK: sorted, min(k,|E|) long, no omitted candidate beats a returned one) of the history-defined live, eligible vectors with their bit-exact metric distances; flush invariance and the error characterisation are theorems too. The model is the Gallina transcription of flat_index*.go and is compared bit-for-bit with the code on generated histories at every run.",
    "level_note": "Trusted: Coq kernel, extraction, harness, float32=SpecFloat; sort.Slice is a sort (ties compared as sets); F32.key order = Go < on non-NaN (checker 1805).",
    "correspondence": "flat_index.go/flat_index_search.go ~ Model.VecIndex (KFlat)",
    "assumptions": ["ids are fresh per history (re-use after removal is C06)", "scores finite (no NaN) for the order clauses"],
    "nontrivial_min_tokens": 30,
}

PROPS["C02"] = {
    "level_text": "Theorems for ANY state of the four exhaustive kinds (flat, IVF, PQ, IVFPQ) and any request: every hit is justified by a resident, non-removed, eligible entry with the kind's score, the list is the exact top-k of the scanned candidates in ascending order with at most k entries, node-id search = search with the stored vector, unknown/removed node = error, and flush never changes an answer; HNSW soundness is covered by the HNSW model (C12). One generic Gallina model (soft-delete protocol + Execute pipeline + k-means training) is compared bit-for-bit with all kinds on generated histories every run. Node-search law evaluated on the implementation itself: WithNode(ids) answers like WithQuery(stored vectors of ids), repeated ids included.",
    "level_note": "Trusted: Coq kernel, extraction, harness, float32=SpecFloat, sort.Slice is a sort. Multi-query aggregation is compared exactly unless a per-query cut falls inside a tie group (then soundness only; counted as 'weak').",
    "correspondence": "{flat,ivf,pq,ivfpq}_index*.go + clustering.go ~ Model.VecIndex / Model.KMeans",
    "assumptions": ["ids fresh per history", "nbits <= 8 (the property's quantifier)"],
    "nontrivial_min_tokens": 30,
}
PROPS["C13"] = {
    "level_text": "Theorems for every trained IVF state, query, k, threshold, id restriction and probe count: untrained add/search is an error; the answer is the exact top-k, by true metric distance, of the live eligible vectors of the probed clusters; with all clusters probed (or nprobes <= 0 / above nlist) it carries exactly the score sequence and length of exhaustive search over the same vectors; with more probes every rank is at least as good and the answer never shorter; Train establishes and Add/Remove/Flush keep the one-list-per-centroid invariant. Assignment to the first arg-min centroid is by construction of the model and compared structurally (dump) every run, together with k-means re-run inside the model. Also proved: a vector added is found by a query with that very vector at every probe count >= 1 (the stable probe order starts at the first arg-min centroid). Histories include ids added again while live (stored twice, like the code; score oracles abstain, removed-never-appears still decides). Run-time oracles on the implementation's own centroids and lists: with every cell probed the answer is held against ALL eligible live vectors (nothing strictly better than the last hit may be missing), with fewer probes against the vectors of the strictly nearer cells; under autocut the same holds as a prefix property. Data strata include near-duplicate points (distances far below 1e-6 that are not ties) and clusters of very different radius.",
    "level_note": "Trusted: as C02. The partial-probe clause is additionally decided per run by an oracle evaluated on the implementation's own centroids and lists (probe_specb), so that a wrong probe order yields a failing query, not only a divergence.",
    "correspondence": "ivf_index*.go + clustering.go ~ Model.VecIndex (KIVF) / Model.KMeans",
    "assumptions": ["equidistant centroids at the probe boundary make the probed set ambiguous (unstable sort): such cases are compared for soundness only"],
    "nontrivial_min_tokens": 30, "vm_cases": 3,
}
PROPS["C14"] = {
    "level_text": "Theorems: every PQ/IVFPQ hit carries sqrt(sum_m table_m[code_m]) for the (residual) query tables and the answer is the exact top-k by that score; every stored code byte names the FIRST codeword at minimal squared distance from the (residual) subvector (mod 256, as uint8): none strictly nearer, every earlier one strictly farther; tied to the code bit-for-bit incl. training (k-means re-run in the model) and structurally (codes and codebooks dumped and re-checked every run). For IVFPQ searches with fewer probes than cells every hit must lie in one of the p cells nearest to the query, evaluated on the implementation's own centroids and lists (probe_soundb).",
    "level_note": "Trusted: as C02. The real-number reading (score = distance to the reconstruction; error <= quantisation error) is not machine-checked (partial). nbits>8 and IVFPQ.Train with n<2^nbits are known findings exercised separately.",
    "correspondence": "pq_index*.go, ivfpq_index*.go ~ Model.VecIndex (KPQ, KIVFPQ)",
    "nontrivial_min_tokens": 30,
}

PROPS["C07"] = {
    "level_text": "Generic theorems about a format language in which all eight WriteTo/ReadFrom pairs are written as descriptors: decode(encode v ++ rest) = (v, rest) for every well-typed value (so concatenated hybrid+vector+text+metadata streams decode), a successful decode consumed exactly an encoding, and model-state conversions for the exhaustive kinds; tied to the code by (i) the model decoding every stream Go writes and re-encoding it bit-identically from the model state, (ii) Go reading back with exact byte counts / consumption, (iii) continuation histories on the reloaded index compared with the model state rebuilt from the bytes (vector kinds) and, for all eight kinds, an identical continuation (adds incl. re-adds and empty texts, removals, flush) applied to source and reloaded index followed by the same probes.",
    "level_note": "Trusted: as C02; roaring bitmap / BSI blobs are opaque length-prefixed byte strings. Byte-count bookkeeping (returned n = stream length) and reload equivalence for HNSW/BM25/metadata/hybrid are observed on the implementation (checker 703), not derived from a model of those indexes' search.",
    "correspondence": "*.WriteTo/ReadFrom ~ Model.Codecs descriptors (Model.Format)",
    "nontrivial_min_tokens": 30, "sub_max_len": 20000, "sub_per_checker": 4,
}
PROPS["C16"] = {
    "level_text": "Theorem decode_strict_prefix_fails: for EVERY format, EVERY well-typed value and EVERY strict prefix of its encoding the decoder fails (no bound on length), plus extension-invariance; kind/version/parameter mismatches fail because validated fields are constants of the receiver's descriptor. Tied to the code by running Go's ReadFrom on every prefix of real streams of all eight kinds and on the kind x kind / parameter-mismatch matrices, and requiring the model decoder to agree case by case.",
    "level_note": "Trusted: as C07. gzip framing of segment files is covered under C10/C09 (store), not here.",
    "correspondence": "*.ReadFrom ~ Model.Format.decode on Model.Codecs descriptors",
    "nontrivial_min_tokens": 20, "sub_max_len": 3000, "sub_per_checker": 4,
}

PROPS["C03"] = {
    "level_text": "Theorems over every Add/replace/Remove/Flush history: the running statistics equal the from-scratch ones over resident documents (invariant), a flush leaves exactly the live documents, replacement leaves no trace, and a query's answer is the exact top-k (descending) over a score map whose key set is EXACTLY the live eligible documents sharing a token with the query; the float64 scoring expression is transcribed operation by operation and compared bit-for-bit with the code (incl. the float32 conversion) on generated corpora with the real tokenizer; incremental postings/tf maps are re-derived from scratch from a verif snapshot.",
    "level_note": "Trusted: as C02 plus math.Log (oracle table shipped by the harness, keyed by the model's own float64 argument), UAX#29/NFKC tokenisation (opaque, tokens interned by the harness via VerifTokenize), container/heap (a priority queue).",
    "correspondence": "bm25_index.go/bm25_index_search.go ~ Model.BM25",
    "assumptions": ["re-adding a soft-deleted id is excluded here (C06)"],
    "nontrivial_min_tokens": 30,
}

PROPS["C04"] = {
    "level_text": "Theorems: roaring's bit-sliced GE and LE comparisons are correct for ALL int64 pairs (induction over the 63 magnitude slices) while EQ/GT/LT/RANGE are refuted with witnesses; every numeric operator of the repaired index (built from GE/LE) selects exactly the ids satisfying the ordinary comparison; finite-set algebra of AND/OR/complement; REFINEMENT over histories, closed end to end: after ANY history of adds and removals the index state is the document store (live set, field:value keys, last numeric value per field), every single filter (numeric comparators, eq/ne/in/not_in, exists/not_exists on numeric and categorical fields) selects exactly the documents the store selects, and the WHOLE search (conjunction with early exit, AND/OR groups with precedence over plain filters, empty group = all live, final ordering) returns exactly the Boolean combination the document store gives (C04_search_refines_document_store). The faithful Gallina model of metadata_index*.go (keys, prefix-based existence, early exits, error branches, float fixed-point conversion via float64 multiply + truncation) is compared with the code AND with a document-store specification on every generated history and filter tree. Filter operands travel as typed values; the model (float_fix), not the implementation, converts them to two-decimal fixed point.",
    "level_note": "Trusted: as C02; fmt %v rendering of operands and Go map iteration (irrelevant for supported types). The end-to-end theorem is about requests whose filters are well formed for the field's kind (filters_ok); error branches, early exits over erroneous filters and Not() wrappers are compared with the code and with the extracted specification (spec_search) on every run.",
    "correspondence": "metadata_index.go/metadata_index_search.go ~ Model.Metadata; roaring BSI compareValue ~ Model.BSI (checker 401)",
    "nontrivial_min_tokens": 20,
}

PROPS["C05"] = {
    "level_text": "The hybrid Execute is transcribed branch by branch over the sub-models already tied to the code (metadata, exhaustive vector kinds, BM25, fusion). Theorems for every state and request: at most k results in descending fused-score order; empty filter match => empty result; unconfigured modality => error; either the filter matched nothing or the answer is a permutation of the fusion of the vector sub-index's own answer and the text sub-index's own answer to the request restricted to the metadata candidates, every returned id coming from one of the two (metadata-only: being a candidate); the fusion laws incl. reciprocal rank are C19 theorems. Per run: float64 bit-exact comparison of every sampled search with the composed model plus a soundness oracle closed under ties.",
    "level_note": "Trusted: as C02/C03/C04. Ties at a per-modality cut or in RRF ranks make the fused answer order-dependent: those cases are compared for soundness only (counted as weak). HNSW as the vector sub-index is covered separately (C12).",
    "correspondence": "hybrid_search_index.go ~ Model.Hybrid",
    "nontrivial_min_tokens": 40, "sub_max_len": 20000,
}
PROPS["C06"] = {
    "level_text": "Theorems: a failing hybrid add returns the unchanged state (all modalities); removal of an unknown id fails without effect and a successful removal is total; after Remove+Add the id is live again in every exhaustive vector kind and in BM25 with no stale entry / only the new text; metadata validates before mutating. The histories replayed against the code include failing adds in each sub-index position, removal of never-added ids and id re-use with a flush before, between or after, for the hybrid index and for each underlying index on its own.",
    "level_note": "Trusted: as C05. Uniqueness of automatically generated ids is observed on the implementation (process-global atomic counter), HNSW re-add is covered under C12.",
    "correspondence": "hybrid_search_index.go + *_index.go Add/Remove ~ Model.Hybrid / VecIndex / BM25 / Metadata",
    "nontrivial_min_tokens": 40, "sub_max_len": 20000,
}

_STORE_NOTE = "Trusted: as C05; gzip and the file system are modelled (a segment file is complete / broken / missing; no fsync or power-loss semantics); goroutine interleavings of the per-segment searches are serialised in segment-list order by the verif handler. The vector template is the flat index (the store's aliasing is kind-independent)."
PROPS["C08"] = {
    "level_text": "A faithful Gallina model of the store as it is (one triple of template states shared by every memtable and every segment load, frozen-only flush, swap-remove segment manager, compaction over the shared triple) is compared search by search with the real store AND with the specification (one hybrid index holding the acknowledged live documents). The property is REFUTED on the faithful model by a theorem with a five-step witness; the check reproduces it as a KNOWN-FINDING and reports any behaviour that differs from the faithful model as a violation. Proved to hold: segment ids are never reused by flush/compaction.",
    "level_note": _STORE_NOTE,
    "correspondence": "storage*.go ~ Model.Store (checker 800, incl. structure observations: segment ids / cached flags / memtable count)",
    "nontrivial_min_tokens": 60, "sub_max_len": 30000, "sub_per_checker": 4, "gen_timeout": 1500,
}
PROPS["C09"] = dict(PROPS["C08"], level_text="As C08 with 1..4 open/close sessions and reopening with fresh templates: durability after Flush/Close is REFUTED on the faithful model (theorem + witness add;Close;reopen;search), reproduced as a KNOWN-FINDING; 'segment identifiers are never reused' is proved for flush and compaction (invariant: all ids <= counter, pairwise distinct) and the reopen counter is the maximum id of any file name. Template kinds: flat and trained IVF (a fresh template trained on a fresh sample at every open); over IVF the specification demands that a live document is returned for its own stored vector at any probe count (theorem C13_added_vector_found_by_own_query). The hnsw template kind is covered differentially (checker 801): a store over HNSW in its exact regime against a store over flat, same history incl. reopen with fresh templates, identical answers demanded. Every look at the registered segments is also held against two model-independent demands: every segment whose files are all present and readable is registered (registered_ok), and an identifier that appears for the first time lies above every identifier ever seen in the directory. Histories end with several restarts in a row, include one-segment histories beyond 32 KiB per component, in-place updates of live ids, and directory names with pattern, shell and URL metacharacters.")
PROPS["C09"]["correspondence"] = "storage.go/storage_provider.go/storage_segment.go ~ Model.Store (reopen = open_store over the directory listing)"

PROPS["C10"] = dict(PROPS["C08"], level_text="Crash images are taken by a verif handler at every file-operation boundary of flushMemtable / writeIndexToSegment / compactSegments / deleteSegment (create x4, close, before/after registration, before drop, unregister, each file removal) plus synthetic byte-prefixes of the file being written in close order; each image is reopened by the real code with fresh templates and searched, and compared with the faithful model (segment files complete / truncated / payload-complete-truncated / empty / missing) and with the specification (everything covered by a completed Flush is found, nothing never-added or from an incomplete segment appears, reopening and searching never fail). Theorems: a segment with a broken/missing/empty hybrid or component file is ignored without touching the shared states and is never cached; identifiers are not reused; the half-load through a truncated LATER component is refuted with a witness. The order in which the component files are completed is OBSERVED at hook points after each gzip close (never assumed); a half-load in a crash image is a violation (the unchanged writers finish hybrid_ last), every finding code a case meets must be listed. After the searches on a reopened crash image the store is closed and restarted once more before the next flush: identifiers seen in any listing (partial segments included) stay spent whatever was deleted in between (violation -16).")
PROPS["C10"]["correspondence"] = "storage.go flush/compaction + storage_segment.go getIndex + storage_provider.go ~ Model.Store (load_segment, open_store)"

PROPS["C17"] = {
    "level_text": "Theorem over EVERY interleaving of O_EXCL lock attempts, directory scans (succeeding or failing), close-flag test-and-sets, lock releases and uses by any number of handles (goroutines or processes): the LOCK file exists exactly while one handle owns the directory, never two owners; busy open has no effect, a failed scan leaves no lock, Close releases, a second Close errors without effect, use after Close fails, reopen after Close succeeds. The protocol model is tied to storage_provider.go/storage.go by sequences and 2..8-goroutine races of Open/Close/use/failed Open and opens from a second process, with return codes and LOCK-file existence as observables. Close racing Close (2..6 goroutines on one handle, with concurrent operations): exactly one nil, the others the closed error, no panic, lock released. Opens with corner configurations (zero / negative / huge thresholds and limits, templates present or missing) are part of every history: whether or not the implementation refuses them, a refusal must leave ownership exactly as it was (checker op 10).",
    "level_note": "Trusted: Coq kernel, extraction, harness; O_CREATE|O_EXCL is atomic (file system). A failing directory scan cannot be provoked as root in this sandbox, so it is injected through the verifFault hook at both scans (initSegmentCounter, listSegments); the other failed open exercised is an unusable base path.",
    "correspondence": "storage_provider.go acquireLock/releaseLock + storage.go Open/Close ~ Model.Lock",
    "nontrivial_min_tokens": 12,
}

PROPS["C12"] = {
    "level_text": "The HNSW procedures (Add with oracle level, insertNode, searchLayer over an exact transcription of container/heap, selectNeighbors, pruneConnections, Remove, Flush with oracle election, search) are transcribed and compared structurally (every edge of every layer, entry point, max level) and by search results with the real index on adversarial histories (removal of the entry point, hubs, highest-level vertices). Per run the extracted oracle decides the three clauses on the implementation's answers: non-empty while a live vector exists, exact k-NN while at most 2M vectors have been resident and ef >= that, and bottom-layer reachability of every resident vertex on the implementation's own graph. The reachability clause is REFUTED by a theorem with a six-insertion witness (known finding); four defects that broke the first two clauses were repaired by fix: commits. After a graph divergence the checker follows the implementation's graph; a vertex unreachable there while the model's graph is connected is a violation of the reachability clause, not the listed finding.",
    "level_note": "Trusted: as C02 plus container/heap semantics (transcribed, exercised bit-for-bit), random levels and the Flush election taken as oracle inputs (the election is checked for admissibility). The exactness and non-emptiness clauses are decided by the oracle on every sampled search, not closed as Coq theorems (partial). sort.Slice beyond 12 elements with equal distances is order-dependent: the model then resynchronises on the snapshot (counted as weak).",
    "correspondence": "hnsw_index.go/hnsw_index_search.go ~ Model.HNSW (checker 1200)",
    "nontrivial_min_tokens": 40, "sub_max_len": 20000, "sub_per_checker": 4,
}

PROPS["C20"] = {
    "level_text": "Theorems for every input: k-means returns exactly min(k,n) centroids, one in-range assignment per vector, nil iff nothing to cluster, first-arg-min indices valid, determinism (a function); quantisers preserve length, int8 refuses to work untrained. The bit-exact transcriptions of clustering.go (stride initialisation, first arg-min, single-pass update, empty clusters keep their centroid, maxIter) and quantizer.go (binary16 rounding via SpecFloat at (11,16), math.Round half away from zero, scale by absMax) are compared with the code on training sets with duplicates, k>n, k=n, collinear data and boundary values; input immutability, run-to-run determinism and 'trained twice => search-identical' are observed on the implementation; finiteness, bounding box (Euclidean family) and the absMax/254 bound are evaluated on the implementation's outputs by the extracted oracle. The float16 clause is PROVED for every float32 in the binary16 normal range (the round trip is the round-to-nearest-even binary16 value, |deq(q x) - x| <= 2^-11 |x| over the reals; through the Flocq bridge) and is also a run-time oracle on the implementation's outputs (every binade, binade boundaries and rounding ties generated). The int8 clause is PROVED as well: for every finite float32 x with |x| <= absMax the code lies in [-127,127] and |deq(q x) - x| <= absMax/254 + absMax*2^-21 + 2^-149 over the reals (Proofs/Int8P.v: Flocq's Bdiv/Bmult correctness for the four float32 operations, one half-away rounding, one exact conversion), lifted to whole vectors through q8/dq8. A k-means run that answers the same when one more iteration is allowed has settled; every vector must then sit with its first nearest centroid, evaluated on the implementation's own centroids (the run-time counterpart of C20_converged_assignment_is_nearest).",
    "level_note": "Trusted: as C02 plus x448/float16 = IEEE round-to-nearest-even (exercised on boundary values). The float16 and int8 bounds are proved through Flocq (stdlib real-number axioms, named in trusted_base); the k-means bounding box is checked per run on outputs, not proved over floats (partial).",
    "correspondence": "clustering.go ~ Model.KMeans; quantizer.go ~ Model.Quantizer",
    "nontrivial_min_tokens": 12,
}

PROPS["C15"] = {
    "level": "other",
    "level_text": "The recall floors are statistical statements about average-case quality on Gaussian data; no theorem of reasonable size yields them. What IS proved: recall is exactly 1.0 at full probe (IVF scans a permutation of the exhaustive candidates for every data set), and sorting makes the score sequence independent of insertion order. What is decided by proof elsewhere and guards the envelope: the algorithmic identity of HNSW / IVF / PQ / IVFPQ with their models (C12-C14), so any drift of the approximate indexes breaks a correspondence. The floors themselves (HNSW >= 0.9, IVF sqrt(nlist) >= 0.4, IVF full = 1.0, PQ/IVFPQ >= 0.5 and top-1-in-10 >= 0.85, first vs last inserted tenth within 0.1) are MEASURED on the real indexes against the real flat index at the stated scale (3000 x 16, 100 queries, k = 10), all three metrics, per seed.",
    "level_note": "Measured, not proved: the numeric floors. Trusted: the harness's recall computation and Gaussian generator.",
    "explanation": "theorem for the deterministic clauses (full-probe recall = 1, order-independence of sorted scores); measured envelope on the implementation for the statistical floors; algorithmic drift is caught by the C12-C14 correspondences",
    "technique": "Coq theorem for the deterministic clause + measured recall envelope on the implementation (proof cannot yield the statistical floors)",
    "correspondence": "n/a (measurement)",
    "nontrivial_min_tokens": 5, "no_subsample": False,
}

PROPS["C11"] = {
    "level_text": "Proved over ALL schedules: the two-phase soft-delete Remove / one-step Add, Search, Flush protocol shared by every vector index and BM25 is visibility-linearizable (a search returns every id added before it whose removal had not begun, nothing never added, nothing whose removal took effect), and the repaired memtable queue never reports a frozen memtable (the original is refuted with the schedule pick; rotate; write). Tied to the code and extended to what no Gallina model can exhibit by a harness built with the Go race detector: 2..16 goroutines of Add / Remove / search / Flush / WriteTo (and rotation, background flush, TriggerCompaction, Close for the store) on one shared instance of each of the five vector kinds, BM25, metadata, hybrid and the store, with logical begin/end times per operation; the recorded executions are judged by the extracted visibility oracle, any race report, panic, watchdog timeout (deadlock) or spurious failure fails the check; plus the targeted schedule at the verif yield point between picking the active memtable and writing to it, and uniqueness of automatically generated ids across goroutines and instances. A contended phase releases 16 goroutines together on the same id (remove / re-add / search) with a per-round watchdog; judged for termination and panics only. Targeted shutdown schedules: Close is started while a compaction (files written, segments not yet swapped) or a background flush is held at a hook point; Close must return. A global progress watchdog (no recorded operation for 240 s) turns any hang of the implementation into a reported failure with the goroutine dump, for every property's harness.",
    "level_note": "PARTIAL by nature: data races, runtime panics and real deadlocks are runtime facts; the race detector and a watchdog only SEARCH for them (sampled schedules). The store's visibility run avoids flushes (segment loads overwrite the shared templates: known finding C08/1); the flush/compaction run checks races, panics, deadlocks and spurious failures only.",
    "correspondence": "lock-protected sections of *_index.go, hybrid_search_index.go, storage*.go ~ Model.Conc steps (observed through recorded executions)",
    "race": True, "nontrivial_min_tokens": 8, "sub_max_len": 4000, "gen_timeout": 900,
}

NOT_YET = {}
