#!/usr/bin/env python3
"""Pretty-print a checker-800 (store history) trace line."""
import sys, struct, json
src = sys.stdin.read() if len(sys.argv) < 2 else json.load(open(sys.argv[1]))["trace_line"]
t = [int(x) for x in src.split()]; i = 1
def z():
    global i; v = t[i]; i += 1; return v
def f32(b): return struct.unpack('<f', struct.pack('<I', b))[0]
def f64(b): return struct.unpack('<d', struct.pack('<Q', b))[0]
def s():
    n = z(); return bytes(z() for _ in range(n)).decode('utf8', 'replace')
def zs():
    n = z(); return [z() for _ in range(n)]
def vec():
    n = z(); return [f32(z()) for _ in range(n)]
def val():
    k = z()
    if k == 0: return repr(s())
    if k == 1: return bool(z())
    if k == 2: return z()
    if k == 3: return f64(z())
    return 'BAD'
def filt():
    f = s(); op = z()
    n1 = z() if z() else None
    n2 = z() if z() else None
    st = s()
    l = [s() for _ in range(z())] if z() else None
    return "%s op%d num=%s str=%r" % (f, op, n1, st)
kind, dim, metric, nlist, m, nb = [z() for _ in range(6)]
hv, ht, hm, limit, cthr = z(), z(), z(), z(), z()
print('dim', dim, 'metric', metric, 'hasV/T/M', hv, ht, hm, 'limit', limit, 'cthr', cthr)
n = z()
for o in range(n):
    k = z()
    if k == 1:
        id = z(); hasv = z(); v = vec(); toks = zs() if z() else None
        d = {}
        for _ in range(z()):
            key = s(); d[key] = val()
        tl = z(); e = z()
        print(o, 'add', id, v if hasv else None, toks, d, '->', e)
    elif k == 2: print(o, 'remove', z(), '->', z())
    elif k == 3: print(o, 'flush ->', z())
    elif k == 5: print(o, 'rotate')
    elif k == 6: print(o, 'compact ->', z())
    elif k == 7: print(o, 'evict')
    elif k == 8: print(o, 'close ->', z())
    elif k == 9:
        crash = z(); lst = [[z() for _ in range(5)] for _ in range(z())]; e = z()
        print(o, 'reopen crash=%d' % crash, 'listing(id,h,v,t,m; 0 ok 1 trunc 2 missing 3 empty)', lst, '->', e)
    elif k == 10:
        sg = [(z(), z()) for _ in range(z())]; nm = z(); print(o, 'observe segs(id,cached)', sg, 'memtables', nm)
    elif k == 11: print(o, 'in-flight', 'compaction' if z() else 'flush')
    elif k == 4:
        v = vec(); tq = [zs() for _ in range(z())]; fs = [filt() for _ in range(z())]
        ng = z()
        for _ in range(ng):
            z(); [filt() for _ in range(z())]
        kk, thr, agg, cut, np_, fk = z(), z(), z(), z(), z(), z(); vw, tw, K = z(), z(), z()
        ln = [(z(), z()) for _ in range(z())]
        e = z(); res = [(z(), f64(z())) for _ in range(z())]
        print(o, 'search vec', v, 'text', tq, 'filters', fs, 'k', kk, '->', e, res)
