#!/usr/bin/env python3
"""Self-test helper: apply one textual mutation (or a patch file) to /repo, run checks, revert.
usage: trymut.py FILE OLD NEW  ID [ID...]      |    trymut.py --patch P.diff ID [ID...]"""
import sys, subprocess, os
args = sys.argv[1:]
try:
    if args[0] == "--patch":
        subprocess.check_call(["git", "-C", "/repo", "apply", args[1]])
        ids = args[2:]
    else:
        f, old, new = args[0], args[1], args[2]
        ids = args[3:]
        p = os.path.join("/repo", f)
        s = open(p).read()
        if s.count(old) < 1:
            print("pattern not found"); sys.exit(2)
        open(p, "w").write(s.replace(old, new, 1))
    rc = subprocess.call("cd /repo && GOFLAGS=-mod=mod GOPROXY=off go build ./... ", shell=True)
    print("build rc", rc)
    for i in ids:
        r = subprocess.run(["./check", i], cwd="/verif", stdout=subprocess.PIPE, text=True)
        print(i, "exit", r.returncode)
        print(r.stdout[-600:])
finally:
    subprocess.call(["git", "-C", "/repo", "checkout", "--", "."])
