#!/usr/bin/env python3
"""Regenerates MANIFEST.json from lib/props.py (claimed properties) — keeps it valid at all times."""
import json, os, sys, subprocess
ROOT = os.path.dirname(os.path.dirname(os.path.abspath(__file__)))
sys.path.insert(0, os.path.join(ROOT, "lib"))
import props as P

ALL = ["C%02d" % i for i in range(1, 21)]
hooks_commits = subprocess.run("git -C /repo log --format=%h --grep='^verif:' ", shell=True, stdout=subprocess.PIPE, text=True).stdout.split()
m = {
    "version": 1,
    "setup_cmd": "./setup.sh",
    "hooks": {
        "guard": "verif",
        "enable": "go build -tags verif (harness module go/harness with replace github.com/wizenheimer/comet => /repo)",
        "baseline_off_cmd": "cd /repo && GOFLAGS=-mod=mod GOPROXY=off go test -json -vet=off -count=1 -timeout 25m ./...",
        "source_commits": hooks_commits,
        "add_only": True,
    },
    "engines": [
        {"name": "coq-model-and-proofs", "path": "coq/", "serves_properties": sorted(P.PROPS), "kind_free_text": "Gallina model of comet + machine-checked theorems (Coq 8.16.1), Props/Cxx.v hold the property statements"},
        {"name": "correspondence", "path": "check", "serves_properties": sorted(P.PROPS), "kind_free_text": "differential execution: Go harness on /repo (-tags verif) vs extracted Coq checkers (OCaml) and vm_compute sub-sample"},
    ],
    "checks": [],
    "notes": "See DESIGN.md. Every check rebuilds the harness from /repo's working tree; the Coq build is a no-op when up to date.",
    "not_applicable": [],
}
for pid in ALL:
    if pid in P.PROPS:
        c = P.PROPS[pid]
        m["checks"].append({
            "property_id": pid,
            "quick_cmd": "./check %s --tier quick" % pid,
            "thorough_cmd": "./check %s --tier thorough" % pid,
            "evidence_file": "evidence/%s.json" % pid,
            "replay_cmd_template": "./check %s --replay {path}" % pid,
            "engine": "coq-model-and-proofs",
            "level_claimed": {"category": c.get("level", "proof"), "text": c["level_text"], "design_ref": c.get("design_ref", "DESIGN.md §7 " + pid)},
            "level_note": c["level_note"],
            "technique": c.get("technique", "machine-checked proof in Coq 8.16.1 over an executable Gallina model + per-run differential correspondence with the Go code"),
        })
    else:
        m["not_applicable"].append({"property_id": pid, "reason": P.NOT_YET.get(pid, "check not built yet in this session (work in progress; see DESIGN.md §10)")})
json.dump(m, open(os.path.join(ROOT, "MANIFEST.json"), "w"), indent=1)
print("MANIFEST.json: %d checks, %d not_applicable" % (len(m["checks"]), len(m["not_applicable"])))
