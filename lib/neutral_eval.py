#!/usr/bin/env python3
"""Run every quick check against a behaviour-preserving refactoring of comet (a scratch worktree with the
change applied) and record which ones, if any, raise an alarm.  usage: neutral_eval.py <name> <worktree> [ids...]
Keeps patch.diff / notes.md / result.json under seeded/neutral/<name>/ of the /verif the script lives in."""
import json, os, shutil, subprocess, sys

ROOT = os.path.dirname(os.path.dirname(os.path.abspath(__file__)))
name, wt = sys.argv[1], sys.argv[2]
ids = sys.argv[3:] or ["C%02d" % i for i in range(1, 21)]
dst = os.path.join(ROOT, "seeded", "neutral", name)
os.makedirs(dst, exist_ok=True)
for f in ("patch.diff", "notes.md"):
    p = os.path.join(wt, "_out", f)
    if os.path.exists(p):
        shutil.copy(p, os.path.join(dst, f))
env = dict(os.environ, VERIF_REPO=wt, GOFLAGS="-mod=mod", GOPROXY="off")
res = {}
for pid in ids:
    r = subprocess.run([os.path.join(ROOT, "check"), pid], cwd=ROOT, env=env, capture_output=True, text=True)
    lines = [l for l in r.stdout.strip().split("\n") if l and not l.startswith("KNOWN-FINDING")]
    res[pid] = {"exit": r.returncode, "lines": lines[-2:]}
    print(name, pid, "ALARM" if r.returncode != 0 else "quiet", "|", lines[-1][:160] if lines else "", flush=True)
json.dump({"name": name, "worktree": wt, "alarms": [p for p in res if res[p]["exit"] != 0], "checks": res},
          open(os.path.join(dst, "result.json"), "w"), indent=1)
