#!/usr/bin/env python3
"""Pretty-print a checker-400 (metadata history) trace line."""
import sys, struct, json
src = sys.stdin.read() if len(sys.argv) < 2 else json.load(open(sys.argv[1]))["trace_line"]
t = [int(x) for x in src.split()]; i = 1
def z():
    global i; v = t[i]; i += 1; return v
def s():
    n = z(); b = bytes(z() for _ in range(n)); return b.decode('utf8', 'replace')
def zs():
    n = z(); return [z() for _ in range(n)]
def val():
    k = z()
    if k == 0: return repr(s())
    if k == 1: return bool(z())
    if k == 2: return z()
    if k == 3: return struct.unpack('<d', struct.pack('<Q', z()))[0]
    return 'BAD'
ops = ['eq','ne','gt','gte','lt','lte','in','not_in','range','exists','not_exists']
def filt():
    f = s(); op = z(); n1 = z() and z() or None
    if False: pass
    return f, op
def filt():
    f = s(); op = z()
    n1 = z() if z() else None
    n2 = z() if z() else None
    st = s()
    l = [s() for _ in range(z())] if z() else None
    return "%s %s num=%s num2=%s str=%r list=%s" % (f, ops[op] if op < len(ops) else op, n1, n2, st, l)
n = z()
for o in range(n):
    k = z()
    if k == 1:
        id = z(); nf = z(); d = {}
        for _ in range(nf):
            key = s(); d[key] = val()
        print(o, 'add', id, d, 'err' if z() else '')
    elif k == 2: print(o, 'remove', z())
    elif k == 4:
        fs = [filt() for _ in range(z())]
        gs = []
        for _ in range(z()):
            a = z(); gs.append(('AND' if a else 'OR', [filt() for _ in range(z())]))
        e = z(); out = zs()
        print(o, 'search', fs, gs, '->', 'ERR' if e else out)
    elif k == 5:
        f = filt(); g = filt(); ef = z(); of = zs(); eg = z(); og = zs()
        print(o, 'not', f, '->', 'ERR' if ef else of, '| NOT:', g, '->', 'ERR' if eg else og)
