#!/usr/bin/env python3
"""Pretty-print a checker-200 (vector history) trace line. usage: decode_vec.py < line  |  decode_vec.py case.json"""
import sys, struct, json
src = sys.stdin.read() if len(sys.argv) < 2 else json.load(open(sys.argv[1]))["trace_line"]
t = [int(x) for x in src.split()]
def f(b): return struct.unpack('<f', struct.pack('<I', b))[0]
i = 1
kind, dim, metric, nlist, m, nb = t[i:i+6]; i += 6
print('kind', ['flat','ivf','pq','ivfpq'][kind], 'dim', dim, 'metric', ['l2','l2sq','cos'][metric], 'nlist', nlist, 'M', m, 'nbits', nb)
nops = t[i]; i += 1
def vec():
    global i
    n = t[i]; i += 1
    v = [f(x) for x in t[i:i+n]]; i += n; return v
def zs():
    global i
    n = t[i]; i += 1
    v = t[i:i+n]; i += n; return v
for o in range(nops):
    op = t[i]; i += 1
    if op == 1:
        id = t[i]; i += 1; v = vec(); e = t[i]; i += 1; print(o, 'add', id, v, '->', e)
    elif op == 2:
        id = t[i]; e = t[i+1]; i += 2; print(o, 'remove', id, '->', e)
    elif op == 3: print(o, 'flush')
    elif op == 5:
        n = t[i]; i += 1; vs = [vec() for _ in range(n)]; e = t[i]; i += 1; print(o, 'train', len(vs), vs if len(vs) < 40 else '...', '->', e)
    elif op == 6:
        tr = t[i]; i += 1; n = t[i]; i += 1; cs = [vec() for _ in range(n)]
        nb_ = t[i]; i += 1; books = []
        for _ in range(nb_):
            n = t[i]; i += 1; books.append([vec() for _ in range(n)])
        nl = t[i]; i += 1; lists = []
        for _ in range(nl):
            n = t[i]; i += 1; l = []
            for _ in range(n):
                id = t[i]; i += 1; v = vec(); c = zs(); l.append((id, v, c))
            lists.append(l)
        d = zs()
        print(o, 'dump trained', tr, 'centroids', cs, 'books', books, 'lists', lists, 'deleted', d)
    elif op == 4:
        n = t[i]; i += 1; qs = [vec() for _ in range(n)]; nodes = zs(); docs = zs(); k, thr, agg, cut, np_ = t[i:i+5]; i += 5
        e = t[i]; i += 1; n = t[i]; i += 1; res = [(t[i+2*j], f(t[i+2*j+1])) for j in range(n)]; i += 2*n
        print(o, 'search', qs, 'nodes', nodes, 'docs', docs, 'k', k, 'thr', f(thr), 'agg', agg, 'cut', cut, 'np', np_, '->', e, res)
    elif op == 7:
        bm = zs(); b = zs(); n = t[i]; i += 1; print(o, 'write', len(b), 'bytes ->', n)
    elif op == 8:
        b = zs(); e = t[i]; n = t[i+1]; i += 2; print(o, 'reload', len(b), 'bytes ->', e, n)
    elif op == 9:
        n = t[i]; i += 1; a = [(t[i+2*j], f(t[i+2*j+1])) for j in range(n)]; i += 2*n
        e = t[i]; i += 1
        n = t[i]; i += 1; b = [(t[i+2*j], f(t[i+2*j+1])) for j in range(n)]; i += 2*n
        print(o, 'node-law', a, '->', e, b)
    else:
        print(o, 'UNKNOWN op', op); break
