#!/usr/bin/env python3
"""seed_eval.py <ID> [check ids...]: confirm a sub-agent's seeded change in its scratch worktree
(/tmp/wt_<ID>), store it under /verif/seeded/<ID>/, run our checks against it on /repo, revert."""
import sys, os, subprocess, json, shutil, re
pid = sys.argv[1]
suffix = ""
rest = sys.argv[2:]
if rest and rest[0].startswith("--suffix="):
    suffix = rest[0].split("=", 1)[1]
    rest = rest[1:]
checks = rest or [pid]
wt = "/tmp/wt_%s" % pid
out = os.path.join(wt, "_out")
dst = "/verif/seeded/%s%s" % (pid, suffix)
os.makedirs(dst, exist_ok=True)
for f in ("patch.diff", "zz_seed_demo_test.go", "notes.md"):
    shutil.copy(os.path.join(out, f), os.path.join(dst, f if f != "zz_seed_demo_test.go" else "demo_test.go.txt"))
env = dict(os.environ, GOFLAGS="-mod=mod", GOPROXY="off")
def go(args, cwd=wt):
    p = subprocess.run(["go"] + args, cwd=cwd, env=env, stdout=subprocess.PIPE, stderr=subprocess.STDOUT, text=True)
    return p.returncode, p.stdout
def failing(outp):
    return sorted(set(re.findall(r"^--- FAIL: (\S+)", outp, re.M)))
FLAKY = {"TestRerankerWithFlatIndex", "TestPersistentHybridIndex_CompactionThreshold"}
meta = {"property": pid}
# demo with the change
rc1, o1 = go(["test", "-count=1", "-run", "Seed|seed|ZZ|Demo", "."])
meta["demo_with_change_fails"] = rc1 != 0
# full suite with the change (demo excluded by name)
rc2, o2 = go(["test", "-count=1", "."])
f2 = [t for t in failing(o2) if t.split("/")[0] not in FLAKY and not re.search("Seed|seed|ZZ|Demo", t)]
meta["suite_with_change_unexpected_failures"] = f2
# without the change
subprocess.check_call(["git", "apply", "-R", os.path.join(dst, "patch.diff")], cwd=wt)
rc3, o3 = go(["test", "-count=1", "-run", "Seed|seed|ZZ|Demo", "."])
subprocess.check_call(["git", "apply", os.path.join(dst, "patch.diff")], cwd=wt)
meta["demo_without_change_passes"] = rc3 == 0
meta["confirmed"] = meta["demo_with_change_fails"] and meta["demo_without_change_passes"] and not f2
# our checks against it
res = {}
if meta["confirmed"]:
    try:
        for c in checks:
            p = subprocess.run(["./check", c], cwd="/verif", stdout=subprocess.PIPE, text=True,
                               env=dict(os.environ, VERIF_REPO=wt))
            lines = [l for l in p.stdout.splitlines() if l.startswith("VIOLATION") or l.startswith(c)]
            res[c] = {"exit": p.returncode, "lines": lines[-3:]}
    finally:
        pass
meta["checks_run"] = res
meta["detected_by"] = [c for c, r in res.items() if r["exit"] != 0]
notes = open(os.path.join(dst, "notes.md")).read()
meta["needs_to_manifest"] = notes[:1500]
meta["what_was_run"] = "demo test with/without the change in the scratch worktree; full suite with the change; ./check %s with VERIF_REPO pointing at the scratch worktree (change applied)" % " ".join(checks)
json.dump(meta, open(os.path.join(dst, "meta.json"), "w"), indent=1)
print(json.dumps({k: meta[k] for k in ("property", "confirmed", "demo_with_change_fails", "demo_without_change_passes", "suite_with_change_unexpected_failures", "detected_by")}))
for c, r in res.items():
    print(c, r)
