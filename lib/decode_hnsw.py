#!/usr/bin/env python3
"""Pretty-print a checker-1200 (HNSW history) trace line."""
import sys, struct, json
src = sys.stdin.read() if len(sys.argv) < 2 else json.load(open(sys.argv[1]))["trace_line"]
t = [int(x) for x in src.split()]; i = 1
def z():
    global i; v = t[i]; i += 1; return v
def f32(b): return struct.unpack('<f', struct.pack('<I', b))[0]
def vec():
    n = z(); return [round(f32(z()), 4) for _ in range(n)]
def zs():
    n = z(); return [z() for _ in range(n)]
dim, metric, M, efc, efs = z(), z(), z(), z(), z()
print('dim', dim, 'metric', metric, 'M', M, 'efC', efc, 'efS', efs)
n = z()
for o in range(n):
    k = z()
    if k == 1:
        id = z(); v = vec(); lv = z(); el = z(); e = z(); print(o, 'add', id, v, 'level', lv, 'entry-after', el, '->', e)
    elif k == 2: print(o, 'remove', z(), '->', z())
    elif k == 3: print(o, 'flush elected', z())
    elif k == 4:
        qs = [vec() for _ in range(z())]; nodes = zs(); docs = zs(); kk, thr, agg, cut, np_ = z(), z(), z(), z(), z(); ef = z()
        e = z(); res = [(z(), round(f32(z()), 4)) for _ in range(z())]
        print(o, 'search', qs, 'nodes', nodes, 'docs', docs, 'k', kk, 'thr', round(f32(thr), 4), 'agg', agg, 'cut', cut, 'ef', ef, '->', e, res)
    elif k == 6:
        en = z(); ml = z(); ns = []
        for _ in range(z()):
            id = z(); lv = z(); v = vec(); es = [zs() for _ in range(z())]; ns.append((id, lv, es))
        d = zs(); print(o, 'dump entry', en, 'maxlevel', ml, 'nodes(id,level,edges)', ns, 'deleted', d)
