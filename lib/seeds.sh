#!/bin/sh
# usage: lib/seeds.sh "C01 C02 ..." FROM TO   -- runs quick checks over a seed range, prints failures
for s in $(seq $2 $3); do
  for p in $1; do
    out=$(VERIF_SEED=$s ./check $p 2>&1); rc=$?
    if [ $rc -ne 0 ]; then echo "FAIL seed=$s $p"; echo "$out" | tail -3; cp -r work/$p work/${p}_seed$s 2>/dev/null; fi
  done
done
echo sweep-done
