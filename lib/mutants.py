#!/usr/bin/env python3
"""Self-test campaign (not part of any manifest command): apply each textual mutant of a table to a
scratch worktree of the repository (never /repo), run the checks of the properties it names against
that tree (VERIF_REPO), and record detected / missed per mutant.

usage: lib/mutants.py TABLE.json SCRATCH_WORKTREE OUT.json [name-substring]"""
import sys, os, json, subprocess, time
table, wt, outp = sys.argv[1], sys.argv[2], sys.argv[3]
only = sys.argv[4] if len(sys.argv) > 4 else None
ROOT = os.path.dirname(os.path.dirname(os.path.abspath(__file__)))
muts = json.load(open(table))
res = []
if os.path.exists(outp):
    res = json.load(open(outp))
done = {r["name"] for r in res}
for m in muts:
    if not m.get("builds", True) or m["name"] in done or (only and only not in m["name"]):
        continue
    p = os.path.join(wt, m["file"])
    src = open(p).read()
    if src.count(m["old"]) != 1:
        res.append({"name": m["name"], "error": "pattern occurs %d times" % src.count(m["old"])})
        continue
    open(p, "w").write(src.replace(m["old"], m["new"], 1))
    r = {"name": m["name"], "props": m["props"], "kind": m["kind"], "suite_passes": m.get("suite_passes"), "checks": {}}
    try:
        for pid in m["props"]:
            t0 = time.time()
            pr = subprocess.run(["./check", pid], cwd=ROOT, stdout=subprocess.PIPE, stderr=subprocess.STDOUT, text=True,
                                env=dict(os.environ, VERIF_REPO=wt))
            lines = [l for l in pr.stdout.splitlines() if l.startswith("VIOLATION") or l.startswith(pid + " ")]
            r["checks"][pid] = {"exit": pr.returncode, "wall_s": round(time.time() - t0, 1), "lines": lines[-2:]}
    finally:
        subprocess.check_call(["git", "-C", wt, "checkout", "--", "."])
    r["detected_by"] = [k for k, v in r["checks"].items() if v["exit"] != 0]
    r["with_failing_input"] = [k for k, v in r["checks"].items()
                               if any(l.startswith("VIOLATION") and "no-failing-input-found" not in l for l in v["lines"])]
    res.append(r)
    json.dump(res, open(outp, "w"), indent=1)
    print(m["name"], m["kind"], "detected_by", r["detected_by"], "input", r["with_failing_input"], flush=True)
