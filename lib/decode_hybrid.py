#!/usr/bin/env python3
"""decode a checker-500 (hybrid history) case: lib/decode_hybrid.py work/Cxx/violation-N.case.json"""
import json, struct, sys
j = json.load(open(sys.argv[1]))
t = [int(x) for x in j['trace_line'].split()][1:]
i = 0
def z():
    global i; x = t[i]; i += 1; return x
def f32(b):
    try: return struct.unpack('<f', struct.pack('<I', b))[0]
    except Exception: return 'bits%d' % b
def f64(b):
    try: return struct.unpack('<d', struct.pack('<Q', b))[0]
    except Exception: return 'bits%d' % b
def zs(): return [z() for _ in range(z())]
def vec(): return [f32(x) for x in zs()]
def s(): return ''.join(chr(c) if 32 <= c < 127 else '\\x%02x' % c for c in zs())
def lst(p): return [p() for _ in range(z())]
def opt(p): return p() if z() else None
def pairs(fn=f64): return [(z(), fn(z())) for _ in range(z())]
def mval():
    k = z()
    if k == 0: return repr(s())
    if k == 1: return bool(z())
    if k == 2: return z()
    if k == 3: return f64(z())
    return 'BAD'
def filt():
    fld = s(); op = z(); n1 = opt(z); n2 = opt(z); st = s(); l = opt(lambda: lst(s))
    return '%s op%d n1=%s n2=%s s=%r l=%s' % (fld, op, n1, n2, st, l)
def group():
    a = z(); return ('AND' if a else 'OR', lst(filt))
hv = z(); params = [z() for _ in range(6)]; ht = z(); hm = z()
print('hasV', hv, 'params(kind,dim,metric,nlist,M,nbits)', params, 'hasT', ht, 'hasM', hm, 'verdict', j['verdict'])
nops = z()
for o in range(nops):
    k = z()
    if k == 1:
        id = z(); v = vec(); tk = opt(zs); fl = lst(lambda: (s(), mval())); e = z(); d = z()
        print(o, 'add', id, v, 'toks', tk, 'fields', fl, '->', e, 'dup' if d else '')
    elif k == 2:
        id = z(); e = z(); print(o, 'remove', id, '->', e)
    elif k == 3:
        print(o, 'flush')
    elif k == 5:
        vs = lst(vec); e = z(); print(o, 'train', len(vs), vs[:6], '->', e)
    elif k == 4:
        v = vec(); tx = lst(zs); fs = lst(filt); gs = lst(group)
        kk = z(); thr = f32(z()); a = z(); c = z(); np = z(); fk = z(); vw = f64(z()); tw = f64(z()); rk = z(); ln = pairs(lambda x: x)
        e = z(); out = pairs()
        print(o, 'search vec', v, 'txt', tx, 'filters', fs, 'groups', gs, 'k', kk, 'thr', thr, 'agg', a, 'cut', c, 'np', np,
              'fusion', fk, 'vw', vw, 'tw', tw, 'rrfk', rk, '->', e, out)
    elif k == 8:
        qs = lst(vec); ns = zs(); ds = zs(); kk = z(); thr = f32(z()); a = z(); c = z(); np = z(); e = z(); out = pairs(f32)
        print(o, 'vsearch', qs, 'nodes', ns, 'docs', ds, 'k', kk, 'thr', thr, 'agg', a, 'cut', c, 'np', np, '->', e, out)
    elif k == 9:
        qs = lst(zs); ns = zs(); nq = lst(zs); ds = zs(); kk = z(); a = z(); c = z(); ln = pairs(lambda x: x); e = z(); out = pairs(f32)
        print(o, 'tsearch', qs, 'nodes', ns, 'docs', ds, 'k', kk, 'agg', a, 'cut', c, '->', e, out)
    elif k == 10:
        fs = lst(filt); e = z(); out = zs(); print(o, 'msearch', fs, '->', e, out)
    else:
        print(o, 'op?', k); break
