#!/bin/sh
# Offline build of the framework: Coq development (full .vo), both extracted drivers.
set -e
cd "$(dirname "$0")"
cd coq
coq_makefile -f _CoqProject -o Makefile >/dev/null
timeout 3400 make -j16 2>&1 | grep -v '^COQC\|^COQDEP\|^Closed under' || true
test -f Check/Dispatch.vo
cd ..
sh ocaml/build.sh
mkdir -p work evidence
echo "setup ok"
