(* Driver for the extracted checkers (slow build: ExtrOcamlBasic only; Z is the extracted
   inductive type, no Extract Constant on arithmetic). zarith is used ONLY to parse/print. *)
let rec pos_of_z (z : Z.t) : Model.positive =
  if Z.equal z Z.one then Model.XH
  else if Z.equal (Z.rem z (Z.of_int 2)) Z.zero then Model.XO (pos_of_z (Z.div z (Z.of_int 2)))
  else Model.XI (pos_of_z (Z.div z (Z.of_int 2)))
let z_of_string (s : string) : Model.z =
  let v = Z.of_string s in
  if Z.sign v = 0 then Model.Z0 else if Z.sign v > 0 then Model.Zpos (pos_of_z v) else Model.Zneg (pos_of_z (Z.neg v))
let rec z_of_pos (p : Model.positive) : Z.t =
  match p with Model.XH -> Z.one | Model.XO q -> Z.mul (Z.of_int 2) (z_of_pos q)
             | Model.XI q -> Z.add Z.one (Z.mul (Z.of_int 2) (z_of_pos q))
let string_of_z (x : Model.z) : string =
  match x with Model.Z0 -> "0" | Model.Zpos p -> Z.to_string (z_of_pos p) | Model.Zneg p -> "-" ^ Z.to_string (z_of_pos p)
let () =
  let ic = if Array.length Sys.argv > 1 then open_in Sys.argv.(1) else stdin in
  let n = ref 0 in
  (try
    while true do
      let line = input_line ic in
      if String.length line > 0 && line.[0] <> '#' then begin
        let toks = List.filter (fun s -> s <> "") (String.split_on_char ' ' line) in
        (match toks with
         | [] -> ()
         | id :: rest ->
            let zs = List.map z_of_string rest in
            let v = Model.dispatch (z_of_string id) zs in
            print_string (string_of_int !n);
            List.iter (fun z -> print_char ' '; print_string (string_of_z z)) v;
            print_newline ())
      end;
      incr n
    done
  with End_of_file -> ())
