(* Driver for the extracted checkers (fast build: Z = zarith big ints).
   stdin/argv[1]: one case per line "<checker-id> <int> <int> ...".
   stdout: "<line-number> <verdict ints>" for every case. *)
let () =
  let ic = if Array.length Sys.argv > 1 then open_in Sys.argv.(1) else stdin in
  let n = ref 0 in
  (try
    while true do
      let line = input_line ic in
      if String.length line > 0 && line.[0] <> '#' then begin
        let toks = List.filter (fun s -> s <> "") (String.split_on_char ' ' line) in
        (match toks with
         | [] -> ()
         | id :: rest ->
            let zs = List.map Big_int_Z.big_int_of_string rest in
            let v = (try Model.dispatch (Big_int_Z.big_int_of_string id) zs
                     with Stack_overflow -> [Big_int_Z.big_int_of_int 7]) in
            print_string (string_of_int !n);
            List.iter (fun z -> print_char ' '; print_string (Big_int_Z.string_of_big_int z)) v;
            print_newline ())
      end;
      incr n
    done
  with End_of_file -> ())
