#!/bin/sh
# Build both extracted drivers from the compiled Coq development (coq/ must be built first).
set -e
cd "$(dirname "$0")"
for v in fast slow; do
  cd $v
  if [ $v = fast ]; then cp ../../coq/Extract/Extract.v _E.v; else cp ../../coq/Extract/ExtractSlow.v _E.v; fi
  coqc -Q ../../coq Comet _E.v >/dev/null
  rm -f _E.v _E.vo _E.vok _E.vos _E.glob ._E.aux
  if [ $v = fast ]; then
    ocamlfind ocamlopt -O3 -w -a -package zarith -linkpkg model.mli model.ml driver.ml -o driver 2>/dev/null || \
    ocamlfind ocamlopt -w -a -package zarith -linkpkg model.mli model.ml driver.ml -o driver
  else
    ocamlfind ocamlopt -w -a -package zarith -linkpkg model.mli model.ml driver.ml -o driver
  fi
  rm -f *.cmi *.cmx *.o
  cd ..
done
