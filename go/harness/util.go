package main

import (
	"bufio"
	"encoding/json"
	"fmt"
	"github.com/clipperhouse/uax29/v2/words"
	"golang.org/x/text/unicode/norm"
	"math"
	"math/rand"
	"os"
	"sort"
	"strconv"
	"strings"
	"sync/atomic"
)

// Case is one correspondence case: checker id followed by integers.
type Case struct {
	id int
	b  []byte
}

func NewCase(id int) *Case { return &Case{id: id, b: strconv.AppendInt(nil, int64(id), 10)} }

func (c *Case) I(v int64) *Case {
	c.b = append(c.b, ' ')
	c.b = strconv.AppendInt(c.b, v, 10)
	return c
}
func (c *Case) N(v int) *Case { return c.I(int64(v)) }
func (c *Case) U(v uint64) *Case {
	c.b = append(c.b, ' ')
	c.b = strconv.AppendUint(c.b, v, 10)
	return c
}
func (c *Case) B(v bool) *Case {
	if v {
		return c.I(1)
	}
	return c.I(0)
}

const nan32 = 0x7fc00000
const nan64 = 0x7ff8000000000000

func bits32(f float32) uint64 {
	if f != f {
		return nan32
	}
	return uint64(math.Float32bits(f))
}
func bits64(f float64) uint64 {
	if f != f {
		return nan64
	}
	return math.Float64bits(f)
}
func (c *Case) F32(f float32) *Case { return c.U(bits32(f)) }
func (c *Case) F64(f float64) *Case { return c.U(bits64(f)) }
func (c *Case) Vec(v []float32) *Case {
	c.N(len(v))
	for _, x := range v {
		c.F32(x)
	}
	return c
}
func (c *Case) Vecs(vs [][]float32) *Case {
	c.N(len(vs))
	for _, v := range vs {
		c.Vec(v)
	}
	return c
}
func (c *Case) U32s(v []uint32) *Case {
	c.N(len(v))
	for _, x := range v {
		c.U(uint64(x))
	}
	return c
}
func (c *Case) Ints(v []int) *Case {
	c.N(len(v))
	for _, x := range v {
		c.N(x)
	}
	return c
}
func (c *Case) Bytes(v []byte) *Case {
	c.N(len(v))
	for _, x := range v {
		c.N(int(x))
	}
	return c
}

// Trace collects cases and distribution statistics.
type Trace struct {
	w      *bufio.Writer
	f      *os.File
	n      int
	stats  map[string]int
	sample []string
}

func NewTrace(path string) *Trace {
	f, err := os.Create(path)
	if err != nil {
		panic(err)
	}
	return &Trace{w: bufio.NewWriterSize(f, 1<<20), f: f, stats: map[string]int{}}
}

func (t *Trace) Emit(c *Case, strata ...string) {
	bump()
	t.w.Write(c.b)
	t.w.WriteByte('\n')
	t.n++
	t.stats[fmt.Sprintf("checker.%d", c.id)]++
	for _, s := range strata {
		t.stats[s]++
	}
	if len(t.sample) < 3 || (t.n%97 == 0 && len(t.sample) < 8) {
		s := string(c.b)
		if len(s) > 400 {
			s = s[:400] + " ..."
		}
		t.sample = append(t.sample, s)
	}
}
func (t *Trace) Stat(s string)         { t.stats[s]++; bump() }
func (t *Trace) StatN(s string, n int) { t.stats[s] += n; bump() }

// progress counter for the hang watchdog (main.go): every recorded operation and every finished case
// advances it; an implementation call that never returns stops it
var progress int64

func bump() { atomic.AddInt64(&progress, 1) }

func (t *Trace) Close(statsPath string) {
	t.w.Flush()
	t.f.Close()
	keys := make([]string, 0, len(t.stats))
	for k := range t.stats {
		keys = append(keys, k)
	}
	sort.Strings(keys)
	out := map[string]interface{}{"cases": t.n, "stats": t.stats, "samples": t.sample}
	b, _ := json.MarshalIndent(out, "", " ")
	os.WriteFile(statsPath, b, 0644)
}

// ---- value pools ----

var f32pool = []float32{0, 1, -1, 0.5, 2, 3, -2.5, 1e-6, -1e-6, 1e6, -1e6, 0.1, 0.3, 7.25, 1e-3, 123.456, 1e3, -0.75}

func rndF32(r *rand.Rand) float32 {
	switch r.Intn(10) {
	case 0, 1, 2, 3:
		return f32pool[r.Intn(len(f32pool))]
	case 4:
		// neighbour of a pool value (±1 ulp)
		x := f32pool[r.Intn(len(f32pool))]
		b := math.Float32bits(x)
		if r.Intn(2) == 0 {
			b++
		} else if b&0x7fffffff != 0 {
			b--
		}
		return math.Float32frombits(b)
	case 5, 6:
		return float32(r.NormFloat64())
	case 7:
		return float32(r.NormFloat64() * math.Pow(10, float64(r.Intn(13)-6)))
	case 8:
		return float32(r.Intn(21) - 10)
	default:
		return r.Float32()*2 - 1
	}
}

func rndVec(r *rand.Rand, dim int) []float32 {
	v := make([]float32, dim)
	for i := range v {
		v[i] = rndF32(r)
	}
	return v
}

func cloneVec(v []float32) []float32 { return append([]float32(nil), v...) }
func sameBits(a, b []float32) bool {
	if len(a) != len(b) {
		return false
	}
	for i := range a {
		if bits32(a[i]) != bits32(b[i]) {
			return false
		}
	}
	return true
}

// catchPanic runs f and reports whether it panicked.
func catchPanic(f func()) (panicked bool) {
	defer func() {
		if r := recover(); r != nil {
			panicked = true
		}
	}()
	f()
	return false
}

func contains(s, sub string) bool { return strings.Contains(s, sub) }
func f64bits(x float64) uint64    { return math.Float64bits(x) }
func logf(x float64) float64      { return math.Log(x) }

// shapedDocIDs builds an id-restriction list with structure around id b: repeats, a repeat "filling"
// a hole of an otherwise contiguous run, descending order, a contiguous block.
func shapedDocIDs(r *rand.Rand, b uint32) []uint32 {
	switch r.Intn(5) {
	case 0:
		return []uint32{b, b, b + 2}
	case 1:
		return []uint32{b + 2, b, b + 2, b}
	case 2:
		return []uint32{b + 3, b + 2, b + 1, b}
	case 3:
		return []uint32{b, b + 1, b + 1, b + 3, b + 4}
	default:
		out := []uint32{}
		for j := uint32(0); j < 6; j++ {
			out = append(out, b+j)
		}
		return out
	}
}

// Pairs writes a length-prefixed list of (id, score-bits) pairs.
func (c *Case) Pairs(ps [][2]uint64) *Case {
	c.N(len(ps))
	for _, p := range ps {
		c.U(p[0]).U(p[1])
	}
	return c
}

// specTokens is the property's own definition of the tokens of a text (C03: UAX#29 segments of the
// NFKC-normalised, lower-cased text), computed by the harness from the libraries themselves and NOT by
// asking the implementation's normalize / tokenize: a change to either is then a disagreement.
func specTokens(text string) []string {
	it := words.FromString(strings.ToLower(norm.NFKC.String(text)))
	var out []string
	for it.Next() {
		out = append(out, it.Value())
	}
	return out
}
