package main

import (
	"math"
	"math/rand"

	comet "github.com/wizenheimer/comet"
)

func init() { generators["C20"] = genC20 }

func vecsEqualBits(a, b [][]float32) bool {
	if len(a) != len(b) {
		return false
	}
	for i := range a {
		if !sameBits(a[i], b[i]) {
			return false
		}
	}
	return true
}

func genC20(r *rand.Rand, t *Trace, thorough bool) {
	nk := 120
	nq := 150
	nt := 12
	if thorough {
		nk, nq, nt = 2500, 3000, 150
	}
	// ---- k-means ----
	for it := 0; it < nk; it++ {
		dim := []int{1, 2, 3, 4, 8, 16, 32}[r.Intn(7)]
		n := 1 + r.Intn(12)
		if it%7 == 0 {
			n = 20 + r.Intn(60)
		}
		if thorough && it%40 == 0 {
			n = 100 + r.Intn(400)
		}
		bigK := it%20 == 19 // more than 256 centroids asked of more than 256 vectors (k and n beyond one byte)
		if bigK {
			dim = 1 + r.Intn(2)
			n = 257 + r.Intn(244)
		}
		style := r.Intn(3)
		vs := make([][]float32, n)
		mode := r.Intn(5)
		base := histVec(r, dim, style)
		for i := range vs {
			switch mode {
			case 0: // many duplicates => empty clusters
				if r.Intn(3) != 0 {
					vs[i] = cloneVec(base)
				} else {
					vs[i] = histVec(r, dim, style)
				}
			case 1: // collinear
				vs[i] = make([]float32, dim)
				for j := range vs[i] {
					vs[i][j] = base[j] * float32(i)
				}
			default:
				vs[i] = histVec(r, dim, style)
			}
		}
		ks := []int{-1, 0, 1, 2, 3, n - 1, n, n + 1, n + 5, 256}
		k := ks[r.Intn(len(ks))]
		if it%3 == 0 {
			k = 1 + r.Intn(n+2)
		}
		if n > 60 && k > 16 {
			k = 2 + r.Intn(15)
		}
		if bigK {
			k = []int{257, 300, n - 1, n, n + 5}[r.Intn(5)]
			t.Stat("kmeans.more_than_256_centroids")
		}
		mz := r.Intn(3)
		d, _ := comet.NewDistance(metrics[mz])
		maxIter := []int{-1, 0, 1, 2, 5, 20, 50}[r.Intn(7)]
		if bigK {
			maxIter = 1 + r.Intn(2)
		}
		orig := make([][]float32, n)
		for i := range vs {
			orig[i] = cloneVec(vs[i])
		}
		// KMeansSubspace (the codebook trainer of PQ / IVFPQ) is k-means under squared Euclidean distance
		sub := r.Intn(4) == 0 || (bigK && r.Intn(3) != 0)
		if sub {
			mz = 1
			t.Stat("kmeans.subspace_entry_point")
		}
		runIt := func(maxIter int) ([][]float32, []int) {
			if sub {
				return comet.KMeansSubspace(vs, k, maxIter)
			}
			return comet.KMeans(vs, k, d, maxIter)
		}
		run := func() ([][]float32, []int) { return runIt(maxIter) }
		cents, mapping := run()
		changed := !vecsEqualBits(vs, orig)
		cents2, mapping2 := run()
		nondet := !vecsEqualBits(cents, cents2) || len(mapping) != len(mapping2)
		for i := range mapping {
			if !nondet && mapping[i] != mapping2[i] {
				nondet = true
			}
		}
		// a witness of convergence taken from the implementation itself: one more iteration allowed, the
		// same answer -- the run had settled, so every vector must sit with its nearest centroid
		cents3, mapping3 := runIt(maxIter + 1)
		stable := cents != nil && maxIter >= 1 && vecsEqualBits(cents, cents3) && len(mapping) == len(mapping3)
		for i := range mapping {
			if stable && mapping[i] != mapping3[i] {
				stable = false
			}
		}
		if stable {
			t.Stat("kmeans.settled_run")
		}
		c := NewCase(2001).Vecs(orig).N(k).N(mz).N(maxIter).B(cents == nil).Vecs(cents).Ints(mapping).B(changed).B(nondet).B(stable)
		st := "kmeans.k_le_n"
		if k > n {
			st = "kmeans.k_gt_n"
		} else if k <= 0 {
			st = "kmeans.k_nonpositive"
		}
		t.Emit(c, st, "kmeans.metric."+string(metrics[mz]))
	}
	// ---- quantizers ----
	for it := 0; it < nq; it++ {
		ty := r.Intn(3)
		dim := 1 + r.Intn(12)
		train := [][]float32{}
		if r.Intn(8) != 0 {
			for i := 0; i < 1+r.Intn(4); i++ {
				train = append(train, rndVecMag(r, dim))
			}
		}
		v := make([]float32, dim)
		var absMax float32
		for _, tv := range train {
			for _, x := range tv {
				if a := float32(math.Abs(float64(x))); a > absMax {
					absMax = a
				}
			}
		}
		for i := range v {
			switch r.Intn(6) {
			case 0:
				v[i] = absMax
			case 1:
				v[i] = -absMax
			case 2:
				v[i] = 0
			case 3:
				v[i] = float32(r.Float64()*2-1) * absMax
			case 4: // half-precision boundary values
				v[i] = []float32{65504, 65520, 6.1035156e-05, 5.9604645e-08, 2.9802322e-08, 1.0009766, 0.33333334, -2.5, 1e-10, 70000}[r.Intn(10)]
			default:
				v[i] = rndF32(r)
			}
		}
		if ty == 1 {
			// the float16 clause: components spread over every binade of the half-precision normal
			// range 2^-14 .. 65504 (log-uniform), binade boundaries, and exact rounding ties
			for i := range v {
				if r.Intn(3) == 0 {
					continue
				}
				e := -14 + r.Intn(30)
				var x float64
				switch r.Intn(4) {
				case 0:
					x = math.Ldexp(1, e)
				case 1:
					x = math.Ldexp(1+float64(2*r.Intn(1024)+1)/2048, e) // halfway between two float16 values
				default:
					x = math.Ldexp(1+r.Float64(), e)
				}
				if x > 65504 {
					x = 65504
				}
				if r.Intn(2) == 0 {
					x = -x
				}
				v[i] = float32(x)
			}
			t.Stat("quant.half_normal_range_sweep")
		}
		if ty == 2 && r.Intn(3) != 0 { // inside the trained range (the int8 clause)
			for i := range v {
				if float32(math.Abs(float64(v[i]))) > absMax {
					v[i] = float32(r.Float64()*2-1) * absMax
				}
			}
		}
		var sibling comet.Quantizer
		if r.Intn(3) == 0 {
			// another quantiser of the same kind, made and trained just before: what one instance has learned
			// is its own (an untrained one made afterwards still refuses to work)
			sibling, _ = comet.NewQuantizer([]comet.QuantizerType{comet.FullPrecision, comet.HalfPrecision, comet.Int8Precision}[ty])
			sibling.Train([][]float32{{7, -3}})
			t.Stat("quant.sibling_instance_trained")
		}
		qz, _ := comet.NewQuantizer([]comet.QuantizerType{comet.FullPrecision, comet.HalfPrecision, comet.Int8Precision}[ty])
		if r.Intn(3) == 0 {
			// trained before, on something else (larger, smaller, or nothing at all): the LAST training is the
			// one that counts -- a quantiser trained on `train` behaves like a fresh one trained on `train`
			var earlier [][]float32
			switch r.Intn(3) {
			case 0:
				earlier = [][]float32{{absMax*100 + 5, -1}}
			case 1:
				earlier = [][]float32{{absMax / 64}}
			}
			qz.Train(earlier)
			t.Stat("quant.trained_before")
		}
		qz.Train(train)
		if q8, ok := qz.(*comet.Int8Quantizer); ok && absMax > 0 {
			// the range may also come from a persisted value: a restored quantiser (SetAbsMax on a fresh one,
			// or over a previously trained one) must behave exactly like one trained on the same data
			switch r.Intn(3) {
			case 1:
				fresh, _ := comet.NewQuantizer(comet.Int8Precision)
				q8 = fresh.(*comet.Int8Quantizer)
				q8.SetAbsMax(absMax)
				qz = q8
				t.Stat("quant.int8_restored_fresh")
			case 2:
				other := [][]float32{{absMax * 3, -absMax / 2}}
				q8.Train(other)
				q8.SetAbsMax(absMax)
				t.Stat("quant.int8_restored_over_trained")
			}
		}
		if sibling != nil {
			sibling.Train([][]float32{{1000}}) // ... and what the sibling learns later is not this one's business
		}
		orig := cloneVec(v)
		stored, err := qz.Quantize(v)
		var qi []int64
		var dq []float32
		if err == nil {
			switch s := stored.(type) {
			case []float32:
				for _, x := range s {
					qi = append(qi, int64(bits32(x)))
				}
			case []uint16:
				for _, x := range s {
					qi = append(qi, int64(x))
				}
			case []int8:
				for _, x := range s {
					qi = append(qi, int64(x))
				}
			}
			dq, _ = qz.Dequantize(stored)
		}
		c := NewCase(2002).N(ty).Vecs(train).Vec(orig).B(err != nil).N(len(qi))
		for _, x := range qi {
			c.I(x)
		}
		c.Vec(dq).B(!sameBits(v, orig))
		st := []string{"quant.float32", "quant.float16", "quant.int8"}[ty]
		if err != nil {
			t.Stat("quant.untrained_error")
		}
		t.Emit(c, st)
	}
	// ---- training twice gives search-identical indexes ----
	for it := 0; it < nt; it++ {
		kind := 1 + r.Intn(3)
		p, ntrain := rndParams(r, kind, false)
		if kind == 3 && it%2 == 1 {
			// several populated cells and several codewords: the order in which the residuals reach the
			// codebook trainer matters to what it learns
			p.nlist = 2 + r.Intn(3)
			p.nbits = 2 + r.Intn(2)
			ntrain = 40 + r.Intn(40)
		}
		if it%3 == 0 {
			// training sets up to the quantifier's 500 vectors over few clusters (hundreds of points per cluster)
			ntrain = 300 + r.Intn(201)
			if kind != 2 {
				p.nlist = 1 + r.Intn(4)
			}
			t.Stat("train_twice.large_training_set")
		}
		build := func() comet.VectorIndex {
			idx, _ := p.build()
			return idx
		}
		a, b := build(), build()
		tv := make([][]float32, ntrain)
		for i := range tv {
			tv[i] = histVec(r, p.dim, 1)
		}
		mk := func() []comet.VectorNode {
			ns := make([]comet.VectorNode, len(tv))
			for i := range tv {
				ns[i] = *comet.NewVectorNodeWithID(uint32(900+i), cloneVec(tv[i]))
			}
			return ns
		}
		a.Train(mk())
		early := 0
		for j := 0; j < 4; j++ {
			// ... and training the same index again and again: what it learns never depends on anything
			// but the training set (not on iteration order of a map, a clock, an address)
			b.Train(mk())
			sa, sb := comet.VerifSnapshot(a), comet.VerifSnapshot(b)
			if !vecsEqualBits(sa.Centroids, sb.Centroids) || !vecsEqualBits(sa.Codebooks, sb.Codebooks) {
				early++
			}
		}
		for i := 0; i < 15; i++ {
			v := histVec(r, p.dim, 1)
			a.Add(*comet.NewVectorNodeWithID(uint32(i+1), cloneVec(v)))
			b.Add(*comet.NewVectorNodeWithID(uint32(i+1), cloneVec(v)))
		}
		diffs := early
		// identical input, identical output: the learned centroids and codebooks themselves ...
		sa, sb := comet.VerifSnapshot(a), comet.VerifSnapshot(b)
		if sa.Trained != sb.Trained || !vecsEqualBits(sa.Centroids, sb.Centroids) || !vecsEqualBits(sa.Codebooks, sb.Codebooks) {
			diffs++
		}
		// ... and the answers, at full probe and with a single probed cluster
		nqq := 8
		for i := 0; i < nqq; i++ {
			q := histVec(r, p.dim, 1)
			np := p.nlist
			if i%2 == 1 {
				np = 1
			}
			ra, ea := a.NewSearch().WithQuery(cloneVec(q)).WithK(5).WithNProbes(np).Execute()
			rb, eb := b.NewSearch().WithQuery(cloneVec(q)).WithK(5).WithNProbes(np).Execute()
			if fingerprintVec(ra, ea) != fingerprintVec(rb, eb) {
				diffs++
			}
		}
		t.Emit(NewCase(2003).N(kind).N(nqq).N(diffs), "train_twice."+kindNames[kind])
	}
}
