package main

import (
	"bytes"
	"compress/gzip"
	"fmt"
	"io"
	"math/rand"
	"os"
	"path/filepath"
	"sort"
	"strings"
	"sync"
	"time"

	comet "github.com/wizenheimer/comet"
)

func init() { generators["C10"] = genC10 }

// storeScript performs operations on a real store and records them for checker 800.
type storeScript struct {
	cfg    storeCfg
	st     *comet.PersistentHybridIndex
	in     *interner
	ops    []func(c *Case)
	nextID uint32
	r      *rand.Rand
	style  int
	ser    *segSerializer
}

func (s *storeScript) add() {
	r := s.r
	var vec []float32
	if s.cfg.hv && r.Intn(8) != 0 {
		vec = histVec(r, s.cfg.p.dim, s.style)
	}
	text := ""
	if r.Intn(3) != 0 {
		text = bmText(r)
	}
	var md map[string]interface{}
	if r.Intn(3) != 0 {
		md = metaDoc(r, false)
	}
	raw := cloneVec(vec)
	var toks []int
	if text != "" && s.cfg.ht {
		toks = s.in.toks(text)
	}
	keys := make([]string, 0, len(md))
	for k := range md {
		keys = append(keys, k)
	}
	sort.Strings(keys)
	id := s.nextID
	s.nextID++
	e := s.st.AddWithID(id, vec, text, md)
	code := errCodeStore(e)
	hasText := text != ""
	ht := s.cfg.ht
	s.ops = append(s.ops, func(c *Case) {
		c.N(1).U(uint64(id)).B(vec != nil).Vec(raw)
		if hasText && ht {
			c.N(1).Ints(toks)
		} else {
			c.N(0)
		}
		c.N(len(keys))
		for _, k := range keys {
			c.Str(k)
			encValue(c, md[k])
		}
		c.N(len(text)).N(code)
	})
}

func (s *storeScript) rotate() {
	s.st.VerifRotate()
	s.ops = append(s.ops, func(c *Case) { c.N(5) })
}
func (s *storeScript) flush() {
	code := errCodeStore(s.st.Flush())
	s.ops = append(s.ops, func(c *Case) { c.N(3).N(code) })
}
func (s *storeScript) compact() {
	code := 0
	if s.st.VerifMaybeCompact() != nil {
		code = 13
	}
	s.ops = append(s.ops, func(c *Case) { c.N(6).N(code) })
}

// searchOn runs a canned search on a store and returns the encoder of the op.
func (s *storeScript) searchOn(st *comet.PersistentHybridIndex, mode int) func(c *Case) {
	var vq []float32
	var tqs []string
	var fs []comet.Filter
	switch {
	case mode == 0 && s.cfg.hv:
		vq = make([]float32, s.cfg.p.dim)
		for i := range vq {
			vq[i] = 0.5
		}
	case mode == 1 && s.cfg.ht:
		tqs = []string{"alpha beta gamma delta fast index"}
	case mode == 2 && s.cfg.hm:
		fs = []comet.Filter{comet.Exists("cat")}
	default:
		if s.cfg.hv {
			vq = make([]float32, s.cfg.p.dim)
			for i := range vq {
				vq[i] = 1
			}
		} else if s.cfg.ht {
			tqs = []string{"alpha"}
		} else {
			fs = []comet.Filter{comet.Exists("n")}
		}
	}
	k := 1000
	fu, _ := comet.NewFusion(comet.WeightedSumFusion, &comet.FusionConfig{VectorWeight: 1, TextWeight: 1, K: 60})
	q := st.NewSearch().WithK(k).WithFusion(fu)
	if vq != nil {
		q = q.WithVector(cloneVec(vq))
	}
	if len(tqs) > 0 {
		q = q.WithText(tqs...)
	}
	if len(fs) > 0 {
		q = q.WithMetadata(fs...)
	}
	lnT := map[uint64]uint64{}
	if len(tqs) > 0 {
		nmax := int(s.nextID) + 2
		for N := 1; N <= nmax; N++ {
			for df := 1; df <= N; df++ {
				xx := (float64(N)-float64(df)+0.5)/(float64(df)+0.5) + 1.0
				lnT[f64bits(xx)] = f64bits(logf(xx))
			}
		}
	}
	ids, _ := st.VerifSegmentIDs()
	s.ser.arm(ids)
	var res []comet.HybridSearchResult
	var e error
	pan := catchPanic(func() { res, e = q.Execute() })
	s.ser.disarm()
	code := errCodeStore(e)
	if pan {
		code = 12
	}
	tq := make([][]int, len(tqs))
	for i, t := range tqs {
		tq[i] = s.in.toks(t)
	}
	return func(c *Case) {
		c.N(4).Vec(vq).N(len(tq))
		for _, t := range tq {
			c.Ints(t)
		}
		c.N(len(fs))
		for _, f := range fs {
			encFilter(c, f)
		}
		c.N(0)
		c.N(k).F32(0).N(0).N(-1).N(1).N(0).F64(1).F64(1).F64(60)
		encLn(c, lnT)
		c.N(code).N(len(res))
		for _, x := range res {
			c.U(uint64(x.ID)).F64(x.Score)
		}
	}
}

type crashImage struct {
	label string
	files map[string][]byte
}

func snapshotDir(dir string) map[string][]byte {
	m := map[string][]byte{}
	ents, _ := os.ReadDir(dir)
	for _, e := range ents {
		if e.IsDir() {
			continue
		}
		b, err := os.ReadFile(filepath.Join(dir, e.Name()))
		if err == nil {
			m[e.Name()] = b
		}
	}
	return m
}

// flushRace: an explicit Flush while the background worker is in the middle of its own flush (held at
// its first file creation by the hook handler), then a crash right after Flush returned.
func flushRace(r *rand.Rand, base string, t *Trace) {
	dir, img := base, base+"_img"
	os.RemoveAll(dir)
	os.RemoveAll(img)
	defer os.RemoveAll(dir)
	defer os.RemoveAll(img)
	dim := 2 + r.Intn(2)
	mkcfg := func(d string) *comet.StorageConfig {
		cfg := comet.DefaultStorageConfig(d)
		cfg.MemtableSizeLimit = 1 << 30
		cfg.FlushThreshold = 1 // every add asks the background worker to flush whatever is frozen
		cfg.CompactionInterval = time.Hour
		cfg.CompactionThreshold = 1000
		cfg.VectorIndexTemplate, _ = comet.NewFlatIndex(dim, comet.Euclidean)
		cfg.TextIndexTemplate = comet.NewBM25SearchIndex()
		return cfg
	}
	st, err := comet.OpenPersistentHybridIndex(mkcfg(dir))
	if err != nil {
		panic(err)
	}
	n := 3 + r.Intn(8)
	for i := 1; i <= n; i++ {
		st.AddWithID(uint32(i), histVec(r, dim, 1), fmt.Sprintf("doc number%d", i), nil)
	}
	workerIn := make(chan struct{})
	release := make(chan struct{})
	var once sync.Once
	comet.VerifSetHandler(func(name string, args ...uint64) {
		if name == "flush.created" {
			first := false
			once.Do(func() { first = true })
			if first {
				close(workerIn)
				<-release
			}
		}
	})
	st.VerifRotate()                                                // documents 1..n are now in a frozen memtable
	st.AddWithID(uint32(n+1), histVec(r, dim, 1), "later doc", nil) // wakes the worker (not covered by the Flush below)
	held := true
	select {
	case <-workerIn:
	case <-time.After(5 * time.Second):
		held = false // the worker did not get there: the Flush below is then an ordinary one
	}
	fe := st.Flush()
	fcode := errCodeStore(fe)
	if fe != nil && fcode == 0 {
		fcode = 14
	}
	image := snapshotDir(dir) // the process dies here
	close(release)
	comet.VerifSetHandler(nil)
	st.Close()
	os.MkdirAll(img, 0755)
	for name, b := range image {
		if name != "LOCK" {
			os.WriteFile(filepath.Join(img, name), b, 0644)
		}
	}
	found, alien := 0, 0
	st2, e2 := comet.OpenPersistentHybridIndex(mkcfg(img))
	searchErr := false
	if e2 == nil {
		res, e3 := st2.NewSearch().WithVector(make([]float32, dim)).WithK(1 << 20).Execute()
		searchErr = e3 != nil
		for _, x := range res {
			switch {
			case x.ID >= 1 && x.ID <= uint32(n):
				found++
			case x.ID != uint32(n+1):
				alien++
			}
		}
		st2.Close()
	}
	t.Emit(NewCase(1001).N(n).N(found).N(fcode).B(e2 != nil).B(searchErr).N(alien), "crash.flush_racing_background_flush")
	if held {
		t.Stat("crash.background_worker_held_mid_flush")
	}
}

func genC10(r *rand.Rand, t *Trace, thorough bool) {
	ncases := 14
	perCase := 10
	if thorough {
		ncases, perCase = 120, 40
	}
	work := os.Getenv("VERIF_WORK")
	if work == "" {
		work = os.TempDir()
	}
	for it := 0; it < 3+ncases/6; it++ {
		storeCaseCounter++
		flushRace(r, filepath.Join(work, "stores", fmt.Sprintf("fr%d_%d", os.Getpid(), storeCaseCounter)), t)
	}
	for it := 0; it < ncases; it++ {
		storeCaseCounter++
		dir := filepath.Join(work, "stores", fmt.Sprintf("c%d_%d", os.Getpid(), storeCaseCounter))
		os.RemoveAll(dir)
		s := &storeScript{r: r, in: &interner{m: map[string]int{}}, nextID: 1, style: r.Intn(2), ser: newSegSerializer()}
		s.cfg = storeCfg{dir: dir}
		s.cfg.p = vecParams{kind: 0, dim: []int{1, 2, 3}[r.Intn(3)], metric: r.Intn(3), nlist: 1, m: 1, nbits: 1}
		s.cfg.hv, s.cfg.ht, s.cfg.hm = r.Intn(6) != 0, r.Intn(3) != 0, r.Intn(3) != 0
		if !s.cfg.hv && !s.cfg.ht && !s.cfg.hm {
			s.cfg.hv = true
		}
		s.cfg.limit = 1 << 30
		s.cfg.cthr = 2 + r.Intn(2)
		comet.VerifSetHandler(s.ser.handler)
		st, err := s.cfg.open()
		if err != nil {
			panic(err)
		}
		s.st = st
		// base history: 0..3 completed flushes, optionally one completed compaction
		nflush := r.Intn(4)
		for f := 0; f < nflush; f++ {
			for a := 0; a < 1+r.Intn(3); a++ {
				s.add()
			}
			s.rotate()
			s.flush()
		}
		compactedBefore := false
		if nflush >= s.cfg.cthr && r.Intn(2) == 0 {
			s.compact()
			compactedBefore = true
		}
		_ = compactedBefore
		// the operation during which the process dies
		ids, _ := st.VerifSegmentIDs()
		inflightCompact := len(ids) >= s.cfg.cthr && r.Intn(2) == 0
		if !inflightCompact {
			for a := 0; a < 1+r.Intn(3); a++ {
				s.add()
			}
			s.rotate()
		}
		var images []crashImage
		// the order in which the component files of the segment being written are completed is OBSERVED
		// (one hook point after each gzip close), never assumed: a writer that completes the hybrid_ file
		// before a component yields images in which a registered-looking segment is partial
		var closeOrder []string
		compName := []string{"hybrid", "vector", "text", "metadata"}
		comet.VerifSetHandler(func(name string, args ...uint64) {
			switch name {
			case "flush.gzclosed", "compact.gzclosed":
				closeOrder = append(closeOrder, compName[args[len(args)-1]])
				images = append(images, crashImage{label: name, files: snapshotDir(dir)})
			case "flush.created", "flush.closed", "flush.before_register", "flush.registered", "flush.before_drop",
				"compact.closed", "compact.before_register", "compact.registered", "compact.unregistered", "delete.file":
				images = append(images, crashImage{label: name, files: snapshotDir(dir)})
			}
		})
		before := snapshotDir(dir)
		if inflightCompact {
			st.VerifMaybeCompact()
		} else {
			st.Flush()
		}
		comet.VerifSetHandler(s.ser.handler)
		final := snapshotDir(dir)
		inflight := func(c *Case) { c.N(11).B(inflightCompact) }
		// byte-prefix images of the files of the segment being written (close order: vector, text, metadata, hybrid)
		newFiles := []string{}
		for name := range final {
			if _, ok := before[name]; !ok && name != "LOCK" {
				newFiles = append(newFiles, name)
			}
		}
		order := map[string]int{}
		for i, n := range closeOrder {
			if _, seen := order[n]; !seen {
				order[n] = i
			}
		}
		for _, n := range compName { // a component whose close was not observed counts as completed last
			if _, seen := order[n]; !seen {
				order[n] = len(closeOrder) + 1
			}
		}
		sort.Slice(newFiles, func(i, j int) bool {
			return order[segFileRe.FindStringSubmatch(newFiles[i])[1]] < order[segFileRe.FindStringSubmatch(newFiles[j])[1]]
		})
		t.Stat("crash.close_order." + strings.Join(closeOrder, "-"))
		if !inflightCompact || len(closeOrder) > 0 {
			for i, name := range newFiles {
				full := final[name]
				for _, cut := range []int{0, 5, 10, len(full) / 2, len(full) - 9, len(full) - 1} {
					if cut < 0 || cut >= len(full) {
						continue
					}
					img := crashImage{label: fmt.Sprintf("prefix.%s.%d", name, cut), files: map[string][]byte{}}
					for k, v := range before {
						img.files[k] = v
					}
					for j, n2 := range newFiles {
						switch {
						case j < i:
							img.files[n2] = final[n2]
						case j == i:
							img.files[n2] = full[:cut]
						default:
							img.files[n2] = []byte{}
						}
					}
					images = append(images, img)
				}
			}
		}
		st.Close()
		t.StatN("crash.images_available", len(images))
		// sample images
		r.Shuffle(len(images), func(i, j int) { images[i], images[j] = images[j], images[i] })
		if len(images) > perCase {
			images = images[:perCase]
		}
		for ii, img := range images {
			idir := filepath.Join(work, "stores", fmt.Sprintf("c%d_%d_img%d", os.Getpid(), storeCaseCounter, ii))
			os.RemoveAll(idir)
			os.MkdirAll(idir, 0755)
			for name, b := range img.files {
				if name == "LOCK" {
					continue // the stale lock is removed before reopening
				}
				os.WriteFile(filepath.Join(idir, name), b, 0644)
			}
			// file states relative to the complete files
			brokenState := map[string]int{}
			for name, b := range img.files {
				if name == "LOCK" {
					continue
				}
				fin, ok := final[name]
				if !ok {
					fin = before[name]
				}
				switch {
				case bytes.Equal(b, fin):
					brokenState[name] = 0
				case len(b) < 10:
					brokenState[name] = 3
				case gunzipLen(b) == gunzipLen(fin):
					brokenState[name] = 4
				default:
					brokenState[name] = 1
				}
			}
			lst := dirListingStates(idir, brokenState)
			cfg2 := s.cfg
			cfg2.dir = idir
			st2, e2 := cfg2.open()
			code := 0
			if e2 != nil {
				code = 1
			}
			c := s.cfg.p.header(NewCase(800)).B(s.cfg.hv).B(s.cfg.ht).B(s.cfg.hm).I(s.cfg.limit).N(s.cfg.cthr)
			ops := append([]func(c *Case){}, s.ops...)
			ops = append(ops, inflight)
			// file conservation: nothing that was on disk when the operation began may be gone or altered
			// in an image taken before the new segment is registered (a flush never deletes at all)
			switch img.label {
			case "flush.created", "flush.closed", "flush.before_register", "flush.registered", "flush.before_drop",
				"compact.closed", "compact.before_register", "compact.registered":
				lost := 0
				for name, b := range before {
					if name == "LOCK" {
						continue
					}
					if nb, ok := img.files[name]; !ok || !bytes.Equal(nb, b) {
						lost++
					}
				}
				lostN := lost
				ops = append(ops, func(c *Case) { c.N(13).N(lostN) })
			}
			ops = append(ops, func(c *Case) {
				c.N(9).N(1).N(len(lst))
				for _, l := range lst {
					c.N(l[0]).N(l[1]).N(l[2]).N(l[3]).N(l[4])
				}
				c.N(code)
			})
			if e2 == nil {
				for round := 0; round < 2; round++ {
					for mode := 0; mode < 3; mode++ {
						ops = append(ops, s.searchOn(st2, mode))
					}
				}
				// life goes on after the crash: the next flush must not reuse a segment identifier
				len0 := len(s.ops)
				saved := s.st
				s.st = st2
				s.add()
				s.rotate()
				s.flush()
				ids2, cached2 := st2.VerifSegmentIDs()
				nm := st2.VerifMemtableCount()
				s.ops = append(s.ops, func(c *Case) {
					c.N(10).N(len(ids2))
					for i := range ids2 {
						c.U(ids2[i]).B(cached2[i])
					}
					c.N(nm)
				})
				ops = append(ops, s.ops[len0:]...)
				s.ops = s.ops[:len0]
				ce := st2.Close()
				ops = append(ops, func(c *Case) { c.N(8).N(errCodeStore(ce)) })
				// ... and after one more restart: whatever the first session did with the leftovers of the crash,
				// the identifiers they carried stay spent
				lst3 := dirListingStates(idir, brokenState)
				st3, e3 := cfg2.open()
				code3 := 0
				if e3 != nil {
					code3 = 1
				}
				ops = append(ops, func(c *Case) {
					c.N(9).N(0).N(len(lst3))
					for _, l := range lst3 {
						c.N(l[0]).N(l[1]).N(l[2]).N(l[3]).N(l[4])
					}
					c.N(code3)
				})
				if e3 == nil {
					if f := cfg2.trainOp(); f != nil {
						ops = append(ops, f)
					}
					s.st = st3
					s.add()
					s.rotate()
					s.flush()
					ids3, cached3 := st3.VerifSegmentIDs()
					nm3 := st3.VerifMemtableCount()
					s.ops = append(s.ops, func(c *Case) {
						c.N(10).N(len(ids3))
						for i := range ids3 {
							c.U(ids3[i]).B(cached3[i])
						}
						c.N(nm3)
					})
					ops = append(ops, s.ops[len0:]...)
					s.ops = s.ops[:len0]
					st3.Close()
					t.Stat("crash.second_restart")
				}
				s.st = saved
			}
			c.N(len(ops))
			for _, f := range ops {
				f(c)
			}
			kind := "flush"
			if inflightCompact {
				kind = "compaction"
			}
			t.Emit(c, "crash.during_"+kind, "crash.point."+labelClass(img.label))
			os.RemoveAll(idir)
		}
		os.RemoveAll(dir)
		comet.VerifSetHandler(nil)
	}
}

func labelClass(l string) string {
	if len(l) > 7 && l[:7] == "prefix." {
		return "byte_prefix"
	}
	return l
}

func dirListingStates(dir string, state map[string]int) [][5]int {
	ents, _ := os.ReadDir(dir)
	m := map[int]*[4]int{}
	kinds := map[string]int{"hybrid": 0, "vector": 1, "text": 2, "metadata": 3}
	for _, e := range ents {
		mm := segFileRe.FindStringSubmatch(e.Name())
		if mm == nil {
			continue
		}
		var id int
		fmt.Sscanf(mm[2], "%d", &id)
		if m[id] == nil {
			m[id] = &[4]int{2, 2, 2, 2}
		}
		m[id][kinds[mm[1]]] = state[e.Name()]
	}
	ids := make([]int, 0, len(m))
	for id := range m {
		ids = append(ids, id)
	}
	sort.Ints(ids)
	out := make([][5]int, 0, len(ids))
	for _, id := range ids {
		out = append(out, [5]int{id, m[id][0], m[id][1], m[id][2], m[id][3]})
	}
	return out
}

// genSegmentPrefixes (C16, store clause): a segment with a truncated / empty / missing component file
// must contribute nothing to search results.
func genSegmentPrefixes(r *rand.Rand, t *Trace, thorough bool) {
	nstores := 4
	cuts := 5
	if thorough {
		nstores, cuts = 25, 14
	}
	work := os.Getenv("VERIF_WORK")
	if work == "" {
		work = os.TempDir()
	}
	for it := 0; it < nstores; it++ {
		storeCaseCounter++
		dir := filepath.Join(work, "stores", fmt.Sprintf("p%d_%d", os.Getpid(), storeCaseCounter))
		os.RemoveAll(dir)
		s := &storeScript{r: r, in: &interner{m: map[string]int{}}, nextID: 1, style: r.Intn(2), ser: newSegSerializer()}
		s.cfg = storeCfg{dir: dir}
		s.cfg.p = vecParams{kind: 0, dim: 2, metric: r.Intn(3), nlist: 1, m: 1, nbits: 1}
		s.cfg.hv, s.cfg.ht, s.cfg.hm = true, it%2 == 0, it%3 != 0
		s.cfg.limit = 1 << 30
		s.cfg.cthr = 5
		comet.VerifSetHandler(s.ser.handler)
		st, err := s.cfg.open()
		if err != nil {
			panic(err)
		}
		s.st = st
		for f := 0; f < 2; f++ {
			for a := 0; a < 2+r.Intn(2); a++ {
				s.add()
			}
			s.rotate()
			s.flush()
		}
		st.Close()
		s.ops = append(s.ops, func(c *Case) { c.N(8).N(0) })
		final := snapshotDir(dir)
		// files of the newest segment
		var last []string
		maxID := 0
		for name := range final {
			if mm := segFileRe.FindStringSubmatch(name); mm != nil {
				var id int
				fmt.Sscanf(mm[2], "%d", &id)
				if id > maxID {
					maxID = id
				}
			}
		}
		for name := range final {
			if mm := segFileRe.FindStringSubmatch(name); mm != nil {
				var id int
				fmt.Sscanf(mm[2], "%d", &id)
				if id == maxID {
					last = append(last, name)
				}
			}
		}
		sort.Strings(last)
		for _, name := range last {
			full := final[name]
			lens := []int{-1, 0, 9, 10, len(full) / 2, len(full) - 9, len(full) - 1} // -1 = missing
			for j := 0; j < cuts; j++ {
				lens = append(lens, r.Intn(len(full)))
			}
			for _, cut := range lens {
				storeCaseCounter++
				idir := filepath.Join(work, "stores", fmt.Sprintf("p%d_%d", os.Getpid(), storeCaseCounter))
				os.RemoveAll(idir)
				os.MkdirAll(idir, 0755)
				state := map[string]int{}
				for n2, b := range final {
					if n2 == "LOCK" {
						continue
					}
					if n2 == name {
						if cut < 0 {
							continue
						}
						os.WriteFile(filepath.Join(idir, n2), b[:cut], 0644)
						switch {
						case cut < 10:
							state[n2] = 3
						case gunzipLen(b[:cut]) == gunzipLen(b):
							state[n2] = 4 // the whole payload of the last component is still readable: only the end-of-stream marker / gzip trailer is cut
						default:
							state[n2] = 1
						}
						continue
					}
					os.WriteFile(filepath.Join(idir, n2), b, 0644)
					state[n2] = 0
				}
				lst := dirListingStates(idir, state)
				cfg2 := s.cfg
				cfg2.dir = idir
				st2, e2 := cfg2.open()
				code := 0
				if e2 != nil {
					code = 1
				}
				c := s.cfg.p.header(NewCase(800)).B(s.cfg.hv).B(s.cfg.ht).B(s.cfg.hm).I(s.cfg.limit).N(s.cfg.cthr)
				ops := append([]func(c *Case){}, s.ops...)
				ops = append(ops, func(c *Case) {
					c.N(9).N(2).N(len(lst))
					for _, l := range lst {
						c.N(l[0]).N(l[1]).N(l[2]).N(l[3]).N(l[4])
					}
					c.N(code)
				})
				if e2 == nil {
					for round := 0; round < 2; round++ {
						for mode := 0; mode < 3; mode++ {
							ops = append(ops, s.searchOn(st2, mode))
						}
					}
					// which segments the store now holds as loaded indexes (a damaged one must not be among them)
					ids2, cached2 := st2.VerifSegmentIDs()
					nm := st2.VerifMemtableCount()
					ops = append(ops, func(c *Case) {
						c.N(10).N(len(ids2))
						for i := range ids2 {
							c.U(ids2[i]).B(cached2[i])
						}
						c.N(nm)
					})
					st2.Close()
				}
				c.N(len(ops))
				for _, f := range ops {
					f(c)
				}
				kind := segFileRe.FindStringSubmatch(name)[1]
				cl := "truncated"
				if cut < 0 {
					cl = "missing"
				} else if cut < 10 {
					cl = "empty_or_short"
				}
				t.Emit(c, "segment."+kind+"."+cl)
				os.RemoveAll(idir)
			}
		}
		os.RemoveAll(dir)
		comet.VerifSetHandler(nil)
	}
}

// gunzipLen returns how many decompressed bytes can be read from b before an error or EOF.
func gunzipLen(b []byte) int {
	zr, err := gzip.NewReader(bytes.NewReader(b))
	if err != nil {
		return -1
	}
	n := 0
	buf := make([]byte, 4096)
	for {
		k, err := zr.Read(buf)
		n += k
		if err != nil {
			if err == io.EOF {
				return n
			}
			return n
		}
	}
}
