package main

import (
	"bytes"
	"math"
	"math/rand"
	"sort"
	"strings"

	comet "github.com/wizenheimer/comet"
)

func init() {
	generators["C05"] = genC05
	generators["C06"] = genC06
}

func errCodeHybrid(err error) int {
	if err == nil {
		return 0
	}
	msg := err.Error()
	switch {
	case strings.Contains(msg, "index configured"):
		return 10
	case strings.Contains(msg, "metadata search failed"):
		return 11
	case strings.Contains(msg, "unsupported type"):
		return 6
	}
	return errCode(err)
}

var seenAutoIDs = map[uint32]bool{}
var maxAutoID uint32

type hybridOpts struct {
	nops       int
	allowReuse bool
	allowBad   bool
	nearTie    bool // many documents with one text and different vectors, searched with a fusion whose vector
	// weight is tiny: fused scores that differ far below single precision are still ordered by score
}

func lnTableFor(ix *comet.BM25SearchIndex, texts []string) map[uint64]uint64 {
	st := comet.VerifBM25Snapshot(ix)
	lnT := map[uint64]uint64{}
	N := float64(st.NumDocs)
	for _, text := range texts {
		for _, tk := range specTokens(text) {
			if p, ok := st.Postings[tk]; ok {
				df := float64(len(p))
				x := (N-df+0.5)/(df+0.5) + 1.0
				lnT[math.Float64bits(x)] = math.Float64bits(math.Log(x))
			}
		}
	}
	return lnT
}

func encLn(c *Case, lnT map[uint64]uint64) {
	keys := make([]uint64, 0, len(lnT))
	for x := range lnT {
		keys = append(keys, x)
	}
	sort.Slice(keys, func(i, j int) bool { return keys[i] < keys[j] })
	c.N(len(keys))
	for _, x := range keys {
		c.U(x).U(lnT[x])
	}
}

func runHybridHistory(r *rand.Rand, o hybridOpts, t *Trace) *Case {
	hasV, hasT, hasM := r.Intn(6) != 0, r.Intn(5) != 0, r.Intn(5) != 0
	kind := []int{0, 0, 0, 1, 1, 1, 2, 3}[r.Intn(8)]
	if o.nearTie {
		hasV, hasT, kind = true, true, 0
	}
	p, ntrain := rndParams(r, kind, false)
	if kind == 1 && r.Intn(2) == 0 {
		// enough cells that "one probe" and the sub-index's own default (sqrt(nlist)) differ
		p.nlist = 4 + r.Intn(6)
		ntrain = p.nlist + r.Intn(3*p.nlist+4)
	}
	if kind == 3 && r.Intn(3) == 0 {
		p.nlist = 4
		ntrain = 40 + r.Intn(10)
		if ntrain < (1 << p.nbits) {
			ntrain = (1 << p.nbits) + r.Intn(5)
		}
	}
	var vidx comet.VectorIndex
	var tidx *comet.BM25SearchIndex
	var midx *comet.RoaringMetadataIndex
	var vI comet.VectorIndex
	var tI comet.TextIndex
	var mI comet.MetadataIndex
	if hasV {
		vidx, _ = p.build()
		vI = vidx
	}
	if hasT {
		tidx = comet.NewBM25SearchIndex()
		tI = tidx
	}
	if hasM {
		midx = comet.NewRoaringMetadataIndex()
		mI = midx
	}
	h := comet.NewHybridSearchIndex(vI, tI, mI)
	in := &interner{m: map[string]int{}}
	c := NewCase(500).B(hasV)
	p.header(c)
	c.B(hasT).B(hasM)
	var ops []func(c *Case)
	style := r.Intn(2)
	dist, _ := comet.NewDistance(metrics[p.metric])
	type docRec struct {
		id  uint32
		vec []float32
	}
	var docs []docRec
	gone := []uint32{}
	topID := ^uint32(0)
	nextID := uint32(1000001) // explicit ids stay clear of the process-wide counter behind automatically generated ids
	train := func() {
		vs := make([][]float32, ntrain)
		for i := range vs {
			vs[i] = histVec(r, p.dim, style)
		}
		cp := make([][]float32, len(vs))
		for i := range vs {
			cp[i] = cloneVec(vs[i])
		}
		var e error
		pan := catchPanic(func() { e = h.Train(cp) })
		code := errCodeHybrid(e)
		if pan {
			code = 12
		}
		ops = append(ops, func(c *Case) { c.N(5).Vecs(vs).N(code) })
	}
	if hasV && kind != 0 && r.Intn(8) != 0 {
		train()
	}
	var removeNext *uint32 // the id the next operation removes (the id of an add that was just refused)
	twinText := ""         // the text of the last document added with one
	var heldRun func()     // a search builder kept across the history
	for step := 0; step < o.nops; step++ {
		if heldRun != nil && r.Intn(5) == 0 {
			heldRun()
		}
		x := r.Intn(100)
		if removeNext != nil {
			x = 40 // a refused add is followed by a Remove of that very id: there is nothing to remove
		}
		switch {
		case x < 34: // add
			var vec []float32
			if r.Intn(5) != 0 {
				dim := p.dim
				if r.Intn(15) == 0 {
					dim++
					t.Stat("hyb.add_wrong_dim")
				}
				vec = histVec(r, dim, style)
				if r.Intn(20) == 0 {
					for i := range vec {
						vec[i] = 0
					}
					t.Stat("hyb.add_zero_vector")
				}
			}
			text := ""
			if r.Intn(4) != 0 {
				text = bmText(r)
				if twinText != "" && r.Intn(4) == 0 {
					text = twinText // the very text of the previous document: equal text scores, different vectors
					t.Stat("hyb.add_twin_text")
				}
				twinText = text
				if o.nearTie && r.Intn(4) != 0 {
					text = "alpha beta"
				}
			}
			var md map[string]interface{}
			if r.Intn(4) != 0 {
				md = metaDoc(r, o.allowBad)
			}
			raw := cloneVec(vec)
			var toks []int
			if text != "" {
				toks = in.toks(text)
			}
			keys := make([]string, 0, len(md))
			for k := range md {
				keys = append(keys, k)
			}
			sort.Strings(keys)
			auto := r.Intn(4) == 0
			var id uint32
			var e error
			dup := false
			autoBackwards := false
			reused := false
			if auto {
				id, e = h.Add(vec, text, md)
				if e == nil {
					if seenAutoIDs[id] {
						dup = true
					}
					seenAutoIDs[id] = true
					if id <= maxAutoID {
						// the generator of ids went backwards: every id below its high-water mark has been
						// handed out before (to some caller), so this is reported as a departure from the
						// model of the generator even when this harness did not itself see the earlier use
						autoBackwards = true
					} else {
						maxAutoID = id
					}
				}
				t.Stat("hyb.add_auto_id")
			} else {
				id = nextID
				nextID++
				if r.Intn(10) == 0 {
					// the caller's ids may sit anywhere in the id range, the very top included; they are the
					// caller's business and must not disturb the ids Add generates afterwards
					id = topID
					topID--
					nextID--
					t.Stat("hyb.add_explicit_id_at_top_of_range")
				} else if o.allowReuse && len(gone) > 0 && r.Intn(2) == 0 {
					gi := r.Intn(len(gone))
					id = gone[gi]
					gone = append(gone[:gi], gone[gi+1:]...)
					reused = true
					nextID--
					t.Stat("hyb.add_reuse_removed_id")
				}
				e = h.AddWithID(id, vec, text, md)
			}
			code := errCodeHybrid(e)
			ops = append(ops, func(c *Case) {
				c.N(1).U(uint64(id)).Vec(raw)
				if text != "" {
					c.N(1).Ints(toks)
				} else {
					c.N(0)
				}
				c.N(len(keys))
				for _, k := range keys {
					c.Str(k)
					encValue(c, md[k])
				}
				dupCode := 0
				if dup {
					dupCode = 1
				} else if autoBackwards {
					dupCode = 2
				}
				c.N(code).N(dupCode)
			})
			if code == 0 {
				docs = append(docs, docRec{id, raw})
				t.Stat("hyb.add_ok")
			} else {
				if reused {
					gone = append(gone, id)
				}
				t.Stat("hyb.add_error")
				if !auto && r.Intn(2) == 0 {
					rid := id
					removeNext = &rid
				}
			}
		case x < 46: // remove
			var id uint32
			switch {
			case len(docs) > 0 && r.Intn(10) < 7:
				i := r.Intn(len(docs))
				id = docs[i].id
			case len(gone) > 0 && r.Intn(2) == 0:
				id = gone[r.Intn(len(gone))]
			default:
				id = uint32(9000 + r.Intn(3))
			}
			if removeNext != nil {
				id, removeNext = *removeNext, nil
				t.Stat("hyb.remove_after_refused_add")
			}
			e := h.Remove(id)
			code := errCodeHybrid(e)
			if code == 0 {
				kept := docs[:0]
				for _, d := range docs {
					if d.id != id {
						kept = append(kept, d)
					}
				}
				docs = kept
				gone = append(gone, id)
				t.Stat("hyb.remove_ok")
			} else {
				t.Stat("hyb.remove_error")
			}
			ops = append(ops, func(c *Case) { c.N(2).U(uint64(id)).N(code) })
		case x < 53:
			h.Flush()
			ops = append(ops, func(c *Case) { c.N(3) })
			t.Stat("hyb.flush")
		case x < 55 && hasV && kind != 0:
			train()
		case x < 64: // probes of the underlying indexes on their own
			switch r.Intn(3) {
			case 0:
				if hasV {
					q := histVec(r, p.dim, style)
					k := []int{0, 1, 3, 50}[r.Intn(4)]
					res, e := vidx.NewSearch().WithQuery(cloneVec(q)).WithK(k).WithNProbes(p.nlist).Execute()
					code := errCode(e)
					ops = append(ops, func(c *Case) {
						c.N(8).Vecs([][]float32{q}).U32s(nil).U32s(nil).N(k).F32(0).N(0).N(-1).N(p.nlist)
						c.N(code).N(len(res))
						for _, x := range res {
							c.U(uint64(x.Node.ID())).F32(x.Score)
						}
					})
					t.Stat("hyb.probe_vector")
				}
			case 1:
				if hasT {
					q := bmText(r)
					k := []int{0, 1, 3, 50}[r.Intn(4)]
					lnT := lnTableFor(tidx, []string{q})
					res, e := tidx.NewSearch().WithQuery(q).WithK(k).Execute()
					code := errCode(e)
					qt := in.toks(q)
					ops = append(ops, func(c *Case) {
						c.N(9).N(1).Ints(qt).U32s(nil).N(0).U32s(nil).N(k).N(0).N(-1)
						encLn(c, lnT)
						c.N(code).N(len(res))
						for _, x := range res {
							c.U(uint64(x.Id)).F32(x.Score)
						}
					})
					t.Stat("hyb.probe_text")
				}
			default:
				if hasM {
					f := rndFilter(r)
					res, e := midx.NewSearch().WithFilters(f).Execute()
					ops = append(ops, func(c *Case) {
						c.N(10).N(1)
						encFilter(c, f)
						c.B(e != nil).U32s(idsOf(res))
					})
					t.Stat("hyb.probe_meta")
				}
			}
		default: // hybrid search
			var vq []float32
			if r.Intn(3) != 0 {
				dim := p.dim
				if r.Intn(25) == 0 {
					dim++
				}
				vq = histVec(r, dim, style)
				if len(docs) > 0 && r.Intn(4) == 0 && len(docs[0].vec) == p.dim {
					vq = cloneVec(docs[r.Intn(len(docs))].vec)
					if len(vq) != p.dim {
						vq = histVec(r, p.dim, style)
					}
				}
			}
			var tqs []string
			if r.Intn(3) != 0 {
				for i := 0; i < 1+r.Intn(2); i++ {
					tqs = append(tqs, bmText(r))
				}
				if twinText != "" && r.Intn(4) == 0 {
					tqs = []string{twinText}
				}
			}
			var fs []comet.Filter
			var gs []*comet.FilterGroup
			switch r.Intn(5) {
			case 0, 1:
				for i := 0; i < 1+r.Intn(2); i++ {
					fs = append(fs, rndFilter(r))
				}
			case 2:
				g := &comet.FilterGroup{Logic: comet.OR, Filters: []comet.Filter{rndFilter(r), rndFilter(r)}}
				gs = append(gs, g)
			}
			k := []int{1, 2, 3, 5, 10, 50}[r.Intn(6)]
			thr := float32(0)
			switch r.Intn(6) {
			case 0:
				thr = 1e-9 // empties the vector side unless an exact duplicate exists
			case 1:
				if len(docs) > 0 && len(vq) == p.dim && len(docs[0].vec) == p.dim {
					pq, e1 := dist.Preprocess(cloneVec(vq))
					d := docs[r.Intn(len(docs))]
					if len(d.vec) == p.dim {
						pv, e2 := dist.Preprocess(cloneVec(d.vec))
						if e1 == nil && e2 == nil {
							thr = dist.Calculate(pq, pv)
						}
					}
				}
			}
			aggz := r.Intn(3)
			aggs := []comet.ScoreAggregationKind{comet.SumAggregation, comet.MaxAggregation, comet.MeanAggregation}
			cutoff := -1
			if r.Intn(8) == 0 {
				cutoff = r.Intn(3)
			}
			np := []int{-1, 0, 1, 1, 1, 2, p.nlist, p.nlist + 1}[r.Intn(8)]
			fk := r.Intn(4)
			cfg := &comet.FusionConfig{VectorWeight: 1, TextWeight: 1, K: 60}
			if r.Intn(2) == 0 {
				cfg = &comet.FusionConfig{VectorWeight: float64(r.Intn(5)) * 0.5, TextWeight: r.Float64() * 2, K: float64(1 + r.Intn(80))}
				if r.Intn(5) == 0 {
					// a weight so small that fused scores of documents with equal text scores differ far below
					// single precision: they are still different scores, and ordered as such
					cfg.VectorWeight, cfg.TextWeight = []float64{1e-9, 1e-12, 1e-7}[r.Intn(3)], 1
				}
				if r.Intn(5) == 0 {
					cfg.TextWeight = 0 // boundary: a modality switched off by weight still contributes its ids
				}
			}
			if r.Intn(3) == 0 {
				// the usual way to customise: take the default configuration and edit it -- the caller's copy is
				// the caller's, later searches that rely on the defaults still get 1 / 1 / 60
				base := comet.DefaultFusionConfig()
				base.VectorWeight, base.TextWeight, base.K = cfg.VectorWeight, cfg.TextWeight, cfg.K
				cfg = base
				t.Stat("hybrid.config_from_default")
			}
			if o.nearTie && r.Intn(3) != 0 {
				fk = 0
				cfg = &comet.FusionConfig{VectorWeight: []float64{1e-9, 1e-12, 1e-7}[r.Intn(3)], TextWeight: 1, K: 60}
				tqs = []string{"alpha beta"}
				if len(vq) == 0 {
					vq = histVec(r, p.dim, style)
				}
				thr, cutoff = 0, -1
				t.Stat("hyb.search_near_tie_fusion")
			}
			fu, _ := comet.NewFusion(fkinds[fk], cfg)
			s := h.NewSearch()
			// every option SETS its value: the same option given twice (a builder being re-configured)
			// leaves the last value only. A decoy value is sometimes set first.
			decoy := func() bool {
				if r.Intn(8) == 0 {
					t.Stat("hybrid.option_set_twice")
					return true
				}
				return false
			}
			if r.Intn(8) == 0 { // builder defaults: k 10, sum aggregation, no cutoff, no threshold, 1 probe
				k = 10
				t.Stat("hybrid.search_default_k")
			} else {
				if decoy() {
					s = s.WithK(k + 7)
				}
				s = s.WithK(k)
			}
			if !(thr == 0 && r.Intn(2) == 0) {
				if decoy() {
					s = s.WithThreshold(thr + 1)
				}
				s = s.WithThreshold(thr)
			}
			if !(aggz == 0 && r.Intn(2) == 0) {
				if decoy() {
					s = s.WithScoreAggregation(aggs[(aggz+1)%3])
				}
				s = s.WithScoreAggregation(aggs[aggz])
			}
			if !(cutoff == -1 && r.Intn(2) == 0) {
				if decoy() {
					s = s.WithCutoff(cutoff + 2)
				}
				s = s.WithCutoff(cutoff)
			}
			if !(np == 1 && r.Intn(2) == 0) {
				if decoy() {
					s = s.WithNProbes(np + 1)
				}
				s = s.WithNProbes(np)
			}
			defaultCfg := cfg.VectorWeight == 1 && cfg.TextWeight == 1 && cfg.K == 60
			other, _ := comet.NewFusion(fkinds[fk], &comet.FusionConfig{VectorWeight: 3, TextWeight: 0.5, K: 1})
			switch {
			case defaultCfg && r.Intn(3) == 0:
				if r.Intn(3) == 0 {
					s = s.WithFusion(other) // a custom fusion of the SAME kind first: selecting by kind means its default configuration
					t.Stat("hybrid.option_set_twice")
				}
				s = s.WithFusionKind(fkinds[fk]) // same strategy through the by-kind option (default configuration)
				t.Stat("hybrid.with_fusion_kind")
			case defaultCfg && fk == 0 && r.Intn(2) == 0:
				t.Stat("hybrid.default_fusion") // no fusion option at all: weighted sum 1/1 is the default
			default:
				if decoy() {
					if r.Intn(2) == 0 {
						s = s.WithFusion(other)
					} else {
						s = s.WithFusionKind(fkinds[(fk+1)%4])
					}
				}
				s = s.WithFusion(fu)
			}
			if len(vq) > 0 {
				if decoy() {
					s = s.WithVector(histVec(r, len(vq), style))
				}
				s = s.WithVector(cloneVec(vq))
			}
			if len(tqs) > 0 {
				if decoy() {
					s = s.WithText("decoy words", "alpha")
				}
				s = s.WithText(tqs...)
			}
			if hasM && decoy() {
				s = s.WithMetadata(comet.Eq("cat", "a"), comet.Exists("n"))
				if len(fs) == 0 {
					s = s.WithMetadata() // set to nothing again
				}
			}
			if len(fs) > 0 {
				s = s.WithMetadata(fs...)
			}
			if hasM && decoy() {
				s = s.WithMetadataGroups(&comet.FilterGroup{Logic: comet.AND, Filters: []comet.Filter{comet.Eq("cat", "zz")}})
				if len(gs) == 0 {
					s = s.WithMetadataGroups()
				}
			}
			if len(gs) > 0 {
				s = s.WithMetadataGroups(gs...)
			}
			// what depends on the index as it is now (the ln oracle, the answer) is computed when the
			// builder is executed: now, and again later in the history if the builder is kept
			run := func(first bool) (int, []comet.HybridSearchResult) {
				lnT := map[uint64]uint64{}
				if hasT {
					lnT = lnTableFor(tidx, tqs)
				}
				var res []comet.HybridSearchResult
				var e error
				if first && r.Intn(5) == 0 { // the builder is executed twice: the second answer is the one that is judged
					catchPanic(func() { s.Execute() })
					t.Stat("hybrid.search_builder_reused")
				}
				pan := catchPanic(func() { res, e = s.Execute() })
				code := errCodeHybrid(e)
				if pan {
					code = 12
				}
				tq := make([][]int, len(tqs))
				for i, q := range tqs {
					tq[i] = in.toks(q)
				}
				fs, gs, k, np := fs, gs, k, np // as they are at THIS execution (the builder may be re-configured later)
				ops = append(ops, func(c *Case) {
					c.N(4).Vec(vq).N(len(tq))
					for _, q := range tq {
						c.Ints(q)
					}
					c.N(len(fs))
					for _, f := range fs {
						encFilter(c, f)
					}
					c.N(len(gs))
					for _, g := range gs {
						c.B(g.Logic == comet.AND).N(len(g.Filters))
						for _, f := range g.Filters {
							encFilter(c, f)
						}
					}
					c.N(k).F32(thr).N(aggz).N(cutoff).N(np).N(fk).F64(cfg.VectorWeight).F64(cfg.TextWeight).F64(cfg.K)
					encLn(c, lnT)
					c.N(code).N(len(res))
					for _, x := range res {
						c.U(uint64(x.ID)).F64(x.Score)
					}
				})
				return code, res
			}
			code, res := run(true)
			if code == 0 && r.Intn(4) == 0 {
				// the SAME builder re-configured and executed again: other (or no) filters, another k, another
				// number of probes, everything else as it was -- nothing of the first execution may linger
				if hasM {
					fs, gs = nil, nil
					switch r.Intn(3) {
					case 0:
						fs = append(fs, rndFilter(r))
					case 1:
						gs = append(gs, &comet.FilterGroup{Logic: comet.OR, Filters: []comet.Filter{rndFilter(r), rndFilter(r)}})
					}
					s = s.WithMetadata(fs...).WithMetadataGroups(gs...)
				}
				k = []int{1, 2, 3, 5, 10, 50}[r.Intn(6)]
				np = []int{0, 1, 2, p.nlist}[r.Intn(4)]
				s = s.WithK(k).WithNProbes(np)
				run(false)
				t.Stat("hybrid.search_builder_reconfigured")
			}
			if r.Intn(6) == 0 {
				heldRun = func() { run(false); t.Stat("hybrid.search_builder_kept_across_history") }
			}
			t.Stat("hyb.search")
			switch {
			case code != 0:
				t.Stat("hyb.search_error")
			case len(vq) > 0 && len(tqs) > 0:
				t.Stat("hyb.search_vector_and_text." + string(fkinds[fk]))
			case len(vq) > 0:
				t.Stat("hyb.search_vector_only")
			case len(tqs) > 0:
				t.Stat("hyb.search_text_only")
			default:
				t.Stat("hyb.search_metadata_only")
			}
			if code == 0 && len(res) == 0 && (len(fs) > 0 || len(gs) > 0) {
				t.Stat("hyb.search_filter_empty")
			}
		}
	}
	c.N(len(ops))
	for _, f := range ops {
		f(c)
	}
	return c
}

func genC05(r *rand.Rand, t *Trace, thorough bool) {
	n := 150
	if thorough {
		n = 2500
	}
	for it := 0; it < n; it++ {
		t.Emit(runHybridHistory(r, hybridOpts{nops: 10 + r.Intn(35), nearTie: it%10 == 9}, t))
	}
	for it := 0; it < 6+n/25; it++ {
		runHybridHNSWDiff(r, t)
	}
}

func genC06(r *rand.Rand, t *Trace, thorough bool) {
	n := 120
	nv := 20
	if thorough {
		n, nv = 2000, 300
	}
	// hybrid: failing adds in every position, removal of unknown ids, id re-use with flushes
	for it := 0; it < n; it++ {
		t.Emit(runHybridHistory(r, hybridOpts{nops: 12 + r.Intn(35), allowReuse: true, allowBad: true}, t), "c06.hybrid")
	}
	// each underlying index on its own, with id re-use after removal
	for kind := 0; kind < 4; kind++ {
		for it := 0; it < nv; it++ {
			p, ntrain := rndParams(r, kind, thorough)
			t.Emit(runVecHistory(r, p, vecHistOpts{nops: 12 + r.Intn(30), trainFirst: true, ntrain: ntrain, allowReuse: true}, t), "c06.vector."+kindNames[kind])
		}
	}
	// the HNSW kind: histories with id re-use after removal (also of every vertex at once), and the
	// hybrid index over HNSW against the hybrid index over a flat index with updates
	for it := 0; it < nv; it++ {
		p := rndHNSWParams(r)
		t.Emit(runHNSWHistory(r, p, hnswOpts{nops: 10 + r.Intn(35), allowReuse: true, adversary: it%2 == 0}, t), "c06.vector.hnsw")
	}
	for it := 0; it < 4+nv/5; it++ {
		runHybridHNSWDiff(r, t)
	}
	for it := 0; it < 2*nv; it++ {
		t.Emit(runBM25History(r, 10+r.Intn(35), true, t), "c06.bm25")
	}
	for it := 0; it < 2*nv; it++ {
		t.Emit(runMetaHistory(r, 10+r.Intn(35), true, true, t), "c06.metadata")
	}
}

// runHybridHNSWDiff: one history applied to a hybrid index over HNSW (exact regime: M=64, at most 100
// vectors, ef 500) and to a hybrid index over a flat index; every search that leaves ef alone (or sets
// it high) must answer identically. Searches with a tiny WithEfSearch are issued too, uncompared: an
// option of one search must not leak into the index.
func runHybridHNSWDiff(r *rand.Rand, t *Trace) {
	dim := 2 + r.Intn(3)
	mz := r.Intn(3)
	mk := func(hnsw bool) comet.HybridSearchIndex {
		var v comet.VectorIndex
		if hnsw {
			v, _ = comet.NewHNSWIndex(dim, metrics[mz], 64, 500, 500)
		} else {
			v, _ = comet.NewFlatIndex(dim, metrics[mz])
		}
		return comet.NewHybridSearchIndex(v, comet.NewBM25SearchIndex(), comet.NewRoaringMetadataIndex())
	}
	a, b := mk(true), mk(false)
	style := r.Intn(2)
	var live, gone []uint32
	next := uint32(2000001)
	n, diffs := 0, 0
	search := func(x comet.HybridSearchIndex, q []float32, txt string, ef int, withMeta bool) string {
		s := x.NewSearch().WithK(1 << 20).WithVector(cloneVec(q))
		if txt != "" {
			s = s.WithText(txt)
		}
		if withMeta {
			s = s.WithMetadata(comet.Exists("cat"))
		}
		if ef != 0 {
			s = s.WithEfSearch(ef)
		}
		res, err := s.Execute()
		return fingerprintHyb(res, err)
	}
	compare := func(x, y comet.HybridSearchIndex) (int, int) {
		cn, cd := 0, 0
		for i := 0; i < 6; i++ {
			q := histVec(r, dim, style)
			if mz == 2 {
				q[0] += 3 // keep cosine queries away from the zero vector
			}
			txt := ""
			if i%2 == 1 {
				txt = bmText(r)
			}
			ef := []int{0, 0, 500, 1000}[r.Intn(4)]
			if r.Intn(3) == 0 {
				search(x, q, txt, 1+r.Intn(2), false) // a tiny ef for THIS search only
			}
			fa, fb := search(x, q, txt, ef, i%3 == 2), search(y, q, txt, ef, i%3 == 2)
			cn++
			if fa != fb {
				cd++
			}
		}
		return cn, cd
	}
	for step := 0; step < 25+r.Intn(25); step++ {
		switch x := r.Intn(10); {
		case x < 5 && len(live) < 100:
			v := histVec(r, dim, style)
			if mz == 2 {
				v[0] += 3
			}
			txt := bmText(r)
			md := metaDoc(r, false)
			ea := a.AddWithID(next, cloneVec(v), txt, md)
			eb := b.AddWithID(next, cloneVec(v), txt, md)
			if (ea == nil) != (eb == nil) {
				diffs++
			}
			if ea == nil {
				live = append(live, next)
			}
			next++
		case x < 7 && len(live) > 0:
			j := r.Intn(len(live))
			victims := []uint32{live[j]}
			if r.Intn(6) == 0 {
				victims = append([]uint32(nil), live...) // everything at once
			}
			for _, id := range victims {
				ea, eb := a.Remove(id), b.Remove(id)
				if (ea == nil) != (eb == nil) {
					diffs++
				}
				gone = append(gone, id)
			}
			if len(victims) == 1 {
				live = append(live[:j], live[j+1:]...)
			} else {
				live = live[:0]
			}
			if r.Intn(2) == 0 && len(gone) > 0 {
				// update = remove + add of the same id with new content (no flush in between)
				id := gone[len(gone)-1]
				gone = gone[:len(gone)-1]
				v := histVec(r, dim, style)
				if mz == 2 {
					v[0] += 3
				}
				txt := bmText(r)
				ea := a.AddWithID(id, cloneVec(v), txt, nil)
				eb := b.AddWithID(id, cloneVec(v), txt, nil)
				if (ea == nil) != (eb == nil) {
					diffs++
				}
				if ea == nil {
					live = append(live, id)
				}
				cn, cd := compare(a, b)
				n += cn
				diffs += cd
			}
		default:
			cn, cd := compare(a, b)
			n += cn
			diffs += cd
		}
	}
	// reload the HNSW hybrid into a fresh one with the same parameters and ask again
	reload, rdiffs := 0, 0
	var hb, vb, tb, mb bytes.Buffer
	if err := a.WriteTo(&hb, &vb, &tb, &mb); err != nil {
		reload = 1
	} else {
		fresh := mk(true)
		var all bytes.Buffer
		all.Write(hb.Bytes())
		all.Write(vb.Bytes())
		all.Write(tb.Bytes())
		all.Write(mb.Bytes())
		if _, err := fresh.ReadFrom(&all); err != nil {
			reload = 2
		} else {
			b.Flush() // WriteTo flushed the source: the reference follows
			cn, cd := compare(fresh, b)
			n += cn
			rdiffs = cd
		}
	}
	t.Emit(NewCase(501).N(n).N(diffs).N(reload).N(rdiffs), "hybrid.over_hnsw_vs_flat")
}
