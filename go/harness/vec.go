package main

import (
	"bytes"
	"errors"
	"io"
	"math"
	"math/rand"
	"sort"
	"strings"

	comet "github.com/wizenheimer/comet"
)

// error enum shared with coq/Model/VecIndex.v
func errCode(err error) int {
	if err == nil {
		return 0
	}
	msg := err.Error()
	switch {
	case errors.Is(err, comet.ErrZeroVector):
		return 2
	case strings.Contains(msg, "dimension mismatch"):
		return 1
	case strings.Contains(msg, "already deleted"):
		return 4
	case strings.Contains(msg, "not found"):
		return 3
	case strings.Contains(msg, "must be trained"), strings.Contains(msg, "not trained"):
		return 5
	case strings.Contains(msg, "need at least"):
		return 6
	case strings.Contains(msg, "k-means"):
		return 7
	case strings.Contains(msg, "must specify either"):
		return 8
	}
	return 99
}

type vecParams struct {
	kind   int // 0 flat 1 ivf 2 pq 3 ivfpq
	dim    int
	metric int
	nlist  int
	m      int
	nbits  int
}

func (p vecParams) build() (comet.VectorIndex, error) {
	switch p.kind {
	case 0:
		return comet.NewFlatIndex(p.dim, metrics[p.metric])
	case 1:
		return comet.NewIVFIndex(p.dim, p.nlist, metrics[p.metric])
	case 2:
		return comet.NewPQIndex(p.dim, metrics[p.metric], p.m, p.nbits)
	default:
		return comet.NewIVFPQIndex(p.dim, metrics[p.metric], p.nlist, p.m, p.nbits)
	}
}

func (p vecParams) header(c *Case) *Case {
	return c.N(p.kind).N(p.dim).N(p.metric).N(p.nlist).N(p.m).N(p.nbits)
}

var coordPool = []float32{0, 1, -1, 2, 0.5, -0.5, 3, 1.5, 0.25, -2, 1e-3, 10}

// fineStep: the spacing of the near-duplicates of style 3 (set per history: 2^-13, 2^-20 or 2^-23, so that
// Euclidean, squared and cosine distances between neighbours all fall below 1e-6 in some histories)
var fineStep float32 = 1.0 / 8192

func histVec(r *rand.Rand, dim int, style int) []float32 {
	v := make([]float32, dim)
	for i := range v {
		switch style {
		case 0: // small pool: duplicates and exact ties are frequent
			v[i] = coordPool[r.Intn(len(coordPool))]
		case 1:
			v[i] = float32(r.NormFloat64())
		case 5: // magnitudes whose squared differences leave the float32 range: such distances are +Inf, still distances
			v[i] = []float32{1e19, -2e19, 3e19, 1, 0, -1, 1e20, 2}[r.Intn(8)]
		case 4: // clusters of very different radius along the first axis (a tight one, a wide one, a medium one)
			if i == 0 {
				c := r.Intn(3)
				v[i] = float32(c*10) + []float32{0.05, 3, 1}[c]*float32(r.NormFloat64())
			} else {
				v[i] = 0.1 * float32(r.NormFloat64())
			}
		case 3: // fine scale: near-duplicates of the pool values, a few 1e-4 apart (distances far below 1e-6 that are NOT ties)
			v[i] = coordPool[r.Intn(len(coordPool))] + float32(r.Intn(5)-2)*fineStep
		default:
			v[i] = rndF32(r)
		}
	}
	return v
}

type vecHistOpts struct {
	serialize        bool // insert WriteTo / reload-into-fresh-index ops (C07)
	nops             int
	allowReuse       bool // re-add ids after removal (C06)
	allowDup         bool // add an id that is still live (outside the documented contract "ID: unique identifier"; the index stores a second entry)
	trainFirst       bool
	ntrain           int
	gauss            bool
	fine             bool // near-duplicate coordinates (style 3 of histVec)
	radii            bool // clusters of very different radius (style 4)
	forceStyle       int  // > 0: that style of histVec; < 0: style 0 (small pool, exact ties)
	dumpBeforeSearch bool // every search is preceded by a dump of the index: the probe oracles always have the
	// implementation's own centroids and lists to judge the answer by
	tailPattern bool // once, past the middle of the history: flush, remove the first two and the last-but-one of the
	// stored vectors, flush again, search (a compaction that moves entries instead of copying them in
	// order must not bring a removed one back)
	nearMirror bool // with mirror: most on-plane queries are moved a few ulps off the plane (near ties, not ties)
	mirror     bool // training sets, stored vectors and queries symmetric about the first axis: centroids come in
	// mirror pairs, and a query with first coordinate 0 is exactly as far from one as from the other
}

type liveVec struct {
	id  uint32
	raw []float32
}

// runVecHistory generates and runs one history; returns the encoded case and strata.
func runVecHistory(r *rand.Rand, p vecParams, o vecHistOpts, t *Trace) *Case {
	idx, err := p.build()
	if err != nil {
		panic(err)
	}
	c := p.header(NewCase(200))
	var ops []func(c *Case)
	style := r.Intn(3)
	if o.fine {
		style = 3
		fineStep = []float32{1.0 / 8192, 1.0 / (1 << 20), 1.0 / (1 << 23)}[r.Intn(3)]
	}
	if o.radii {
		style = 4
	}
	if o.forceStyle > 0 {
		style = o.forceStyle
	} else if o.forceStyle < 0 {
		style = 0
	}
	if o.gauss {
		style = 1
	}
	dist, _ := comet.NewDistance(metrics[p.metric])
	var resident []liveVec // ids ever added successfully (and still resident or removed)
	removed := map[uint32]bool{}
	var vscript []int     // forced next operations (values of x)
	var vremoveQ []uint32 // targets of the scripted removals, in order
	patternDone := false
	var vremove uint32  // the id the next remove takes
	nextID := uint32(1) // counts the adds; the id handed to the index is idOf(nextID)
	// ids are the caller's: ascending, descending, or in no order at all (storage order is insertion order,
	// not id order -- nothing may rely on ids growing)
	idMode := r.Intn(4)
	idOf := func(n uint32) uint32 {
		switch idMode {
		case 1:
			return 5000 - n
		case 2:
			return (n*7919)%10007 + 1
		}
		return n
	}
	mirrorA := float32(1 + r.Intn(3))
	emitTrain := func(n int) {
		vs := make([][]float32, n)
		nodes := make([]comet.VectorNode, n)
		dupBase := histVec(r, p.dim, style)
		for i := range vs {
			if r.Intn(4) == 0 {
				vs[i] = cloneVec(dupBase) // duplicates => empty clusters / equal centroids
			} else {
				vs[i] = histVec(r, p.dim, style)
			}
			if o.mirror {
				if i%2 == 1 {
					vs[i] = cloneVec(vs[i-1])
					vs[i][0] = -vs[i][0]
				} else {
					vs[i][0] = mirrorA
				}
			}
			nodes[i] = *comet.NewVectorNodeWithID(uint32(1000+i), cloneVec(vs[i]))
		}
		var e error
		pan := catchPanic(func() { e = idx.Train(nodes) })
		code := errCode(e)
		if pan {
			code = 12
		}
		ops = append(ops, func(c *Case) { c.N(5).Vecs(vs).N(code) })
		t.Stat("vec.train")
		if code != 0 {
			t.Stat("vec.train_error")
		}
	}
	emitDump := func() {
		st := comet.VerifSnapshot(idx)
		dsub := 1
		if p.m > 0 {
			dsub = p.dim / p.m
		}
		ops = append(ops, func(c *Case) {
			c.N(6).B(st.Trained).Vecs(st.Centroids)
			c.N(len(st.Codebooks))
			for _, b := range st.Codebooks {
				n := len(b) / dsub
				c.N(n)
				for k := 0; k < n; k++ {
					c.Vec(b[k*dsub : (k+1)*dsub])
				}
			}
			c.N(len(st.Lists))
			for _, l := range st.Lists {
				c.N(len(l))
				for _, e := range l {
					c.U(uint64(e.ID)).Vec(e.Vector).Bytes(e.Code)
				}
			}
			c.U32s(st.Deleted)
		})
		t.Stat("vec.dump")
	}
	if o.trainFirst && p.kind != 0 {
		emitTrain(o.ntrain)
		emitDump()
	}
	emptyBM := emptyBitmapBytes()
	// a builder kept across the history: a search object holds a query, not a snapshot of the index, so
	// executing it again after adds / removals must answer for the index as it is then
	var held comet.VectorSearch
	var heldEmit func(code int, res []comet.VectorResult) func(c *Case)
	for step := 0; step < o.nops; step++ {
		if held != nil && r.Intn(5) == 0 {
			var hres []comet.VectorResult
			var herr error
			hpan := catchPanic(func() { hres, herr = held.Execute() })
			hcode := errCode(herr)
			if hpan {
				hcode = 12
			}
			ops = append(ops, heldEmit(hcode, hres))
			t.Stat("vec.search_builder_kept_across_history")
		}
		if step == o.nops-1 || r.Intn(3) == 0 {
			emitDump()
		}
		if o.serialize && (step == o.nops/2 || r.Intn(12) == 0) {
			if p.kind == 1 && len(resident) > 0 && r.Intn(2) == 0 {
				// the index is trained again over the vectors it holds: they stay in the lists they are in,
				// under new centroids -- and that, not a re-filing, is what gets written and read back
				emitTrain(o.ntrain)
				emitDump()
				t.Stat("vec.retrain_before_write")
			}
			// the law of a reload, between two answers of the implementation: what a probe query finds
			// before the index is written is what it finds in the index read back (all eligible hits, k = all)
			probeNP := 1 + r.Intn(p.nlist) // the lists are part of what is written: fewer probes see the same, too
			probe := func(ix comet.VectorIndex) ([][2]uint64, int) {
				if !ix.Trained() || len(resident) == 0 {
					return nil, -1
				}
				q := cloneVec(resident[len(resident)/2].raw)
				var res []comet.VectorResult
				var pe error
				if catchPanic(func() { res, pe = ix.NewSearch().WithQuery(q).WithK(0).WithNProbes(probeNP).Execute() }) {
					return nil, 12
				}
				out := make([][2]uint64, len(res))
				for i, x := range res {
					out[i] = [2]uint64{uint64(x.Node.ID()), bits32(x.Score)}
				}
				return out, errCode(pe)
			}
			before, bcode := probe(idx)
			var buf bytes.Buffer
			n, e := idx.WriteTo(&buf)
			if e != nil {
				panic(e)
			}
			stream := append([]byte(nil), buf.Bytes()...)
			ops = append(ops, func(c *Case) { c.N(7).Bytes(emptyBM).Bytes(stream).I(n) })
			t.Stat("vec.write")
			// soft-deleted ids are gone from the source after WriteTo (it flushes)
			fresh, _ := p.build()
			cr := &countingReader{r: bytes.NewReader(append(append([]byte(nil), stream...), 0xAA, 0xBB))}
			rn, re := fresh.ReadFrom(cr)
			code := 0
			if re != nil {
				code = 1
			}
			ops = append(ops, func(c *Case) { c.N(8).Bytes(stream).N(code).I(rn) })
			t.Stat("vec.reload")
			if re == nil {
				if after, acode := probe(fresh); bcode == 0 && acode >= 0 {
					ops = append(ops, func(c *Case) { c.N(9).Pairs(before).N(acode).Pairs(after) })
					t.Stat("vec.reload_law")
				}
				idx = fresh // continuation history runs on the reloaded index
				held = nil
				kept := resident[:0]
				for _, lv := range resident {
					if !removed[lv.id] {
						kept = append(kept, lv)
					}
				}
				resident = kept
				removed = map[uint32]bool{}
			}
			emitDump()
		}
		if o.tailPattern && !patternDone && len(vscript) == 0 && step >= o.nops/2 {
			var liveIDs []uint32
			for _, lv := range resident {
				if !removed[lv.id] {
					liveIDs = append(liveIDs, lv.id)
				}
			}
			if n := len(liveIDs); n >= 5 {
				patternDone = true
				vscript = []int{55, 45, 45, 45, 55, 99, 99}
				vremoveQ = []uint32{liveIDs[0], liveIDs[1], liveIDs[n-2]}
				t.Stat("vec.tail_pattern")
			}
		}
		x := r.Intn(100)
		if len(vscript) > 0 { // the follow-up of an id added while live: remove it, flush, look
			x, vscript = vscript[0], vscript[1:]
		}
		if o.nearMirror && len(resident) < 6 && x >= 38 && x < 62 {
			x = 0 // fill the index first: a near tie needs vectors on both sides
		}
		if o.radii && len(resident) < 10 && x >= 38 && x < 62 {
			x = 0 // every cluster should have members before the searches start
		}
		switch {
		case x < 38: // add
			id := idOf(nextID)
			nextID++
			if o.allowReuse && len(removed) > 0 && r.Intn(2) == 0 {
				// update = remove + add: re-use an id whose removal succeeded (flushed or not)
				ids := make([]int, 0, len(removed))
				for rid := range removed {
					ids = append(ids, int(rid))
				}
				sort.Ints(ids)
				id = uint32(ids[r.Intn(len(ids))])
				nextID--
				t.Stat("vec.add_reuse_removed_id")
			}
			if o.allowDup && len(resident) > 0 && r.Intn(8) == 0 {
				cand := resident[r.Intn(len(resident))].id
				if !removed[cand] {
					if id == idOf(nextID-1) {
						nextID--
					}
					id = cand
					t.Stat("vec.add_id_that_is_live")
					if r.Intn(2) == 0 {
						// both entries go with one Remove, and stay gone through a Flush (wherever they are stored)
						vremove, vscript = id, []int{45, 55, 99}
					}
				}
			}
			dim := p.dim
			// a failing add (wrong dimension) is made more likely when a removed id is re-used: a failed
			// update must leave the id removed
			if r.Intn(25) == 0 || (o.allowReuse && removed[id] && r.Intn(4) == 0) {
				dim = p.dim + 1 - 2*r.Intn(2)
				if dim <= 0 {
					dim = p.dim + 1
				}
				t.Stat("vec.add_wrong_dim")
			}
			v := histVec(r, dim, style)
			if o.radii && step%4 == 1 {
				v[0] = 5.5 + 2*float32(r.Float64()) // an outlying member of the wide cluster, on the tight one's side
				t.Stat("vec.add_outlier_of_wide_cluster")
			}
			if o.mirror {
				v[0] = []float32{mirrorA, -mirrorA}[r.Intn(2)]
			}
			if len(resident) > 0 && r.Intn(6) == 0 && dim == p.dim {
				v = cloneVec(resident[r.Intn(len(resident))].raw) // exact duplicate vector
				t.Stat("vec.add_duplicate_vector")
			}
			if r.Intn(25) == 0 {
				for i := range v {
					v[i] = 0
				}
				t.Stat("vec.add_zero_vector")
			}
			raw := cloneVec(v)
			var e error
			apan := catchPanic(func() { e = idx.Add(*comet.NewVectorNodeWithID(id, v)) })
			code := errCode(e)
			if apan {
				code = 12
			}
			ops = append(ops, func(c *Case) { c.N(1).U(uint64(id)).Vec(raw).N(code) })
			if code == 0 {
				resident = append(resident, liveVec{id, raw})
				delete(removed, id)
				t.Stat("vec.add_ok")
			} else {
				t.Stat("vec.add_error")
			}
		case x < 52: // remove
			var id uint32
			switch {
			case len(resident) > 0 && r.Intn(10) < 8:
				id = resident[r.Intn(len(resident))].id
			default:
				id = uint32(500 + r.Intn(5))
			}
			if vremove != 0 {
				id, vremove = vremove, 0
			} else if len(vremoveQ) > 0 {
				id, vremoveQ = vremoveQ[0], vremoveQ[1:]
			}
			var e error
			rpan := catchPanic(func() { e = idx.Remove(*comet.NewVectorNodeWithID(id, nil)) })
			code := errCode(e)
			if rpan {
				code = 12
			}
			ops = append(ops, func(c *Case) { c.N(2).U(uint64(id)).N(code) })
			if code == 0 {
				removed[id] = true
				t.Stat("vec.remove_ok")
			} else {
				t.Stat("vec.remove_error")
			}
		case x < 60: // flush
			if e := idx.Flush(); e != nil {
				panic(e)
			}
			ops = append(ops, func(c *Case) { c.N(3) })
			t.Stat("vec.flush")
		case x < 62 && p.kind != 0 && (!o.trainFirst || r.Intn(3) == 0): // train late / again (also over stored vectors)
			emitTrain(o.ntrain)
		default: // search
			if o.dumpBeforeSearch {
				emitDump()
			}
			nq := 1
			y := r.Intn(10)
			if y >= 7 && y < 9 {
				nq = 2 + r.Intn(3)
			} else if y == 9 {
				nq = 0
			}
			nudged, between := false, false
			qs := make([][]float32, nq)
			for i := range qs {
				dim := p.dim
				if r.Intn(30) == 0 {
					dim++
					t.Stat("vec.query_wrong_dim")
				}
				qs[i] = histVec(r, dim, style)
				if len(resident) > 0 && r.Intn(5) == 0 && dim == p.dim {
					qs[i] = cloneVec(resident[r.Intn(len(resident))].raw)
				}
				if o.radii && dim == p.dim && r.Intn(3) == 0 {
					// between two clusters: the nearest centroid is the tight cluster's, the nearest vector may well be
					// an outlying member of the wide one (no cell may be skipped because its centroid looks far)
					qs[i][0] = float32(2+6*r.Float64()) + 10*float32(r.Intn(2))
					if r.Intn(2) == 0 {
						qs[i][0] = 3.5 + 1.4*float32(r.Float64()) // just on the tight cluster's side of the midpoint
					}
					between = true
					t.Stat("vec.query_between_clusters")
				}
				if o.mirror && r.Intn(2) == 0 {
					qs[i][0] = 0 // on the mirror plane: equidistant from the two centroids of a pair
					if o.nearMirror && r.Intn(3) != 0 {
						// a few ulps off the plane: the two distances differ in their last bits only, and the
						// strictly nearer one must still win the cut
						qs[i][0] = float32(1+r.Intn(6)) * 1.2e-7 * float32(1-2*r.Intn(2))
						nudged = true
						t.Stat("vec.query_near_mirror_plane")
					}
				}
				if p.metric == 2 && r.Intn(3) == 0 {
					// cosine: a query far from unit length (the index must normalise it before ranking
					// centroids and scoring; raw dot products leave [-1,1] and get clamped)
					sc := []float32{8, 40, 0.05}[r.Intn(3)]
					for j := range qs[i] {
						qs[i][j] *= sc
					}
					t.Stat("vec.query_cosine_far_from_unit")
				} else if p.metric == 2 && r.Intn(4) == 0 {
					// cosine: a query whose length is close to, but not, one (a length "near enough" to one is
					// still normalised: the reported score is the distance of the directions)
					var n2 float64
					for _, x := range qs[i] {
						n2 += float64(x) * float64(x)
					}
					if n2 > 0 {
						sc := (1 + []float64{3e-4, -3e-4, 4.5e-4, -2e-5, 1e-4}[r.Intn(5)]) / math.Sqrt(n2)
						for j := range qs[i] {
							qs[i][j] = float32(float64(qs[i][j]) * sc)
						}
						t.Stat("vec.query_cosine_near_unit")
					}
				}
				if r.Intn(30) == 0 {
					for j := range qs[i] {
						qs[i][j] = 0
					}
					t.Stat("vec.query_zero")
				}
			}
			var nodes []uint32
			if nq == 0 || r.Intn(6) == 0 {
				nn := 1 + r.Intn(3)
				for i := 0; i < nn; i++ {
					if len(resident) > 0 && r.Intn(8) != 0 {
						nodes = append(nodes, resident[r.Intn(len(resident))].id)
					} else {
						nodes = append(nodes, uint32(700+r.Intn(3)))
					}
				}
				if len(nodes) >= 2 && step%2 == 0 {
					nodes[len(nodes)-1] = nodes[0] // the same node named twice: two queries, like any two
					t.Stat("vec.search_repeated_node")
				}
				t.Stat("vec.search_with_nodes")
			}
			var docids []uint32
			if r.Intn(10) < 4 {
				nd := 1 + r.Intn(5)
				for i := 0; i < nd; i++ {
					if len(resident) > 0 && r.Intn(4) != 0 {
						docids = append(docids, resident[r.Intn(len(resident))].id)
					} else {
						docids = append(docids, uint32(800+r.Intn(4)))
					}
				}
				if len(resident) > 0 && r.Intn(4) == 0 {
					// shaped restriction lists: repeated ids, a repeated id "filling" a hole of an otherwise
					// contiguous run, descending order, one long contiguous block
					b := resident[r.Intn(len(resident))].id
					switch r.Intn(5) {
					case 0:
						docids = []uint32{b, b, b + 2}
					case 1:
						docids = []uint32{b + 2, b, b + 2, b}
					case 2:
						docids = []uint32{b + 3, b + 2, b + 1, b}
					case 3:
						docids = []uint32{b, b + 1, b + 1, b + 3, b + 4}
					default:
						docids = nil
						for j := uint32(0); j < 6; j++ {
							docids = append(docids, b+j)
						}
					}
					t.Stat("vec.search_with_shaped_docids")
				}
				t.Stat("vec.search_with_docids")
			}
			n := len(resident)
			ks := []int{-1, 0, 1, 2, 3, n - 1, n, n + 1, 100}
			k := ks[r.Intn(len(ks))]
			nps := []int{-1, 0, 1, p.nlist - 1, p.nlist, p.nlist + 1, 2}
			np := nps[r.Intn(len(nps))]
			thr := float32(0)
			thrCase := r.Intn(10)
			if p.kind >= 2 && thrCase <= 2 && r.Intn(2) == 0 {
				thrCase = 6 // the code-based kinds report their own score: put the threshold exactly on one
			}
			switch thrCase {
			case 6, 7:
				// exactly a score this index reports for the query (whatever the kind's score is): the
				// boundary of "score <= threshold" in the kind's own arithmetic
				if nq > 0 && len(qs[0]) == p.dim {
					probe, pe := idx.NewSearch().WithQuery(cloneVec(qs[0])).WithK(0).WithNProbes(np).Execute()
					if pe == nil && len(probe) > 0 {
						thr = probe[r.Intn(len(probe))].Score
						if thr > 0 {
							t.Stat("vec.threshold_equals_a_reported_score")
						}
					}
				}
			case 0, 1, 2:
				if len(resident) > 0 && nq > 0 && len(qs[0]) == p.dim {
					// exactly an existing distance, so that <= vs < is visible
					pq, e1 := dist.Preprocess(cloneVec(qs[0]))
					pv, e2 := dist.Preprocess(cloneVec(resident[r.Intn(len(resident))].raw))
					if e1 == nil && e2 == nil {
						thr = dist.Calculate(pq, pv)
						t.Stat("vec.threshold_equals_a_distance")
					}
				}
			case 3, 4:
				thr = float32(math.Abs(r.NormFloat64())) * 2
			case 5:
				thr = -1
			}
			if between && r.Intn(4) != 0 {
				// a small k is filled by the first cell alone; every cell (or all but one) is to be probed, and
				// nothing but the distance decides who is in
				k, thr, nodes, docids = 1+r.Intn(2), 0, nil, nil
				np = p.nlist - r.Intn(2)
				t.Stat("vec.between_clusters_small_k")
			}
			if nudged && len(resident) > 1 && r.Intn(4) != 0 {
				// the cut falls inside the candidate list, and nothing but the score decides who is in
				k, thr, nodes, docids = 1+r.Intn(len(resident)-1), 0, nil, nil
				t.Stat("vec.near_tie_cut")
			}
			aggz := r.Intn(3)
			aggs := []comet.ScoreAggregationKind{comet.SumAggregation, comet.MaxAggregation, comet.MeanAggregation}
			cutoff := -1
			if r.Intn(10) < 3 {
				cutoff = r.Intn(3)
			}
			// builder defaults are part of the interface: k 10, no threshold, no cutoff, sqrt(nlist) probes.
			// A parameter that happens to equal its default is sometimes left to the builder.
			s := idx.NewSearch().WithScoreAggregation(aggs[aggz])
			if r.Intn(8) == 0 {
				k = 10
				t.Stat("vec.search_default_k")
			} else {
				s = s.WithK(k)
			}
			if thr == 0 && r.Intn(2) == 0 {
				t.Stat("vec.search_default_threshold")
			} else {
				s = s.WithThreshold(thr)
			}
			if cutoff == -1 && r.Intn(2) == 0 {
				t.Stat("vec.search_default_cutoff")
			} else {
				s = s.WithCutoff(cutoff)
			}
			if (p.kind == 1 || p.kind == 3) && r.Intn(8) == 0 {
				np = int(math.Sqrt(float64(p.nlist)))
				t.Stat("vec.search_default_nprobes")
			} else {
				s = s.WithNProbes(np)
			}
			// every option SETS its value: a decoy given first must leave no trace
			if nq > 0 {
				qc := make([][]float32, nq)
				for i := range qs {
					qc[i] = cloneVec(qs[i])
				}
				if r.Intn(10) == 0 {
					s = s.WithQuery(histVec(r, p.dim, style))
					t.Stat("vec.option_set_twice")
				}
				s = s.WithQuery(qc...)
			}
			if r.Intn(12) == 0 && len(resident) > 0 {
				s = s.WithNode(resident[0].id)
				if len(nodes) == 0 {
					s = s.WithNode()
				}
				t.Stat("vec.option_set_twice")
			}
			if len(nodes) > 0 {
				s = s.WithNode(nodes...)
			}
			if r.Intn(12) == 0 {
				s = s.WithDocumentIDs(1, 2, 3)
				if len(docids) == 0 {
					s = s.WithDocumentIDs()
				}
				t.Stat("vec.option_set_twice")
			}
			if len(docids) > 0 {
				s = s.WithDocumentIDs(docids...)
			}
			var res []comet.VectorResult
			var e error
			pan := catchPanic(func() { res, e = s.Execute() })
			code := errCode(e)
			if pan {
				code = 12
			}
			if code == 0 && !pan && len(nodes) > 0 {
				// C02: the same search with every node id replaced by that node's stored vector (as the
				// index holds it) must give the same answer
				snap := comet.VerifSnapshot(idx)
				stored := map[uint32][]float32{}
				for _, l := range snap.Lists {
					for _, e := range l {
						if _, ok := stored[e.ID]; !ok {
							stored[e.ID] = e.Vector
						}
					}
				}
				var lq [][]float32
				for _, q := range qs {
					lq = append(lq, cloneVec(q))
				}
				okAll := true
				for _, id := range nodes {
					v, ok := stored[id]
					if !ok || v == nil {
						okAll = false
						break
					}
					lq = append(lq, cloneVec(v))
				}
				if okAll {
					ls := idx.NewSearch().WithScoreAggregation(aggs[aggz]).WithK(k).WithThreshold(thr).WithCutoff(cutoff).WithNProbes(np).WithQuery(lq...)
					if len(docids) > 0 {
						ls = ls.WithDocumentIDs(docids...)
					}
					var lres []comet.VectorResult
					var le error
					lpan := catchPanic(func() { lres, le = ls.Execute() })
					lcode := errCode(le)
					if lpan {
						lcode = 12
					}
					outA := make([][2]uint64, len(res))
					for i, x := range res {
						outA[i] = [2]uint64{uint64(x.Node.ID()), bits32(x.Score)}
					}
					outB := make([][2]uint64, len(lres))
					for i, x := range lres {
						outB[i] = [2]uint64{uint64(x.Node.ID()), bits32(x.Score)}
					}
					ops = append(ops, func(c *Case) { c.N(9).Pairs(outA).N(lcode).Pairs(outB) })
					t.Stat("vec.node_search_equals_vector_search_law")
				}
			}
			ops = append(ops, func(c *Case) {
				c.N(4).Vecs(qs).U32s(nodes).U32s(docids).N(k).F32(thr).N(aggz).N(cutoff).N(np)
				c.N(code).N(len(res))
				for _, x := range res {
					c.U(uint64(x.Node.ID())).F32(x.Score)
				}
			})
			t.Stat("vec.search")
			reuse := code == 0 && !pan && r.Intn(5) == 0 // the builder is re-configured below
			if r.Intn(6) == 0 && !reuse {
				held = s
				hq, hn, hd, hk, hthr, hagg, hcut, hnp := qs, nodes, docids, k, thr, aggz, cutoff, np
				heldEmit = func(code int, res []comet.VectorResult) func(c *Case) {
					return func(c *Case) {
						c.N(4).Vecs(hq).U32s(hn).U32s(hd).N(hk).F32(hthr).N(hagg).N(hcut).N(hnp)
						c.N(code).N(len(res))
						for _, x := range res {
							c.U(uint64(x.Node.ID())).F32(x.Score)
						}
					}
				}
			}
			if reuse {
				// the SAME builder executed again (a search is pure: it must answer as before), and once
				// more after changing one option on it (sweeping nprobes / k on one builder is natural use)
				res2, e2 := s.Execute()
				out2 := make([][2]uint64, len(res2))
				for i, x := range res2 {
					out2[i] = [2]uint64{uint64(x.Node.ID()), bits32(x.Score)}
				}
				code2 := errCode(e2)
				// a search changes nothing, not even its own builder: the second answer equals the first
				// (a law between two answers of the implementation, decided without the model)
				out1 := make([][2]uint64, len(res))
				for i, x := range res {
					out1[i] = [2]uint64{uint64(x.Node.ID()), bits32(x.Score)}
				}
				ops = append(ops, func(c *Case) { c.N(9).Pairs(out1).N(code2).Pairs(out2) })
				ops = append(ops, func(c *Case) {
					c.N(4).Vecs(qs).U32s(nodes).U32s(docids).N(k).F32(thr).N(aggz).N(cutoff).N(np)
					c.N(code2).Pairs(out2)
				})
				np3 := []int{-1, 1, p.nlist, 2}[r.Intn(4)]
				k3 := []int{0, 1, len(resident) + 1, 3}[r.Intn(4)]
				var res3 []comet.VectorResult
				var e3 error
				d3 := docids
				if r.Intn(2) == 0 {
					// ... and another (or no) id restriction: nothing of the first one may linger
					d3 = nil
					for i := 0; i < r.Intn(4); i++ {
						if len(resident) > 0 && r.Intn(5) != 0 {
							d3 = append(d3, resident[r.Intn(len(resident))].id)
						} else {
							d3 = append(d3, uint32(900+r.Intn(3)))
						}
					}
					s = s.WithDocumentIDs(d3...)
				}
				pan3 := catchPanic(func() { res3, e3 = s.WithNProbes(np3).WithK(k3).Execute() })
				out3 := make([][2]uint64, len(res3))
				for i, x := range res3 {
					out3[i] = [2]uint64{uint64(x.Node.ID()), bits32(x.Score)}
				}
				code3 := errCode(e3)
				if pan3 {
					code3 = 12
				}
				ops = append(ops, func(c *Case) {
					c.N(4).Vecs(qs).U32s(nodes).U32s(d3).N(k3).F32(thr).N(aggz).N(cutoff).N(np3)
					c.N(code3).Pairs(out3)
				})
				t.Stat("vec.search_builder_reused")
			}
			if code != 0 {
				t.Stat("vec.search_error")
			} else {
				if len(res) > 0 {
					t.Stat("vec.search_nonempty")
				}
				if len(removed) > 0 {
					t.Stat("vec.search_with_removed_present")
				}
				if nq+len(nodes) > 1 {
					t.Stat("vec.search_multi_query")
				}
				if thr > 0 && len(res) < n-len(removed) && (k <= 0 || len(res) < k) && len(docids) == 0 {
					t.Stat("vec.threshold_cut_something")
				}
			}
		}
	}
	c.N(len(ops))
	for _, f := range ops {
		f(c)
	}
	return c
}

type countingReader struct {
	r io.Reader
	n int64
}

func (c *countingReader) Read(p []byte) (int, error) {
	n, err := c.r.Read(p)
	c.n += int64(n)
	return n, err
}

func emptyBitmapBytes() []byte {
	// the serialised empty roaring bitmap, obtained from the implementation itself:
	// an empty flat index stream ends with u32 length + blob
	idx, _ := comet.NewFlatIndex(1, comet.Euclidean)
	var buf bytes.Buffer
	idx.WriteTo(&buf)
	b := buf.Bytes()
	// header: 4 magic + 4 ver + 4 dim + 4 len + 2 "l2" + 4 count = 22, then u32 blob length
	n := int(b[22]) | int(b[23])<<8 | int(b[24])<<16 | int(b[25])<<24
	return append([]byte(nil), b[26:26+n]...)
}
