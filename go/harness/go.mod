module verifharness

go 1.24.2

require (
	github.com/RoaringBitmap/roaring v1.9.4
	github.com/clipperhouse/uax29/v2 v2.2.0
	github.com/wizenheimer/comet v0.0.0
	golang.org/x/text v0.30.0
)

require (
	github.com/bits-and-blooms/bitset v1.12.0 // indirect
	github.com/x448/float16 v0.8.4 // indirect
)

replace github.com/wizenheimer/comet => /repo
