package main

import "math/rand"

func init() {
	generators["C02"] = genC02
	generators["C13"] = genC13
	generators["C14"] = genC14
}

func pickM(r *rand.Rand, dim int) int {
	ms := []int{}
	for _, m := range []int{1, 2, 4, 8} {
		if dim%m == 0 {
			ms = append(ms, m)
		}
	}
	return ms[r.Intn(len(ms))]
}

func rndParams(r *rand.Rand, kind int, thorough bool) (vecParams, int) {
	dims := []int{1, 2, 3, 4, 8}
	p := vecParams{kind: kind, dim: dims[r.Intn(len(dims))], metric: r.Intn(3), nlist: 1, m: 1, nbits: 1}
	ntrain := 0
	switch kind {
	case 1:
		p.nlist = []int{1, 2, 3, 5, 8}[r.Intn(5)]
		ntrain = p.nlist + r.Intn(3*p.nlist+4)
	case 2:
		p.m = pickM(r, p.dim)
		p.nbits = 1 + r.Intn(4)
		if thorough && r.Intn(40) == 0 {
			p.nbits = 8
		}
		ntrain = (1 << p.nbits) + r.Intn(12)
	case 3:
		p.nlist = []int{1, 2, 3}[r.Intn(3)]
		p.m = pickM(r, p.dim)
		p.nbits = 1 + r.Intn(3)
		ntrain = 10*p.nlist + r.Intn(10)
		if ntrain < (1 << p.nbits) { // below 2^nbits the real Train panics (known finding, exercised in C14)
			ntrain = (1 << p.nbits) + r.Intn(5)
		}
	}
	return p, ntrain
}

func genC02(r *rand.Rand, t *Trace, thorough bool) {
	per := 35
	if thorough {
		per = 600
	}
	names := []string{"flat", "ivf", "pq", "ivfpq"}
	for kind := 0; kind < 4; kind++ {
		for it := 0; it < per; it++ {
			p, ntrain := rndParams(r, kind, thorough)
			o := vecHistOpts{nops: 6 + r.Intn(30), trainFirst: it%8 != 0, ntrain: ntrain, allowReuse: it%2 == 1}
			if (kind == 1 || kind == 3) && it%4 == 1 {
				// few coordinates from a small pool: centroids at exactly equal distance from a query are
				// frequent -- each probed cell is still scored against its own centroid
				o.forceStyle = -1
				p.dim = 1 + r.Intn(2)
				p.nlist = 2 + r.Intn(2)
				o.ntrain = ntrain
				if kind == 3 {
					// mirror-image clusters: centroids in pairs at exactly equal distance from every query on the
					// mirror plane -- each probed cell is still scored against its own centroid
					o.mirror = true
					p.dim = 2
					p.m, p.nbits = 1, 1+r.Intn(2)
					p.nlist = 2
					o.ntrain = 8 + 2*r.Intn(4)
					o.trainFirst = true
				}
			}
			if it%4 == 2 {
				// (it is even: no id re-use in these histories, so the stored order is the order of the adds)
				o.tailPattern = true
				o.nops = 16 + r.Intn(20)
			}
			c := runVecHistory(r, p, o, t)
			t.Emit(c, "kind."+names[kind], "metric."+string(metrics[p.metric]))
		}
	}
	genHNSWHistories(r, t, thorough, per)
}

// C13: IVF only, wider nlist / training-set strata, duplicates in the training set.
func genC13(r *rand.Rand, t *Trace, thorough bool) {
	n := 120
	if thorough {
		n = 2000
	}
	for it := 0; it < n; it++ {
		p := vecParams{kind: 1, dim: []int{1, 2, 3, 4, 8, 16, 32}[r.Intn(7)], metric: r.Intn(3), nlist: 1 + r.Intn(8), m: 1, nbits: 1}
		if it%6 == 0 {
			p.nlist = 1 + r.Intn(32)
		}
		if it%20 == 0 {
			p.nlist = 1 // (these histories start untrained) a single cell is no excuse: adds wait for Train like anywhere else
		}
		ntrain := p.nlist + r.Intn(4*p.nlist+6)
		if thorough && it%25 == 0 {
			ntrain = p.nlist + r.Intn(500-p.nlist)
		}
		o := vecHistOpts{nops: 8 + r.Intn(30), trainFirst: it%10 != 0, ntrain: ntrain, allowReuse: it%3 == 1, allowDup: it%4 == 2, fine: it%3 == 0}
		if o.fine && it%2 == 0 {
			p.dim = 1 + r.Intn(2) // few coordinates: near-duplicate points are frequent
		}
		if o.fine && it%4 == 2 {
			// as many training points as cells: every point is its own centroid, near-duplicates included --
			// two centroids a hair apart, and vectors added right at either of them
			p.dim = 1
			p.nlist = 4 + r.Intn(5)
			o.ntrain = p.nlist
			o.trainFirst = true
		}
		if it%6 == 1 {
			// a tight, a wide and a medium cluster: the nearest vector of a farther cell can be closer than
			// everything the nearer cells hold (no bound on the cell's radius may be assumed)
			o.radii, o.fine = true, false
			o.dumpBeforeSearch = true
			if it%18 != 13 {
				p.metric = 0 // mostly the metric under which "the rest cannot be nearer" is most tempting
			}
			p.dim = 1 + r.Intn(3)
			p.nlist = 2 + r.Intn(3)
			o.ntrain = 12 + r.Intn(20)
			o.trainFirst = true
		}
		c := runVecHistory(r, p, o, t)
		t.Emit(c, "ivf.metric."+string(metrics[p.metric]))
	}
	// appended (the cases above are what they were): cosine over several cells, probed in part, with queries of
	// any length -- the cells are ranked by the metric's own distance from the PREPROCESSED query
	for it := 0; it < 10+n/20; it++ {
		p := vecParams{kind: 1, dim: 2 + r.Intn(3), metric: 2, nlist: 3 + r.Intn(4), m: 1, nbits: 1}
		o := vecHistOpts{nops: 25 + r.Intn(20), trainFirst: true, ntrain: 5*p.nlist + r.Intn(10), forceStyle: -1, dumpBeforeSearch: true}
		t.Emit(runVecHistory(r, p, o, t), "ivf.cosine_many_cells")
	}
}

// C14: PQ and IVFPQ.
func genC14(r *rand.Rand, t *Trace, thorough bool) {
	n := 60
	if thorough {
		n = 900
	}
	for kind := 2; kind <= 3; kind++ {
		for it := 0; it < n; it++ {
			p, ntrain := rndParams(r, kind, thorough)
			if it%4 == 0 {
				p.dim = []int{4, 8, 16}[r.Intn(3)]
				p.m = pickM(r, p.dim)
			}
			o := vecHistOpts{nops: 8 + r.Intn(30), trainFirst: it%10 != 0, ntrain: ntrain, allowReuse: it%3 == 1, allowDup: it%4 == 2}
			if kind == 3 && it%5 == 2 {
				// mirror-image clusters (see C02): tied centroid distances, each cell scored against its own centroid
				o.mirror, o.forceStyle = true, -1
				p.dim, p.m, p.nbits, p.nlist = 2, 1, 1+r.Intn(2), 2
				o.ntrain, o.trainFirst, o.allowDup = 8+2*r.Intn(4), true, false
			}
			if kind == 3 && it%5 == 4 {
				// cosine with more cells than probes: the cells are ranked by the metric's own distance to their
				// centroids (centroids of different lengths rank differently by angle and by Euclidean distance)
				p.metric = 2
				p.nlist = 4 + r.Intn(5)
				o.ntrain, o.trainFirst = 10*p.nlist+r.Intn(10), true
				o.nops = 20 + r.Intn(20)
				o.dumpBeforeSearch, o.forceStyle = true, -1
			}
			if kind == 2 && it%5 == 3 {
				// flat PQ over mirror-image codewords, queries a few ulps off the mirror plane: two codes whose
				// scores differ in the last bits, ranked by score and by nothing else
				o.mirror, o.nearMirror, o.forceStyle = true, true, -1
				// (trained on the minimum set, so the codewords are the mirror pairs themselves)
				p.dim, p.m, p.nbits, p.metric = 2, 1, 1+r.Intn(2), r.Intn(2)
				o.ntrain, o.trainFirst, o.allowDup = 1<<p.nbits, true, false
			}
			c := runVecHistory(r, p, o, t)
			t.Emit(c, []string{"", "", "pq", "ivfpq"}[kind]+".metric."+string(metrics[p.metric]))
		}
	}
	// appended (the cases above are what they were): IVFPQ over several cells with ids re-used after removal --
	// an update usually lands in another cell than the one the stale entry sits in
	for it := 0; it < 10+n/20; it++ {
		p, _ := rndParams(r, 3, thorough)
		p.nlist = 3 + r.Intn(4)
		o := vecHistOpts{nops: 30 + r.Intn(20), trainFirst: true, ntrain: 10*p.nlist + r.Intn(10), allowReuse: true, forceStyle: -1}
		t.Emit(runVecHistory(r, p, o, t), "ivfpq.updates_across_cells")
	}
}
