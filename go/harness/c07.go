package main

import (
	"bytes"
	"fmt"
	"io"
	"math/rand"
	"os"
	"strings"
	"testing/iotest"

	comet "github.com/wizenheimer/comet"
)

func init() {
	generators["C07"] = genC07
	generators["C16"] = genC16
}

// ---- receiver specifications shared with coq/Check/Codec.v ----

type recvSpec struct {
	ck   int // 0..3 exhaustive vector kinds, 4 hnsw, 5 bm25, 6 meta, 7 hybrid
	vp   vecParams
	hdim int
	hmet int
	hM   int
	hefc int
	hefs int
	hasV bool
	sub  *recvSpec
	hasT bool
	hasM bool
}

func (s recvSpec) enc(c *Case) {
	c.N(s.ck)
	switch {
	case s.ck <= 3:
		s.vp.header(c)
	case s.ck == 4:
		c.N(s.hdim).N(s.hmet).N(s.hM).N(s.hefc).N(s.hefs)
	case s.ck == 7:
		c.B(s.hasV)
		if s.hasV {
			s.sub.enc(c)
		}
		c.B(s.hasT).B(s.hasM)
	}
}

func (s recvSpec) newVector() comet.VectorIndex {
	if s.ck <= 3 {
		idx, err := s.vp.build()
		if err != nil {
			panic(err)
		}
		return idx
	}
	idx, err := comet.NewHNSWIndex(s.hdim, metrics[s.hmet], s.hM, s.hefc, s.hefs)
	if err != nil {
		panic(err)
	}
	return idx
}

// readerFrom abstracts "fresh receiver + ReadFrom".
type loaded struct {
	nodeQ bool // node-id vector queries are part of the comparison (flat, HNSW, IVF: the kinds that persist raw vectors)
	vec   comet.VectorIndex
	txt   *comet.BM25SearchIndex
	meta  *comet.RoaringMetadataIndex
	hyb   comet.HybridSearchIndex
}

func (s recvSpec) fresh() (loaded, func(r *countingReader) (int64, error)) {
	var l loaded
	switch {
	case s.ck <= 4:
		l.vec = s.newVector()
		l.nodeQ = s.ck == 0 || s.ck == 1 || s.ck == 4
		return l, func(r *countingReader) (int64, error) { return l.vec.ReadFrom(r) }
	case s.ck == 5:
		l.txt = comet.NewBM25SearchIndex()
		return l, func(r *countingReader) (int64, error) { return l.txt.ReadFrom(r) }
	case s.ck == 6:
		l.meta = comet.NewRoaringMetadataIndex()
		return l, func(r *countingReader) (int64, error) { return l.meta.ReadFrom(r) }
	default:
		var v comet.VectorIndex
		var tx comet.TextIndex
		var me comet.MetadataIndex
		if s.hasV {
			v = s.sub.newVector()
			l.vec = v
		}
		if s.hasT {
			l.txt = comet.NewBM25SearchIndex()
			tx = l.txt
		}
		if s.hasM {
			l.meta = comet.NewRoaringMetadataIndex()
			me = l.meta
		}
		l.hyb = comet.NewHybridSearchIndex(v, tx, me)
		return l, func(r *countingReader) (int64, error) { return l.hyb.ReadFrom(r) }
	}
}

// probe returns a canonical fingerprint of what the receiver currently answers.
func (l loaded) probe(queries [][]float32, words []string) string {
	var sb strings.Builder
	if l.vec != nil && l.hyb == nil {
		for _, q := range queries {
			res, err := l.vec.NewSearch().WithQuery(cloneVec(q)).WithK(0).Execute()
			sb.WriteString(fingerprintVec(res, err))
		}
		if l.nodeQ {
			// "every query of the kinds quantified in C01-C05": searches from stored node ids too
			for id := uint32(8); id < 26; id++ {
				res, err := l.vec.NewSearch().WithNode(id, id+1).WithK(0).Execute()
				sb.WriteString(fingerprintVec(res, err))
			}
		}
	}
	if l.txt != nil && l.hyb == nil {
		for _, w := range words {
			res, err := l.txt.NewSearch().WithQuery(w).WithK(0).Execute()
			sb.WriteString(fingerprintTxt(res, err))
		}
		for id := uint32(8); id < 26; id++ { // text searches from stored documents (their token sequences)
			res, err := l.txt.NewSearch().WithNode(id).WithK(0).Execute()
			sb.WriteString(fingerprintTxt(res, err))
		}
	}
	if l.meta != nil && l.hyb == nil {
		for _, f := range metaProbes() {
			res, err := l.meta.NewSearch().WithFilters(f).Execute()
			ids := []uint32{}
			for _, x := range res {
				ids = append(ids, x.GetId())
			}
			sb.WriteString(fmt.Sprint(ids, err != nil, ";"))
		}
	}
	if l.hyb != nil {
		for i, q := range queries {
			s := l.hyb.NewSearch().WithK(50)
			if l.vec != nil {
				s = s.WithVector(cloneVec(q))
			}
			if l.txt != nil && i < len(words) {
				s = s.WithText(words[i])
			}
			res, err := s.Execute()
			sb.WriteString(fingerprintHyb(res, err))
		}
	}
	return sb.String()
}

func fingerprintVec(res []comet.VectorResult, err error) string {
	if err != nil {
		return "E;"
	}
	// canonical: scores in order, ids sorted inside equal-score runs
	type p struct {
		id uint32
		s  uint64
	}
	ps := make([]p, len(res))
	for i, x := range res {
		ps[i] = p{x.Node.ID(), bits32(x.Score)}
	}
	return canonRuns(len(ps), func(i int) (uint32, uint64) { return ps[i].id, ps[i].s })
}
func fingerprintTxt(res []comet.TextResult, err error) string {
	if err != nil {
		return "E;"
	}
	return canonRuns(len(res), func(i int) (uint32, uint64) { return res[i].Id, bits32(res[i].Score) })
}
func fingerprintHyb(res []comet.HybridSearchResult, err error) string {
	if err != nil {
		return "E;"
	}
	return canonRuns(len(res), func(i int) (uint32, uint64) { return res[i].ID, bits64(res[i].Score) })
}
func canonRuns(n int, at func(int) (uint32, uint64)) string {
	var sb strings.Builder
	i := 0
	for i < n {
		_, s := at(i)
		j := i
		ids := []int{}
		for j < n {
			id, s2 := at(j)
			if s2 != s {
				break
			}
			ids = append(ids, int(id))
			j++
		}
		sortInts(ids)
		sb.WriteString(fmt.Sprint(s, ids, ","))
		i = j
	}
	sb.WriteString(";")
	return sb.String()
}
func sortInts(a []int) {
	for i := 1; i < len(a); i++ {
		for j := i; j > 0 && a[j-1] > a[j]; j-- {
			a[j-1], a[j] = a[j], a[j-1]
		}
	}
}

func metaProbes() []comet.Filter {
	return []comet.Filter{comet.Eq("cat", "a"), comet.Ne("cat", "b"), comet.Gte("n", 0), comet.Lte("n", 3), comet.Exists("flag"), comet.Eq("flag", true)}
}

var vocab = []string{"alpha", "beta", "gamma", "delta", "fast", "Index", "vector", "ﬁsh", "１２", "İstanbul", "x,y", "a b"}

func rndText(r *rand.Rand) string {
	n := r.Intn(7)
	ws := make([]string, n)
	for i := range ws {
		ws[i] = vocab[r.Intn(len(vocab))]
	}
	return strings.Join(ws, []string{" ", ", ", "  ", "-"}[r.Intn(4)])
}

func rndMeta(r *rand.Rand) map[string]interface{} {
	m := map[string]interface{}{}
	if r.Intn(4) != 0 {
		m["cat"] = []string{"a", "b", "c", "", "x:y"}[r.Intn(5)]
	}
	if r.Intn(4) != 0 {
		m["n"] = []int{-5, -1, 0, 1, 2, 3, 7, 1 << 40}[r.Intn(8)]
	}
	if r.Intn(3) == 0 {
		m["flag"] = r.Intn(2) == 0
	}
	if r.Intn(3) == 0 {
		m["price"] = []float64{0.5, 1.25, 9.999, -3.14159, 100}[r.Intn(5)]
	}
	return m
}

// buildState creates a reachable state of the given kind and returns its streams.
type builtState struct {
	hadDeleted bool
	spec       recvSpec
	src        loaded
	stream     []byte // concatenated stream as the reader expects it
	wn         int64  // bytes reported by WriteTo (single-stream kinds), -1 for hybrid
	queries    [][]float32
	words      []string
}

// forceMetric >= 0 fixes the distance kind of the vector index buildState constructs
var forceMetric = -1

func buildState(r *rand.Rand, ck int, t *Trace) builtState {
	var b builtState
	b.spec.ck = ck
	shape := r.Intn(5) // 0 empty, 1 untrained/empty, 2 all-removed, 3 after flush, 4 general
	nadd := 1 + r.Intn(8)
	if shape == 0 {
		nadd = 0
	}
	dim := []int{1, 2, 3, 4}[r.Intn(4)]
	for i := 0; i < 3; i++ {
		b.queries = append(b.queries, histVec(r, dim, 1))
	}
	b.words = []string{"alpha", "fast vector", "ﬁsh １２", "zzz"}
	addVecs := func(idx comet.VectorIndex) {
		ids := []uint32{}
		for i := 0; i < nadd; i++ {
			id := uint32(10 + i)
			v := histVec(r, dim, r.Intn(2))
			if idx.Add(*comet.NewVectorNodeWithID(id, v)) == nil {
				ids = append(ids, id)
			}
		}
		for _, id := range ids {
			if shape == 2 || r.Intn(4) == 0 {
				if idx.Remove(*comet.NewVectorNodeWithID(id, nil)) == nil {
					b.hadDeleted = true
				}
			}
		}
		if shape == 3 {
			idx.Flush()
			b.hadDeleted = false
		}
	}
	mkVec := func(ck int) (recvSpec, comet.VectorIndex) {
		var s recvSpec
		s.ck = ck
		if ck <= 3 {
			p, ntrain := rndParams(r, ck, false)
			p.dim = dim
			if forceMetric >= 0 {
				p.metric = forceMetric
			}
			if ck >= 2 {
				p.m = pickM(r, dim)
			}
			s.vp = p
			idx, _ := p.build()
			if ck != 0 && shape != 1 {
				vs := make([]comet.VectorNode, ntrain)
				for i := range vs {
					vs[i] = *comet.NewVectorNodeWithID(uint32(900+i), histVec(r, dim, 1))
				}
				if err := idx.Train(vs); err != nil {
					panic(err)
				}
			}
			if idx.Trained() {
				addVecs(idx)
			}
			return s, idx
		}
		s.hdim, s.hmet, s.hM, s.hefc, s.hefs = dim, r.Intn(3), []int{2, 4, 16}[r.Intn(3)], 8+r.Intn(20), 8+r.Intn(20)
		if forceMetric >= 0 {
			s.hmet = forceMetric
		}
		idx, _ := comet.NewHNSWIndex(s.hdim, metrics[s.hmet], s.hM, s.hefc, s.hefs)
		addVecs(idx)
		return s, idx
	}
	addTexts := func(ix *comet.BM25SearchIndex) {
		for i := 0; i < nadd; i++ {
			ix.Add(uint32(10+i), rndText(r))
		}
		for i := 0; i < nadd; i++ {
			if shape == 2 || r.Intn(4) == 0 {
				if ix.Remove(uint32(10+i)) == nil {
					b.hadDeleted = true
				}
			}
		}
		if shape == 3 {
			ix.Flush()
			b.hadDeleted = false
		}
	}
	addMetas := func(ix *comet.RoaringMetadataIndex) {
		for i := 0; i < nadd; i++ {
			ix.Add(*comet.NewMetadataNodeWithID(uint32(10+i), rndMeta(r)))
		}
		for i := 0; i < nadd; i++ {
			if shape == 2 || r.Intn(4) == 0 {
				ix.Remove(*comet.NewMetadataNodeWithID(uint32(10+i), nil))
			}
		}
	}
	var buf bytes.Buffer
	switch {
	case ck <= 4:
		s, idx := mkVec(ck)
		b.spec = s
		b.src.vec = idx
		b.src.nodeQ = ck == 0 || ck == 1 || ck == 4
		before := b.src.probe(b.queries, b.words)
		n, err := idx.WriteTo(&buf)
		if err != nil {
			panic(err)
		}
		b.wn = n
		if b.src.probe(b.queries, b.words) != before {
			t.Stat("c07.source_changed_by_write")
			b.wn = -2
		}
	case ck == 5:
		ix := comet.NewBM25SearchIndex()
		addTexts(ix)
		b.src.txt = ix
		before := b.src.probe(b.queries, b.words)
		n, err := ix.WriteTo(&buf)
		if err != nil {
			panic(err)
		}
		b.wn = n
		if b.src.probe(b.queries, b.words) != before {
			b.wn = -2
		}
	case ck == 6:
		ix := comet.NewRoaringMetadataIndex()
		addMetas(ix)
		b.src.meta = ix
		before := b.src.probe(b.queries, b.words)
		n, err := ix.WriteTo(&buf)
		if err != nil {
			panic(err)
		}
		b.wn = n
		if b.src.probe(b.queries, b.words) != before {
			b.wn = -2
		}
	default:
		b.spec.hasV, b.spec.hasT, b.spec.hasM = r.Intn(4) != 0, r.Intn(3) != 0, r.Intn(3) != 0
		var v comet.VectorIndex
		var tx comet.TextIndex
		var me comet.MetadataIndex
		if b.spec.hasV {
			vk := []int{0, 1, 2, 3, 4}[r.Intn(5)]
			s, idx := mkVec(vk)
			// hybrid adds documents itself; start from the (trained) empty-or-populated index
			b.spec.sub = &s
			v = idx
			b.src.vec = idx
		}
		if b.spec.hasT {
			b.src.txt = comet.NewBM25SearchIndex()
			tx = b.src.txt
		}
		if b.spec.hasM {
			b.src.meta = comet.NewRoaringMetadataIndex()
			me = b.src.meta
		}
		h := comet.NewHybridSearchIndex(v, tx, me)
		b.src.hyb = h
		for i := 0; i < nadd; i++ {
			var vec []float32
			if b.spec.hasV && v.Trained() && r.Intn(5) != 0 {
				vec = histVec(r, dim, 1)
			}
			txt := ""
			if b.spec.hasT && r.Intn(5) != 0 {
				txt = rndText(r)
			}
			var md map[string]interface{}
			if b.spec.hasM && r.Intn(5) != 0 {
				md = rndMeta(r)
			}
			h.AddWithID(uint32(100+i), vec, txt, md)
		}
		for i := 0; i < nadd; i++ {
			if shape == 2 || r.Intn(5) == 0 {
				h.Remove(uint32(100 + i))
			}
		}
		var hb, vb, tb, mb bytes.Buffer
		if err := h.WriteTo(&hb, &vb, &tb, &mb); err != nil {
			panic(err)
		}
		buf.Write(hb.Bytes())
		buf.Write(vb.Bytes())
		buf.Write(tb.Bytes())
		buf.Write(mb.Bytes())
		b.wn = -1
	}
	b.stream = append([]byte(nil), buf.Bytes()...)
	return b
}

var readShape int

// pieceReader hands out pieces of 1..7 bytes in a fixed irregular rhythm
type pieceReader struct {
	r io.Reader
	k int
}

func (p *pieceReader) Read(b []byte) (int, error) {
	p.k = (p.k*7 + 3) % 11
	n := 1 + p.k%7
	if n > len(b) {
		n = len(b)
	}
	return p.r.Read(b[:n])
}

func readWith(spec recvSpec, stream []byte) (l loaded, code int, n int64, consumed int64) {
	l, rd := spec.fresh()
	// the stream arrives as the reader pleases: all at once, a byte at a time, in halves, in uneven pieces
	// (a file, a pipe, a decompressor: io.Reader promises no more than "some bytes")
	readShape++
	var src io.Reader = bytes.NewReader(stream)
	switch readShape % 4 {
	case 1:
		src = iotest.OneByteReader(src)
	case 2:
		src = iotest.HalfReader(src)
	case 3:
		src = &pieceReader{r: src, k: readShape}
	}
	cr := &countingReader{r: src}
	var err error
	pan := catchPanic(func() { n, err = rd(cr) })
	code = 0
	if pan {
		code = 2
	} else if err != nil {
		code = 1
	}
	return l, code, n, cr.n
}

func emitRead(t *Trace, spec recvSpec, stream []byte, expect int, extra int, strata ...string) {
	_, code, n, cons := readWith(spec, stream)
	c := NewCase(701)
	spec.enc(c)
	c.Bytes(stream).N(expect).N(extra).N(code).I(n).I(cons)
	t.Emit(c, strata...)
}

var kindNames = []string{"flat", "ivf", "pq", "ivfpq", "hnsw", "bm25", "meta", "hybrid"}

func genC07(r *rand.Rand, t *Trace, thorough bool) {
	per := 24
	nh := 25
	if thorough {
		per, nh = 120, 400
	}
	// (0) hybrid over HNSW: reload into a fresh index, answers against the hybrid over a flat index
	for it := 0; it < 4+nh/25; it++ {
		runHybridHNSWDiff(r, t)
	}
	// (a) histories with WriteTo / reload / continuation for the exhaustive vector kinds
	for kind := 0; kind < 4; kind++ {
		for it := 0; it < nh; it++ {
			p, ntrain := rndParams(r, kind, thorough)
			o := vecHistOpts{nops: 10 + r.Intn(25), trainFirst: it%6 != 0, ntrain: ntrain, serialize: true, allowReuse: it%3 == 1, allowDup: it%4 == 2}
			c := runVecHistory(r, p, o, t)
			t.Emit(c, "hist."+kindNames[kind])
		}
	}
	bigFlatRoundTrip(r, t)
	// (b) all eight kinds: framing, byte counts, exact consumption, reload equivalence
	for ck := 0; ck < 8; ck++ {
		for it := 0; it < per; it++ {
			b := buildState(r, ck, t)
			sentinel := append(append([]byte(nil), b.stream...), 0xDE, 0xAD, 0xBE)
			emitRead(t, b.spec, sentinel, 0, 3, "read.valid."+kindNames[ck])
			l, code, n, _ := readWith(b.spec, sentinel)
			diffs := 0
			if code == 0 {
				want := b.src.probe(b.queries, b.words)
				got := l.probe(b.queries, b.words)
				if ck == 2 || ck == 3 || (ck == 7 && b.spec.hasV && (b.spec.sub.ck == 2 || b.spec.sub.ck == 3)) {
					// PQ / IVFPQ do not persist raw vectors: plain queries are still comparable
				}
				if want != got {
					diffs = 1
				} else if continueBoth(r, b, l, dimOf(b)) {
					// "accepts further adds and removals": the same continuation on the source and on
					// the reloaded index, then the same probes again
					if b.src.probe(b.queries, b.words) != l.probe(b.queries, b.words) {
						diffs = 2
						t.Stat("c07.continuation_differs")
					} else if ck == 4 && !hnswAcceptsAdds(r, l.vec, dimOf(b)) {
						diffs = 2
						t.Stat("c07.reloaded_hnsw_refuses_adds")
					}
					t.Stat("c07.continuation." + kindNames[ck])
				} else {
					diffs = 2
					t.Stat("c07.continuation_outcome_differs")
				}
			} else {
				diffs = 1
			}
			dw, dr := int64(0), int64(0)
			srcChanged := 0
			if b.wn >= 0 {
				dw = b.wn - int64(len(b.stream))
			} else if b.wn == -2 {
				srcChanged = 1
			}
			dr = n - int64(len(b.stream))
			t.Emit(NewCase(703).N(ck).N(len(b.queries)).N(diffs).I(dw).I(dr).N(srcChanged).B(b.hadDeleted), "reload."+kindNames[ck])
		}
	}
}

func dimOf(b builtState) int {
	if len(b.queries) > 0 {
		return len(b.queries[0])
	}
	return 1
}

// continueBoth applies one random continuation (adds incl. re-adds and empty texts, removals, a flush)
// to the source and to the reloaded index and reports whether every call had the same outcome on both.
// HNSW draws insertion levels from its own generator, so its continuation only removes and flushes.

// hnswAcceptsAdds: a reloaded HNSW graph accepts further adds. Levels are drawn afresh, so the answers of
// source and copy may differ from here on -- but every add must come back without an error or a panic.
func hnswAcceptsAdds(r *rand.Rand, hn comet.VectorIndex, dim int) bool {
	for i := 0; i < 30; i++ {
		id := uint32(300 + i)
		v := histVec(r, dim, 1)
		var e error
		if catchPanic(func() { e = hn.Add(*comet.NewVectorNodeWithID(id, cloneVec(v))) }) || e != nil {
			if os.Getenv("VERIF_DEBUG") != "" {
				fmt.Fprintln(os.Stderr, "hnsw continuation add failed:", e, "dim", dim, "veclen", len(v))
			}
			return false // (after a panic inside Add its lock is still held: nothing more can be asked)
		}
	}
	return true
}

func continueBoth(r *rand.Rand, b builtState, l loaded, dim int) bool {
	same := true
	nops := 2 + r.Intn(6)
	eq := func(e1, e2 error) {
		if (e1 == nil) != (e2 == nil) {
			same = false
		}
	}
	for i := 0; i < nops; i++ {
		x := r.Intn(10)
		switch {
		case b.src.hyb != nil:
			id := uint32(100 + r.Intn(12))
			if x < 5 {
				var vec []float32
				if b.src.vec != nil && b.src.vec.Trained() && b.src.vec.Kind() != comet.HNSWIndexKind && r.Intn(4) != 0 {
					vec = histVec(r, dim, 1)
				}
				txt := ""
				if b.src.txt != nil && r.Intn(4) != 0 {
					txt = rndText(r)
				}
				var md map[string]interface{}
				if b.src.meta != nil && r.Intn(3) != 0 {
					md = rndMeta(r)
				}
				eq(b.src.hyb.AddWithID(id, cloneVec(vec), txt, md), l.hyb.AddWithID(id, cloneVec(vec), txt, md))
			} else {
				eq(b.src.hyb.Remove(id), l.hyb.Remove(id))
			}
		case b.src.vec != nil:
			id := uint32(10 + r.Intn(12))
			hnsw := b.src.vec.Kind() == comet.HNSWIndexKind
			switch {
			case x < 4 && !hnsw:
				v := histVec(r, dim, r.Intn(2))
				eq(b.src.vec.Add(*comet.NewVectorNodeWithID(id, cloneVec(v))), l.vec.Add(*comet.NewVectorNodeWithID(id, cloneVec(v))))
			case x < 8 || hnsw:
				eq(b.src.vec.Remove(*comet.NewVectorNodeWithID(id, nil)), l.vec.Remove(*comet.NewVectorNodeWithID(id, nil)))
			default:
				// (not for HNSW: its Flush re-elects the entry point by ranging over a map, so two
				// equal indexes may legitimately answer differently afterwards)
				eq(b.src.vec.Flush(), l.vec.Flush())
			}
		case b.src.txt != nil:
			id := uint32(10 + r.Intn(12))
			switch {
			case x < 4:
				txt := rndText(r)
				eq(b.src.txt.Add(id, txt), l.txt.Add(id, txt))
			case x < 8:
				eq(b.src.txt.Remove(id), l.txt.Remove(id))
			default:
				b.src.txt.Flush()
				l.txt.Flush()
			}
		case b.src.meta != nil:
			id := uint32(10 + r.Intn(12))
			if x < 5 {
				md := rndMeta(r)
				eq(b.src.meta.Add(*comet.NewMetadataNodeWithID(id, md)), l.meta.Add(*comet.NewMetadataNodeWithID(id, md)))
			} else {
				eq(b.src.meta.Remove(*comet.NewMetadataNodeWithID(id, nil)), l.meta.Remove(*comet.NewMetadataNodeWithID(id, nil)))
			}
		}
	}
	return same
}

// bigFlatRoundTrip: a flat index beyond every block size a reader might pre-allocate or read in (more than
// 16384 vectors, a stream of more than 128 KiB): written, read back with a sentinel behind it, probed.
func bigFlatRoundTrip(r *rand.Rand, t *Trace) {
	var s recvSpec
	s.ck = 0
	s.vp = vecParams{kind: 0, dim: 1, metric: r.Intn(2), nlist: 1, m: 1, nbits: 1}
	idx, _ := s.vp.build()
	n := 16385 + r.Intn(200)
	for i := 0; i < n; i++ {
		idx.Add(*comet.NewVectorNodeWithID(uint32(i+1), []float32{float32(i%977) * 0.5}))
	}
	var buf bytes.Buffer
	wn, err := idx.WriteTo(&buf)
	if err != nil {
		panic(err)
	}
	stream := append([]byte(nil), buf.Bytes()...)
	sentinel := append(append([]byte(nil), stream...), 0xDE, 0xAD, 0xBE)
	// (observed on the implementation only -- byte counts, exact consumption, answers: the model's decoder walks
	// lists and would take minutes on a stream of this size; the format itself is the small cases' business)
	l, code, rn, cons := readWith(s, sentinel)
	if cons != int64(len(stream)) && code == 0 {
		code = 1 // read past (or short of) its own bytes
	}
	qs := [][]float32{{3.25}, {100}, {-1}}
	src := loaded{nodeQ: true, vec: idx}
	diffs := 0
	if code != 0 || src.probe(qs, nil) != l.probe(qs, nil) {
		diffs = 1
	}
	t.Emit(NewCase(703).N(0).N(len(qs)).N(diffs).I(wn-int64(len(stream))).I(rn-int64(len(stream))).N(0).B(false), "reload.flat_large")
}

func genC16(r *rand.Rand, t *Trace, thorough bool) {
	defer genSegmentPrefixes(r, t, thorough)
	per := 4
	maxAll := 1500
	if thorough {
		per = 30
		maxAll = 4096
	}
	var built []builtState
	for ck := 0; ck < 8; ck++ {
		for it := 0; it < per; it++ {
			b := buildState(r, ck, t)
			built = append(built, b)
			// every strict prefix (all of them up to maxAll bytes; stratified sample beyond)
			n := len(b.stream)
			lens := []int{}
			if n <= maxAll {
				for i := 0; i < n; i++ {
					lens = append(lens, i)
				}
				flags := make([]int, n)
				changed := 0
				for i := 0; i < n; i++ {
					l, code, _, _ := readWith(b.spec, b.stream[:i])
					flags[i] = code
					if code == 0 {
						_ = l
					}
				}
				c := NewCase(704)
				b.spec.enc(c)
				c.Bytes(b.stream).Ints(flags).N(changed)
				t.Emit(c, "prefix.all."+kindNames[ck])
				t.StatN("prefix.lengths_tried", n)
			} else {
				for j := 0; j < 200; j++ {
					i := r.Intn(n)
					emitRead(t, b.spec, b.stream[:i], 1, 0, "prefix.sampled."+kindNames[ck])
				}
			}
			// another format version: the one before (0), the next, a far one, the largest
			if n >= 8 {
				for _, ver := range [][4]byte{{0, 0, 0, 0}, {2, 0, 0, 0}, {1, 1, 0, 0}, {99, 0, 0, 0}, {255, 255, 255, 255}} {
					mut := append([]byte(nil), b.stream...)
					if mut[4] == ver[0] && mut[5] == ver[1] && mut[6] == ver[2] && mut[7] == ver[3] {
						continue
					}
					copy(mut[4:8], ver[:])
					emitRead(t, b.spec, mut, 1, 0, "mismatch.version")
				}
			}
		}
	}
	// kind x kind: a stream read by a receiver of another kind
	for i := 0; i < len(built); i += per {
		for j := 0; j < len(built); j += per {
			if built[i].spec.ck == built[j].spec.ck {
				continue
			}
			emitRead(t, built[j].spec, built[i].stream, 1, 0, "mismatch.kind")
		}
	}
	// every distance kind as the stream's kind, for every vector index kind (the mismatch loop below then
	// presents each stream to receivers of the two other kinds: all ordered pairs)
	for ck := 0; ck <= 4; ck++ {
		for m := 0; m < 3; m++ {
			forceMetric = m
			built = append(built, buildState(r, ck, t))
		}
	}
	forceMetric = -1
	// code sizes from eight bits up (all of them "one byte per code" wide or wider): a stream written with one
	// is refused by a receiver built with another. Untrained indexes, so no training set of 2^nbits is needed.
	for _, ck := range []int{2, 3} {
		for _, nb := range []int{8, 9, 12, 16} {
			var s recvSpec
			s.ck = ck
			p, _ := rndParams(r, ck, false)
			p.dim = 4
			p.m = 2
			p.nbits = nb
			s.vp = p
			idx, err := p.build()
			if err != nil {
				continue
			}
			var buf bytes.Buffer
			if _, err := idx.WriteTo(&buf); err != nil {
				continue
			}
			for _, nb2 := range []int{8, 9, 12, 16, 7} {
				if nb2 == nb {
					continue
				}
				s2 := s
				s2.vp.nbits = nb2
				if _, err := s2.vp.build(); err != nil {
					continue
				}
				emitRead(t, s2, buf.Bytes(), 1, 0, "mismatch.param.nbits_wide")
			}
			emitRead(t, s, append(buf.Bytes(), 0xDE, 0xAD), 0, 2, "read.valid.nbits_wide")
		}
	}
	// one-parameter mismatches for the vector kinds and sub-index presence for hybrid
	for _, b := range built {
		s := b.spec
		switch {
		case s.ck <= 3:
			alts := []func(p *vecParams) bool{
				func(p *vecParams) bool {
					p.dim += p.m * 1
					if p.m > 1 {
						p.dim = p.dim
					}
					return true
				},
				func(p *vecParams) bool { p.metric = (p.metric + 1) % 3; return true },
				func(p *vecParams) bool { p.metric = (p.metric + 2) % 3; return true }, // every ordered pair of kinds
				func(p *vecParams) bool {
					if p.kind == 1 || p.kind == 3 {
						p.nlist++
						return true
					}
					return false
				},
				func(p *vecParams) bool {
					if p.kind >= 2 {
						p.nbits++
						return true
					}
					return false
				},
				func(p *vecParams) bool {
					if p.kind >= 2 {
						for _, m := range []int{1, 2, 4, 8} {
							if m != p.m && p.dim%m == 0 {
								p.m = m
								return true
							}
						}
					}
					return false
				},
			}
			names := []string{"dim", "metric", "metric", "nlist", "nbits", "M"}
			for ai, alt := range alts {
				s2 := s
				if alt(&s2.vp) {
					if _, err := s2.vp.build(); err != nil {
						continue
					}
					emitRead(t, s2, b.stream, 1, 0, "mismatch.param."+names[ai])
				}
			}
		case s.ck == 4:
			for ai := 0; ai < 6; ai++ {
				s2 := s
				switch ai {
				case 5:
					s2.hmet = (s2.hmet + 2) % 3
				case 0:
					s2.hdim++
				case 1:
					s2.hmet = (s2.hmet + 1) % 3
				case 2:
					s2.hM++
				case 3:
					s2.hefc++
				case 4:
					s2.hefs++
				}
				emitRead(t, s2, b.stream, 1, 0, "mismatch.param.hnsw")
			}
		case s.ck == 7:
			s2 := s
			s2.hasT = !s2.hasT
			emitRead(t, s2, b.stream, 1, 0, "mismatch.param.presence")
			s3 := s
			s3.hasM = !s3.hasM
			emitRead(t, s3, b.stream, 1, 0, "mismatch.param.presence")
		}
	}
}
