// Command harness runs generated cases on the real comet package (built from /repo's
// current working tree with -tags verif) and writes them, with the implementation's
// observables, as integer traces for the extracted Coq checkers.
package main

import (
	"flag"
	"fmt"
	"math/rand"
	"os"
	"runtime"
	"sync/atomic"
	"time"
)

type genFunc func(r *rand.Rand, t *Trace, thorough bool)

var generators = map[string]genFunc{}

func main() {
	if len(os.Args) >= 4 && os.Args[1] == "lockprobe" {
		ms := 0
		fmt.Sscanf(os.Args[3], "%d", &ms)
		lockProbe(os.Args[2], ms)
		return
	}
	if len(os.Args) < 3 || os.Args[1] != "gen" {
		fmt.Fprintln(os.Stderr, "usage: harness gen <prop> -seed N -tier quick|thorough -out trace -stats stats.json")
		os.Exit(2)
	}
	prop := os.Args[2]
	fs := flag.NewFlagSet("gen", flag.ExitOnError)
	seed := fs.Int64("seed", 1, "PRNG seed")
	tier := fs.String("tier", "quick", "quick|thorough")
	out := fs.String("out", "trace.txt", "trace file")
	stats := fs.String("stats", "stats.json", "stats file")
	fs.Parse(os.Args[3:])
	g, ok := generators[prop]
	if !ok {
		fmt.Fprintln(os.Stderr, "unknown property", prop)
		os.Exit(2)
	}
	t := NewTrace(*out)
	// hang watchdog, by PROGRESS not by total time: a call into the implementation that never returns
	// (a search waiting for a segment that will not answer, a lock never released) must end the run
	// with a report instead of hanging the check
	go func() {
		last, since := atomic.LoadInt64(&progress), time.Now()
		for {
			time.Sleep(3 * time.Second)
			if now := atomic.LoadInt64(&progress); now != last {
				last, since = now, time.Now()
			} else if time.Since(since) > 240*time.Second {
				fmt.Fprintln(os.Stderr, "HANG-WATCHDOG: no operation completed for 240s while generating", prop, "(operations recorded so far:", last, "); goroutines:")
				buf := make([]byte, 1<<20)
				os.Stderr.Write(buf[:runtime.Stack(buf, true)])
				os.Exit(3)
			}
		}
	}()
	g(rand.New(rand.NewSource(*seed)), t, *tier == "thorough")
	t.Close(*stats)
}
