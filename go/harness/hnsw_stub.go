package main

import "math/rand"

// replaced by hnsw.go once the HNSW model exists
func genHNSWHistories(r *rand.Rand, t *Trace, thorough bool, per int) {}
