package main

import (
	"math"
	"math/rand"
	"sort"
	"strings"

	comet "github.com/wizenheimer/comet"
)

func init() { generators["C03"] = genC03 }

var bmVocab = []string{"alpha", "beta", "gamma", "delta", "Fast", "index", " ", ",", "ﬁsh", "１２", "İ", "naïve", "x-y", "don't", "3.14", "ÀB", "ǅ", "㎏", "\t", "\n", "ＡＢ", "Ω", "ß",
	// compatibility characters whose NFKC decomposition contains capitals (normalise, THEN lower-case), next to their plain spellings
	"℡", "tel", "㎑", "khz", "№", "no", "㏂", "a.m.",
	// text is bytes: a word in another encoding (not valid UTF-8) is still a document's text
	"caf\xe9", "\xff\xfe"}

func bmText(r *rand.Rand) string {
	n := r.Intn(8)
	if r.Intn(10) == 0 {
		return ""
	}
	var sb strings.Builder
	for i := 0; i < n; i++ {
		w := bmVocab[r.Intn(len(bmVocab))]
		if r.Intn(4) == 0 && i > 0 {
			w = bmVocab[r.Intn(4)] // repeated common tokens
		}
		sb.WriteString(w)
		if r.Intn(5) != 0 {
			sb.WriteString(" ")
		}
	}
	return sb.String()
}

type interner struct{ m map[string]int }

func (in *interner) id(s string) int {
	if v, ok := in.m[s]; ok {
		return v
	}
	v := len(in.m) + 1
	in.m[s] = v
	return v
}
func (in *interner) toks(text string) []int {
	ts := specTokens(text)
	out := make([]int, len(ts))
	for i, t := range ts {
		out[i] = in.id(t)
	}
	return out
}

// runBM25History generates and runs one BM25 history (checker 300).
func runBM25History(r *rand.Rand, nops int, allowReadd bool, t *Trace) *Case {
	ix := comet.NewBM25SearchIndex()
	in := &interner{m: map[string]int{}}
	var ops []func(c *Case)
	ever := []uint32{}
	removed := map[uint32]bool{}
	nextID := uint32(1)
	dump := func() {
		st := comet.VerifBM25Snapshot(ix)
		incons := 0
		// from-scratch consistency of the incrementally maintained maps
		post := map[string]map[uint32]int{}
		for id, toks := range st.DocTokens {
			if st.DocLengths[id] != len(toks) {
				incons++
			}
			for _, tk := range toks {
				if post[tk] == nil {
					post[tk] = map[uint32]int{}
				}
				post[tk][id]++
			}
		}
		if len(post) != len(st.Postings) || len(post) != len(st.TF) || len(st.DocLengths) != len(st.DocTokens) {
			incons++
		}
		for tk, m := range post {
			if len(st.Postings[tk]) != len(m) {
				incons++
			}
			for id, f := range m {
				if st.TF[tk][id] != f {
					incons++
				}
			}
		}
		ids := make([]int, 0, len(st.DocTokens))
		for id := range st.DocTokens {
			ids = append(ids, int(id))
		}
		sort.Ints(ids)
		ops = append(ops, func(c *Case) {
			c.N(6).U(uint64(st.NumDocs)).N(st.TotalTokens).F64(st.AvgDocLen).N(len(ids))
			for _, id := range ids {
				tk := st.DocTokens[uint32(id)]
				c.N(id).N(len(tk))
				for _, s := range tk {
					c.N(in.id(s))
				}
			}
			c.U32s(st.Deleted).N(incons)
		})
		t.Stat("bm25.dump")
	}
	lastText := map[uint32]string{}
	var heldRun func() // a search builder kept across the history (a builder holds a query, not a snapshot)
	for step := 0; step < nops; step++ {
		if heldRun != nil && r.Intn(5) == 0 {
			heldRun()
		}
		if step == nops-1 || r.Intn(6) == 0 {
			dump()
		}
		x := r.Intn(100)
		switch {
		case x < 35:
			id := nextID
			kind := "bm25.add_fresh"
			live := []uint32{}
			for _, e := range ever {
				if !removed[e] {
					live = append(live, e)
				}
			}
			if len(live) > 0 && r.Intn(4) == 0 {
				id = live[r.Intn(len(live))]
				kind = "bm25.add_replace"
			} else if gone := sortedKeys(removed); allowReadd && len(gone) > 0 && r.Intn(3) == 0 {
				// update = remove + add: an id whose removal succeeded (flushed since or not) comes back
				id = gone[r.Intn(len(gone))]
				kind = "bm25.add_reuse_removed"
			} else if allowReadd && len(ever) > 0 && r.Intn(4) == 0 {
				id = ever[r.Intn(len(ever))]
				kind = "bm25.add_reuse"
			} else {
				nextID++
			}
			text := bmText(r)
			if prev, ok := lastText[id]; ok && r.Intn(3) == 0 {
				// the same text again (or one that differs only in case): replacing or re-adding a document
				// with the text it had is an add like any other
				text = prev
				if r.Intn(2) == 0 {
					text = strings.ToUpper(prev)
				}
				t.Stat("bm25.add_same_text_again")
			}
			lastText[id] = text
			toks := in.toks(text)
			if err := ix.Add(id, text); err != nil {
				panic(err)
			}
			if kind == "bm25.add_fresh" {
				ever = append(ever, id)
			}
			delete(removed, id)
			ops = append(ops, func(c *Case) { c.N(1).U(uint64(id)).Ints(toks) })
			t.Stat(kind)
			if len(toks) == 0 {
				t.Stat("bm25.add_empty_text")
			}
		case x < 48:
			var id uint32
			if len(ever) > 0 && r.Intn(10) < 8 {
				id = ever[r.Intn(len(ever))]
			} else {
				id = uint32(500 + r.Intn(3))
			}
			ix.Remove(id)
			for _, e := range ever {
				if e == id {
					removed[id] = true
				}
			}
			ops = append(ops, func(c *Case) { c.N(2).U(uint64(id)) })
			t.Stat("bm25.remove")
		case x < 56:
			ix.Flush()
			// flushed ids are gone for good
			kept := ever[:0]
			for _, e := range ever {
				if !removed[e] {
					kept = append(kept, e)
				}
			}
			ever = kept
			removed = map[uint32]bool{}
			ops = append(ops, func(c *Case) { c.N(3) })
			t.Stat("bm25.flush")
		default:
			nq := 1
			y := r.Intn(10)
			if y >= 7 && y < 9 {
				nq = 2 + r.Intn(2)
			} else if y == 9 {
				nq = 0
			}
			qs := make([]string, nq)
			for i := range qs {
				switch r.Intn(6) {
				case 0:
					qs[i] = ""
				case 1:
					qs[i] = "zzz unknown"
				default:
					qs[i] = bmText(r)
				}
			}
			var nodes []uint32
			if nq == 0 || r.Intn(7) == 0 {
				for i := 0; i < 1+r.Intn(2); i++ {
					if len(ever) > 0 && r.Intn(8) != 0 {
						nodes = append(nodes, ever[r.Intn(len(ever))])
					} else {
						nodes = append(nodes, uint32(700+r.Intn(3)))
					}
				}
			}
			var docids []uint32
			if r.Intn(10) < 3 {
				for i := 0; i < 1+r.Intn(4); i++ {
					if len(ever) > 0 && r.Intn(4) != 0 {
						docids = append(docids, ever[r.Intn(len(ever))])
					} else {
						docids = append(docids, uint32(800+r.Intn(3)))
					}
				}
				if len(ever) > 0 && r.Intn(3) == 0 {
					docids = shapedDocIDs(r, ever[r.Intn(len(ever))])
				}
			}
			n := len(ever)
			ks := []int{-1, 0, 1, 2, 3, n - 1, n, n + 1, 100}
			k := ks[r.Intn(len(ks))]
			aggz := r.Intn(3)
			aggs := []comet.ScoreAggregationKind{comet.SumAggregation, comet.MaxAggregation, comet.MeanAggregation}
			cutoff := -1
			if r.Intn(10) < 2 {
				cutoff = r.Intn(3)
			}
			s := ix.NewSearch().WithScoreAggregation(aggs[aggz])
			if r.Intn(8) == 0 { // builder default: k = 10
				k = 10
				t.Stat("bm25.search_default_k")
			} else {
				s = s.WithK(k)
			}
			if cutoff == -1 && r.Intn(2) == 0 { // builder default: no cutoff
				t.Stat("bm25.search_default_cutoff")
			} else {
				s = s.WithCutoff(cutoff)
			}
			if nq > 0 {
				if r.Intn(10) == 0 {
					s = s.WithQuery("decoy alpha") // options SET their value
					t.Stat("bm25.option_set_twice")
				}
				s = s.WithQuery(qs...)
			}
			if len(nodes) > 0 {
				s = s.WithNode(nodes...)
			}
			if len(docids) > 0 {
				if r.Intn(6) == 0 {
					s = s.WithDocumentIDs(1, 2)
					t.Stat("bm25.option_set_twice")
				}
				s = s.WithDocumentIDs(docids...)
			}
			// everything that depends on the index as it is NOW (statistics for the ln oracle, the texts of
			// the named nodes, the answer) is computed when the builder is executed -- now, and again
			// later in the history if the builder is kept
			run := func(first bool) (int, []comet.TextResult) {
				var res []comet.TextResult
				st := comet.VerifBM25Snapshot(ix)
				// oracle table for math.Log: every (N, df) the query can touch
				lnT := map[uint64]uint64{}
				N := float64(st.NumDocs)
				addLn := func(text string) {
					for _, tk := range specTokens(text) {
						if p, ok := st.Postings[tk]; ok {
							df := float64(len(p))
							x := (N-df+0.5)/(df+0.5) + 1.0
							lnT[math.Float64bits(x)] = math.Float64bits(math.Log(x))
						}
					}
				}
				qtoks := make([][]int, nq)
				for i, q := range qs {
					qtoks[i] = in.toks(q)
					addLn(q)
				}
				nodeq := [][]int{}
				for _, nid := range nodes {
					if toks, ok := st.DocTokens[nid]; ok {
						joined := strings.Join(toks, " ")
						nodeq = append(nodeq, in.toks(joined))
						addLn(joined)
					}
				}
				var e error
				if first && r.Intn(5) == 0 { // the builder is executed twice: the second answer is the one that is judged
					catchPanic(func() { s.Execute() })
					t.Stat("bm25.search_builder_reused")
				}
				pan := catchPanic(func() { res, e = s.Execute() })
				code := errCode(e)
				if pan {
					code = 12
				}
				docids, k := docids, k // as they are at THIS execution (the builder may be re-configured later)
				ops = append(ops, func(c *Case) {
					c.N(4).N(len(qtoks))
					for _, q := range qtoks {
						c.Ints(q)
					}
					c.U32s(nodes).N(len(nodeq))
					for _, q := range nodeq {
						c.Ints(q)
					}
					c.U32s(docids).N(k).N(aggz).N(cutoff).N(len(lnT))
					keys := make([]uint64, 0, len(lnT))
					for x := range lnT {
						keys = append(keys, x)
					}
					sort.Slice(keys, func(i, j int) bool { return keys[i] < keys[j] })
					for _, x := range keys {
						c.U(x).U(lnT[x])
					}
					c.N(code).N(len(res))
					for _, x := range res {
						c.U(uint64(x.Id)).F32(x.Score)
					}
				})
				return code, res
			}
			code, res := run(true)
			if code == 0 && r.Intn(4) == 0 {
				// the SAME builder re-configured and executed again: another (or no) id restriction and
				// another k, everything else as it was -- nothing of the first execution may linger
				docids = nil
				if r.Intn(3) != 0 {
					for i := 0; i < 1+r.Intn(3); i++ {
						if len(ever) > 0 && r.Intn(5) != 0 {
							docids = append(docids, ever[r.Intn(len(ever))])
						} else {
							docids = append(docids, uint32(800+r.Intn(3)))
						}
					}
				}
				k = ks[r.Intn(len(ks))]
				s = s.WithDocumentIDs(docids...).WithK(k)
				run(false)
				t.Stat("bm25.search_builder_reconfigured")
			}
			if r.Intn(6) == 0 {
				heldRun = func() { run(false); t.Stat("bm25.search_builder_kept_across_history") }
			}
			t.Stat("bm25.search")
			if code != 0 {
				t.Stat("bm25.search_error")
			} else if len(res) > 0 {
				t.Stat("bm25.search_nonempty")
				if len(removed) > 0 {
					t.Stat("bm25.search_with_soft_deleted_present")
				}
			}
			if nq+len(nodes) > 1 {
				t.Stat("bm25.search_multi_query")
			}
		}
	}
	c := NewCase(300).N(len(ops))
	for _, f := range ops {
		f(c)
	}
	return c
}

func genC03(r *rand.Rand, t *Trace, thorough bool) {
	n := 200
	if thorough {
		n = 4000
	}
	for it := 0; it < n; it++ {
		c := runBM25History(r, 6+r.Intn(40), it%3 == 2, t) // every third history also re-adds removed ids
		t.Emit(c)
	}
}

func sortedKeys(m map[uint32]bool) []uint32 {
	out := make([]uint32, 0, len(m))
	for k, v := range m {
		if v {
			out = append(out, k)
		}
	}
	sort.Slice(out, func(i, j int) bool { return out[i] < out[j] })
	return out
}
