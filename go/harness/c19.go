package main

import (
	"math"
	"math/rand"
	"sort"

	comet "github.com/wizenheimer/comet"
)

func init() { generators["C19"] = genC19 }

var scorePool32 = []float32{0, 1, 1, 2, 2.5, -1, -3.5, 0.1, 0.2, 0.3, 1e-6, 1e6, 100, 100.00001, -0.0}

func rndScore32(r *rand.Rand, special bool) float32 {
	if special {
		switch r.Intn(12) {
		case 0:
			return float32(math.Inf(1))
		case 1:
			return float32(math.Inf(-1))
		case 2:
			return float32(math.NaN())
		}
	}
	switch r.Intn(4) {
	case 0:
		return scorePool32[r.Intn(len(scorePool32))]
	case 1:
		return float32(r.Intn(7))
	default:
		return rndF32(r)
	}
}

func rndScore64(r *rand.Rand) float64 {
	switch r.Intn(4) {
	case 0:
		return float64(scorePool32[r.Intn(len(scorePool32))])
	case 1:
		return float64(r.Intn(5))
	default:
		return r.NormFloat64() * math.Pow(10, float64(r.Intn(7)-3))
	}
}

var fkinds = []comet.FusionKind{comet.WeightedSumFusion, comet.ReciprocalRankFusion, comet.MaxFusion, comet.MinFusion}

var kBoundary = func(n int) []int { return []int{-5, -1, 0, 1, 2, n - 1, n, n + 1, n + 7, 1 << 40} }

func genC19(r *rand.Rand, t *Trace, thorough bool) {
	mult := 1
	if thorough {
		mult = 20
	}
	// ---- LimitResults (1901) ----
	for it := 0; it < 60*mult; it++ {
		n := r.Intn(12)
		if it%10 == 0 {
			n = r.Intn(300)
		}
		res := make([]comet.TextResult, n)
		if r.Intn(3) == 0 {
			// a list with spare capacity (a prefix of a longer array, as an earlier cut or an append
			// leaves it): what lies beyond its length is not part of the list
			back := make([]comet.TextResult, n+1+r.Intn(6))
			for i := range back {
				back[i] = comet.TextResult{Id: uint32(900 + i), Score: 99}
			}
			res = back[:n]
			t.Stat("limit.list_with_spare_capacity")
		}
		ids := make([]uint32, n)
		for i := range res {
			ids[i] = uint32(r.Intn(50))
			res[i] = comet.TextResult{Id: ids[i], Score: rndScore32(r, false)}
		}
		ks := kBoundary(n)
		ks = append(ks, n+2, n+3, cap(res), cap(res)+1)
		k := ks[r.Intn(len(ks))]
		if r.Intn(3) == 0 {
			k = r.Intn(n+3) - 1
		}
		out := comet.LimitResults(res, k)
		outIDs := make([]uint32, len(out))
		for i := range out {
			outIDs[i] = out[i].Id
		}
		st := "limit.k_in_range"
		if k <= 0 {
			st = "limit.k_nonpos"
		} else if k > n {
			st = "limit.k_over"
		}
		t.Emit(NewCase(1901).I(int64(k)).U32s(ids).U32s(outIDs), st)
	}
	// ---- Autocut (1902) ----
	for it := 0; it < 150*mult; it++ {
		n := r.Intn(9)
		switch it % 7 {
		case 0:
			n = 2
		case 1:
			n = 3
		case 2:
			n = 10 + r.Intn(290)
		}
		ys := make([]float32, n)
		mode := r.Intn(5)
		base := rndScore32(r, false)
		for i := range ys {
			switch mode {
			case 0: // equal values
				ys[i] = base
			case 1: // ascending with gaps
				if i == 0 {
					ys[i] = base
				} else {
					step := float32(r.Intn(3))
					if r.Intn(5) == 0 {
						step = float32(10 + r.Intn(100))
					}
					ys[i] = ys[i-1] + step*0.1
				}
			case 2: // arbitrary with specials
				ys[i] = rndScore32(r, true)
			default:
				ys[i] = rndScore32(r, it%3 == 0)
			}
		}
		cutoffs := []int{-1, 0, 1, 2, 3, 5, -2, 100}
		c := cutoffs[r.Intn(len(cutoffs))]
		idx := -1
		pan := catchPanic(func() { idx = comet.Autocut(ys, c) })
		if pan {
			idx = -1
			t.Stat("autocut.panic")
		}
		st := "autocut.n_ge3"
		if n <= 1 {
			st = "autocut.n_le1"
		} else if n == 2 {
			st = "autocut.n_eq2"
		}
		if idx >= 0 && idx < n {
			t.Stat("autocut.cut_inside")
		}
		t.Emit(NewCase(1902).Vec(ys).N(c).N(idx), st)
	}
	// ---- AutocutResults (1903) ----
	for it := 0; it < 60*mult; it++ {
		n := r.Intn(8)
		if it%5 == 0 {
			n = 2
		}
		res := make([]comet.TextResult, n)
		if r.Intn(3) == 0 {
			back := make([]comet.TextResult, n+1+r.Intn(4))
			for i := range back {
				back[i] = comet.TextResult{Id: uint32(900 + i), Score: -1000}
			}
			res = back[:n]
		}
		c := NewCase(1903).N(n)
		sc := float32(10)
		for i := range res {
			sc -= float32(r.Intn(4)) * 0.5
			if r.Intn(6) == 0 {
				sc -= 20
			}
			s := sc
			if it%4 == 0 {
				s = rndScore32(r, true)
			}
			res[i] = comet.TextResult{Id: uint32(100 + i), Score: s}
			c.U(uint64(res[i].Id)).F32(s)
		}
		cut := []int{-1, 0, 1, 2, 3}[r.Intn(5)]
		var out []comet.TextResult
		pan := catchPanic(func() { out = comet.AutocutResults(res, cut) })
		ids := make([]uint32, len(out))
		for i := range out {
			ids[i] = out[i].Id
		}
		if cut == -1 {
			t.Stat("autocutres.disabled")
		}
		t.Emit(c.N(cut).B(pan).U32s(ids))
	}
	// ---- aggregation (1904 vector, 1905 text) ----
	for it := 0; it < 120*mult; it++ {
		n := r.Intn(10)
		if it%9 == 0 {
			n = 50 + r.Intn(250)
		}
		idRange := 1 + r.Intn(6)
		if n > 20 {
			idRange = 5 + r.Intn(60)
		}
		kinds := []comet.ScoreAggregationKind{comet.SumAggregation, comet.MaxAggregation, comet.MeanAggregation}
		kz := r.Intn(3)
		special := it%4 == 0
		ids := make([]uint32, n)
		scs := make([]float32, n)
		for i := 0; i < n; i++ {
			ids[i] = uint32(1 + r.Intn(idRange))
			scs[i] = rndScore32(r, special)
		}
		if it%4 == 2 {
			// every id once (the single-query shape): nothing to combine, but still to be put in order
			perm := r.Perm(n)
			for i := 0; i < n; i++ {
				ids[i] = uint32(1 + perm[i])
			}
			t.Stat("agg.all_ids_distinct")
		}
		if it%3 == 1 && n >= 2 {
			// near ties: scores one or a few units in the last place apart (or 1e-7 apart near zero) are NOT
			// ties -- the better one comes first whatever the ids are
			base := []float32{0.5, 1, 3e-7, 100, 0.1}[r.Intn(5)]
			for i := 0; i < n; i++ {
				scs[i] = math.Float32frombits(math.Float32bits(base) + uint32(r.Intn(4)))
				if base < 1e-6 {
					scs[i] = base + float32(r.Intn(4))*1e-7
				}
			}
			t.Stat("agg.near_ties")
		}
		dup := false
		seen := map[uint32]bool{}
		for _, id := range ids {
			if seen[id] {
				dup = true
			}
			seen[id] = true
		}
		if dup {
			t.Stat("agg.has_duplicate_ids")
		}
		if special {
			t.Stat("agg.with_inf_nan")
		}
		if it%2 == 0 {
			in := make([]comet.VectorResult, n)
			for i := range in {
				in[i] = comet.VectorResult{Node: *comet.NewVectorNodeWithID(ids[i], []float32{1}), Score: scs[i]}
			}
			agg, _ := comet.NewVectorAggregation(kinds[kz])
			keep := append([]comet.VectorResult(nil), in...)
			out := agg.Aggregate(in)
			mut := false
			for i := range keep {
				if keep[i].Node.ID() != in[i].Node.ID() || bits32(keep[i].Score) != bits32(in[i].Score) {
					mut = true
				}
			}
			c := NewCase(1904).N(kz).N(n)
			for i := range keep {
				c.U(uint64(ids[i])).F32(scs[i])
			}
			c.N(len(out))
			for _, o := range out {
				c.U(uint64(o.Node.ID())).F32(o.Score)
			}
			if n == 0 {
				mut = false
			}
			t.Emit(c.B(mut), "agg.vector."+string(kinds[kz]))
		} else {
			in := make([]comet.TextResult, n)
			for i := range in {
				in[i] = comet.TextResult{Id: ids[i], Score: scs[i]}
			}
			agg, _ := comet.NewTextAggregation(kinds[kz])
			keep := append([]comet.TextResult(nil), in...)
			out := agg.Aggregate(in)
			mut := false
			for i := range keep {
				if keep[i].Id != in[i].Id || bits32(keep[i].Score) != bits32(in[i].Score) {
					mut = true
				}
			}
			c := NewCase(1905).N(kz).N(n)
			for i := range keep {
				c.U(uint64(ids[i])).F32(scs[i])
			}
			c.N(len(out))
			for _, o := range out {
				c.U(uint64(o.Id)).F32(o.Score)
			}
			if n == 0 {
				mut = false
			}
			t.Emit(c.B(mut), "agg.text."+string(kinds[kz]))
		}
	}
	// ---- fusion (1906) ----
	for it := 0; it < 120*mult; it++ {
		kz := r.Intn(4)
		cfg := &comet.FusionConfig{VectorWeight: 1, TextWeight: 1, K: 60}
		if r.Intn(2) == 0 {
			cfg.VectorWeight = float64(r.Intn(5)) * 0.25
			cfg.TextWeight = r.Float64() * 3
			if r.Intn(4) == 0 { // boundary weights: exactly zero, negative, one
				cfg.TextWeight = []float64{0, 0, -1, 1}[r.Intn(4)]
			}
			cfg.K = float64(1 + r.Intn(100))
			if r.Intn(3) == 0 {
				cfg.K = r.Float64()*10 + 0.001
			}
		}
		if kz == 0 && r.Intn(3) == 0 { // weighted sum with a weight of exactly zero (ids must still come through)
			if r.Intn(2) == 0 {
				cfg.TextWeight = 0
			} else {
				cfg.VectorWeight = 0
			}
			if r.Intn(3) == 0 {
				cfg.VectorWeight, cfg.TextWeight = 0, 0 // both: every id of the union with score 0
			}
			t.Stat("fusion.zero_weight")
		}
		nv, nt := r.Intn(8), r.Intn(8)
		if it%11 == 0 {
			nv, nt = 30+r.Intn(100), 30+r.Intn(100)
		}
		shape := r.Intn(4) // 0 arbitrary, 1 disjoint, 2 nested, 3 equal key sets
		v := map[uint32]float64{}
		tx := map[uint32]float64{}
		ties := it%3 == 0
		odd := it%7 == 3 // NaN and infinite scores: every id still comes through, and the inputs stay as they were
		sc := func() float64 {
			if odd && r.Intn(4) == 0 {
				return []float64{math.NaN(), math.Inf(1), math.Inf(-1)}[r.Intn(3)]
			}
			if ties {
				return float64(r.Intn(4))
			}
			return rndScore64(r)
		}
		for i := 0; i < nv; i++ {
			id := uint32(1 + r.Intn(2*nv+1))
			if shape == 1 {
				id = uint32(2 * (1 + r.Intn(2*nv+1)))
			}
			v[id] = sc()
		}
		switch shape {
		case 1:
			for i := 0; i < nt; i++ {
				tx[uint32(2*(1+r.Intn(2*nt+1))+1)] = sc()
			}
		case 2:
			for id := range v {
				if r.Intn(2) == 0 {
					tx[id] = sc()
				}
			}
		case 3:
			for id := range v {
				tx[id] = sc()
			}
		default:
			for i := 0; i < nt; i++ {
				tx[uint32(1+r.Intn(2*nv+3))] = sc()
			}
		}
		fu, err := comet.NewFusion(fkinds[kz], cfg)
		if err != nil {
			panic(err)
		}
		vk, tk := copyMap(v), copyMap(tx)
		out := fu.Combine(v, tx)
		mut := !sameMap(v, vk) || !sameMap(tx, tk)
		c := NewCase(1906).N(kz).F64(cfg.VectorWeight).F64(cfg.TextWeight).F64(cfg.K)
		emitMap(c, vk)
		emitMap(c, tk)
		emitMap(c, out)
		st := []string{"fusion." + string(fkinds[kz]), []string{"fusion.keys_arbitrary", "fusion.keys_disjoint", "fusion.keys_nested", "fusion.keys_equal"}[shape]}
		if ties {
			st = append(st, "fusion.ties")
		}
		if odd {
			st = append(st, "fusion.nan_inf_scores")
		}
		t.Emit(c.B(mut), st...)
	}
	// ---- scoreMapToRanks (1908): the ranking step of reciprocal-rank fusion, ties included ----
	for it := 0; it < 60*mult; it++ {
		n := r.Intn(10)
		if it%10 == 0 {
			n = 40 + r.Intn(60)
		}
		m := map[uint32]float64{}
		for i := 0; i < n; i++ {
			id := uint32(1 + r.Intn(3*n+1))
			switch it % 3 {
			case 0:
				m[id] = float64(r.Intn(3)) // many exact ties
			case 1:
				m[id] = rndScore64(r)
			default:
				m[id] = float64(r.Intn(4)) * 0.5
				if r.Intn(6) == 0 {
					m[id] = math.Inf(1 - 2*r.Intn(2))
				}
				if it%9 == 5 && r.Intn(3) == 0 {
					m[id] = math.NaN()
				}
			}
		}
		asc := r.Intn(2) == 0
		ranks := comet.VerifScoreMapToRanks(copyMap(m), asc)
		c := NewCase(1908).B(asc)
		emitMap(c, m)
		c.N(len(ranks))
		ids := make([]int, 0, len(ranks))
		for id := range ranks {
			ids = append(ids, int(id))
		}
		sort.Ints(ids)
		for _, id := range ids {
			c.U(uint64(id)).I(int64(ranks[uint32(id)]))
		}
		t.Emit(c, "fusion.ranks")
	}
	// ---- mergeResults (1907) ----
	for it := 0; it < 80*mult; it++ {
		n := r.Intn(12)
		if it%9 == 0 {
			n = 100 + r.Intn(200)
		}
		in := make([]comet.HybridSearchResult, n)
		c := NewCase(1907).N(n)
		for i := range in {
			in[i] = comet.HybridSearchResult{ID: uint32(1 + r.Intn(n/2+2)), Score: rndScore64(r)}
			if r.Intn(4) == 0 {
				in[i].Score = float64(r.Intn(3))
			}
			if it%5 == 1 && in[i].ID%3 == 0 {
				// an id all of whose scores are the lowest there is (or none at all): it is still kept, once
				in[i].Score = []float64{math.Inf(-1), math.Inf(-1), math.NaN(), math.Inf(1)}[int(in[i].ID/3)%4]
			}
			c.U(uint64(in[i].ID)).F64(in[i].Score)
		}
		out := comet.VerifMergeResults(in)
		c.N(len(out))
		for _, o := range out {
			c.U(uint64(o.ID)).F64(o.Score)
		}
		t.Emit(c)
	}
}

func copyMap(m map[uint32]float64) map[uint32]float64 {
	o := make(map[uint32]float64, len(m))
	for k, v := range m {
		o[k] = v
	}
	return o
}
func sameMap(a, b map[uint32]float64) bool {
	if len(a) != len(b) {
		return false
	}
	for k, v := range a {
		w, ok := b[k]
		if !ok || bits64(v) != bits64(w) {
			return false
		}
	}
	return true
}
func emitMap(c *Case, m map[uint32]float64) {
	c.N(len(m))
	for k, v := range m { // map order: the model quantifies over it
		c.U(uint64(k)).F64(v)
	}
}
